import Driver.Sexp
import Driver.Main
