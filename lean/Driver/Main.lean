/-
  Driver.Main — the model side of the line protocol (DESIGN §3.6).

  Reads a case file on stdin and prints, for every `op`/`q` line, one answer line in exactly the
  format of the Rust harness (`harness/src/main.rs`), computed by the executable model.
-/
import PLS.Model.Index
import PLS.Model.Cycles
import PLS.Model.Scan
import PLS.Model.Venv
import PLS.Model.Lsp
import PLS.Model.Completion
import PLS.Model.Config
import PLS.Model.Conc
import PLS.Model.Conc10
import PLS.Model.Locks
import PLS.Generated
import PLS.Spec.Pytest
import Driver.Sexp
namespace Driver
open PLS

/-- tokens of `glob::Pattern` for the pattern forms the generators use (no character classes):
    `?` one character, `*` any run of characters (separators included — `require_literal_separator`
    is off), `**/` or a trailing `**` (a whole path component) any run of whole components,
    possibly none. -/
inductive GTok where
  | ch (c : Char) | any | seq | recSeq
  deriving Repr

partial def globTokens : List Char → List GTok
  | '*' :: '*' :: '/' :: rest => .recSeq :: globTokens rest
  | '*' :: '*' :: [] => [.recSeq]
  | '*' :: rest => .seq :: globTokens (rest.dropWhile (· == '*'))
  | '?' :: rest => .any :: globTokens rest
  | c :: rest => .ch c :: globTokens rest
  | [] => []

/-- `Pattern::matches_from`: a (recursive) sequence first tries the empty match, then every longer
    one — the recursive form only at component boundaries -/
partial def gmatch : List GTok → List Char → Bool
  | [], s => s.isEmpty
  | .ch c :: ts, x :: s => c == x && gmatch ts s
  | .ch _ :: _, [] => false
  | .any :: ts, _ :: s => gmatch ts s
  | .any :: _, [] => false
  | .seq :: ts, s => (List.range (s.length + 1)).any (fun k => gmatch ts (s.drop k))
  | .recSeq :: ts, s =>
    (List.range (s.length + 1)).any (fun k =>
      (k == 0 || k == s.length || s[k - 1]? == some '/') && gmatch ts (s.drop k))

def globMatch (pat s : List Char) : Bool := gmatch (globTokens pat) s

/-- the path space of a case has the case directory as origin: the workspace root is `ws`, files
    outside the workspace live under `ext` (written `@EXT/...` in case files) -/
def wsRoot : Path := ["ws"]

def pathOf (s : String) : Path :=
  if s == "." then wsRoot
  else if s.startsWith "@EXT/" then "ext" :: ((s.drop 5).toString.splitOn "/").filter (· != "")
  else wsRoot ++ (s.splitOn "/").filter (· != "")

def showPath (p : Path) : String :=
  match p with
  | ["ws"] => "."
  | "ws" :: rest => "/".intercalate rest
  | "ext" :: rest => "@EXT/" ++ "/".intercalate rest
  | _ => "!" ++ "/".intercalate p

def hexDigit (n : Nat) : Char :=
  if n < 10 then Char.ofNat (48 + n) else Char.ofNat (87 + n)

def hexOf (s : String) : String :=
  let bs := s.toUTF8
  if bs.size == 0 then "-" else
  String.ofList (bs.toList.flatMap (fun b => [hexDigit (b.toNat / 16), hexDigit (b.toNat % 16)]))

def defShort (d : Def) : String :=
  s!"{showPath d.file}:{d.line}:{d.startChar}-{d.endChar}:{d.name}"

def optHex : Option String → String
  | none => "none"
  | some s => hexOf s

def defFull (d : Def) : String :=
  let deps := if d.deps.isEmpty then "-" else ",".intercalate d.deps
  let y := match d.yieldLine with | some l => toString l | none => "-"
  let b (x : Bool) : String := if x then "1" else "0"
  s!"{d.name}|{showPath d.file}|{d.line}|{d.endLine}|{d.startChar}|{d.endChar}|{d.scope.asStr}|{b d.autouse}|{deps}|{y}|{optHex d.returnType}|{optHex d.docstring}|{b d.thirdParty}|{b d.plugin}"

def usageStr (u : Usage) : String :=
  s!"{showPath u.file}:{u.line}:{u.startChar}-{u.endChar}:{u.name}"

def optDef : Option Def → String
  | none => "none"
  | some d => defShort d

def insertStr (x : String) : List String → List String
  | [] => [x]
  | y :: ys => if x < y then x :: y :: ys else y :: insertStr x ys

def sortStrs (l : List String) : List String := l.foldr insertStr []

def listed (l : List String) : String := if l.isEmpty then "[]" else "[" ++ " ".intercalate l ++ "]"
def sorted (l : List String) : String := listed (sortStrs l)

structure CaseSt where
  name : String := "?"
  idx : Nat := 0
  texts : List (String × Option String) := []
  asts : List (String × Option (List Stmt)) := []
  st : Index := {}
  pfx : Path := []
  evicted : List Path := []
  scanOrder : List (String × String × List Path) := []     -- (map D|U, name, files in vector order)
  pfxDirs : Path := []
  rootName : String := "ws"

def CaseSt.text (c : CaseSt) (tid : String) : Option String :=
  match c.texts.find? (·.1 == tid) with
  | some (_, t) => t
  | none => some ""

/-- the version a text denotes for a given path (events carry the path). -/
def CaseSt.version (c : CaseSt) (f : Path) (tid : String) : Option Version :=
  match c.text tid with
  | none => none
  | some t =>
    let body := match c.asts.find? (·.1 == tid) with
      | some (_, b) => b
      | none => none
    some { text := t, parsed := body.map (analyzeModule Generated.stdlibModules f t.toList) }

def addDirs (dirs : List Path) (f : Path) : List Path :=
  (List.range f.length).foldl (fun acc k => if acc.contains (f.take k) then acc else acc ++ [f.take k]) dirs

def dumpStr (st : Index) : String :=
  let defs := st.defs.map defShort
  let fdefs := st.fileDefs.map (fun p => s!"{showPath p.1}={",".intercalate (sortStrs p.2)}")
  let us := st.allUsages.map usageStr
  let ubf := st.ubf.map usageStr
  let fc := sortStrs (st.cache.map (fun p => showPath p.1))
  let emptyU := (st.usages.filter (·.2.isEmpty)).length
  s!"defs={sorted defs} fdefs={sorted fdefs} usages={sorted us} ubf={sorted ubf} cache=[{" ".intercalate fc}] empty=0/{emptyU}/0"

/-! ### spec oracle -/

def allFiles (st : Index) : List Path := ((st.cache.map (·.1)) ++ (st.disk.map (·.1))).eraseDups

/-- import edges of the workspace as the editor sees it (current contents). -/
def specEdges (st : Index) : List Spec.Edge :=
  (allFiles st).flatMap (fun f =>
    match (st.content f).bind Version.effRec with
    | some fr =>
      fr.imports.filterMap (fun imp =>
        (st.resolveModule imp.modulePath f).map (fun t =>
          { src := f, dst := t, names := if imp.isStar then none else some imp.orig : Spec.Edge })) ++
      fr.plugins.filterMap (fun m =>
        (st.resolveModule m f).map (fun t => { src := f, dst := t, names := none : Spec.Edge }))
    | _ => [])

def specConfs (st : Index) : List Path := (allFiles st).filter isConftestName

def specAcceptable (st : Index) (ix : List Def) (f : Path) (n : String) : List Def :=
  Spec.acceptable ix (specEdges st) (specConfs st) f n

/-- the fixture whose parameter list a recorded usage belongs to (if any): a definition of the
    same name in the same file whose `def` statement spans the usage and which requests the name. -/
def ownerOf (st : Index) (u : Usage) : Option Def :=
  st.defs.find? (fun d => d.file == u.file && d.name == u.name && d.line ≤ u.line &&
    u.line ≤ d.endLine && d.deps.contains u.name)

/-- the index a usage must be resolved over according to the property: without its owner. -/
def usageIx (st : Index) (u : Usage) : List Def :=
  match ownerOf st u with
  | some c => st.defs.filter (· != c)
  | none => st.defs

/-- acceptable targets for one recorded usage (C01 + the C02 outward rule). -/
def specForUsage (st : Index) (u : Usage) : List Def :=
  specAcceptable st (usageIx st u) u.file u.name

/-- does the import graph of the workspace contain a cycle (E12: a result truncated by the
    `visited` cut is memoised)? -/
def hasImportCycleE (es : List Spec.Edge) : Bool :=
  let succ (n : Path) : List Path := (es.filter (·.src == n)).map (·.dst)
  let reach (fuel : Nat) (start : Path) : List Path :=
    (List.range fuel).foldl (fun acc _ => (acc ++ acc.flatMap succ).eraseDups) (succ start)
  (es.map (·.src)).eraseDups.any (fun n => (reach (es.length + 1) n).contains n)

def hasImportCycle (st : Index) : Bool := hasImportCycleE (specEdges st)

/-- which hypotheses of the partial theorems fail for resolving `n` from `f` over `ix`
    (names match `known_findings.json`):
    * `imp-first`  — some ancestor conftest imports the name while the first registered definition
                     of that name is not one the conftest provides (¬H_imp, E1);
    * `alias`      — the name is imported under an alias somewhere (`import n as m`). -/
def specFlagsE (es : List Spec.Edge) (st : Index) (ix : List Def) (f : Path) (n : String) : List String :=
  let impFirst := (ancestorsOfDir (dirOf f)).any (fun dir =>
    let c := conftestOf dir
    (st.existsOnDisk c || ahas st.cache c) && (st.isImportedIn n c).1 &&
      (match (defsOf ix n).head? with
       | some d => !(Spec.provides es (es.length + 1) c d)
       | none => false))
  -- order sensitivity of the same mechanism: under SOME registration order the first definition
  -- of the name would be one the importing conftest does not provide (what separate processes /
  -- separate scans can differ in)
  let impOrder := (ancestorsOfDir (dirOf f)).any (fun dir =>
    let c := conftestOf dir
    (st.existsOnDisk c || ahas st.cache c) && (st.isImportedIn n c).1 &&
      (defsOf ix n).any (fun d => !(Spec.provides es (es.length + 1) c d)))
  let alias := (allFiles st).any (fun g =>
    match st.content g with
    | some { parsed := some fr, .. } =>
      fr.imports.any (fun imp => !imp.isStar && imp.orig.contains n && imp.names != imp.orig)
    | _ => false)
  let badConf := (ancestorsOfDir (dirOf f)).any (fun dir =>
    match st.content (conftestOf dir) with
    | some { parsed := none, .. } => true
    | _ => false)
  let multiThird := ((defsOf ix n).filter (·.thirdParty)).length ≥ 2
  let multiPlugin := ((defsOf ix n).filter (fun d => d.plugin && !d.thirdParty)).length ≥ 2
  (if impFirst then ["imp-first"] else []) ++ (if impOrder then ["imp-order-sensitive"] else []) ++
    (if alias then ["alias"] else []) ++
    (if multiThird then ["multi-third"] else []) ++ (if multiPlugin then ["multi-plugin"] else []) ++
    (if badConf then ["unparsable-conftest"] else []) ++
    (if hasImportCycleE es then ["import-cycle"] else [])

/-- (the edges of the import graph are computed once per query and shared) -/
def specFlags (st : Index) (ix : List Def) (f : Path) (n : String) : List String :=
  specFlagsE (specEdges st) st ix f n

def flagStr (fl : List String) : String := if fl.isEmpty then "" else " FLAGS=" ++ ",".intercalate fl

def specGoto (st : Index) (f : Path) (line0 col : Nat) : String :=
  match st.lineText f line0 with
  | none => "none"
  | some lc =>
    match wordAt lc col with
    | none => "none"
    | some w =>
      match usageAt (st.usagesOf f) (line0 + 1) (String.ofList w) col with
      | none => "none"
      | some u =>
        let ml := match ownerOf st u with
          | some d => if d.line != u.line then ["multiline-self"] else []
          | none => []
        sorted ((specForUsage st u).map defShort) ++ flagStr (specFlags st (usageIx st u) f u.name ++ ml)

def cycleFlags (st : Index) : List String :=
  let names := namesOf st.defs
  let stale := match st.cycleCache with
    | some (ver, _) => ver == st.version && st.cycleEpoch != st.epoch
    | none => false
  let multi := names.any (fun n => (defsOf st.defs n).length ≥ 2)
  let alts := ((st.cyclesAlternatives).1.map (fun cy => sorted (cy.map (fun c => ">".intercalate c.path)))).eraseDups
  -- a name-level edge that is not an edge of the resolved-definition graph
  let offEdge := st.defs.any (fun d => d.deps.any (fun n =>
    match (defsOf st.defs n).head? with
    | some hd =>
      let ix := if n == d.name then st.defs.filter (· != d) else st.defs
      !(specAcceptable st ix d.file n).contains hd
    | none => false))
  (if multi then ["multi-def-name"] else []) ++ (if alts.length > 1 then ["root-order"] else []) ++
    (if offEdge then ["name-edge-unresolved"] else []) ++
    (if stale then ["stale-version-key"] else [])

/-- the dependency graph of the PROPERTY (C16): nodes are definitions; `D` depends on what the
    shadowing order selects for each requested name from `D`'s file (its own name resolves with
    `D` set aside).  Printed as `D|dep=[acceptable…]` so the checker can close chains. -/
def specDepGraph (st : Index) : String :=
  ";".intercalate (st.defs.flatMap (fun d =>
    d.deps.map (fun n =>
      let ix := if n == d.name then st.defs.filter (· != d) else st.defs
      s!"{defShort d}|{d.scope.asStr}|{n}={sorted ((specAcceptable st ix d.file n).map (fun e => defShort e ++ "|" ++ e.scope.asStr))}")))

def cycleStr (c : Cycle) : String := s!"{">".intercalate c.path}@{defShort c.fixture}"

/-- the fixture-name sets of every cycle of every alternative (what a report is "about", whatever
    its rotation and anchor): `a+b ; c+d+e` -/
def nodeSets (alts : List (List Cycle)) : String :=
  let sets := (alts.flatMap (fun cy => cy.map (fun c => "+".intercalate (sortStrs c.path.eraseDups)))).eraseDups
  " ; ".intercalate (sortStrs sets)

def locStr (l : Loc) : String :=
  if l.line0 == l.endLine0 then s!"{showPath l.file}:{l.line0}:{l.startChar}-{l.endChar}"
  else s!"{showPath l.file}:{l.line0}:{l.startChar}-{l.endLine0}:{l.endChar}"

def optLoc : Option Loc → String
  | none => "none"
  | some l => locStr l

def asciiLowerStr (s : String) : String := String.ofList (s.toList.map Char.toLower)

def strContains (s pat : String) : Bool := Index.containsSub pat.toList s.toList

def diagStr (d : Index.Diag) : String := s!"{d.code}|{d.loc.line0}:{d.loc.startChar}-{d.loc.endChar}|{hexOf d.message}"

def ctxStr : Option Ctx → String
  | none => "none"
  | some .usefixtures => "usefixtures"
  | some .parametrize => "parametrize"
  | some (.signature fn l fx ps sc) =>
    s!"sig:{fn}:{l}:{if fx then 1 else 0}:{if ps.isEmpty then "-" else ",".intercalate ps}:{match sc with | some s => s.asStr | none => "-"}"
  | some (.body fn l fx ps sc) =>
    s!"body:{fn}:{l}:{if fx then 1 else 0}:{if ps.isEmpty then "-" else ",".intercalate ps}:{match sc with | some s => s.asStr | none => "-"}"

/-- handler-level queries (answered by the real server over stdio on the implementation side) -/
def runH (c : CaseSt) (t : List String) : Option (String × CaseSt) :=
  let st := c.st
  let upd (r : String × Index) : Option (String × CaseSt) := some (r.1, { c with st := r.2 })
  match t with
  | ["h_definition", p, l, ch] =>
    let (r, st) := st.hDefinition (pathOf p) l.toNat! ch.toNat!
    upd (optLoc r, st)
  | ["h_impl", p, l, ch] =>
    let (r, st) := st.hImplementation (pathOf p) l.toNat! ch.toNat!
    upd (optLoc r, st)
  | ["h_references", p, l, ch] =>
    let (r, st) := st.hReferences (pathOf p) l.toNat! ch.toNat!
    upd (match r with | none => "none" | some ls => sorted (ls.map locStr), st)
  | ["h_symbols", p] =>
    let syms := st.hDocumentSymbols (pathOf p)
    some (if syms.isEmpty then "none" else
      sorted (syms.map (fun s => s!"{s.range.line0}|{s.name}|{s.range.line0}:{s.range.startChar}-{s.range.endLine0}:{s.range.endChar}|{s.selection.line0}:{s.selection.startChar}-{s.selection.endChar}|{optHex s.detail}")), c)
  | ["h_lens", p] =>
    let (r, st) := st.hCodeLens (pathOf p)
    upd (if r.isEmpty then "none" else sorted (r.map (fun x => s!"{x.1}:{x.2.1}:{x.2.2}")), st)
  | ["h_hover", p, l, ch] =>
    let (r, st) := st.goto (pathOf p) l.toNat! ch.toNat!
    upd (match r with
      | none => "none"
      | some d => hexOf (Index.fixtureDocumentation d (showPath d.file)), st)
  | ["h_prepare", p, l, ch] =>
    let (r, st) := st.hPrepareCallHierarchy (pathOf p) l.toNat! ch.toNat!
    upd (match r with
      | none => "none"
      | some i => s!"{i.name}|{locStr i.range}|{locStr i.selection}|{hexOf i.detail}", st)
  | ["h_incoming", p, n] =>
    let (r, st) := st.hIncomingCalls (pathOf p) n
    upd (match r with
      | none => "none"
      | some l => sorted (l.map (fun x => s!"{x.1}|{locStr x.2}")), st)
  | ["h_outgoing", p, n] =>
    let (r, st) := st.hOutgoingCalls (pathOf p) n
    upd (match r with
      | none => "none"
      | some l => listed (l.map (fun x => s!"{x.1.name}|{locStr x.1.range}|{locStr x.1.selection}|{hexOf x.1.detail}|{locStr x.2}")), st)
  | ["h_hints", p, l0, l1] =>
    let (r, st) := st.hInlayHints (pathOf p) (l0.toNat! + 1) (l1.toNat! + 1)
    upd (match r with
      | none => "none"
      | some l => listed (l.map (fun x => s!"{x.1}:{x.2.1}:{hexOf x.2.2}")), st)
  | "h_completion" :: p :: l :: _ :: rest =>
    let (r, st) := st.hCompletion asciiLowerStr (pathOf p) l.toNat! (rest == ["comma"])
    upd (match r with
      | none => "none"
      | some items => listed (items.map (fun i =>
          s!"{i.label}|{i.sortText}|{hexOf i.detail}|{hexOf i.insertText}|{if i.kindText then 1 else 6}|{match i.edit with | some e => s!"{e.1}:{e.2.1}:{hexOf e.2.2}" | none => "-"}|{hexOf (Index.fixtureDocumentation i.origin (showPath i.origin.file))}")), st)
  | ["h_action", p, l, ch] =>
    some (match st.hCodeAction (pathOf p) l.toNat! ch.toNat! with
      | none => "none"
      | some a => s!"{hexOf a.1}|{a.2.1}:{a.2.2.1}|{hexOf a.2.2.2}", c)
  | ["ctx", p, l, _] => some (ctxStr (st.completionContext asciiLowerStr (pathOf p) l.toNat!), c)
  | ["insert", p, l] =>
    some (match st.paramInsertion (pathOf p) l.toNat! with
      | none => "none"
      | some i => s!"{i.1}:{i.2.1}:{if i.2.2 then 1 else 0}", c)
  | ["containing", p, l] => some ((st.containingFunction (pathOf p) l.toNat!).getD "none", c)
  | ["h_wsym", q] =>
    let query := asciiLowerStr ((unhexStr? q).getD "")
    let r := st.hWorkspaceSymbols query asciiLowerStr strContains
    some (if r.isEmpty then "none" else
      sorted (r.map (fun x => s!"{x.1}|{(x.2.file.getLast?).getD "?"}|{locStr x.2}")), c)
  | "h_diag" :: p :: rest =>
    -- the argument is what `Config::load` found: `-` (no usable table) or the table's
    -- `disabled_diagnostics` array as written (hex per entry, validated by `Config.fromRaw`)
    let loaded : Loaded := match rest with
      | [d] => if d == "-" then .absent else
          .table { disabledDiagnostics := (d.splitOn ",").map (fun h => if h.startsWith "x" then (unhexStr? (h.drop 1).toString).getD "" else h) }
      | _ => .absent
    let cfg := Config.load (fun _ => true) loaded
    let (alts, st) := st.cyclesAlternatives
    -- the scope check runs (and touches the import memo) only when its code is enabled
    let (tbl, st) := if cfg.isDisabled "scope-mismatch" then ([], st) else st.scopeTableSt (pathOf p)
    let outs := (alts.map (fun cy => sorted ((st.publish cfg (pathOf p) cy (Index.tableRes tbl)).map diagStr))).eraseDups
    upd (if outs.length == 1 then outs.head! else "ANYOF " ++ " || ".intercalate outs, st)
  | _ => none

/-! ### `q conc`: replay of one interleaving on the op-level model (C09 / C10) -/

def splitBar (t : List String) : List (List String) :=
  let rec go : List String → List String → List (List String)
    | [], cur => [cur.reverse]
    | x :: xs, cur => if x == "|" then cur.reverse :: go xs [] else go xs (x :: cur)
  go t []

def concInstr (tok : String) : Option Conc.XInstr :=
  match tok.splitOn "." with
  | ["r", k] => some (.base (.retain k))
  | ["c", k] => some (.base (.condRemove k))
  | ["p", k, t] => some (.base (.push k t.toNat!))
  | ["x", k] => some (.remove k)
  | _ => none

def concEnt (tok : String) : Option Conc.Ent :=
  match tok.splitOn "." with
  | [f, t] => some ⟨f.toNat!, t.toNat!⟩
  | _ => none

/-- `conc <sched> | <key:f.t+f.t …> | <file> <instr…> | <file> <instr…> …` -/
def runConc (t : List String) : String :=
  match splitBar t with
  | sched :: init :: threads =>
    let sched := (sched.flatMap (fun x => x.splitOn ",")).filterMap (fun x => x.toNat?)
    let initL : List (String × List Conc.Ent) := init.filterMap (fun e =>
      match e.splitOn ":" with
      | [k, v] => some (k, (v.splitOn "+").filterMap concEnt)
      | _ => none)
    let m0 : Conc.Map := fun k => (initL.find? (·.1 == k)).map (·.2)
    let ts : List Conc.XThread := threads.filterMap (fun th =>
      match th with
      | f :: instrs => some { file := f.toNat!, flag := false, prog := instrs.filterMap concInstr }
      | [] => none)
    let keys := (initL.map (·.1) ++ (threads.flatMap (fun th => th.drop 1)).filterMap (fun tok =>
      match tok.splitOn "." with
      | _ :: k :: _ => some k
      | _ => none)).eraseDups
    let fin := Conc.runX { m := m0, ts := ts } sched
    let left := (fin.ts.map (fun t => t.prog.length)).foldl (· + ·) 0
    let shown := (keys.toArray.qsort (· < ·)).toList.filterMap (fun k =>
      match fin.m k with
      | none => none
      | some v => some (k ++ "=[" ++ ",".intercalate (v.map (fun e => s!"{e.file}.{e.tag}")) ++ "]"))
    (if left == 0 then "" else s!"INCOMPLETE({left}) ") ++ ";".intercalate shown
  | _ => "BADCONC"

/-! ### `q conc10`: replay of one interleaving of scan visits / notifications (C10) -/

namespace C10R
open PLS.Conc10

def pcStr : Pc → String
  | .take => "take"
  | .retain todo => "retain(" ++ ",".intercalate todo ++ ")"
  | .cond k f _ => s!"cond({k},{f})"
  | .push news => "push(" ++ ",".intercalate (news.map (·.1)) ++ ")"
  | .ins k _ => s!"ins({k})"
  | .done => "done"

def silent : Pc → Bool
  | .retain [] => true
  | .push [] => true
  | _ => false

/-- the iteration order of the `HashSet` of names is an input: bring `k` to the front -/
def alignRetain (w : Worker) (k : Key) : Worker :=
  match w.pc with
  | .retain todo => if todo.contains k then { w with pc := .retain (k :: todo.erase k) } else w
  | _ => w

def pcMatches (pc : Pc) (op : String) (k : String) : Bool :=
  match pc, op with
  | .take, "t" => true
  | .retain (k' :: _), "r" => k' == k
  | .cond k' _ _, "c" => k' == k
  | .push ((k', _) :: _), "p" => k' == k
  | .ins _ _, "i" => true
  | _, _ => false

def runSilent (fuel : Nat) (y : Sys) (i : Nat) : Sys :=
  match fuel with
  | 0 => y
  | f + 1 => if silent (y.ws i).pc then runSilent f (stepSys y i) i else y

def parseNews (tok : String) : List (Key × Nat) :=
  if tok == "-" then [] else (tok.splitOn ",").filterMap (fun x =>
    match x.splitOn "." with
    | [k, t] => some (k, t.toNat!)
    | _ => none)

def replay (t : List String) : String :=
  match splitBar t with
  | [init, workers, steps] =>
    let dInit : List (String × List Ent) := init.filterMap (fun e =>
      if e.startsWith "@" then none else
      match e.splitOn ":" with
      | [k, v] => some (k, (v.splitOn "+").filterMap (fun x =>
          match x.splitOn "." with
          | [f, tg] => some (⟨f.toNat!, tg.toNat!⟩ : Ent)
          | _ => none))
      | _ => none)
    let fInit : List (Nat × List String) := init.filterMap (fun e =>
      if e.startsWith "@" then
        match (e.drop 1).toString.splitOn ":" with
        | [f, v] => some (f.toNat!, (v.splitOn "+").filter (· != ""))
        | _ => none
      else none)
    let s0 : St := { d := fun k => (dInit.find? (·.1 == k)).map (·.2), fd := fun f => (fInit.find? (·.1 == f)).map (·.2) }
    let wl : List Worker := workers.filterMap (fun w =>
      match w.splitOn "/" with
      | [f, kind, news] =>
        let n := parseNews news
        some (if kind == "E" then editWorker f.toNat! n else scanWorker f.toNat! n)
      | _ => none)
    let ws : Nat → Worker := fun j => wl.getD j idle
    let go := steps.foldl (fun (acc : Sys × Option String × Nat) tok =>
      let (y, err, n) := acc
      match err with
      | some _ => acc
      | none =>
        match tok.splitOn "." with
        | i :: op :: rest =>
          let i := i.toNat!
          let k := rest.headD ""
          let y := runSilent 4 y i
          let y : Sys := if op == "r" then { y with ws := setW y.ws i (alignRetain (y.ws i) k) } else y
          if pcMatches (y.ws i).pc op k then (stepSys y i, none, n + 1)
          else (y, some s!"MISMATCH step {n} worker {i}: implementation does {op}({k}), model is at {pcStr (y.ws i).pc}", n)
        | _ => (y, some s!"BADTOKEN {tok}", n)) (({ s := s0, ws := ws } : Sys), none, 0)
    match go.2.1 with
    | some e => e
    | none =>
      let y := (List.range wl.length).foldl (fun y i => runSilent 4 y i) go.1
      let undone := (List.range wl.length).filter (fun i => match (y.ws i).pc with | .done => false | _ => true)
      let keys := ((dInit.map (·.1)) ++ wl.flatMap (fun w => w.news.map (·.1))).eraseDups
      let files := ((fInit.map (·.1)) ++ wl.map (·.file)).eraseDups
      let dOut := (keys.toArray.qsort (· < ·)).toList.filterMap (fun k =>
        match y.s.d k with
        | none => none
        | some v => some (k ++ "=[" ++ ",".intercalate (v.map (fun e => s!"{e.file}.{e.tag}")) ++ "]"))
      let fOut := (files.toArray.qsort (· < ·)).toList.filterMap (fun f =>
        match y.s.fd f with
        | none => none
        | some v => some (s!"@{f}=[" ++ ",".intercalate (v.toArray.qsort (· < ·)).toList ++ "]"))
      (if undone.isEmpty then "" else s!"UNDONE{undone} ") ++ ";".intercalate (dOut ++ fOut)
  | _ => "BADCONC10"

end C10R

/-! ### `q locks`: the recorded nestings against the discipline of `PLS.Props.C12` -/

def parseCM (tok : String) : Option (Nat × Locks.Mode) :=
  if tok.endsWith "R" then (tok.dropEnd 1).toString.toNat?.map (fun c => (c, Locks.Mode.R))
  else if tok.endsWith "W" then (tok.dropEnd 1).toString.toNat?.map (fun c => (c, Locks.Mode.W))
  else none

/-- `locks <c:r,c:r,…> | <held+held>want> …`  →  `ok n` or the nestings that break the discipline -/
def runLocks (t : List String) : String :=
  match splitBar t with
  | [rk, ns] =>
    let table : List (Nat × Nat) := (rk.flatMap (fun x => x.splitOn ",")).filterMap (fun x =>
      match x.splitOn ":" with
      | [c, r] => some (c.toNat!, r.toNat!)
      | _ => none)
    let rank : Nat → Nat := fun c => ((table.find? (·.1 == c)).map (·.2)).getD 0
    let nestings : List (String × Option Locks.Nesting) := ns.map (fun tok =>
      match tok.splitOn ">" with
      | [h, w] =>
        (tok, match parseCM w with
          | some want => some { held := (h.splitOn "+").filterMap parseCM, want := want }
          | none => none)
      | _ => (tok, none))
    let bad := nestings.filter (fun p => match p.2 with
      | some n => !Locks.nestingOK rank n
      | none => true)
    if bad.isEmpty then s!"ok {nestings.length}" else "BAD " ++ " ".intercalate (bad.map (·.1))
  | _ => "BADLOCKS"

def runQ (c : CaseSt) (t : List String) : String × CaseSt :=
  match runH c t with
  | some r => r
  | none =>
  let st := c.st
  let upd (r : String × Index) : String × CaseSt := (r.1, { c with st := r.2 })
  match t with
  | "conc" :: rest => (runConc rest, c)
  | "conc10" :: rest => (C10R.replay rest, c)
  | "locks" :: rest => (runLocks rest, c)
  | ["goto", p, l, ch] =>
    let (r, st) := st.goto (pathOf p) l.toNat! ch.toNat!
    upd (optDef r, st)
  | ["fod", p, l, ch] =>
    let (r, st) := st.gotoOrDef (pathOf p) l.toNat! ch.toNat!
    upd (optDef r, st)
  | ["fat", p, l, ch] => ((st.fixtureAt (pathOf p) l.toNat! ch.toNat!).getD "none", c)
  | ["resolve", p, n] =>
    let (r, st) := st.resolveSt (pathOf p) n
    upd (optDef r, st)
  | ["rff", p, n] => (optDef (resolveForFile st.defs (pathOf p) n), c)
  | ["defat", p, l, n] => (optDef (st.definitionAtLine (pathOf p) l.toNat! n), c)
  | ["refs", p, l, n] =>
    match st.definitionAtLine (pathOf p) l.toNat! n with
    | none => ("nodef", c)
    | some d =>
      let (r, st) := st.refsForSt d
      upd (sorted (r.map usageStr), st)
  | ["refsname", n] => (sorted ((refsByName st.allUsages n).map usageStr), c)
  | ["avail", p] =>
    let (r, st) := st.availableSt (pathOf p)
    upd (listed (r.map defShort), st)
  | ["imported", p] =>
    let (names, _, st) := Index.imported st.fuelFor st (pathOf p) []
    upd (sorted names, st)
  | ["isimported", p, n] =>
    let (b, st) := st.isImportedIn n (pathOf p)
    upd (if b then "1" else "0", st)
  | ["mismatch", p] =>
    let f := pathOf p
    let (tbl, st) := st.scopeTableSt f
    let ms := mismatchesIn st.defs (Index.tableRes tbl) ((alookup st.fileDefs f).getD []) f
    upd (sorted (ms.map (fun m => s!"{defShort m.1}=>{defShort m.2}")), st)
  | ["undeclared", p] =>
    let us := (alookup st.undeclared (pathOf p)).getD []
    (listed (us.map (fun u => s!"{u.line}:{u.startChar}-{u.endChar}:{u.name}@{u.functionName}:{u.functionLine}")), c)
  | ["isavail", p, n] => (if st.isAvail (pathOf p) n then "1" else "0", c)
  | ["unused"] =>
    let (r, st) := st.unusedSt
    upd (listed (r.map (fun x => s!"{showPath x.1}:{x.2}")), st)
  | ["word", tid, l, ch] =>
    match c.text tid with
    | none => ("noline", c)
    | some t =>
      match (linesOf t.toList)[l.toNat!]? with
      | none => ("noline", c)
      | some lc => (match wordAt lc ch.toNat! with
          | none => "none"
          | some w => hexOf (String.ofList w), c)
  | ["annot", tid, l, e] =>
    match c.text tid with
    | none => ("0", c)
    | some t =>
      (if parameterHasAnnotation (linesOf t.toList) l.toNat! e.toNat! then "1" else "0", c)
  | ["docfmt", tid] =>
    match c.text tid with
    | none => ("-", c)
    | some t =>
      (hexOf (String.ofList (formatDocstring t.toList)), c)
  | ["fnpos", tid, l, n] =>
    match c.text tid with
    | none => ("0-0", c)
    | some t =>
      let r := findFunctionNamePosition (linesOf t.toList) l.toNat! ((unhexStr? n).getD "").toList
      (s!"{r.1}-{r.2}", c)
  | ["defs", p] =>
    (sorted ((st.defs.filter (·.file == pathOf p)).map defFull), c)
  | ["usages", p] => (listed ((st.usagesOf (pathOf p)).map usageStr), c)
  | ["cycles"] =>
    -- the implementation's DFS starts from hash-ordered roots: print every answer some root
    -- order can produce (small graphs) so the comparison is membership
    -- (more than six names: the enumeration of root orders is incomplete - `ANYOF~`: the comparison
    -- then accepts an answer that reports the same cycles as one alternative, in another rotation)
    let partial_ := decide ((namesOf st.defs).length > 6)
    let (alts, st) := st.cyclesAlternatives
    upd ((if partial_ then "ANYOF~ " else "ANYOF ") ++
      " || ".intercalate ((alts.map (fun cy => sorted (cy.map cycleStr))).eraseDups) ++
      (if partial_ then " ## " ++ nodeSets alts else ""), st)
  | ["cyclesin", p] =>
    let partial_ := decide ((namesOf st.defs).length > 6)
    let (alts, st) := st.cyclesAlternatives
    let f := pathOf p
    upd ((if partial_ then "ANYOF~ " else "ANYOF ") ++ " || ".intercalate
      ((alts.map (fun cy => sorted ((cy.filter (·.fixture.file == f)).map cycleStr))).eraseDups) ++
      (if partial_ then " ## " ++ nodeSets alts else ""), st)
  | ["dump"] => (dumpStr st, c)
  | q :: _ => (s!"BADQ {q}", c)
  | [] => ("BADQ", c)

/-- spec-oracle line for a query (none when the query has no spec of its own). -/
def runSpec (c : CaseSt) (t : List String) : Option String :=
  let st := c.st
  match t with
  | ["goto", p, l, ch] => some (specGoto st (pathOf p) l.toNat! ch.toNat!)
  | ["resolve", p, n] =>
    let es := specEdges st
    some (sorted ((Spec.acceptable st.defs es (specConfs st) (pathOf p) n).map defShort) ++
      flagStr (specFlagsE es st st.defs (pathOf p) n))
  | ["avail", p] =>
    let f := pathOf p
    let names := sortStrs (namesOf st.defs)
    let stale := match alookup st.availCache f, alookup st.availEpoch f with
      | some (ver, _), some ep => ver == st.version && ep != st.epoch
      | _, _ => false
    let es := specEdges st
    let confs := specConfs st
    some ((if stale then "CACHE FLAGS=stale-version-key;" else "") ++ ";".intercalate (names.filterMap (fun n =>
      let acc := Spec.acceptable st.defs es confs f n
      let dupSame := ((defsOf st.defs n).filter (·.file == f)).length ≥ 2
      let uncached := (ancestorsOfDir (dirOf f)).any (fun dir =>
        let c := conftestOf dir
        st.existsOnDisk c && !ahas st.cache c)
      let impAny := (ancestorsOfDir (dirOf f)).any (fun dir =>
        let c := conftestOf dir
        (st.existsOnDisk c || ahas st.cache c) && (st.isImportedIn n c).1)
      -- a definition no cascade class of `resolve_fixture_for_file` accepts makes its fallback reachable
      let stray := (defsOf st.defs n).any (fun d => d.file != f && !d.thirdParty && !d.plugin &&
        !(isConftestName d.file && pathStartsWith f (dirOf d.file)))
      let fl := specFlagsE es st st.defs f n ++ (if dupSame then ["dup-samefile"] else []) ++
        (if uncached then ["uncached-conftest"] else []) ++ (if impAny then ["imported-name"] else []) ++
        (if stray then ["stray-def"] else [])
      if acc.isEmpty && fl.isEmpty then none else some s!"{n}={sorted (acc.map defShort)}{flagStr fl}")))
  | ["ctx", p, l, _] =>
    -- which path produced the context: the AST path, or the text fallback on a VALID document
    (match st.content (pathOf p) with
     | some { parsed := some fr, text := t, .. } =>
       let target := l.toNat! + 1
       let ast := (decoratorCtx target fr.body).orElse (fun _ => functionCtx (linesOf t.toList) target fr.body)
       if ast.isNone && (ctxFromText asciiLowerStr t.toList target).isSome then some "- FLAGS=text-fallback-on-valid"
       else some "-"
     | _ => some "-")
  | ["imported", p] =>
    -- the property's reading: the fixture names `p` provides through at least one import edge
    -- (star import / pytest_plugins: everything the target provides; explicit: the listed names)
    let f := pathOf p
    let es := specEdges st
    let fuel := es.length + 1
    let names := ((st.defs.filter (fun d => es.any (fun e =>
      e.src == f && e.exports d.name && Spec.provides es fuel e.dst d))).map (·.name)).eraseDups
    -- explicit imports are judged by name only in the implementation (E1): the comparison with the
    -- closure is meaningful where every edge reachable from `p` is a star import / plugin edge
    let reach := (List.range fuel).foldl (fun (acc : List Path) _ =>
      (acc ++ (es.filter (fun e => acc.contains e.src)).map (·.dst)).eraseDups) [f]
    let explicit := es.any (fun e => reach.contains e.src && e.names.isSome)
    some (sorted names ++ flagStr ((if hasImportCycleE es then ["import-cycle"] else []) ++
      (if explicit then ["explicit-import"] else [])))
  | ["refs", _, _, n] =>
    let us := st.allUsages.filter (·.name == n)
    let es := specEdges st
    let rf := (us.flatMap (fun u => specFlagsE es st (usageIx st u) u.file u.name)).eraseDups
    some ("-" ++ flagStr ((if us.eraseDups.length != us.length then ["dup-usage-recorded"] else []) ++ rf))
  | ["unused"] =>
    let es := specEdges st
    some ("-" ++ flagStr ((st.allUsages.flatMap (fun u => specFlagsE es st (usageIx st u) u.file u.name)).eraseDups))
  | ["cycles"] => some ("-" ++ flagStr (cycleFlags st) ++ " GRAPH=" ++ specDepGraph st)
  | ["cyclesin", _] => some ("-" ++ flagStr (cycleFlags st))
  | ["mismatch", p] =>
    -- since the E14 repair the scope check resolves every dependency from the fixture's file: the
    -- verdict deviates from the property exactly where that resolution does (E1, E1b, E8 …)
    let f := pathOf p
    let es := specEdges st
    some ("-" ++ flagStr (((st.defs.filter (·.file == f)).flatMap (fun d => d.deps.flatMap (fun n =>
      let ix := if n == d.name then st.defs.filter (· != d) else st.defs
      specFlagsE es st ix f n))).eraseDups))
  | _ => none

def runOp (c : CaseSt) (t : List String) : String × CaseSt :=
  match t with
  | ["analyze", p, tid] =>
    match c.version (pathOf p) tid with
    | none => ("ok", c)
    | some v =>
      let (st, panicked) := Index.analyze c.pfx true c.st (pathOf p) v
      (if panicked then "PANIC" else "ok", { c with st := st })
  | ["fresh", p, tid] =>
    match c.version (pathOf p) tid with
    | none => ("ok", c)
    | some v =>
      let (st, panicked) := Index.analyze c.pfx false c.st (pathOf p) v
      (if panicked then "PANIC" else "ok", { c with st := st })
  | ["close", p] => ("ok", { c with st := c.st.closeFile (pathOf p) })
  -- the workspace folder set to a sub-directory of the case root: resolution never consults the workspace root, and
  -- the files below it are analysed explicitly by the case right afterwards (same texts), so the state is unchanged
  | ["wsroot", _] => ("ok", c)
  | "evictsync" :: _ =>
    -- `evict_cache_if_needed` removes, for the files it picks, exactly what `cleanup_file_cache` removes;
    -- which files it picked is an input (hint evicted)
    ("ok", { c with st := c.evicted.foldl (fun st f => st.closeFile f) c.st, evicted := [] })
  | "scan" :: pats =>
    let globs := pats.map (fun h => (unhexStr? h).getD "")
    let excluded (f : Path) : Bool := globs.any (fun g => globMatch g.toList (showPath f).toList)
    let seqOf (mp : String) (n : String) : List Path :=
      match c.scanOrder.find? (fun e => e.1 == mp && e.2.1 == n) with
      | some e => e.2.2
      | none => []
    let isEditable (js : Chars) : Bool :=
      Index.containsSub "\"editable\": true".toList js || Index.containsSub "\"editable\":true".toList js
    let excludedRel (f : Path) : Bool := globs.any (fun g => globMatch g.toList ("/".intercalate f).toList)
    ("ok", { c with st := c.st.scanFull asciiLowerStr isEditable wsRoot c.pfxDirs excludedRel (seqOf "D") (seqOf "U") })
  | ["plugin", p] => ("ok", { c with st := { c.st with pluginFiles := c.st.pluginFiles ++ [pathOf p] } })
  | ["newdb"] =>
    ("ok", { c with st := { disk := c.st.disk, dirs := c.st.dirs } })
  | o :: _ => (s!"BADOP {o}", c)
  | [] => ("BADOP", c)

def step (c : CaseSt) (line : String) : Option String × CaseSt :=
  let t := (line.splitOn " ").filter (· != "")
  match t with
  | "case" :: n :: _ => (none, { name := n })
  | ["text", tid, h] => (none, { c with texts := (tid, if h == "-" then some "" else unhexStr? h) :: c.texts })
  | ["text", tid] => (none, { c with texts := (tid, some "") :: c.texts })
  | "ast" :: tid :: _ =>
    let rest := (line.dropWhile (· != ' ')).toString.trimAsciiStart.toString   -- after "ast"
    let rest := (rest.dropWhile (· != ' ')).toString                            -- after tid
    (none, { c with asts := (tid, parseModule rest) :: c.asts })
  | ["disk", p, tid] =>
    let f := pathOf p
    let st := c.st
    let st := { st with dirs := addDirs st.dirs f }
    match c.version f tid with
    | some v => (none, { c with st := { st with disk := ainsert st.disk f v } })
    | none =>
      -- not valid UTF-8: the file exists but cannot be read as text
      (none, { c with st := { st with disk := ainsert st.disk f { text := "\u0000unreadable", parsed := none } } })
  | ["prefix", p] =>
    let d := (p.splitOn "/").filter (· != "")
    (none, { c with pfxDirs := d, pfx := d })
  | ["linkprefix", p] =>
    -- the first directory of the prefix is a symlink on the implementation's side: for the model
    -- the root is where the client says it is
    let d := (p.splitOn "/").filter (· != "")
    (none, { c with pfxDirs := d, pfx := d })
  | ["rootname", n] => (none, { c with rootName := n })
  | ["hint", "evicted", o] =>
    (none, { c with evicted := if o == "-" then [] else (o.splitOn ",").map pathOf })
  | ["hint", "scanorder", o] =>
    -- `D:foo=f1,f2;U:foo=f2,f1;…`
    (none, { c with scanOrder := if o == "-" then [] else (o.splitOn ";").filterMap (fun e =>
      match e.splitOn "=" with
      | [k, fs] =>
        match k.splitOn ":" with
        | [mp, n] => some (mp, n, (fs.splitOn ",").map pathOf)
        | _ => none
      | _ => none) })
  | ["mkdir", p] =>
    let d := pathOf p
    (none, { c with st := { c.st with dirs := addDirs c.st.dirs (d ++ ["x"]) } })
  | ["rm", p] => (none, { c with st := { c.st with disk := aerase c.st.disk (pathOf p) } })
  | "op" :: rest =>
    let (a, c) := runOp c rest
    let c := { c with idx := c.idx + 1 }
    (some s!"{c.name} {c.idx} {a}", c)
  | "q" :: rest =>
    let spec := runSpec c rest
    let (a, c) := runQ c rest
    let c := { c with idx := c.idx + 1 }
    match spec with
    | some sp => (some s!"{c.name} {c.idx} {a}\n{c.name} {c.idx} SPEC {sp}", c)
    | none => (some s!"{c.name} {c.idx} {a}", c)
  | _ => (none, c)

partial def loop (h : IO.FS.Stream) (out : IO.FS.Stream) (c : CaseSt) : IO Unit := do
  let line ← h.getLine
  if line.isEmpty then return ()
  let line := (line.dropEndWhile (fun ch => ch == '\n' || ch == '\r')).toString
  let (o, c) := step c line
  match o with
  | some s => out.putStrLn s
  | none => pure ()
  loop h out c

end Driver

def main : IO Unit := do
  let stdin ← IO.getStdin
  let stdout ← IO.getStdout
  Driver.loop stdin stdout {}
