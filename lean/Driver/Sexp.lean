/-
  Driver.Sexp — reader for the s-expression form of the mini-AST written by `tools/pyast.py`.
  Driver glue (trusted, not part of any theorem): `partial` is allowed here and only here.
-/
import PLS.Model.Py
namespace Driver
open PLS

inductive Sexp where
  | atom (s : String)
  | list (xs : List Sexp)
  deriving Repr, Inhabited

/-- split a line into `(`, `)` and atoms -/
def tokenize (s : String) : List String :=
  let rec go : List Char → List Char → List String → List String
    | [], cur, acc => (if cur.isEmpty then acc else String.ofList cur.reverse :: acc).reverse
    | c :: cs, cur, acc =>
      let flush := if cur.isEmpty then acc else String.ofList cur.reverse :: acc
      if c == '(' then go cs [] ("(" :: flush)
      else if c == ')' then go cs [] (")" :: flush)
      else if c == ' ' || c == '\t' then go cs [] flush
      else go cs (c :: cur) acc
  go s.toList [] []

/-- parse a token list into s-expressions using an explicit stack -/
def parseTokens (toks : List String) : List Sexp :=
  let rec go : List String → List (List Sexp) → List (List Sexp)
    | [], st => st
    | "(" :: ts, st => go ts ([] :: st)
    | ")" :: ts, top :: next :: rest => go ts ((Sexp.list top.reverse :: next) :: rest)
    | ")" :: ts, st => go ts st
    | a :: ts, top :: rest => go ts ((Sexp.atom a :: top) :: rest)
    | _ :: ts, [] => go ts []
  match go toks [[]] with
  | top :: _ => top.reverse
  | [] => []

def hexVal (c : Char) : Nat :=
  if '0' ≤ c && c ≤ '9' then c.toNat - '0'.toNat
  else if 'a' ≤ c && c ≤ 'f' then c.toNat - 'a'.toNat + 10
  else if 'A' ≤ c && c ≤ 'F' then c.toNat - 'A'.toNat + 10 else 0

def unhexBytes (s : String) : ByteArray :=
  let rec go : List Char → ByteArray → ByteArray
    | a :: b :: rest, acc => go rest (acc.push (UInt8.ofNat (hexVal a * 16 + hexVal b)))
    | _, acc => acc
  go s.toList ByteArray.empty

/-- `x<hex>` → string (`none` if not valid UTF-8) -/
def unhexStr? (s : String) : Option String :=
  String.fromUTF8? (unhexBytes s)

def xstr (s : String) : String :=
  if s.startsWith "x" then (unhexStr? (s.drop 1).toString).getD "" else s

def nat (s : Sexp) : Nat := match s with | .atom a => a.toNat! | _ => 0

def range4 : List Sexp → Range
  | [a, b, c, d] => ⟨nat a, nat b, nat c, nat d⟩
  | _ => ⟨0, 0, 0, 0⟩

def lastN {α} (n : Nat) (l : List α) : List α := l.drop (l.length - n)

partial def toExpr : Sexp → Expr
  | .list (.atom tag :: rest) =>
    let r := range4 (lastN 4 rest)
    let xs (s : Sexp) : List Expr := match s with | .list l => l.map toExpr | _ => []
    match tag, rest with
    | "Name", .atom id :: _ => .name (xstr id) r
    | "Attr", v :: .atom a :: _ => .attribute (toExpr v) (xstr a) r
    | "Call", f :: args :: .list kws :: _ =>
      let kn := kws.map (fun k => match k with
        | .list [_, .atom n, _] => if n == "_" then none else some (xstr n)
        | _ => none)
      let kv := kws.map (fun k => match k with
        | .list [_, _, v] => toExpr v
        | _ => .other r)
      .call (toExpr f) (xs args) kn kv r
    | "Str", .atom v :: _ => .constant (.str (xstr v)) r
    | "Bool", .atom b :: _ => .constant (.bool (b == "1")) r
    | "Const", .atom d :: _ => .constant (.other (xstr d)) r
    | "List", e :: _ => .list (xs e) r
    | "Tuple", e :: _ => .tuple (xs e) r
    | "Dict", k :: v :: _ => .dict (xs k) (xs v) r
    | "Sub", v :: s :: _ => .subscript (toExpr v) (toExpr s) r
    | "BinOp", l :: .atom b :: rr :: _ => .binOp (toExpr l) (b == "1") (toExpr rr) r
    | "Unary", o :: _ => .unaryOp (toExpr o) r
    | "Cmp", l :: c :: _ => .compare (toExpr l) (xs c) r
    | "Await", v :: _ => .await (toExpr v) r
    | "Yield", .list v :: _ => .yield (v.map toExpr) r
    | "Yield", _ => .yield [] r
    | "YieldFrom", .list v :: _ => .yieldFrom (v.map toExpr) r
    | "YieldFrom", _ => .yieldFrom [] r
    | "Group", e :: _ => .group (xs e) r
    | _, _ => .other r
  | _ => .other ⟨0, 0, 0, 0⟩

def toOptExpr : Sexp → Option Expr
  | .atom "_" => none
  | s => some (toExpr s)

def toArg : Sexp → Option Arg
  | .list [.atom "A", .atom n, a, b, c, d] => some ⟨xstr n, nat a, nat b, nat c, nat d, false⟩
  | .list [.atom "A", .atom n, a, b, c, d, .atom "1"] => some ⟨xstr n, nat a, nat b, nat c, nat d, true⟩
  | _ => none

def toArgs : Sexp → Args
  | .list [.atom "args", .list p, .list a, .list k, va, kw] =>
    ⟨p.filterMap toArg, a.filterMap toArg, k.filterMap toArg, toArg va, toArg kw⟩
  | _ => ⟨[], [], [], none, none⟩

def toAliases : Sexp → List Alias
  | .list l => l.filterMap (fun a => match a with
    | .list [.atom n, .atom asn] => some ⟨xstr n, if asn == "_" then none else some (xstr asn)⟩
    | _ => none)
  | _ => []

partial def toStmt : Sexp → Stmt
  | .list (.atom tag :: rest) =>
    let r := range4 (lastN 4 rest)
    let es (s : Sexp) : List Expr := match s with | .list l => l.map toExpr | _ => []
    let ss (s : Sexp) : List Stmt := match s with | .list l => l.map toStmt | _ => []
    match tag, rest with
    | "Func", .atom a :: .atom n :: decos :: args :: ret :: body :: _ =>
      .funcDef (a == "1") (xstr n) (es decos) (toArgs args) (toOptExpr ret) (ss body) r
    | "Class", .atom n :: decos :: body :: _ => .classDef (xstr n) (es decos) (ss body) r
    | "Assign", ts :: v :: _ => .assign (es ts) (toExpr v) r
    | "AnnAssign", t :: v :: _ => .annAssign (toExpr t) (toOptExpr v) r
    | "AugAssign", t :: v :: _ => .augAssign (toExpr t) (toExpr v) r
    | "Import", names :: _ => .import_ (toAliases names) r
    | "ImportFrom", .atom m :: lvl :: names :: _ =>
      .importFrom (if m == "_" then none else some (xstr m)) (nat lvl) (toAliases names) r
    | "Expr", e :: _ => .expr (toExpr e) r
    | "If", t :: b :: o :: _ => .if_ (toExpr t) (ss b) (ss o) r
    | "For", .atom a :: t :: it :: b :: o :: _ => .for_ (a == "1") (toExpr t) (toExpr it) (ss b) (ss o) r
    | "While", t :: b :: o :: _ => .while_ (toExpr t) (ss b) (ss o) r
    | "With", .atom a :: c :: v :: b :: _ => .with_ (a == "1") (es c) (es v) (ss b) r
    | "Try", b :: h :: o :: f :: _ => .try_ (ss b) (ss h) (ss o) (ss f) r
    | "Return", v :: _ => .return_ (toOptExpr v) r
    | "Assert", t :: m :: _ => .assert_ (toExpr t) (toOptExpr m) r
    | _, _ => .other r
  | _ => .other ⟨0, 0, 0, 0⟩

/-- `(Module stmt…)` → body; `invalid` → none -/
def parseModule (line : String) : Option (List Stmt) :=
  match parseTokens (tokenize line) with
  | [.list (.atom "Module" :: stmts)] => some (stmts.map toStmt)
  | _ => none

end Driver
