/-
  PLS.Model.Lsp — the handler glue of `src/providers/*.rs`: how the library's answers become
  LSP responses (lines become 0-based, byte columns are shipped as `character`, which features
  consult which query).  One function per handler; rendering to text is the driver's business.
-/
import PLS.Model.Index
import PLS.Model.Cycles
namespace PLS

structure Loc where
  file : Path
  line0 : Nat
  startChar : Nat
  endLine0 : Nat
  endChar : Nat
  deriving DecidableEq, Repr, Inhabited

def pointLoc (f : Path) (line0 : Nat) : Loc := ⟨f, line0, 0, line0, 0⟩
def spanLoc (f : Path) (line0 s e : Nat) : Loc := ⟨f, line0, s, line0, e⟩

/-- `internal_line_to_lsp` -/
def toLsp (line : Nat) : Nat := line - 1

namespace Index

/-- `textDocument/definition`: a point at column 0 of the definition's line. -/
def hDefinition (st : Index) (f : Path) (line0 col : Nat) : Option Loc × Index :=
  match st.goto f line0 col with
  | (some d, st) => (some (pointLoc d.file (toLsp d.line)), st)
  | (none, st) => (none, st)

/-- `textDocument/implementation`: the yield line of a generator fixture, else its `def` line —
    resolved by `find_fixture_or_definition_at_position`. -/
def hImplementation (st : Index) (f : Path) (line0 col : Nat) : Option Loc × Index :=
  match st.gotoOrDef f line0 col with
  | (some d, st) =>
    (some (pointLoc d.file (toLsp (match d.yieldLine with | some y => y | none => d.line))), st)
  | (none, st) => (none, st)

/-- `textDocument/references`. -/
def hReferences (st : Index) (f : Path) (line0 col : Nat) : Option (List Loc) × Index :=
  match st.fixtureAt f line0 col with
  | none => (none, st)
  | some name =>
    let (target, st) := st.goto f line0 col
    let (refs, incl, st) : List Usage × Option Def × Index :=
      match target with
      | some d => let (r, st) := st.refsForSt d; (r, some d, st)
      | none =>
        match st.definitionAtLine f (line0 + 1) name with
        | some d => let (r, st) := st.refsForSt d; (r, some d, st)
        | none => (refsByName st.allUsages name, none, st)
    if refs.isEmpty && incl.isNone then (none, st) else
    let head := match incl with
      | some d => [pointLoc d.file (toLsp d.line)]
      | none => []
    let rest := refs.filterMap (fun u =>
      match incl with
      | some d => if u.file == d.file && u.line == d.line then none
                  else some (spanLoc u.file (toLsp u.line) u.startChar u.endChar)
      | none => some (spanLoc u.file (toLsp u.line) u.startChar u.endChar))
    (some (head ++ rest), st)

structure DocSymbol where
  name : String
  range : Loc
  selection : Loc
  detail : Option String
  deriving Repr, Inhabited

/-- `textDocument/documentSymbol` (unsorted; the handler sorts by start line). -/
def hDocumentSymbols (st : Index) (f : Path) : List DocSymbol :=
  (st.defs.filter (fun d => d.file == f && !d.thirdParty)).map (fun d =>
    { name := d.name,
      -- a definition ending on its first line extends to the end of the name (E17 repair)
      range := ⟨f, toLsp d.line, 0, toLsp d.endLine, if d.endLine == d.line then d.endChar else 0⟩,
      selection := spanLoc f (toLsp d.line) d.startChar d.endChar,
      detail := d.returnType.map (fun rt => "-> " ++ rt) })

/-- `textDocument/codeLens`: one lens per non-third-party definition of the file, titled with the
    number of references. -/
def hCodeLens (st : Index) (f : Path) : List (Nat × Nat × Nat) × Index :=
  (st.defs.filter (fun d => d.file == f && !d.thirdParty)).foldl
    (fun (acc : List (Nat × Nat × Nat) × Index) d =>
      let (r, st') := acc.2.refsForSt d
      (acc.1 ++ [(toLsp d.line, r.length, d.startChar)], st')) ([], st)

/-- `workspace/symbol`. -/
def hWorkspaceSymbols (st : Index) (queryLower : String) (lower : String → String)
    (contains : String → String → Bool) : List (String × Loc) :=
  (st.defs.filter (fun d => !d.thirdParty && (queryLower.isEmpty || contains (lower d.name) queryLower))).map
    (fun d => (d.name, spanLoc d.file (toLsp d.line) d.startChar d.endChar))

/-- `find_containing_function`: needs the cached text to parse. -/
def containingFunction (st : Index) (f : Path) (line : Nat) : Option String :=
  match st.content f with
  | some { parsed := some fr, .. } =>
    (fr.funcRanges.find? (fun r => r.2.1 ≤ line && line ≤ r.2.2)).map (·.1)
  | _ => none

structure CallItem where
  name : String
  range : Loc
  selection : Loc
  detail : String
  deriving Repr, Inhabited

def fixtureDetail (d : Def) : String :=
  "@pytest.fixture" ++ (if d.scope != .function then "(scope=\"" ++ d.scope.asStr ++ "\")" else "")

/-- `textDocument/prepareCallHierarchy`. -/
def hPrepareCallHierarchy (st : Index) (f : Path) (line0 col : Nat) : Option CallItem × Index :=
  match st.gotoOrDef f line0 col with
  | (some d, st) =>
    (some { name := d.name, range := ⟨d.file, toLsp d.line, 0, toLsp d.line, d.endChar⟩,
            selection := spanLoc d.file (toLsp d.line) d.startChar d.endChar,
            detail := fixtureDetail d }, st)
  | (none, st) => (none, st)

/-- `callHierarchy/incomingCalls` for item `(file, name)`: one entry per reference not on the
    definition's own line, named after the enclosing function. -/
def hIncomingCalls (st : Index) (f : Path) (name : String) : Option (List (String × Loc)) × Index :=
  match (defsOf st.defs name).find? (fun d => d.file == f) with
  | none => (none, st)
  | some d =>
    let (refs, st) := st.refsForSt d
    (some ((refs.filter (fun u => !(u.file == d.file && u.line == d.line))).map (fun u =>
      ((st.containingFunction u.file u.line).getD "<unknown>",
       spanLoc u.file (toLsp u.line) u.startChar u.endChar))), st)

/-- `find_parameter_ranges`: the first recorded usage of that name inside the definition's lines
    (its exact span; the original code searched the text of the `def` line for the name, which
    also hit the function's own name and missed wrapped signatures). -/
def parameterRange (st : Index) (f : Path) (line endLine : Nat) (param : String) : Option Loc :=
  match alookup st.usages f with
  | none => none
  | some us =>
    match us.find? (fun u => line ≤ u.line && u.line ≤ endLine && u.name == param) with
    | some u => some (spanLoc f (toLsp u.line) u.startChar u.endChar)
    | none => none

/-- `callHierarchy/outgoingCalls`: every dependency resolved by `find_closest_definition` (since
    d2ce617; before: `resolve_fixture_for_file`), the fixture's own name (an override requesting its
    parent) by `find_closest_definition_excluding` the fixture itself. -/
def hOutgoingCalls (st : Index) (f : Path) (name : String) : Option (List (CallItem × Loc)) × Index :=
  match (defsOf st.defs name).find? (fun d => d.file == f) with
  | none => (none, st)
  | some d =>
    let (items, st) := d.deps.foldl (fun (acc : List (CallItem × Loc) × Index) dep =>
      let (r, st') :=
        if dep == d.name then resolveFM acc.2.defs impM f dep (fun x => x != d) acc.2
        else resolveFM acc.2.defs impM f dep (fun _ => true) acc.2
      match r with
      | none => (acc.1, st')
      | some dd =>
        let sel := spanLoc dd.file (toLsp dd.line) dd.startChar dd.endChar
        (acc.1 ++ [({ name := dd.name, range := ⟨dd.file, toLsp dd.line, 0, toLsp dd.line, dd.endChar⟩, selection := sel,
                      detail := fixtureDetail dd },
                    (st'.parameterRange f d.line d.endLine dep).getD sel)], st')) ([], st)
    (some items, st)

/-- `textDocument/inlayHint` over internal lines `[startLine, endLine]`. -/
def hInlayHints (st : Index) (f : Path) (startLine endLine : Nat) :
    Option (List (Nat × Nat × String)) × Index :=
  match alookup st.usages f with
  | none => (none, st)
  | some usages =>
    let lines := match alookup st.cache f with
      | some v => linesOf v.text.toList
      | none => []
    let (avail, st) := st.availableSt f
    let typed := avail.filterMap (fun d => d.returnType.map (fun rt => (d.name, rt)))
    -- `HashMap::collect`: a later entry of the same name overrides an earlier one
    let lookup (n : String) : Option String := (typed.reverse.find? (·.1 == n)).map (·.2)
    let (res, st) := (usages.filter (fun u => startLine ≤ u.line && u.line ≤ endLine)).foldl
      (fun (acc : List (Nat × Nat × String) × Index) u =>
        -- a fixture requesting its own name: the type of the definition it overrides
        -- (`get_enclosing_definition_named`, then `find_closest_definition_excluding`)
        let (rt, st') :=
          match ownDefAt acc.2.defs f u.line u.name with
          | some own =>
            let (r, st') := resolveFM acc.2.defs impM f u.name (fun x => x != own) acc.2
            (r.bind (·.returnType), st')
          | none => (lookup u.name, acc.2)
        match rt with
        | none => (acc.1, st')
        | some rt =>
          if parameterHasAnnotation lines u.line u.endChar then (acc.1, st')
          else (acc.1 ++ [(toLsp u.line, u.endChar, ": " ++ rt)], st')) ([], st)
    (some res, st)

structure Diag where
  code : String
  loc : Loc
  message : String
  deriving Repr, Inhabited

/-- `publish_diagnostics_for_file`: undeclared fixtures, cycles anchored in the file, scope
    mismatches — each family dropped when its code is disabled. The scope family compares with the
    definitions `res` selects (`scopeTableSt`, resolution from the fixture's file). The cycle family is given as the
    list computed by `detect_fixture_cycles_in_file` (root order is a parameter there). -/
def hDiagnostics (st : Index) (disabled : List String) (f : Path) (cycles : List Cycle)
    (res : Def → String → Option Def) : List Diag :=
  (if disabled.contains "undeclared-fixture" then [] else
    ((alookup st.undeclared f).getD []).map (fun u =>
      { code := "undeclared-fixture", loc := spanLoc f (toLsp u.line) u.startChar u.endChar,
        message := "Fixture '" ++ u.name ++ "' is used but not declared as a parameter" })) ++
  (if disabled.contains "circular-dependency" then [] else
    (cycles.filter (fun c => c.fixture.file == f)).map (fun c =>
      { code := "circular-dependency",
        loc := spanLoc f (toLsp c.fixture.line) c.fixture.startChar c.fixture.endChar,
        message := "Circular fixture dependency detected: " ++ " → ".intercalate c.path })) ++
  (if disabled.contains "scope-mismatch" then [] else
    (mismatchesIn st.defs res ((alookup st.fileDefs f).getD []) f).map (fun m =>
      { code := "scope-mismatch",
        loc := spanLoc f (toLsp m.1.line) m.1.startChar m.1.endChar,
        message := m.1.scope.asStr ++ "-scoped fixture '" ++ m.1.name ++ "' depends on " ++
          m.2.scope.asStr ++ "-scoped fixture '" ++ m.2.name ++ "'" }))

/-- `format_fixture_documentation` (hover / completion documentation). -/
def fixtureDocumentation (d : Def) (relPath : String) : String :=
  "**from** `" ++ relPath ++ "`\n" ++
  "```python\n@pytest.fixture\ndef " ++ d.name ++ "(...)" ++
    (match d.returnType with | some rt => " -> " ++ rt | none => "") ++ ":\n```" ++
  (match d.docstring with | some doc => "\n\n---\n\n" ++ doc | none => "")

end Index
end PLS
