/-
  PLS.Model.Venv — the virtualenv phase of the scan (`scan_venv_fixtures` … `scan_plugin_directory`
  in `scanner.rs`): locating site-packages, pytest's own `_pytest` package, pytest11 entry
  points of installed distributions, editable installs (`direct_url.json` + `.pth`).

  Directory listings come from the modelled file system (`disk`, `dirs`); where the implementation
  iterates `read_dir` / a `HashMap` the order only decides the order inside per-name vectors,
  which the caller fixes afterwards (`arrange`).
-/
import PLS.Model.Scan
namespace PLS

/-! ### pure text parsers -/

def splitOnceEq (l : Chars) : Option (Chars × Chars) :=
  if l.contains '=' then some (l.takeWhile (· != '='), (l.dropWhile (· != '=')).drop 1) else none

/-- `parse_pytest11_entry_points`: `(name, module)` of every `name = module` line of the
    `[pytest11]` section; comments, blank and malformed lines are ignored. -/
def parsePytest11 (content : Chars) : List (String × String) :=
  ((linesOf content).foldl (fun (acc : List (String × String) × Bool) raw =>
    let l := trim raw
    if l.head? == some '[' && l.getLast? == some ']' then (acc.1, l == "[pytest11]".toList)
    else if acc.2 && !l.isEmpty && l.head? != some '#' then
      match splitOnceEq l with
      | some (n, m) => (acc.1 ++ [(String.ofList (trim n), String.ofList (trim m))], acc.2)
      | none => acc
    else acc) ([], false)).1

def stripSuffix? (suf : String) (s : Chars) : Option Chars :=
  if suf.toList.isSuffixOf s then some (s.take (s.length - suf.length)) else none

/-- index of the first `-` that is followed by an ASCII digit -/
def versionDash (s : Chars) : Option Nat :=
  (List.range s.length).find? (fun i => s[i]? == some '-' &&
    (match s[i + 1]? with | some c => c.isDigit | none => false))

/-- `extract_package_name_from_dist_info` → (raw, normalized). -/
def packageNameOfDistInfo (lower : String → String) (dir : String) : Option (String × String) :=
  match (stripSuffix? ".dist-info" dir.toList).orElse (fun _ => stripSuffix? ".egg-info" dir.toList) with
  | none => none
  | some nv =>
    let name := match versionDash nv with | some i => nv.take i | none => nv
    let norm := lower (String.ofList (name.map (fun c => if c == '-' || c == '.' then '_' else c)))
    some (String.ofList name, norm)

/-- does a `.pth` stem belong to one of the candidate names? -/
def pthStemMatches (stem : Chars) (cands : List String) : Bool :=
  cands.any (fun c =>
    stem == c.toList ||
    (c.toList.isPrefixOf stem &&
      (let rest := stem.drop c.length
       rest.head? == some '-' && (match rest[1]? with | some d => d.isDigit | none => false))))

def pthCandidates (raw norm : String) : List String :=
  ["__editable__." ++ norm, "_" ++ norm, norm] ++
    (if raw != norm then ["__editable__." ++ raw, "_" ++ raw, raw] else [])

/-- the usable lines of a `.pth` file: not blank, not a comment, not an `import`, no control
    characters, no `..` -/
def pthLines (content : Chars) : List Chars :=
  ((linesOf content).map trim).filter (fun l =>
    !l.isEmpty && l.head? != some '#' && !("import ".toList.isPrefixOf l) &&
    !l.any (fun c => c.val < 0x20 && c != '\t') && !Index.containsSub "..".toList l)

/-- module path → components, rejecting traversal / empty segments / NUL (the `:attr` suffix is
    dropped first) -/
def entryPointParts (module : String) : Option (List String) :=
  let m := module.toList.takeWhile (· != ':')
  let parts := (Index.splitDots m).map String.ofList
  if parts.any (fun p => p.isEmpty || Index.containsSub "..".toList p.toList || p.toList.contains '\x00') then none
  else some parts

namespace Index

def fileExists (st : Index) (p : Path) : Bool := ahas st.disk p

def diskText (st : Index) (p : Path) : Option Chars :=
  match alookup st.disk p with
  | some v => if readable v then some v.text.toList else none
  | none => none

/-- names of the entries directly inside a directory -/
def listDir (st : Index) (d : Path) : List String :=
  ((st.disk.map (·.1) ++ st.dirs).filterMap (fun p =>
    if pathStartsWith p d && p.length > d.length then p[d.length]? else none)).eraseDups

/-- `resolve_entry_point_module_to_path(base, module)`. -/
def resolveEntryPoint (st : Index) (base : Path) (module : String) : Option Path :=
  match entryPointParts module with
  | none => none
  | some parts =>
    match parts.getLast? with
    | none => none
    | some last =>
      let py := base ++ parts.dropLast ++ [last ++ ".py"]
      let pkg := base ++ parts
      if st.fileExists py then some py
      else if st.isDir pkg && st.fileExists (pkg ++ ["__init__.py"]) then some (pkg ++ ["__init__.py"])
      else none

/-- the files `scan_plugin_directory(dir)` analyses: `.py` files at depth ≤ 3 whose name neither
    starts with `test_` nor contains `__pycache__` -/
def pluginDirFiles (st : Index) (dir : Path) : List Path :=
  (st.disk.map (·.1)).filter (fun p =>
    pathStartsWith p dir && p.length > dir.length && p.length - dir.length ≤ 3 &&
    (match p.getLast? with
     | some n => n.endsWith ".py" && !n.startsWith "test_" && !containsSub "__pycache__".toList n.toList
     | none => false))

/-- mark a file as plugin file and analyse it (cleanup path) if it can be read -/
def scanPluginFile (pfx : Path) (st : Index) (p : Path) : Index :=
  let st := if st.pluginFiles.contains p then st else { st with pluginFiles := st.pluginFiles ++ [p] }
  match alookup st.disk p with
  | some v => if readable v then (analyze pfx true st p v).1 else st
  | none => st

def scanPluginDirectory (pfx : Path) (st : Index) (dir : Path) : Index :=
  (st.pluginDirFiles dir).foldl (scanPluginFile pfx) st

/-- resolve `@BASE@/a/b` (absolute, as written by the generators) or a site-packages-relative
    path of a `.pth` line to a directory -/
def pthTarget (st : Index) (sp : Path) (line : Chars) : Option Path :=
  let s := String.ofList line
  let p : Path :=
    if s.startsWith "@BASE@/" then ((s.drop 7).toString.splitOn "/").filter (· != "")
    else sp ++ (s.splitOn "/").filter (· != "")
  if st.isDir p then some p else none

/-- `discover_editable_installs`. `isEditable` reads `direct_url.json` (JSON parsing is a
    parameter). -/
def discoverEditable (lower : String → String) (isEditable : Chars → Bool) (st : Index) (sp : Path) :
    List (Path × Path × String) :=
  let entries := st.listDir sp
  let pths := entries.filter (·.endsWith ".pth")
  (entries.filter (·.endsWith ".dist-info")).filterMap (fun di =>
    match st.diskText (sp ++ [di, "direct_url.json"]) with
    | none => none
    | some js =>
      if !isEditable js then none else
      match packageNameOfDistInfo lower di with
      | none => none
      | some (raw, norm) =>
        let cands := pthCandidates raw norm
        (pths.filter (fun f => pthStemMatches (f.toList.take (f.length - 4)) cands)).findSome? (fun f =>
          match st.diskText (sp ++ [f]) with
          | none => none
          | some content => ((pthLines content).findSome? (st.pthTarget sp)).map (fun root => (root, sp, raw))))

/-- `load_plugin_from_entry_point` for one metadata directory. -/
def loadEntryPoints (pfx : Path) (st : Index) (sp : Path) (metaDir : String) : Index :=
  match st.diskText (sp ++ [metaDir, "entry_points.txt"]) with
  | none => st
  | some content =>
    (parsePytest11 content).foldl (fun st e =>
      let resolved := (st.resolveEntryPoint sp e.2).orElse (fun _ =>
        st.editable.findSome? (fun inst => st.resolveEntryPoint inst.1 e.2))
      match resolved with
      | none => st
      | some p =>
        if p.getLast? == some "__init__.py" then scanPluginDirectory pfx st p.dropLast
        else scanPluginFile pfx st p) st

/-- `scan_pytest_plugins(site_packages)`. -/
def scanPytestPlugins (lower : String → String) (isEditable : Chars → Bool) (pfx : Path) (st : Index) (sp : Path) : Index :=
  let st := { st with editable := st.discoverEditable lower isEditable sp }
  let st := if st.isDir (sp ++ ["_pytest"]) then scanPluginDirectory pfx st (sp ++ ["_pytest"]) else st
  ((st.listDir sp).filter (fun n => n.endsWith ".dist-info" || n.endsWith ".egg-info")).foldl
    (fun st m => loadEntryPoints pfx st sp m) st

/-- `scan_venv_fixtures(root)` + `scan_venv_site_packages`: the first of `.venv`, `venv`, `env`
    that exists; inside it `lib/python*/site-packages` (else `Lib/site-packages`). -/
def scanVenv (lower : String → String) (isEditable : Chars → Bool) (pfx : Path) (root : Path) (st : Index) : Index :=
  match Generated.venvDirNames.find? (fun n => st.existsOnDisk (root ++ [n])) with
  | none => st
  | some v =>
    let venv := root ++ [v]
    let pyDirs := (st.listDir (venv ++ ["lib"])).filter (fun n => n.startsWith "python" && st.isDir (venv ++ ["lib", n]))
    let sp? : Option Path :=
      (pyDirs.findSome? (fun n =>
        let sp := venv ++ ["lib", n, "site-packages"]
        if st.existsOnDisk sp then some sp else none)).orElse (fun _ =>
        let w := venv ++ ["Lib", "site-packages"]
        if st.existsOnDisk w then some w else none)
    match sp? with
    | none => st
    | some sp =>
      scanPytestPlugins lower isEditable pfx { st with sitePackages := st.sitePackages ++ [sp] } sp

/-- `scan_workspace_with_excludes` in full: workspace files, venv plugins, import fixpoint,
    re-analysis of modules newly marked as plugins; vectors arranged by `rank` at the end. -/
def scanFull (lower : String → String) (isEditable : Chars → Bool) (root pfx : Path)
    (excluded : Path → Bool) (seqD seqU : String → List Path) (st : Index) : Index :=
  let st := { st with workspaceRoot := some root }
  let st := scanPhase2At root pfx excluded st
  let st := scanVenv lower isEditable pfx root st
  let roots := (st.cache.map (·.1)).filter st.isScanRoot
  let (st, re) := importScan pfx (importScanFuel st) st roots [] []
  let st := re.foldl (fun st m =>
    match st.content m with
    | some v => (analyze pfx true st m v).1
    | none => st) st
  arrange seqD seqU st

end Index
end PLS
