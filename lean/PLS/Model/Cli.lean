/-
  PLS.Model.Cli — the decision logic of the `fixtures` sub-commands (`src/main.rs`,
  `src/fixtures/cli.rs`): which entries are listed, the filters, the exit status.
-/
import PLS.Model.Resolve
namespace PLS

/-- `--only-unused` keeps an entry iff … -/
def showOnlyUnused (count : Nat) (autouse : Bool) : Bool := count == 0 && !autouse
/-- `--skip-unused` keeps an entry iff … -/
def showSkipUnused (count : Nat) (autouse : Bool) : Bool := count > 0 || autouse

/-- the label printed after a fixture in `fixtures list` -/
def usageLabel (count : Nat) (autouse : Bool) : String :=
  if autouse && count == 0 then "autouse=True"
  else if autouse then (if count == 1 then "used 1 time" else s!"used {count} times") ++ ", autouse=True"
  else if count == 0 then "unused"
  else if count == 1 then "used 1 time"
  else s!"used {count} times"

/-- exit status of `fixtures unused` -/
def unusedExitCode (unused : List (Path × String)) : Nat := if unused.isEmpty then 0 else 1

end PLS
