/-
  PLS.Model.Py — the slice of the Python AST that the analyzer inspects.

  Positions are `(line, col)` with 1-based lines and BYTE columns, exactly what the analyzer
  derives from rustpython's byte offsets through its line index (and what CPython reports as
  `lineno` / `col_offset`).  Everything the analyzer never looks into is `other`.
-/
import PLS.Model.Basic
namespace PLS

structure Range where
  line : Nat
  col : Nat
  endLine : Nat
  endCol : Nat
  deriving DecidableEq, Repr, Inhabited

inductive Const where
  | str (s : String)
  | bool (b : Bool)
  /-- any other constant; `dbg` is Rust's `{:?}` rendering (used by `expr_to_string`). -/
  | other (dbg : String)
  deriving DecidableEq, Repr, Inhabited

inductive Expr where
  | name (id : String) (r : Range)
  | attribute (value : Expr) (attr : String) (r : Range)
  /-- keywords as two parallel lists (`none` name = `**kwargs`). -/
  | call (func : Expr) (args : List Expr) (kwNames : List (Option String)) (kwVals : List Expr) (r : Range)
  | constant (c : Const) (r : Range)
  | list (elts : List Expr) (r : Range)
  | tuple (elts : List Expr) (r : Range)
  /-- `None` keys (`**spread`) are represented by `other`, which no visitor enters. -/
  | dict (keys : List Expr) (vals : List Expr) (r : Range)
  | subscript (value : Expr) (slice : Expr) (r : Range)
  | binOp (left : Expr) (isBitOr : Bool) (right : Expr) (r : Range)
  | unaryOp (operand : Expr) (r : Range)
  | compare (left : Expr) (comps : List Expr) (r : Range)
  | await (value : Expr) (r : Range)
  /-- `value`: the yielded expression when there is one (at most one element) -/
  | yield (value : List Expr) (r : Range)
  | yieldFrom (value : List Expr) (r : Range)
  /-- a form that only combines sub-expressions and binds nothing - boolean operators, conditional
      expressions, set displays, starred items, slices, f-strings: `parts` in source order -/
  | group (parts : List Expr) (r : Range)
  | other (r : Range)
  deriving Repr, Inhabited

def Expr.range : Expr → Range
  | .name _ r | .attribute _ _ r | .call _ _ _ _ r | .constant _ r | .list _ r | .tuple _ r
  | .dict _ _ r | .subscript _ _ r | .binOp _ _ _ r | .unaryOp _ r | .compare _ _ r
  | .await _ r | .yield _ r | .yieldFrom _ r | .group _ r | .other r => r

/-- one parameter: name and the position where its name starts. -/
structure Arg where
  name : String
  line : Nat
  col : Nat
  endLine : Nat
  endCol : Nat
  /-- the parameter has a default value: pytest never treats it as a fixture request -/
  hasDefault : Bool := false
  deriving DecidableEq, Repr, Inhabited

structure Args where
  posonly : List Arg
  args : List Arg
  kwonly : List Arg
  vararg : Option Arg
  kwarg : Option Arg
  deriving Repr, Inhabited

/-- `FixtureDatabase::all_args`: positional-only, then regular, then keyword-only. -/
def Args.all (a : Args) : List Arg := a.posonly ++ a.args ++ a.kwonly

structure Alias where
  name : String
  asname : Option String
  deriving DecidableEq, Repr, Inhabited

inductive Stmt where
  | funcDef (isAsync : Bool) (name : String) (decos : List Expr) (args : Args)
      (returns : Option Expr) (body : List Stmt) (r : Range)
  | classDef (name : String) (decos : List Expr) (body : List Stmt) (r : Range)
  | assign (targets : List Expr) (value : Expr) (r : Range)
  | annAssign (target : Expr) (value : Option Expr) (r : Range)
  | augAssign (target : Expr) (value : Expr) (r : Range)
  | import_ (names : List Alias) (r : Range)
  | importFrom (module : Option String) (level : Nat) (names : List Alias) (r : Range)
  | expr (value : Expr) (r : Range)
  | if_ (test : Expr) (body : List Stmt) (orelse : List Stmt) (r : Range)
  | for_ (isAsync : Bool) (target : Expr) (iter : Expr) (body : List Stmt) (orelse : List Stmt) (r : Range)
  | while_ (test : Expr) (body : List Stmt) (orelse : List Stmt) (r : Range)
  /-- `items` split into context expressions and the `as` targets that are present. -/
  | with_ (isAsync : Bool) (ctxs : List Expr) (optVars : List Expr) (body : List Stmt) (r : Range)
  /-- `handlers` = the handlers' bodies concatenated in order. -/
  | try_ (body : List Stmt) (handlers : List Stmt) (orelse : List Stmt) (finalbody : List Stmt) (r : Range)
  | return_ (value : Option Expr) (r : Range)
  | assert_ (test : Expr) (msg : Option Expr) (r : Range)
  | other (r : Range)
  deriving Repr, Inhabited

def Stmt.range : Stmt → Range
  | .funcDef _ _ _ _ _ _ r | .classDef _ _ _ r | .assign _ _ r | .annAssign _ _ r
  | .augAssign _ _ r | .import_ _ r | .importFrom _ _ _ r | .expr _ r | .if_ _ _ _ r
  | .for_ _ _ _ _ _ r | .while_ _ _ _ r | .with_ _ _ _ _ r | .try_ _ _ _ _ r
  | .return_ _ r | .assert_ _ _ r | .other r => r

end PLS
