/-
  PLS.Model.Locks — the shard locks of the DashMaps as the code uses them.

  A lock is a shard of a map: `cls` names the map (the lock CLASS), `shard` the shard.  Which
  shard a key lands in is arbitrary (it depends on the hasher's random state and the shard
  count), so nothing below may depend on `shard` values being different — two keys of one map
  may or may not share a lock.

  DashMap 6.1's shard lock (`lock.rs`, vendored and instrumented in `harness-conc/vendor`):
    * a read request is granted whenever no writer HOLDS the lock (readers never wait for a
      waiting writer: `try_lock_shared_fast` only tests the writer bits);
    * a write request is granted when nobody holds the lock.
  So a request conflicts with a hold iff one of the two is a write — including a hold of the
  requesting thread itself (the lock is not re-entrant for writes).
-/
namespace PLS.Locks

structure Lock where
  cls   : Nat
  shard : Nat
  deriving DecidableEq, Repr

inductive Mode where
  | R | W
  deriving DecidableEq, Repr

/-- a thread as the lock manager sees it: what it holds, and the blocking request it is making -/
structure TState where
  holds : List (Lock × Mode)
  req   : Option (Lock × Mode)
  deriving Repr

def conflict (m1 m2 : Mode) : Bool := m1 == .W || m2 == .W

/-- `t`'s request cannot be granted because of a lock `u` holds (`u` may be `t` itself) -/
def blockedBy (t u : TState) : Prop :=
  ∃ l m hm, t.req = some (l, m) ∧ (l, hm) ∈ u.holds ∧ conflict m hm = true

/-- a set of threads each of which waits for a member of the set: nobody in it can ever move -/
def Deadlock (ts : List TState) : Prop :=
  ∃ S : List TState, S ≠ [] ∧ (∀ t ∈ S, t ∈ ts) ∧ ∀ t ∈ S, ∃ u ∈ S, blockedBy t u

/-- **the discipline**, relative to a ranking of the maps.  Whenever a thread makes a blocking
    request while holding guards, for every held guard:
      * a READ request under a READ guard may go to a map of the same or a higher rank
        (so maps that are read-nested in both orders simply share a rank);
      * every other combination — a write request, or a request of any kind under a write guard —
        must go to a map of STRICTLY higher rank (in particular never to the same map).
    Read-under-read is free because DashMap's shard lock never makes a reader wait for a reader
    (nor for a waiting writer). -/
def Disc (rank : Nat → Nat) (t : TState) : Prop :=
  ∀ l m, t.req = some (l, m) → ∀ h hm, (h, hm) ∈ t.holds →
    (hm = .R ∧ m = .R ∧ rank h.cls ≤ rank l.cls) ∨ rank h.cls < rank l.cls

/-! ### the executable form the correspondence check evaluates on recorded nestings -/

/-- one recorded nesting: the classes and modes held, and the class and mode requested -/
structure Nesting where
  held : List (Nat × Mode)
  want : Nat × Mode
  deriving Repr

def nestingOK (rank : Nat → Nat) (n : Nesting) : Bool :=
  n.held.all (fun h => (h.2 == .R && n.want.2 == .R && rank h.1 ≤ rank n.want.1) || rank h.1 < rank n.want.1)

def discOK (rank : Nat → Nat) (ns : List Nesting) : Bool := ns.all (nestingOK rank)

/-- the nesting a thread state exhibits -/
def nestingOf (t : TState) : Option Nesting :=
  t.req.map (fun r => { held := t.holds.map (fun h => (h.1.cls, h.2)), want := (r.1.cls, r.2) })

end PLS.Locks
