/-
  PLS.Model.Scan — `scan_workspace_with_excludes` (`src/fixtures/scanner.rs`): file discovery,
  the per-file analysis phase, and the import fixpoint (`scan_imported_fixture_modules`).

  The parallel phase analyses the discovered files in a schedule-dependent order whose ONLY effect
  on the index is the order inside the per-name vectors (C09).  The model analyses them in a
  canonical order and then arranges `definitions` / `usage_by_fixture` by a file ranking given as
  a parameter (`rank`): in correspondence runs it is the ranking observed on the implementation,
  in theorems it is universally quantified.
-/
import PLS.Generated
import PLS.Model.Index
namespace PLS

/-- `should_skip_directory`. -/
def shouldSkipDir (name : String) : Bool :=
  Generated.skipDirs.contains name || Generated.skipSuffixes.any (fun s => name.endsWith s)

/-- the file-name test of the scan: `conftest.py`, `test_*.py`, `*_test.py`. -/
def isTestFileName (n : String) : Bool :=
  n == "conftest.py" || (n.startsWith "test_" && n.endsWith ".py") || n.endsWith "_test.py"

/-- phase 1 for one file `f` (path below the workspace root).  WalkDir's `filter_entry` prunes
    directories by NAME below the root (the root entry itself is always entered), then the loop
    re-tests every component of the ROOT-RELATIVE path (the file's own name included), then the
    exclude patterns (root-relative), then the file name.  (E10 repaired: the absolute location
    of the root plays no role; `pfx` is kept as a parameter so that this is a theorem.) -/
def discovered (_pfx : Path) (excluded : Path → Bool) (f : Path) : Bool :=
  !f.dropLast.any shouldSkipDir &&
  !(match f.getLast? with | some n => shouldSkipDir n | none => false) &&
  !excluded f &&
  (match f.getLast? with | some n => isTestFileName n | none => false)

/-- what pytest's collection rule says (C13 spec): name matches, no ignored directory BELOW the
    root on its path, not excluded. -/
def specDiscovered (excluded : Path → Bool) (f : Path) : Bool :=
  !f.dropLast.any shouldSkipDir && !excluded f &&
  (match f.getLast? with | some n => isTestFileName n | none => false)

namespace Index

/-- readable = on disk with text (a `Version` whose text could be decoded); the driver records
    undecodable files with `parsed := none` and the marker text `"\u0000unreadable"`. -/
def readable (v : Version) : Bool := v.text != "\u0000unreadable"

/-- phase 2: analyse (no-cleanup path) every discovered, readable file.  Files are identified by
    their path below the workspace root `[]`; `scanPhase2At` is the same for a root that is not
    the origin of the path space (used when a case also has files outside the workspace). -/
def scanPhase2 (pfx : Path) (excluded : Path → Bool) (st : Index) : Index :=
  (st.disk.filter (fun p => discovered pfx excluded p.1 && readable p.2)).foldl
    (fun st p => (analyze pfx false st p.1 p.2).1) st

def scanPhase2At (root pfx : Path) (excluded : Path → Bool) (st : Index) : Index :=
  (st.disk.filter (fun p => pathStartsWith p.1 root &&
      discovered pfx excluded (p.1.drop root.length) && readable p.2)).foldl
    (fun st p => (analyze pfx false st p.1 p.2).1) st

def isScanRoot (st : Index) (f : Path) : Bool :=
  (match f.getLast? with | some n => isTestFileName n | none => false) ||
  st.sitePackages.any (fun sp => pathStartsWith f sp) ||
  st.editable.any (fun e => pathStartsWith f e.1) ||
  st.pluginFiles.contains f

/-- the work state of one round of the import scan -/
structure ScanAcc where
  /-- modules met for the first time (neither processed nor cached): analysed after the round -/
  news : List Path
  /-- cached modules newly marked as plugin files: re-analysed at the very end -/
  re : List Path
  st : Index
  /-- `processed_files` -/
  processed : List Path
  /-- cached files to walk in the next round: imported modules not walked so far, and files that
      became plugin files after they were walked -/
  rewalk : List Path

/-- one resolved import target: optionally mark it as a plugin file (queueing it for re-analysis
    when it is already cached, and for another walk when its imports were walked before it became a
    plugin file); when it is not processed, queue it as a new module (not cached: analysed, then
    walked) or for a walk as it is (cached, e.g. opened in the editor before the scan). -/
def importStep (mark : Bool) (acc : ScanAcc) (target : Path) : ScanAcc :=
  let marking := mark && !acc.st.pluginFiles.contains target
  let st' := if marking then { acc.st with pluginFiles := acc.st.pluginFiles ++ [target] } else acc.st
  let re' := if marking && ahas acc.st.cache target && !acc.re.contains target then acc.re ++ [target] else acc.re
  let again := marking && acc.processed.contains target
  let processed' := if again then acc.processed.filter (fun g => g != target) else acc.processed
  -- every imported module that is not processed gets its own imports walked: after its analysis
  -- when it is new (`news`), as it is when it is already cached (`rewalk`)
  let rewalk' := if (again || (!processed'.contains target && ahas acc.st.cache target)) && !acc.rewalk.contains target
    then acc.rewalk ++ [target] else acc.rewalk
  let news' := if !processed'.contains target && !ahas acc.st.cache target && !acc.news.contains target
    then acc.news ++ [target] else acc.news
  { news := news', re := re', st := st', processed := processed', rewalk := rewalk' }

/-- one file of one iteration of the import scan: star imports propagate plugin status from a
    plugin file, explicit imports do not, `pytest_plugins` entries do. -/
def importScanFile (f : Path) (acc : ScanAcc) : ScanAcc :=
  match acc.st.content f with
  | some { parsed := some fr, .. } =>
    let importerIsPlugin := acc.st.pluginFiles.contains f
    let acc := fr.imports.foldl (fun acc imp =>
      match acc.st.resolveModule imp.modulePath f with
      | some t => importStep (importerIsPlugin && imp.isStar) acc t
      | none => acc) acc
    fr.plugins.foldl (fun acc m =>
      match acc.st.resolveModule m f with
      | some t => importStep importerIsPlugin acc t
      | none => acc) acc
  | _ => acc

/-- one file of one round: skipped when already processed -/
def roundStep (acc : ScanAcc) (f : Path) : ScanAcc :=
  if acc.processed.contains f then acc else
  importScanFile f { acc with processed := acc.processed ++ [f] }

/-- analysis of one newly found module (`analyze_file_fresh` when it is readable) -/
def analyzeNew (pfx : Path) (st : Index) (m : Path) : Index :=
  match alookup st.disk m with
  | some v => if readable v then (analyze pfx false st m v).1 else st
  | none => st

/-- `scan_imported_fixture_modules`: iterate until a round finds neither a new module nor a file
    to walk again.  `fuel` bounds the number of rounds; `C12_import_scan_fuel_irrelevant` shows
    that three times the number of files, plus one, is always enough. -/
def importScan (pfx : Path) : Nat → Index → List Path → List Path → List Path → Index × List Path
  | 0, st, _, _, re => (st, re)
  | fuel + 1, st, toCheck, processed, re =>
    if toCheck.isEmpty then (st, re) else
    let acc := toCheck.foldl roundStep { news := [], re := re, st := st, processed := processed, rewalk := [] }
    if acc.news.isEmpty && acc.rewalk.isEmpty then (acc.st, acc.re) else
    importScan pfx fuel (acc.news.foldl (analyzeNew pfx) acc.st) (acc.news ++ acc.rewalk) acc.processed acc.re

/-- enough rounds for any import graph over the files the index knows -/
def importScanFuel (st : Index) : Nat := 3 * (st.disk.length + st.cache.length) + 1

/-- arrange the order-carrying vectors by a file ranking (stable within a file) -/
def insertByRank {α} (rank : Path → Nat) (file : α → Path) (x : α) : List α → List α
  | [] => [x]
  | y :: ys => if rank (file x) < rank (file y) then x :: y :: ys else y :: insertByRank rank file x ys

/-- lay `items` out in the order `seq` gives for their files: the k-th occurrence of a file in
    `seq` takes that file's k-th item; items `seq` does not account for follow in their order -/
def arrangeSeq {α} (file : α → Path) (seq : List Path) (items : List α) : List α :=
  let r := seq.foldl (fun (acc : List α × List α) f =>
    match acc.2.find? (fun x => file x == f) with
    | some x => (acc.1 ++ [x], acc.2.eraseP (fun y => file y == f))
    | none => acc) (([] : List α), items)
  r.1 ++ r.2

/-- the per-name vectors as the parallel scan left them: for every fixture name the sequence of
    files inside `definitions[name]` (`seqD name`) and inside `usage_by_fixture[name]`
    (`seqU name`) is an input — DashMap keeps no order ACROSS names, and two names' vectors may
    order the same two files differently, so the order is given per name.  Entries of one file
    keep their relative order. -/
def arrange (seqD seqU : String → List Path) (st : Index) : Index :=
  let dn := (st.defs.map (·.name)).eraseDups
  let un := (st.ubf.map (·.name)).eraseDups
  { st with defs := dn.flatMap (fun n => arrangeSeq (·.file) (seqD n) (st.defs.filter (·.name == n))),
            ubf := un.flatMap (fun n => arrangeSeq (·.file) (seqU n) (st.ubf.filter (·.name == n))) }

/-- `scan_workspace_with_excludes` without a virtualenv (the venv phase is `Venv.lean`). -/
def scanNoVenv (pfx : Path) (excluded : Path → Bool) (seqD seqU : String → List Path) (st : Index) : Index :=
  let st := { st with workspaceRoot := some [] }
  let st := scanPhase2 pfx excluded st
  let roots := (st.cache.map (·.1)).filter st.isScanRoot
  let (st, re) := importScan pfx (importScanFuel st) st roots [] []
  let st := re.foldl (fun st m =>
    match st.content m with
    | some v => (analyze pfx true st m v).1
    | none => st) st
  arrange seqD seqU st

end Index
end PLS
