/-
  PLS.Model.Cycles — `compute_fixture_cycles` (the explicit-stack DFS of `resolver.rs`) and the
  version-keyed `cycle_cache`.

  The implementation starts a DFS from every key of a `std::collections::HashMap` in iteration
  order, which varies per process; the model takes that order as a parameter (`roots`).
-/
import PLS.Model.Index
namespace PLS

/-- the name-level graph the code builds: for every fixture name its FIRST registered
    definition, with the dependencies that are known fixture names. -/
def cyDef (ix : List Def) (n : String) : Option Def := (defsOf ix n).head?

def cyDeps (ix : List Def) (n : String) : List String :=
  match cyDef ix n with
  | none => []
  | some d => d.deps.filter (fun x => ix.any (·.name == x))

structure Dfs where
  stack : List (String × Nat × List String) := []
  recStack : List String := []
  visited : List String := []
  seen : List String := []
  cycles : List Cycle := []
  deriving Inhabited

def insertS (x : String) : List String → List String
  | [] => [x]
  | y :: ys => if x < y then x :: y :: ys else y :: insertS x ys

def cycleKey (p : List String) : String := ",".intercalate (p.dropLast.foldr insertS [])

def setInsert (l : List String) (x : String) : List String := if l.contains x then l else l ++ [x]

def indexOf? (l : List String) (x : String) : Option Nat :=
  let rec go : List String → Nat → Option Nat
    | [], _ => none
    | y :: ys, i => if y == x then some i else go ys (i + 1)
  go l 0

/-- one iteration of the `while let Some(..) = stack.pop()` loop. -/
def dfsStep (ix : List Def) (s : Dfs) : Dfs :=
  match s.stack with
  | [] => s
  | (cur, idx, path) :: rest =>
    let s := { s with stack := rest }
    -- idx == 0: first visit (the `rec_stack.contains(current)` arm is unreachable: a node is
    -- only pushed when it is neither on the recursion stack nor visited, and popped at once)
    let (s, path) :=
      if idx == 0 then ({ s with recStack := setInsert s.recStack cur }, path ++ [cur]) else (s, path)
    let deps := cyDeps ix cur
    if idx < deps.length then
      let s := { s with stack := (cur, idx + 1, path) :: s.stack }
      let dep := deps[idx]!
      if s.recStack.contains dep then
        let start := (indexOf? path dep).getD 0
        let cp := path.drop start ++ [dep]
        let key := cycleKey cp
        if s.seen.contains key then s
        else
          let s := { s with seen := s.seen ++ [key] }
          match cyDef ix dep with
          | some d => { s with cycles := s.cycles ++ [⟨cp, d⟩] }
          | none => s
      else if !s.visited.contains dep then { s with stack := (dep, 0, path) :: s.stack }
      else s
    else
      { s with visited := setInsert s.visited cur, recStack := s.recStack.filter (· != cur) }

def dfsRun (ix : List Def) : Nat → Dfs → Dfs
  | 0, s => s
  | fuel + 1, s => if s.stack.isEmpty then s else dfsRun ix fuel (dfsStep ix s)

def namesOf (ix : List Def) : List String := (ix.map (·.name)).eraseDups

/-- a bound on the number of iterations of one DFS: (number of names + 1) × (Σ over names of
    (out-degree + 2) + 1).  `Props/C12T.lean` proves the loop always ends with an empty stack within
    this many iterations, so the fuel never decides an answer. -/
def cyFuel (ix : List Def) : Nat :=
  ((namesOf ix).length + 1) * (((namesOf ix).map (fun n => (cyDeps ix n).length + 2)).sum + 1)

/-- `compute_fixture_cycles` for a given iteration order of the graph's keys. -/
def computeCycles (ix : List Def) (roots : List String) : List Cycle :=
  (roots.foldl (fun (s : Dfs) r =>
    if s.visited.contains r then s
    else
      let s := { s with stack := [(r, 0, [])], recStack := [] }
      dfsRun ix (cyFuel ix) s) {}).cycles

/-- all permutations (used only for graphs of at most six names) -/
def perms : List String → List (List String)
  | [] => [[]]
  | x :: xs => (perms xs).flatMap (fun p => (List.range (p.length + 1)).map (fun i => p.take i ++ x :: p.drop i))

namespace Index

/-- the answers `detect_fixture_cycles` can give, over all root orders (the driver keeps cases to
    at most six fixture names; beyond that every name is tried as the first root, with the others in
    registration order and in reverse - an incomplete enumeration, marked as such by the driver).
    The memo (`cycle_cache`) is keyed by the definitions version only. -/
def cyclesAlternatives (st : Index) : List (List Cycle) × Index :=
  match st.cycleCache with
  | some (ver, alts) =>
    if ver == st.version then (alts, st) else recompute st
  | none => recompute st
where
  recompute (st : Index) : List (List Cycle) × Index :=
    let names := namesOf st.defs
    -- beyond six names: every name once as the FIRST root, the others in registration order and in
    -- reverse (2n orders instead of n!)
    let orders := if names.length ≤ 6 then perms names
      else names.flatMap (fun r => [r :: names.filter (· != r), r :: (names.filter (· != r)).reverse])
    let alts := orders.map (computeCycles st.defs)
    (alts, { st with cycleCache := some (st.version, alts), cycleEpoch := st.epoch })

end Index
end PLS
