/-
  PLS.Model.Conc — the shared per-name maps (`definitions`, `usage_by_fixture`) at the
  granularity of ONE DashMap call per step, with any number of threads re-analysing files.

  One instance of this model stands for one of the two maps.  An entry is tagged by the file it
  belongs to (`Ent.file`) — `FixtureDefinition.file_path`, resp. the path component of a
  `usage_by_fixture` entry — and `tag` stands for the rest of the record.

  The three instructions are the three call shapes of `analyzer.rs`:
    retain k      `if let Some(mut v) = map.get_mut(k) { v.retain(|e| e.file != F); v.is_empty() } else { false }`
                  (cleanup_definitions_for_file step 2 / cleanup_usages_for_file)
    condRemove k  `if should_remove { map.remove_if(k, |_, v| v.is_empty()) }`   (step 3)
    push k t      `map.entry(k).or_default().push(entry)`                          (record_fixture_*)
  Each is atomic because DashMap holds the shard lock for the duration of the call / guard.
  `XInstr.remove` (an unconditional `map.remove(k)`) is NOT what the code does; it exists so the
  executable model can replay a variant of the code and so the counterexample theorem can be stated.
-/
namespace PLS.Conc


abbrev File := Nat
structure Ent where
  file : File
  tag  : Nat            -- stands for the rest of the definition
  deriving DecidableEq, Repr

abbrev Key := String
abbrev Map := Key → Option (List Ent)

inductive Instr where
  | retain (k : Key)          -- get_mut + retain(file ≠ F) ; flag := is_empty   (absent key: flag := false)
  | condRemove (k : Key)      -- if flag { remove_if(k, is_empty) }
  | push (k : Key) (t : Nat)  -- entry(k).or_default().push(⟨F,t⟩)
  deriving Repr

structure Thread where
  file : File
  flag : Bool
  prog : List Instr

def upd (m : Map) (k : Key) (v : Option (List Ent)) : Map := fun k' => if k' = k then v else m k'

@[simp] theorem upd_same (m : Map) k v : upd m k v k = v := by simp [upd]
@[simp] theorem upd_other (m : Map) k v k' (h : k' ≠ k) : upd m k v k' = m k' := by simp [upd, h]

/-- one atomic step of thread `t` (its next instruction) -/
def stepInstr (m : Map) (F : File) (flag : Bool) : Instr → Map × Bool
  | .retain k =>
    match m k with
    | none => (m, false)
    | some v => let v' := v.filter (fun e => e.file != F); (upd m k (some v'), v'.isEmpty)
  | .condRemove k =>
    if flag then
      match m k with
      | some [] => (upd m k none, flag)
      | _ => (m, flag)
    else (m, flag)
  | .push k t => (upd m k (some ((m k).getD [] ++ [⟨F, t⟩])), flag)

/-- cleanup of `olds` then registration of `news` -/
def program (olds : List Key) (news : List (Key × Nat)) : List Instr :=
  (olds.flatMap fun k => [.retain k, .condRemove k]) ++ news.map fun (k, t) => .push k t

structure Sys where
  m : Map
  ts : List Thread

/-- schedule: list of thread indices; an index whose thread is finished is a no-op -/
def stepSys (s : Sys) (i : Nat) : Sys :=
  match s.ts[i]? with
  | none => s
  | some t =>
    match t.prog with
    | [] => s
    | ins :: rest =>
      let (m', fl') := stepInstr s.m t.file t.flag ins
      { m := m', ts := s.ts.set i { t with flag := fl', prog := rest } }

def run (s : Sys) (sched : List Nat) : Sys := sched.foldl stepSys s

/-- entries under key `k`, `none` read as empty -/
def ents (m : Map) (k : Key) : List Ent := (m k).getD []


def projF (F : File) (l : List Ent) : List Ent := l.filter (fun e => e.file == F)

/-- what a thread's own steps do to its own projection -/
def lstep (F : File) (P : Key → List Ent) : Instr → (Key → List Ent)
  | .retain k => fun k' => if k' = k then [] else P k'
  | .condRemove _ => P
  | .push k t => fun k' => if k' = k then P k' ++ [⟨F, t⟩] else P k'

def lrun (F : File) (P : Key → List Ent) (p : List Instr) : Key → List Ent := p.foldl (lstep F) P

theorem ents_upd_same (m : Map) k v : ents (upd m k v) k = v.getD [] := by simp [ents]
theorem ents_upd_other (m : Map) k v k' (h : k' ≠ k) : ents (upd m k v) k' = ents m k' := by
  simp [ents, upd, h]


/-! ### executable extension used by the driver and by the counterexample -/

inductive XInstr where
  | base (i : Instr)
  | remove (k : Key)          -- `if flag { map.remove(k) }` — unconditional removal
  deriving Repr

def stepX (m : Map) (F : File) (flag : Bool) : XInstr → Map × Bool
  | .base i => stepInstr m F flag i
  | .remove k => if flag then (upd m k none, flag) else (m, flag)

structure XThread where
  file : File
  flag : Bool
  prog : List XInstr

structure XSys where
  m : Map
  ts : List XThread

def stepXSys (s : XSys) (i : Nat) : XSys :=
  match s.ts[i]? with
  | none => s
  | some t =>
    match t.prog with
    | [] => s
    | ins :: rest =>
      let (m', fl') := stepX s.m t.file t.flag ins
      { m := m', ts := s.ts.set i { t with flag := fl', prog := rest } }

def runX (s : XSys) (sched : List Nat) : XSys := sched.foldl stepXSys s

end PLS.Conc
