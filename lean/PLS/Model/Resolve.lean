/-
  PLS.Model.Resolve — the pure query core of `src/fixtures/resolver.rs`, mirrored one for one.

  `ix : List Def` is the content of the `definitions` map as ONE list in registration order
  (`definitions[n] = ix.filter (·.name == n)`: inside a name the only order the code can observe
  is push order). What the resolver consults besides definitions is passed in as oracles:

  * `imp c n`  — "conftest `c` exists (on disk or in `file_cache`) and `n ∈ get_imported_fixtures c`"
  * `cached c` / `imported c` for `compute_available_fixtures` (which tests `file_cache` only).

  The stateful layer (`Index.lean`) instantiates the oracles; theorems quantify over all of them.
-/
import PLS.Model.Basic
namespace PLS

/-- `definitions.get(n)` as a vector in push order. -/
def defsOf (ix : List Def) (n : String) : List Def := ix.filter (fun d => d.name == n)

/-- `Iterator::max_by_key(|d| d.line)`: the LAST element among those with maximal line. -/
def maxByLine : List Def → Option Def
  | [] => none
  | d :: ds => match maxByLine ds with
    | none => some d
    | some e => if e.line < d.line then some d else some e

/-- The conftest walk of `find_closest_definition_with_filter` for one name. -/
def walkUp (ds : List Def) (filt : Def → Bool) (imp : Path → Bool) : List Path → Option Def
  | [] => none
  | dir :: rest =>
    match ds.find? (fun d => d.file == conftestOf dir && filt d) with
    | some d => some d
    | none =>
      if imp (conftestOf dir) then
        match ds.find? filt with
        | some d => some d
        | none => walkUp ds filt imp rest
      else walkUp ds filt imp rest

/-- `find_closest_definition_with_filter`. -/
def resolveF (ix : List Def) (imp : Path → String → Bool) (f : Path) (n : String)
    (filt : Def → Bool) : Option Def :=
  let ds := defsOf ix n
  match maxByLine (ds.filter (fun d => d.file == f && filt d)) with
  | some d => some d
  | none =>
    match walkUp ds filt (fun c => imp c n) (ancestorsOfDir (dirOf f)) with
    | some d => some d
    | none =>
      match ds.find? (fun d => d.plugin && !d.thirdParty && filt d) with
      | some d => some d
      | none => ds.find? (fun d => d.thirdParty && filt d)

/-- `find_closest_definition`. -/
def resolve (ix : List Def) (imp : Path → String → Bool) (f : Path) (n : String) : Option Def :=
  resolveF ix imp f n (fun _ => true)

/-- `find_closest_definition_excluding(…, Some(ex))` (`def != excluded`, full record equality). -/
def resolveExcl (ix : List Def) (imp : Path → String → Bool) (f : Path) (n : String) (ex : Def) :
    Option Def :=
  resolveF ix imp f n (fun d => d != ex)

/-- `get_enclosing_definition_named`: the first definition named `n` in file `f` whose function
    spans `line` — signature lines included, so a parameter on a later line of a wrapped signature
    is found too (since the E8 repair; before: the definition whose `def` line is `line`). -/
def ownDefAt (ix : List Def) (f : Path) (line : Nat) (n : String) : Option Def :=
  (defsOf ix n).find? (fun d => d.file == f && d.line ≤ line && line ≤ d.endLine)

/-- How one recorded usage is resolved by navigation, references and the CLI alike: a usage of a
    fixture's own name inside that fixture's lines resolves *outward* (that definition excluded). -/
def resolveUsage (ix : List Def) (imp : Path → String → Bool) (u : Usage) : Option Def :=
  match ownDefAt ix u.file u.line u.name with
  | some c => resolveExcl ix imp u.file u.name c
  | none => resolve ix imp u.file u.name

/-- The usage of `f` selected by a cursor (`find_fixture_definition`'s loop): first usage on the
    line, named like the word under the cursor, whose span contains the column. -/
def usageAt (us : List Usage) (line : Nat) (word : String) (col : Nat) : Option Usage :=
  us.find? (fun u => u.line == line && u.name == word && u.startChar ≤ col && col < u.endChar)

/-- `find_fixture_definition` once the line text has yielded `word` (`none` ⇒ answer `none`). -/
def gotoWith (ix : List Def) (imp : Path → String → Bool) (us : List Usage)
    (line0 : Nat) (col : Nat) (word : Option String) : Option Def :=
  match word with
  | none => none
  | some w =>
    match usageAt us (line0 + 1) w col with
    | none => none
    | some u => resolveUsage ix imp u

/-- `find_fixture_at_position` once the line text has yielded `word`: a usage span under the
    cursor wins; otherwise a fixture defined on that line whose name is the word under the cursor. -/
def fixtureAtWith (ix : List Def) (us : List Usage) (f : Path) (line0 col : Nat)
    (word : Option String) : Option String :=
  match us.find? (fun u => u.line == line0 + 1 && u.startChar ≤ col && col < u.endChar) with
  | some u => some u.name
  | none =>
    match word with
    | none => none
    | some w =>
      if ix.any (fun d => d.file == f && d.line == line0 + 1 && d.name == w) then some w else none

/-- `find_references_for_definition` over `usage_by_fixture` (`ubf`, global push order). -/
def refsFor (ix : List Def) (imp : Path → String → Bool) (ubf : List Usage) (D : Def) : List Usage :=
  (ubf.filter (fun u => u.name == D.name)).filter (fun u => resolveUsage ix imp u == some D)

/-- `find_fixture_references` (by name, over `usages`). -/
def refsByName (allUsages : List Usage) (n : String) : List Usage :=
  allUsages.filter (fun u => u.name == n)

/-! ### `compute_available_fixtures` -/

def availWalk (ds : List Def) (cachedImp : Path → Bool) : List Path → Option Def
  | [] => none
  | dir :: rest =>
    match ds.find? (fun d => d.file == conftestOf dir) with
    | some d => some d
    | none =>
      if cachedImp (conftestOf dir) then
        match ds.head? with
        | some d => some d
        | none => availWalk ds cachedImp rest
      else availWalk ds cachedImp rest

/-- the entry `compute_available_fixtures` produces for name `n`: the LAST definition in the file
    itself (since 48a0862), else the first match per class. -/
def availPick (ix : List Def) (cimp : Path → String → Bool) (f : Path) (n : String) : Option Def :=
  let ds := defsOf ix n
  match maxByLine (ds.filter (fun d => d.file == f)) with
  | some d => some d
  | none =>
    match availWalk ds (fun c => cimp c n) (ancestorsOfDir (dirOf f)) with
    | some d => some d
    | none =>
      match ds.find? (fun d => d.plugin && !d.thirdParty) with
      | some d => some d
      | none => ds.find? (fun d => d.thirdParty)

def insertByName (d : Def) : List Def → List Def
  | [] => [d]
  | e :: es => if d.name < e.name then d :: e :: es else e :: insertByName d es

def sortByName (l : List Def) : List Def := l.foldr insertByName []

/-- the distinct names of a list (order irrelevant: the result is sorted afterwards) -/
def dedup : List String → List String
  | [] => []
  | x :: xs => if xs.contains x then dedup xs else x :: dedup xs

/-- `compute_available_fixtures`: one entry per name, sorted by name. -/
def available (ix : List Def) (cimp : Path → String → Bool) (f : Path) : List Def :=
  sortByName ((dedup (ix.map (·.name))).filterMap (fun n => availPick ix cimp f n))

/-! ### `resolve_fixture_for_file` (call hierarchy) -/

/-- the `best_conftest` loop: among non-third-party definitions living in a `conftest.py` whose
    directory is an ancestor of `f`, the one with the deepest directory; the first on ties. -/
def rffConftest (f : Path) (best : Option Def) : List Def → Option Def
  | [] => best
  | d :: ds =>
    if !d.thirdParty && isConftestName d.file && pathStartsWith f (dirOf d.file) then
      match best with
      | none => rffConftest f (some d) ds
      | some b => if (dirOf b.file).length < (dirOf d.file).length then rffConftest f (some d) ds
                  else rffConftest f best ds
    else rffConftest f best ds

def resolveForFile (ix : List Def) (f : Path) (n : String) : Option Def :=
  let ds := defsOf ix n
  if ds.isEmpty then none else
  match ds.find? (fun d => d.file == f) with
  | some d => some d
  | none =>
    match rffConftest f none ds with
    | some d => some d
    | none =>
      match ds.find? (fun d => d.plugin && !d.thirdParty) with
      | some d => some d
      | none =>
        match ds.find? (fun d => d.thirdParty) with
        | some d => some d
        | none => ds.head?

/-! ### `is_available_fixture` (undeclared-fixture scan) -/

def isAvailableFixture (ix : List Def) (f : Path) (n : String) : Bool :=
  (defsOf ix n).any (fun d =>
    d.file == f || (isConftestName d.file && pathStartsWith f (dirOf d.file)) || d.thirdParty || d.plugin)

/-! ### scope mismatches (`detect_scope_mismatches_in_file`) -/

/-- for every fixture *name* defined in `f` (via `file_definitions[f]`), the first definition of
    that name in `f`; each dependency is the definition `res` selects for it (since the E14
    repair: resolution from the fixture's file, see `scopeRes`; before: `definitions[dep].first()`). -/
def mismatchesIn (ix : List Def) (res : Def → String → Option Def) (fileDefNames : List String) (f : Path) :
    List (Def × Def) :=
  fileDefNames.flatMap (fun n =>
    match (defsOf ix n).find? (fun d => d.file == f) with
    | none => []
    | some fd =>
      fd.deps.filterMap (fun dep =>
        match res fd dep with
        | none => none
        | some dd => if dd.scope < fd.scope then some (fd, dd) else none))

/-- the definition the scope check compares fixture `fd` (in file `f`) with for its dependency
    `dep`: what `find_closest_definition` selects from `f` — for the fixture's own name, the
    definition it overrides (`find_closest_definition_excluding`). -/
def scopeRes (ix : List Def) (imp : Path → String → Bool) (f : Path) (fd : Def) (dep : String) : Option Def :=
  if dep == fd.name then resolveExcl ix imp f dep fd else resolve ix imp f dep

/-! ### CLI: `compute_definition_usage_counts`, `get_unused_fixtures` -/

/-- number of recorded usages whose resolution lands on a definition in `file` named `n`
    (keys are `(file, name)`, so same-named definitions of one file share a counter). -/
def cliCount (ix : List Def) (imp : Path → String → Bool) (allUsages : List Usage)
    (file : Path) (n : String) : Nat :=
  (allUsages.filter (fun u =>
    match resolveUsage ix imp u with
    | some d => d.file == file && u.name == n
    | none => false)).length

/-- entries of `get_unused_fixtures` before sorting: one per *definition* (duplicates kept). -/
def unusedRaw (ix : List Def) (imp : Path → String → Bool) (allUsages : List Usage) :
    List (Path × String) :=
  (ix.filter (fun d => !d.thirdParty && !d.autouse && cliCount ix imp allUsages d.file d.name == 0)).map
    (fun d => (d.file, d.name))

end PLS

namespace PLS

/-! ### state-threading variants

`is_fixture_imported_in_file` memoises (`imported_fixtures_cache`), so the implementation's walk
threads a state.  `walkUpM`/`resolveFM` mirror that literally; `Lemmas/Bridge.lean` shows that
their answer is the pure `walkUp`/`resolveF` answer for the oracle "what the import test said
during this walk", so every theorem stated for all oracles covers them. -/

def walkUpM {σ : Type} (ds : List Def) (filt : Def → Bool) (impM : Path → σ → Bool × σ) :
    List Path → σ → Option Def × σ
  | [], s => (none, s)
  | dir :: rest, s =>
    match ds.find? (fun d => d.file == conftestOf dir && filt d) with
    | some d => (some d, s)
    | none =>
      match impM (conftestOf dir) s with
      | (true, s') =>
        match ds.find? filt with
        | some d => (some d, s')
        | none => walkUpM ds filt impM rest s'
      | (false, s') => walkUpM ds filt impM rest s'

def resolveFM {σ : Type} (ix : List Def) (impM : String → Path → σ → Bool × σ) (f : Path)
    (n : String) (filt : Def → Bool) (s : σ) : Option Def × σ :=
  let ds := defsOf ix n
  match maxByLine (ds.filter (fun d => d.file == f && filt d)) with
  | some d => (some d, s)
  | none =>
    match walkUpM ds filt (impM n) (ancestorsOfDir (dirOf f)) s with
    | (some d, s') => (some d, s')
    | (none, s') =>
      match ds.find? (fun d => d.plugin && !d.thirdParty && filt d) with
      | some d => (some d, s')
      | none => (ds.find? (fun d => d.thirdParty && filt d), s')

def resolveUsageM {σ : Type} (ix : List Def) (impM : String → Path → σ → Bool × σ) (u : Usage)
    (s : σ) : Option Def × σ :=
  match ownDefAt ix u.file u.line u.name with
  | some c => resolveFM ix impM u.file u.name (fun d => d != c) s
  | none => resolveFM ix impM u.file u.name (fun _ => true) s

end PLS
