/-
  PLS.Model.Completion — `get_completion_context` (AST path and the text fallback that also runs
  for valid documents whenever the AST path finds no context), `get_function_param_insertion_info`,
  and the decision logic of the completion / code-action handlers.
-/
import PLS.Generated
import PLS.Model.Index
namespace PLS

inductive Ctx where
  | signature (fn : String) (fnLine : Nat) (isFixture : Bool) (declared : List String) (scope : Option Scope)
  | body (fn : String) (fnLine : Nat) (isFixture : Bool) (declared : List String) (scope : Option Scope)
  | usefixtures
  | parametrize
  deriving DecidableEq, Repr, Inhabited

/-! ### AST path -/

/-- `cursor_inside_usefixtures_call`. -/
def cursorInUsefixturesCall (target : Nat) : Expr → Bool
  | .call f _ _ _ r => isUsefixtures f && r.line ≤ target && target ≤ r.endLine
  | .list elts _ => go elts
  | .tuple elts _ => go elts
  | _ => false
where
  go : List Expr → Bool
    | [] => false
    | e :: es => cursorInUsefixturesCall target e || go es

def decoCtx (target : Nat) : List Expr → Option Ctx
  | [] => none
  | d :: ds =>
    if d.range.line ≤ target && target ≤ d.range.endLine then
      if isUsefixtures d then some .usefixtures
      else if isIndirectParametrize d then some .parametrize
      else decoCtx target ds
    else decoCtx target ds

mutual
  /-- `check_decorator_context` for one statement. -/
  def decoratorCtxStmt (target : Nat) : Stmt → Option Ctx
    | .funcDef _ _ decos _ _ _ _ => decoCtx target decos
    | .classDef _ decos body _ =>
      (decoCtx target decos).orElse (fun _ => decoratorCtx target body)
    | .assign ts v r =>
      if ts.any (isNameNamed "pytestmark") && r.line ≤ target && target ≤ r.endLine &&
          cursorInUsefixturesCall target v then some .usefixtures else none
    | .annAssign t (some v) r =>
      if isNameNamed "pytestmark" t && r.line ≤ target && target ≤ r.endLine &&
          cursorInUsefixturesCall target v then some .usefixtures else none
    | _ => none
  def decoratorCtx (target : Nat) : List Stmt → Option Ctx
    | [] => none
    | s :: ss => (decoratorCtxStmt target s).orElse (fun _ => decoratorCtx target ss)
end

/-- `find_signature_end_line`. -/
def signatureEndLine (lines : List Chars) (startLine : Nat) (args : Args) (returns : Option Expr)
    (body : List Stmt) : Nat :=
  let argEnds := (args.args ++ args.posonly ++ args.kwonly).map (·.endLine) ++
    (match args.vararg with | some a => [a.endLine] | none => []) ++
    (match args.kwarg with | some a => [a.endLine] | none => [])
  -- offsets are compared in the implementation; the LINE of the maximal offset is the maximal line
  let lastSig : Option Nat :=
    (match returns with | some r => [r.range.endLine] | none => []) ++ argEnds |>.foldl
      (fun m l => match m with | none => some l | some x => some (max x l)) none
  let lastSigLine := lastSig.getD startLine
  let firstBody := body.head?.map (·.range.line)
  let scanEnd := min (min (firstBody.getD (lastSigLine + 10)) (lastSigLine + 10)) lines.length
  let scanStart := lastSigLine - 1
  match (List.range (scanEnd - scanStart)).find? (fun k =>
      match lines[scanStart + k]? with
      | some l => (trim l).getLast? == some ':'
      | none => false) with
  | some k => scanStart + k + 1
  | none =>
    match firstBody with
    | some b => max (b - 1) startLine
    | none => startLine

/-- `get_func_context`. -/
def funcCtx (lines : List Chars) (target : Nat) (name : String) (decos : List Expr) (args : Args)
    (returns : Option Expr) (body : List Stmt) (r : Range) : Option Ctx :=
  if target < r.line || target > r.endLine then none else
  let isFixture := decos.any isFixtureDecorator
  let isTest := name.startsWith "test_"
  if !isTest && !isFixture then none else
  let scope : Option Scope :=
    if isFixture then some ((decos.findSome? fixtureScopeOf).getD .function) else none
  let params := args.all.map (·.name)
  let sigEnd := signatureEndLine lines r.line args returns body
  if target ≤ sigEnd then some (.signature name r.line isFixture params scope)
  else some (.body name r.line isFixture params scope)

mutual
  /-- `get_function_completion_context`. -/
  def functionCtxStmt (lines : List Chars) (target : Nat) : Stmt → Option Ctx
    | .funcDef _ name decos args returns body r => funcCtx lines target name decos args returns body r
    | .classDef _ _ body _ => functionCtx lines target body
    | _ => none
  def functionCtx (lines : List Chars) (target : Nat) : List Stmt → Option Ctx
    | [] => none
    | s :: ss => (functionCtxStmt lines target s).orElse (fun _ => functionCtx lines target ss)
end

/-! ### text fallback -/

def cstarts (pre : String) (l : Chars) : Bool := pre.toList.isPrefixOf l

/-- `has_fixture_decorator_above(lines, def_idx)`: `fuel` = `def_idx` bounds the upward scan. -/
def hasFixtureDecoratorAbove (lines : List Chars) : Nat → Bool
  | 0 => false
  | i + 1 =>
    match lines[i]? with
    | none => false
    | some l =>
      let t := trim l
      if t.isEmpty then hasFixtureDecoratorAbove lines i
      else if t.head? == some '@' then
        if Index.containsSub "pytest.fixture".toList t || cstarts "@fixture" t then true
        else hasFixtureDecoratorAbove lines i
      else false

/-- the text between `pat` and the next `quote` in `t` (first occurrence of `pat`) -/
def afterPattern (pat : String) (quote : Char) (t : Chars) : Option Chars :=
  match bfind pat.toList t with
  | none => none
  | some pos =>
    match bsliceFrom t (pos + pat.utf8ByteSize) with
    | none => none
    | some rest => if rest.contains quote then some (rest.takeWhile (· != quote)) else none

/-- `extract_fixture_scope_from_text`. The result `some none` means "a `scope=` text was found
    but does not name a scope" (the function returns `FixtureScope::parse(..)` = `None` then). -/
def fixtureScopeFromText (lower : String → String) (lines : List Chars) : Nat → Option (Option Scope)
  | 0 => none
  | i + 1 =>
    match lines[i]? with
    | none => none
    | some l =>
      let t := trim l
      if t.isEmpty then fixtureScopeFromText lower lines i
      else if t.head? == some '@' then
        match afterPattern "scope=\"" '"' t with
        | some s => some (Scope.parseLower (lower (String.ofList s)))
        | none =>
          match afterPattern "scope='" '\'' t with
          | some s => some (Scope.parseLower (lower (String.ofList s)))
          | none => fixtureScopeFromText lower lines i
      else none

def parenDelta (l : Chars) : Int :=
  l.foldl (fun d ch => if ch == '(' then d + 1 else if ch == ')' then d - 1 else d) 0

/-- `rfind(')')` / `find('(')` as CHARACTER offsets are enough: only their adjacency is used -/
def lastIndexOf (c : Char) (l : Chars) : Option Nat :=
  (List.range l.length).reverse.find? (fun i => l[i]? == some c)

def firstIndexOf (c : Char) (l : Chars) : Option Nat :=
  (List.range l.length).find? (fun i => l[i]? == some c)

/-- `get_usefixtures_context_from_text`: scan at most 10 lines upward from the cursor line.
    `k` counts how many lines have been stepped (recursion on the remaining budget). -/
def usefixturesCtxFromText (lines : List Chars) (cursor : Nat) : Nat → Nat → Option Ctx
  | _, 0 => none
  | i, budget + 1 =>
    match lines[i]? with
    | none => none
    | some line =>
      let here : Option (Option Ctx) :=
        match bfind "usefixtures(".toList line with
        | none => none
        | some pos =>
          match bsliceFrom line pos with
          | none => none
          | some tail =>
            let depth := parenDelta tail +
              ((List.range (cursor - i)).foldl (fun d k => d + parenDelta ((lines[i + 1 + k]?).getD [])) 0)
            if depth > 0 then some (some .usefixtures)
            else if i == cursor && depth == 0 then
              match lastIndexOf ')' tail with
              | some close =>
                let open_ := (firstIndexOf '(' tail).getD 0
                if close == open_ + 1 then some (some .usefixtures) else some none
              | none => some (some .usefixtures)
            else none
      match here with
      | some r => r
      | none =>
        if i == 0 || i ≤ cursor - 10 then none
        else usefixturesCtxFromText lines cursor (i - 1) budget

/-- backward scan (at most 50 lines) for a `def` / `async def` line -/
def findDefLine (lines : List Chars) (cursor : Nat) : Nat → Nat → Option Nat
  | _, 0 => none
  | i, budget + 1 =>
    match lines[i]? with
    | none => none
    | some l =>
      let t := trim l
      if cstarts "def " t || cstarts "async def " t then some i
      else if i == 0 || i ≤ cursor - 50 then none
      else findDefLine lines cursor (i - 1) budget

structure ParenScan where
  depth : Int := 0
  foundOpen : Bool := false
  sigClosed : Bool := false
  deriving Inhabited

def scanLineParens (isCursorLine : Bool) (s : ParenScan) (l : Chars) : ParenScan :=
  l.foldl (fun s ch =>
    if ch == '(' then
      let d := s.depth + 1
      { s with depth := d, foundOpen := s.foundOpen || d == 1 }
    else if ch == ')' then
      let d := s.depth - 1
      { s with depth := d, sigClosed := s.sigClosed || (d == 0 && s.foundOpen && !isCursorLine) }
    else s) s

/-- the characters between the first `(` and the first `)` after it, lines joined by a space while
    the parenthesis is open -/
def paramText (ls : List Chars) : Chars :=
  (ls.foldl (fun (acc : Chars × Bool × Bool) l =>
    let (txt, pastOpen, pastClose) := l.foldl (fun (a : Chars × Bool × Bool) ch =>
      let (txt, po, pc) := a
      if pc then a
      else if po then (if ch == ')' then (txt, po, true) else (txt ++ [ch], po, pc))
      else if ch == '(' then (txt, true, pc) else a) acc
    (if pastOpen && !pastClose then txt ++ [' '] else txt, pastOpen, pastClose)) ([], false, false)).1

def splitOnComma (s : Chars) : List Chars :=
  let rec go : Chars → Chars → List Chars
    | [], cur => [cur.reverse]
    | c :: cs, cur => if c == ',' then cur.reverse :: go cs [] else go cs (c :: cur)
  go s []

/-- `get_completion_context_from_text`. -/
def ctxFromText (lower : String → String) (content : Chars) (target : Nat) : Option Ctx :=
  let lines := linesOf content ++ (if content.getLast? == some '\n' then [[]] else [])
  if target == 0 || target > lines.length then none else
  let cursor := target - 1
  match usefixturesCtxFromText lines cursor cursor (cursor + 1) with
  | some c => some c
  | none =>
    match findDefLine lines cursor cursor (cursor + 1) with
    | none => none
    | some di =>
      let dl := trim ((lines[di]?).getD [])
      let rest := if cstarts "async def " dl then dl.drop 10 else dl.drop 4
      let fn := rest.takeWhile isWordChar
      if fn.isEmpty then none else
      let fname := String.ofList fn
      let isTest := fname.startsWith "test_"
      let isFixture := hasFixtureDecoratorAbove lines di
      if !isTest && !isFixture then none else
      let span := (lines.drop di).take (cursor - di + 1)
      let sc := (List.range span.length).foldl (fun s k =>
        scanLineParens (di + k == cursor) s ((span[k]?).getD [])) ({} : ParenScan)
      let insideParens := sc.foundOpen && sc.depth > 0
      if sc.sigClosed && !insideParens then none else
      let declared := if sc.foundOpen then
          ((splitOnComma (paramText span)).map (fun p => String.ofList ((trim p).takeWhile isWordChar))).filter (· != "")
        else []
      let scope : Option Scope :=
        if isFixture then
          some (match fixtureScopeFromText lower lines di with
            | some (some s) => s
            | some none => .function
            | none => .function)
        else none
      some (.signature fname (di + 1) isFixture declared scope)

namespace Index

/-- `get_completion_context`. -/
def completionContext (lower : String → String) (st : Index) (f : Path) (line0 : Nat) : Option Ctx :=
  match st.content f with
  | none => none
  | some v =>
    let target := line0 + 1
    let lines := linesOf v.text.toList
    -- a document that parses is judged by its AST alone; the text heuristics are for documents
    -- that do not parse (since the repair of the fallback-on-valid-document finding)
    match v.parsed with
    | some fr => (decoratorCtx target fr.body).orElse (fun _ => functionCtx lines target fr.body)
    | none => ctxFromText lower v.text.toList target

/-- `get_function_param_insertion_info`: first line within ten of the function line containing
    `"):"`; returns (line, byte column of `)`, needs_comma). -/
def paramInsertion (st : Index) (f : Path) (fnLine : Nat) : Option (Nat × Nat × Bool) :=
  match st.content f with
  | none => none
  | some v =>
    let lines := linesOf v.text.toList
    let start := fnLine - 1
    let stop := min lines.length (fnLine + 10)
    (List.range (stop - start)).findSome? (fun k =>
      let i := start + k
      match lines[i]? with
      | none => none
      | some line =>
        match bfind "):".toList line with
        | none => none
        | some pp =>
          let hasParams : Bool :=
            match bfind "(".toList line with
            | some op =>
              if op < pp then
                match bsliceFrom line (op + 1) with
                | some after => !(isBlank ((bsliceTo after (pp - op - 1)).getD []))
                | none => true
              else true
            | none =>
              if !(isBlank ((bsliceTo line pp).getD [])) then true
              else
                -- look at the lines from the function line up to (excluding) this one
                ((List.range (i - start)).findSome? (fun j =>
                  match lines[start + j]? with
                  | none => none
                  | some prev =>
                    match bfind "(".toList prev with
                    | some op =>
                      match bsliceFrom prev (op + 1) with
                      | some after => if !(isBlank after) then some true else none
                      | none => none
                    | none => if !(isBlank prev) then some true else none)).getD false
          some (i + 1, pp, hasParams))

/-! ### handler decision logic (`completion.rs`, `code_action.rs`) -/

def sortPriority (d : Def) (current : Path) : Nat :=
  if d.file == current then 0 else if d.thirdParty then 3 else if d.plugin then 2 else 1

def fixtureDetailText (d : Def) : String :=
  " ".intercalate ((if d.scope != .function then ["(" ++ d.scope.asStr ++ ")"] else []) ++
    (if d.thirdParty then ["[third-party]"] else if d.plugin then ["[plugin]"] else []))

/-- `is_fixture_excluded`. -/
def excluded (d : Def) (declared : Option (List String)) (current : Option String) (scope : Option Scope) : Bool :=
  Generated.excludedParamNames.contains d.name ||
  (match current with | some n => d.name == n | none => false) ||
  (match declared with | some ps => ps.contains d.name | none => false) ||
  (match scope with | some s => decide (d.scope < s) | none => false)

structure Item where
  label : String
  sortText : String
  detail : String
  insertText : String
  kindText : Bool            -- TEXT (string contexts) vs VARIABLE
  edit : Option (Nat × Nat × String)   -- additionalTextEdits: (line0, char, text)
  origin : Def               -- the definition the item documents (`format_fixture_documentation`)
  deriving Repr, Inhabited

/-- `handle_completion`. -/
def hCompletion (lower : String → String) (st : Index) (f : Path) (line0 : Nat) (comma : Bool) :
    Option (List Item) × Index :=
  let pre := if comma then " " else ""
  match st.completionContext lower f line0 with
  | none => (none, st)
  | some ctx =>
    let (avail, st) := st.availableSt f
    let mk (d : Def) (isText : Bool) (edit : Option (Nat × Nat × String)) : Item :=
      { label := d.name, sortText := toString (sortPriority d f) ++ "_" ++ d.name,
        detail := fixtureDetailText d, insertText := pre ++ d.name, kindText := isText, edit := edit, origin := d }
    match ctx with
    | .signature fn _ isFx declared scope =>
      (some ((avail.filter (fun d => !excluded d (some declared) (if isFx then some fn else none) scope)).map
        (fun d => mk d false none)), st)
    | .body fn fnLine isFx declared scope =>
      let ins := st.paramInsertion f fnLine
      (some ((avail.filter (fun d => !excluded d (some declared) (if isFx then some fn else none) scope)).map
        (fun d => mk d false (ins.map (fun i => (i.1 - 1, i.2.1, if i.2.2 then ", " ++ d.name else d.name))))), st)
    | _ =>
      (some ((avail.filter (fun d => !excluded d none none none)).map (fun d => mk d true none)), st)

/-- `handle_code_action` for one diagnostic at `(line0, char)`: (title, line0, char, new text). -/
def hCodeAction (st : Index) (f : Path) (diagLine0 diagChar : Nat) : Option (String × Nat × Nat × String) :=
  match ((alookup st.undeclared f).getD []).find? (fun u => u.line == diagLine0 + 1 && u.startChar == diagChar) with
  | none => none
  | some u =>
    match st.content f with
    | none => none
    | some v =>
      let fl0 := u.functionLine - 1
      match (linesOf v.text.toList)[fl0]? with
      | none => none
      | some line =>
        match bfind "):".toList line with
        | none => none
        | some pp =>
          let before := (bsliceTo line pp).getD []
          if !before.contains '(' then none else
          match bfind "(".toList line with
          | none => none
          | some op =>
            let paramStart := op + 1
            -- `&func_line_content[param_start..paren_pos]`
            let sect := match bsliceFrom line paramStart with
              | some a => (bsliceTo a (pp - paramStart)).getD []
              | none => []
            let pos := if isBlank sect then paramStart else pp
            -- `[..paren_pos].split('(').next_back()`: text after the LAST `(` before `):`
            let lastSeg := (before.reverse.takeWhile (· != '(')).reverse
            let hasParams := !(isBlank lastSeg)
            some ("Add '" ++ u.name ++ "' fixture parameter", fl0, pos,
              if hasParams then ", " ++ u.name else u.name)

end Index
end PLS
