/-
  PLS.Model.Basic — data carried by the fixture index (mirror of `src/fixtures/types.rs`)
  and the path vocabulary used by every resolver.

  Core Lean only. Paths are lists of components; the workspace root of a case is `[]`
  (the implementation walks further up to `/`, where the harness guarantees nothing exists).
-/
namespace PLS

abbrev Path := List String

/-- `FixtureScope` with the discriminant order of `types.rs` (checked against
    `Generated.scopeTable` in `Props/Tables.lean`). -/
inductive Scope where
  | function | cls | module | package | session
  deriving DecidableEq, Repr, Inhabited

def Scope.rank : Scope → Nat
  | .function => 0 | .cls => 1 | .module => 2 | .package => 3 | .session => 4

def Scope.asStr : Scope → String
  | .function => "function" | .cls => "class" | .module => "module"
  | .package => "package" | .session => "session"

/-- `FixtureScope::parse` after `to_lowercase` (the driver lower-cases ASCII; see Analyze). -/
def Scope.parseLower : String → Option Scope
  | "function" => some .function | "class" => some .cls | "module" => some .module
  | "package" => some .package | "session" => some .session | _ => none

def Scope.all : List Scope := [.function, .cls, .module, .package, .session]

instance : LT Scope := ⟨fun a b => a.rank < b.rank⟩
instance : LE Scope := ⟨fun a b => a.rank ≤ b.rank⟩
instance (a b : Scope) : Decidable (a < b) := inferInstanceAs (Decidable (a.rank < b.rank))
instance (a b : Scope) : Decidable (a ≤ b) := inferInstanceAs (Decidable (a.rank ≤ b.rank))

/-- `FixtureDefinition`, field for field. -/
structure Def where
  name : String
  file : Path
  line : Nat
  endLine : Nat
  startChar : Nat
  endChar : Nat
  docstring : Option String
  returnType : Option String
  thirdParty : Bool
  plugin : Bool
  deps : List String
  scope : Scope
  yieldLine : Option Nat
  autouse : Bool
  deriving DecidableEq, Repr, Inhabited

/-- `FixtureUsage`. -/
structure Usage where
  name : String
  file : Path
  line : Nat
  startChar : Nat
  endChar : Nat
  deriving DecidableEq, Repr, Inhabited

/-- `UndeclaredFixture`. -/
structure Undeclared where
  name : String
  file : Path
  line : Nat
  startChar : Nat
  endChar : Nat
  functionName : String
  functionLine : Nat
  deriving DecidableEq, Repr, Inhabited

/-! ### paths -/

/-- `Path::parent` of a file or directory. -/
def dirOf (f : Path) : Path := f.dropLast

/-- `dir.join("conftest.py")`. -/
def conftestOf (dir : Path) : Path := dir ++ ["conftest.py"]

/-- The directories visited by the resolver's upward walk, nearest first:
    `dir, parent(dir), …, []`. -/
def ancestorsOfDir (d : Path) : List Path :=
  (List.range (d.length + 1)).reverse.map (fun k => d.take k)

/-- Rust's `Path::starts_with` (component-wise prefix). -/
def pathStartsWith (p pre : Path) : Bool := pre.isPrefixOf p

def isConftestName (f : Path) : Bool := f.getLast? == some "conftest.py"

end PLS
