/-
  PLS.Model.Index — the `FixtureDatabase` as a state machine: the shared maps, the caches with
  their version counter, `analyze_file[_fresh]`, `cleanup_file_cache`, module resolution,
  `get_imported_fixtures` (memoised, with its `visited` cut), and the stateful queries.

  Maps are association lists.  `definitions` is ONE list in registration order (see Resolve);
  `usage_by_fixture` likewise.  The file system is part of the state (`disk`, `dirs`): resolution
  consults `exists()` / `is_dir()`.
-/
import PLS.Model.Resolve
import PLS.Model.Analyze
namespace PLS

/-! ### association lists -/

def alookup {β} (l : List (Path × β)) (k : Path) : Option β :=
  (l.find? (fun p => p.1 == k)).map (·.2)

def aerase {β} (l : List (Path × β)) (k : Path) : List (Path × β) :=
  l.filter (fun p => p.1 != k)

def ainsert {β} (l : List (Path × β)) (k : Path) (v : β) : List (Path × β) :=
  aerase l k ++ [(k, v)]

def ahas {β} (l : List (Path × β)) (k : Path) : Bool := l.any (fun p => p.1 == k)

/-- one text of a file together with what a parse of it yields (`none` = unparsable). -/
structure Version where
  text : String
  parsed : Option FileRec
  /-- for a cached text that does not parse: what the last version of the file that did parse
      contributes (the AST that stays in `ast_cache`); only its imports are read -/
  carried : Option FileRec := none
  deriving Repr, Inhabited

/-- the record a file's IMPORTS are read from: the text's own when it parses, else the one carried
    over from the last version that did -/
def Version.effRec (v : Version) : Option FileRec :=
  match v.parsed with
  | some fr => some fr
  | none => v.carried

structure Cycle where
  path : List String
  fixture : Def
  deriving Repr, Inhabited

structure Index where
  defs : List Def := []
  fileDefs : List (Path × List String) := []
  usages : List (Path × List Usage) := []
  ubf : List Usage := []
  cache : List (Path × Version) := []
  undeclared : List (Path × List Undeclared) := []
  modNames : List (Path × List String) := []
  version : Nat := 0
  availCache : List (Path × (Nat × List Def)) := []
  /-- `cycle_cache`: the version it was computed at and every answer the (hash-ordered) DFS could
      have produced then -/
  cycleCache : Option (Nat × List (List Cycle)) := none
  /-- GHOST (not in the implementation): counts successful analyses; lets the driver say whether a
      version-keyed memo hit is stale (`definitions_version` is bumped only when a definition is
      recorded, not when one is removed). -/
  epoch : Nat := 0
  /-- GHOST: epoch at which each memo entry was stored -/
  availEpoch : List (Path × Nat) := []
  cycleEpoch : Nat := 0
  /-- `imported_fixtures_cache`: (content — standing for its hash —, version, names). -/
  impCache : List (Path × (String × Nat × List String)) := []
  pluginFiles : List Path := []
  /-- files on disk -/
  disk : List (Path × Version) := []
  /-- directories on disk -/
  dirs : List Path := []
  sitePackages : List Path := []
  /-- editable installs: (source_root, site_packages, raw package name) -/
  editable : List (Path × Path × String) := []
  workspaceRoot : Option Path := none
  deriving Inhabited

namespace Index

def allUsages (st : Index) : List Usage := st.usages.flatMap (·.2)

/-- `get_file_content`: cache first, then disk. -/
def content (st : Index) (f : Path) : Option Version :=
  match alookup st.cache f with
  | some v => some v
  | none => alookup st.disk f

def existsOnDisk (st : Index) (f : Path) : Bool := ahas st.disk f || st.dirs.contains f
def isDir (st : Index) (d : Path) : Bool := st.dirs.contains d

/-- `is_editable_install_third_party`. -/
def editableThirdParty (st : Index) (f : Path) : Bool :=
  match st.editable.find? (fun e => pathStartsWith f e.1) with
  | none => false
  | some e =>
    match st.workspaceRoot with
    | some ws => !(pathStartsWith e.1 ws || pathStartsWith ws e.1)
    | none => true

def containsSub (pat : Chars) : Chars → Bool
  | [] => pat.isEmpty
  | c :: cs => pat.isPrefixOf (c :: cs) || containsSub pat cs

/-- `is_in_site_packages`: some path component is `site-packages` — below the workspace root for
    a file of the workspace (since the repair of the substring test), in the whole absolute path
    otherwise (`pfx` = absolute location of the case root, `[]` in ordinary cases). -/
def inSitePackages (pfx : Path) (st : Index) (f : Path) : Bool :=
  match st.workspaceRoot with
  | some ws =>
    if pathStartsWith f ws then (f.drop ws.length).any (· == "site-packages")
    else (pfx ++ f).any (· == "site-packages")
  | none => (pfx ++ f).any (· == "site-packages")

/-! ### analysis -/

def isAvail (st : Index) (f : Path) (n : String) : Bool := isAvailableFixture st.defs f n

def addName (l : List (Path × List String)) (f : Path) (n : String) : List (Path × List String) :=
  match alookup l f with
  | some ns => if ns.contains n then l else ainsert l f (ns ++ [n])
  | none => ainsert l f [n]

def pushUsage (l : List (Path × List Usage)) (f : Path) (u : Usage) : List (Path × List Usage) :=
  match alookup l f with
  | some us => l.map (fun p => if p.1 == f then (p.1, us ++ [u]) else p)
  | none => l ++ [(f, [u])]

def pushUndeclared (l : List (Path × List Undeclared)) (f : Path) (u : Undeclared) :
    List (Path × List Undeclared) :=
  match alookup l f with
  | some us => l.map (fun p => if p.1 == f then (p.1, us ++ [u]) else p)
  | none => l ++ [(f, [u])]

/-- one `Name` reference of a body scan: flagged iff not declared, not a local in scope, and
    `is_available_fixture` says yes at this moment. -/
def scanStep (f : Path) (b : BodyScan) (st : Index) (r : NameRef) : Index :=
  if b.candidate r && st.isAvail f r.name then
    let ud := Undeclared.mk r.name f r.line r.startChar r.endChar b.fnName b.fnLine
    { st with undeclared := pushUndeclared st.undeclared f ud }
  else st

/-- replay one recorded event (`record_fixture_definition`, `record_fixture_usage`,
    `scan_function_body_for_undeclared_fixtures`). -/
def applyEvent (pfx : Path) (f : Path) (st : Index) : Event → Index
  | .defn d =>
    let d := { d with thirdParty := inSitePackages pfx st f || st.editableThirdParty f,
                      plugin := st.pluginFiles.contains f }
    { st with defs := st.defs ++ [d], fileDefs := addName st.fileDefs f d.name,
              version := st.version + 1 }
  | .usage u =>
    { st with usages := pushUsage st.usages f u, ubf := st.ubf ++ [u] }
  | .scan b => b.refs.foldl (scanStep f b) st
  | .panic => st

/-- `cleanup_definitions_for_file`. -/
def cleanupDefs (st : Index) (f : Path) : Index :=
  match alookup st.fileDefs f with
  | none => st
  | some names =>
    { st with fileDefs := aerase st.fileDefs f,
              defs := st.defs.filter (fun d => !(d.file == f && names.contains d.name)) }

/-- the per-file clearing at the start of a successful analysis: text cached, the file's
    usages / reverse-index entries / undeclared findings / module names dropped. -/
def clearFile (st : Index) (f : Path) (v : Version) : Index :=
  { st with cache := ainsert st.cache f v, ubf := st.ubf.filter (fun u => u.file != f), usages := aerase st.usages f, undeclared := aerase st.undeclared f, modNames := aerase st.modNames f }

/-- the state right before the events of a valid version are replayed -/
def preState (cl : Bool) (st : Index) (f : Path) (v : Version) (fr : FileRec) : Index :=
  let st1 := clearFile st f v
  let st2 := if cl then st1.cleanupDefs f else st1
  -- `invalidate_cycle_cache()` once per successful analysis (repaired E3), then once per definition
  { st2 with modNames := ainsert st2.modNames f fr.modNames, epoch := st2.epoch + 1, version := st2.version + 1 }

/-- an unparsable text enters the cache together with the record of the last version of the file
    that parsed: the one its previous cache entry stood for (the AST still in `ast_cache`), else
    the file as it is on disk -/
def carry (st : Index) (f : Path) (v : Version) : Version :=
  let fromCache := (alookup st.cache f).bind Version.effRec
  let fromDisk := (alookup st.disk f).bind (fun d => d.parsed)
  { v with carried := match fromCache with
                      | some fr => some fr
                      | none => fromDisk }

/-- `analyze_file_internal(path, text, cleanup_previous)`; the Boolean result is "panicked". -/
def analyze (pfx : Path) (cleanup : Bool) (st : Index) (f : Path) (v : Version) : Index × Bool :=
  match v.parsed with
  | none =>
    -- the text does not parse: the recorded data stays, but what other files get THROUGH this one
    -- is read from its current text, so the version-keyed memos are invalidated all the same
    ({ st with cache := ainsert st.cache f (carry st f v), epoch := st.epoch + 1, version := st.version + 1 }, false)
  | some fr =>
    (fr.events.foldl (applyEvent pfx f) (preState cleanup st f v fr),
     fr.events.any (fun e => match e with | .panic => true | _ => false))

/-- `cleanup_file_cache` (did_close). -/
def closeFile (st : Index) (f : Path) : Index :=
  { st with cache := aerase st.cache f, availCache := aerase st.availCache f,
            impCache := aerase st.impCache f }

/-! ### module resolution (`imports.rs`) -/

def splitDots (s : Chars) : List Chars :=
  let rec go : Chars → Chars → List Chars
    | [], cur => [cur.reverse]
    | c :: cs, cur => if c == '.' then cur.reverse :: go cs [] else go cs (c :: cur)
  go s []

/-- `find_module_file`. -/
def findModuleFile (st : Index) (parts : List String) (base : Path) : Option Path :=
  match parts with
  | [] => none
  | [last] =>
    let py := base ++ [last ++ ".py"]
    let init := base ++ [last, "__init__.py"]
    if ahas st.disk py || ahas st.cache py then some py
    else if ahas st.disk init || ahas st.cache init then some init
    else none
  | p :: ps => if st.isDir (base ++ [p]) then findModuleFile st ps (base ++ [p]) else none

/-- `resolve_absolute_import`: upward from the importing directory, then site-packages, then
    editable roots. -/
def resolveAbsolute (st : Index) (parts : List String) (start : Path) : Option Path :=
  ((ancestorsOfDir start).findSome? (findModuleFile st parts)).orElse fun _ =>
  (st.sitePackages.findSome? (findModuleFile st parts)).orElse fun _ =>
  st.editable.findSome? (fun e => findModuleFile st parts e.1)

/-- `resolve_relative_import`; going above the case root finds nothing. -/
def resolveRelative (st : Index) (modp : Chars) (base : Path) : Option Path :=
  let dots := (modp.takeWhile (· == '.')).length
  let rest := modp.dropWhile (· == '.')
  let up := dots - 1
  if up > base.length then none else
  let cur := base.take (base.length - up)
  if rest.isEmpty then
    let init := cur ++ ["__init__.py"]
    if ahas st.disk init then some init else none
  else findModuleFile st ((splitDots rest).map String.ofList) cur

/-- `resolve_module_to_file`. -/
def resolveModule (st : Index) (modp : String) (importing : Path) : Option Path :=
  let base := dirOf importing
  if modp.toList.head? == some '.' then resolveRelative st modp.toList base
  else resolveAbsolute st ((splitDots modp.toList).map String.ofList) base

/-! ### `get_imported_fixtures` -/

def unionNames (a b : List String) : List String := (a ++ b).eraseDups

/-- `get_imported_fixtures(file, visited)`: returns the names, the updated `visited` set and the
    updated memo table.  `fuel` bounds the import depth; the driver passes more than the number
    of files, and `Props/C12` shows that is always enough. -/
def imported : Nat → Index → Path → List Path → List String × List Path × Index
  | 0, st, _, vis => ([], vis, st)
  | fuel + 1, st, f, vis =>
    if vis.contains f then ([], vis, st) else
    -- only a traversal that STARTS at `f` yields `f`'s complete set: only that is memoised (E12 repair)
    let top := vis.isEmpty
    let vis := f :: vis
    match st.content f with
    | none => ([], vis, st)
    | some v =>
      match alookup st.impCache f with
      | some (t, ver, names) =>
        if t == v.text && ver == st.version then (names, vis, st) else compute top fuel st f vis v
      | none => compute top fuel st f vis v
where
  compute (top : Bool) (fuel : Nat) (st : Index) (f : Path) (vis : List Path) (v : Version) :
      List String × List Path × Index :=
    match v.effRec with
    | none =>
      ([], vis, if top then { st with impCache := ainsert st.impCache f (v.text, st.version, []) } else st)
    | some fr =>
      let step1 := fr.imports.foldl (fun (acc : List String × List Path × Index) imp =>
        let (names, vis, st) := acc
        match st.resolveModule imp.modulePath f with
        | none => acc
        | some target =>
          if imp.isStar then
            let direct := (alookup st.fileDefs target).getD []
            let (tr, vis, st) := imported fuel st target vis
            (unionNames (unionNames names direct) tr, vis, st)
          else
            (unionNames names (imp.names.filter (fun n => st.defs.any (·.name == n))), vis, st))
        (([] : List String), vis, st)
      let step2 := fr.plugins.foldl (fun (acc : List String × List Path × Index) m =>
        let (names, vis, st) := acc
        match st.resolveModule m f with
        | none => acc
        | some target =>
          let direct := (alookup st.fileDefs target).getD []
          let (tr, vis, st) := imported fuel st target vis
          (unionNames (unionNames names direct) tr, vis, st))
        step1
      let (names, vis, st) := step2
      (names, vis, if top then { st with impCache := ainsert st.impCache f (v.text, st.version, names) } else st)

def fuelFor (st : Index) : Nat := st.cache.length + st.disk.length + 2

/-- `is_fixture_imported_in_file`. -/
def isImportedIn (st : Index) (n : String) (f : Path) : Bool × Index :=
  let (names, _, st) := imported st.fuelFor st f []
  (names.contains n, st)

/-! ### stateful queries (they only touch the memo tables) -/

/-- the import test of the resolver's walk: `(exists() || in file_cache) && is_fixture_imported…`. -/
def impM (n : String) (c : Path) (st : Index) : Bool × Index :=
  if st.existsOnDisk c || ahas st.cache c then st.isImportedIn n c else (false, st)

/-- `find_closest_definition`. -/
def resolveSt (st : Index) (f : Path) (n : String) : Option Def × Index :=
  resolveFM st.defs impM f n (fun _ => true) st

/-- the resolutions `detect_scope_mismatches_in_file` performs for file `f`, in its order, with
    the memo tables threaded: for every fixture name of `file_definitions[f]` the first definition
    in `f`, and for each of its dependencies `find_closest_definition` from `f` (excluding the
    fixture itself when it requests its own name). -/
def scopeTableSt (st : Index) (f : Path) : List ((Def × String) × Option Def) × Index :=
  ((alookup st.fileDefs f).getD []).foldl (fun (acc : List ((Def × String) × Option Def) × Index) n =>
    match (defsOf acc.2.defs n).find? (fun d => d.file == f) with
    | none => acc
    | some fd =>
      fd.deps.foldl (fun (acc : List ((Def × String) × Option Def) × Index) dep =>
        let (r, st') := resolveFM acc.2.defs impM f dep (fun x => if dep == fd.name then x != fd else true) acc.2
        (acc.1 ++ [((fd, dep), r)], st')) acc) ([], st)

/-- the table read back as the resolver argument of `mismatchesIn` -/
def tableRes (t : List ((Def × String) × Option Def)) (fd : Def) (dep : String) : Option Def :=
  match t.find? (fun e => e.1.1 == fd && e.1.2 == dep) with
  | some e => e.2
  | none => none

def usagesOf (st : Index) (f : Path) : List Usage := (alookup st.usages f).getD []

def lineText (st : Index) (f : Path) (line0 : Nat) : Option Chars :=
  match st.content f with
  | none => none
  | some v => (linesOf v.text.toList)[line0]?

/-- `find_fixture_definition`. -/
def goto (st : Index) (f : Path) (line0 col : Nat) : Option Def × Index :=
  match st.lineText f line0 with
  | none => (none, st)
  | some lc =>
    match wordAt lc col with
    | none => (none, st)
    | some w =>
      match usageAt (st.usagesOf f) (line0 + 1) (String.ofList w) col with
      | none => (none, st)
      | some u => resolveUsageM st.defs impM u st

/-- `find_fixture_or_definition_at_position`. -/
def gotoOrDef (st : Index) (f : Path) (line0 col : Nat) : Option Def × Index :=
  match st.goto f line0 col with
  | (some d, st) => (some d, st)
  | (none, st) =>
    match st.lineText f line0 with
    | none => (none, st)
    | some lc =>
      match wordAt lc col with
      | none => (none, st)
      | some w =>
        ((defsOf st.defs (String.ofList w)).find? (fun d =>
          d.file == f && d.line == line0 + 1 && d.startChar ≤ col && col < d.endChar), st)

/-- `find_fixture_at_position`. -/
def fixtureAt (st : Index) (f : Path) (line0 col : Nat) : Option String :=
  match st.lineText f line0 with
  | none => none
  | some lc => fixtureAtWith st.defs (st.usagesOf f) f line0 col ((wordAt lc col).map String.ofList)

/-- `get_definition_at_line`. -/
def definitionAtLine (st : Index) (f : Path) (line : Nat) (n : String) : Option Def :=
  (defsOf st.defs n).find? (fun d => d.file == f && d.line == line)

/-- `find_references_for_definition`. -/
def refsForSt (st : Index) (D : Def) : List Usage × Index :=
  (st.ubf.filter (fun u => u.name == D.name)).foldl (fun (acc : List Usage × Index) u =>
    let (r, st') := resolveUsageM acc.2.defs impM u acc.2
    if r == some D then (acc.1 ++ [u], st') else (acc.1, st')) ([], st)

/-- `get_available_fixtures` (memoised per file and definitions version). -/
def availableSt (st : Index) (f : Path) : List Def × Index :=
  let compute : List Def × Index :=
    let (table, st1) := (ancestorsOfDir (dirOf f)).foldl
      (fun (acc : List (Path × List String) × Index) dir =>
        let c := conftestOf dir
        if acc.2.existsOnDisk c || ahas acc.2.cache c then
          let (names, _, st') := imported acc.2.fuelFor acc.2 c []
          (acc.1 ++ [(c, names)], st')
        else acc) ([], st)
    let res := available st1.defs (fun c n => ((alookup table c).getD []).contains n) f
    (res, { st1 with availCache := ainsert st1.availCache f (st1.version, res),
                     availEpoch := ainsert st1.availEpoch f st1.epoch })
  match alookup st.availCache f with
  | some (ver, l) => if ver == st.version then (l, st) else compute
  | none => compute

/-- `compute_definition_usage_counts` restricted to one key. -/
def cliCountSt (st : Index) (file : Path) (n : String) : Nat × Index :=
  st.allUsages.foldl (fun (acc : Nat × Index) u =>
    let (r, st') := resolveUsageM acc.2.defs impM u acc.2
    match r with
    | some d => if d.file == file && u.name == n then (acc.1 + 1, st') else (acc.1, st')
    | none => (acc.1, st')) (0, st)

def pathLt : Path → Path → Bool
  | [], [] => false
  | [], _ :: _ => true
  | _ :: _, [] => false
  | a :: as, b :: bs => a < b || (a == b && pathLt as bs)

def insertPN (x : Path × String) : List (Path × String) → List (Path × String)
  | [] => [x]
  | y :: ys =>
    if pathLt x.1 y.1 || (x.1 == y.1 && x.2 < y.2) then x :: y :: ys else y :: insertPN x ys

/-- `get_unused_fixtures` (sorted by path, then name; one entry per definition). -/
def unusedSt (st : Index) : List (Path × String) × Index :=
  let (raw, st) := st.defs.foldl (fun (acc : List (Path × String) × Index) d =>
    if d.thirdParty || d.autouse then acc else
    let (c, st') := acc.2.cliCountSt d.file d.name
    if c == 0 then (acc.1 ++ [(d.file, d.name)], st') else (acc.1, st')) ([], st)
  (raw.foldr insertPN [], st)

end Index
end PLS
