/-
  PLS.Model.Conc10 — `definitions` and `file_definitions` at the granularity of one DashMap call
  per step, with workers that may analyse THE SAME file: the scan's visit of `F`
  (`analyze_file_fresh`, no cleanup of definitions) and the editor's notification for `F`
  (`analyze_file`, with `cleanup_definitions_for_file`).

  A worker's program is data dependent here (the names to clean up are whatever
  `file_definitions.remove(F)` returned), so workers are small state machines (`Pc`):

    take                  `file_definitions.remove(F)`  → names, or return early when absent
    retain (k :: todo)    `definitions.get_mut(k)` + `retain(file ≠ F)`; remember `is_empty`
    cond k flag todo      `if flag { definitions.remove_if(k, is_empty) }`
    push ((k,t) :: news)  `definitions.entry(k).or_default().push(def)`
    ins k news            `file_definitions.entry(F).or_default().insert(k)`

  (`record_fixture_definition` pushes first and inserts into the reverse index second — the
  order matters for the invariant of `PLS.Props.C10`.)
-/
namespace PLS.Conc10

abbrev File := Nat
abbrev Key := String

structure Ent where
  file : File
  tag  : Nat
  deriving DecidableEq, Repr

structure St where
  d  : Key → Option (List Ent)
  fd : File → Option (List Key)

inductive Pc where
  | take
  | retain (todo : List Key)
  | cond (k : Key) (flag : Bool) (todo : List Key)
  | push (news : List (Key × Nat))
  | ins (k : Key) (news : List (Key × Nat))
  | done
  deriving Repr

structure Worker where
  file : File
  pc   : Pc
  news : List (Key × Nat)       -- what the analysed version defines, in order
  deriving Repr

def updD (d : Key → Option (List Ent)) (k : Key) (v : Option (List Ent)) : Key → Option (List Ent) :=
  fun k' => if k' = k then v else d k'

def updF (fd : File → Option (List Key)) (f : File) (v : Option (List Key)) : File → Option (List Key) :=
  fun f' => if f' = f then v else fd f'

def ents (d : Key → Option (List Ent)) (k : Key) : List Ent := (d k).getD []
def names (fd : File → Option (List Key)) (f : File) : List Key := (fd f).getD []
def projF (F : File) (l : List Ent) : List Ent := l.filter (fun e => e.file == F)

/-- one atomic step of a worker -/
def stepW (s : St) (w : Worker) : St × Worker :=
  match w.pc with
  | .take =>
    match s.fd w.file with
    | none => (s, { w with pc := .push w.news })          -- `None => return` of the cleanup
    | some ns => ({ s with fd := updF s.fd w.file none }, { w with pc := .retain ns })
  | .retain [] => (s, { w with pc := .push w.news })
  | .retain (k :: todo) =>
    match s.d k with
    | none => (s, { w with pc := .cond k false todo })
    | some v =>
      let v' := v.filter (fun e => e.file != w.file)
      ({ s with d := updD s.d k (some v') }, { w with pc := .cond k v'.isEmpty todo })
  | .cond k flag todo =>
    if flag then
      match s.d k with
      | some [] => ({ s with d := updD s.d k none }, { w with pc := .retain todo })
      | _ => (s, { w with pc := .retain todo })
    else (s, { w with pc := .retain todo })
  | .push [] => (s, { w with pc := .done })
  | .push ((k, t) :: news) =>
    ({ s with d := updD s.d k (some (ents s.d k ++ [⟨w.file, t⟩])) }, { w with pc := .ins k news })
  | .ins k news =>
    let ns := names s.fd w.file
    ({ s with fd := updF s.fd w.file (some (if ns.contains k then ns else ns ++ [k])) }, { w with pc := .push news })
  | .done => (s, w)

/-- the system: a state and a family of workers (all but finitely many `done`) -/
structure Sys where
  s  : St
  ws : Nat → Worker

def setW (ws : Nat → Worker) (i : Nat) (w : Worker) : Nat → Worker := fun j => if j = i then w else ws j

def stepSys (y : Sys) (i : Nat) : Sys :=
  let r := stepW y.s (y.ws i)
  { s := r.1, ws := setW y.ws i r.2 }

def run (y : Sys) (sched : List Nat) : Sys := sched.foldl stepSys y

/-- the scan's visit: no cleanup -/
def scanWorker (F : File) (news : List (Key × Nat)) : Worker := { file := F, pc := .push news, news := news }
/-- the editor's notification: cleanup first -/
def editWorker (F : File) (news : List (Key × Nat)) : Worker := { file := F, pc := .take, news := news }
def idle : Worker := { file := 0, pc := .done, news := [] }

/-- a worker running alone for `n` steps -/
def solo (s : St) (w : Worker) : Nat → St × Worker
  | 0 => (s, w)
  | n + 1 => let r := stepW s w; solo r.1 r.2 n

end PLS.Conc10
