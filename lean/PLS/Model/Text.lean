/-
  PLS.Model.Text — the text-level helpers of `src/fixtures/string_utils.rs` and the pieces of
  Rust's `str` API they rely on, over `List Char`.

  Rust indexes `str` by BYTE offsets and panics when a slice boundary falls inside a multi-byte
  character; `bslice*` reproduce that (result `none` = panic).  Character classes follow Rust's
  `char::is_alphanumeric` / `char::is_whitespace` on the code points the generators use
  (validated against the implementation by the correspondence run; see DESIGN §5).
-/
namespace PLS

abbrev Chars := List Char

/-- UTF-8 length of a character. -/
def clen (c : Char) : Nat :=
  if c.val < 0x80 then 1 else if c.val < 0x800 then 2 else if c.val < 0x10000 then 3 else 4

/-- `str::len` (bytes). -/
def blen : Chars → Nat
  | [] => 0
  | c :: cs => clen c + blen cs

/-- Rust `char::is_whitespace` (Unicode `White_Space`). -/
def isWs (c : Char) : Bool :=
  let v := c.val
  (0x09 ≤ v && v ≤ 0x0D) || v == 0x20 || v == 0x85 || v == 0xA0 || v == 0x1680 ||
  (0x2000 ≤ v && v ≤ 0x200A) || v == 0x2028 || v == 0x2029 || v == 0x202F || v == 0x205F ||
  v == 0x3000

/-- Rust `char::is_alphanumeric` on the ranges the generators draw from: ASCII, Latin-1,
    Latin Extended-A/B, Greek, Cyrillic, kana, CJK unified ideographs.  Everything else is
    treated as non-alphanumeric. -/
def isAlnum (c : Char) : Bool :=
  let v := c.val
  (0x30 ≤ v && v ≤ 0x39) || (0x41 ≤ v && v ≤ 0x5A) || (0x61 ≤ v && v ≤ 0x7A) ||
  v == 0xAA || v == 0xB2 || v == 0xB3 || v == 0xB5 || v == 0xB9 || v == 0xBA ||
  (0xBC ≤ v && v ≤ 0xBE) ||
  (0xC0 ≤ v && v ≤ 0xD6) || (0xD8 ≤ v && v ≤ 0xF6) || (0xF8 ≤ v && v ≤ 0x24F) ||
  (0x391 ≤ v && v ≤ 0x3A1) || (0x3A3 ≤ v && v ≤ 0x3C9) ||
  (0x410 ≤ v && v ≤ 0x44F) ||
  (0x3041 ≤ v && v ≤ 0x3096) || (0x30A1 ≤ v && v ≤ 0x30FA) ||
  (0x4E00 ≤ v && v ≤ 0x9FFF)

def isWordChar (c : Char) : Bool := isAlnum c || c == '_'

/-- `str::trim_start`. -/
def trimStart : Chars → Chars
  | [] => []
  | c :: cs => if isWs c then trimStart cs else c :: cs

/-- `str::trim_end`. -/
def trimEnd (l : Chars) : Chars := (trimStart l.reverse).reverse

/-- `str::trim`. -/
def trim (l : Chars) : Chars := trimEnd (trimStart l)

def isBlank (l : Chars) : Bool := (trimStart l).isEmpty

/-- split on `\n` keeping a final (possibly empty) piece -/
def splitNl : Chars → List Chars
  | [] => [[]]
  | c :: cs =>
    match splitNl cs with
    | [] => [[]]   -- unreachable
    | l :: ls => if c == '\n' then [] :: l :: ls else (c :: l) :: ls

def stripCr (l : Chars) : Chars :=
  match l.getLast? with
  | some '\r' => l.dropLast
  | _ => l

/-- `str::lines`: split on `\n`, drop one trailing `\r` per line, no final empty line. -/
def linesOf (s : Chars) : List Chars :=
  let ps := splitNl s
  -- every piece but the last was terminated by `\n` (and may end in `\r`); a bare trailing
  -- `\r` on an unterminated last line is preserved, an empty last piece is not a line
  let terminated := ps.dropLast.map stripCr
  match ps.getLast? with
  | some [] => terminated
  | some l => terminated ++ [l]
  | none => terminated

/-- `&s[k..]` — `none` when `k` is past the end or inside a character (Rust panics). -/
def bsliceFrom : Chars → Nat → Option Chars
  | l, 0 => some l
  | [], _ + 1 => none
  | c :: cs, k + 1 => if clen c ≤ k + 1 then bsliceFrom cs (k + 1 - clen c) else none

/-- `&s[..k]`. -/
def bsliceTo : Chars → Nat → Option Chars
  | _, 0 => some []
  | [], _ + 1 => none
  | c :: cs, k + 1 =>
    if clen c ≤ k + 1 then (bsliceTo cs (k + 1 - clen c)).map (c :: ·) else none

/-- `str::find(pat)` → byte offset of the first match. -/
def bfind (pat : Chars) : Chars → Option Nat
  | [] => if pat.isEmpty then some 0 else none
  | c :: cs =>
    if pat.isPrefixOf (c :: cs) then some 0
    else (bfind pat cs).map (· + clen c)

/-! ### `extract_word_at_position` (the column is a CHARACTER index) -/

def takeWhileRev (p : Char → Bool) (l : Chars) : Chars := (l.reverse.takeWhile p).reverse

def wordAt (line : Chars) (col : Nat) : Option Chars :=
  match line[col]? with
  | none => none
  | some c =>
    if !isWordChar c then none
    else some (takeWhileRev isWordChar (line.take col) ++ (line.drop col).takeWhile isWordChar)

/-! ### `format_docstring` -/

def dropWhileBlank : List Chars → List Chars
  | [] => []
  | l :: ls => if isBlank l then dropWhileBlank ls else l :: ls

def indentOf (l : Chars) : Nat := blen l - blen (trimStart l)

def minIndent : List Chars → Option Nat
  | [] => none
  | l :: ls =>
    if isBlank l then minIndent ls
    else match minIndent ls with
      | none => some (indentOf l)
      | some m => some (min (indentOf l) m)

/-- one continuation line of the dedent loop: cut at byte `m` when that is inside the line AND a
    character boundary (`is_char_boundary`), else strip the leading whitespace. -/
def dedentLine (m : Nat) (l : Chars) : Chars :=
  if isBlank l then []
  else if blen l > m then
    match bsliceFrom l m with
    | some r => r
    | none => trimStart l
  else trimStart l

def mapM? {α β} (f : α → Option β) : List α → Option (List β)
  | [] => some []
  | a :: as => match f a, mapM? f as with
    | some b, some bs => some (b :: bs)
    | _, _ => none

def joinNl : List Chars → Chars
  | [] => []
  | [l] => l
  | l :: ls => l ++ '\n' :: joinNl ls

/-- `format_docstring` (total since the repair of E7). -/
def formatDocstring (s : Chars) : Chars :=
  let ls := linesOf s
  let ls := dropWhileBlank ls
  let ls := (dropWhileBlank ls.reverse).reverse
  match ls with
  | [] => []
  | first :: rest =>
    let m := (minIndent rest).getD 0
    joinNl (trim first :: rest.map (dedentLine m))

/-! ### a fixture name inside a string literal's source text -/

/-- first occurrence of `name` in `seg` as a WHOLE WORD (the characters before and after are not
    word characters), scanning like `str::match_indices`: a rejected match is skipped as a whole
    (`skip` counts its remaining characters). Result: byte offset in `seg`. -/
def wordOccAux (name : Chars) : Option Char → Nat → Chars → Option Nat
  | _, _, [] => none
  | _, skip + 1, c :: cs => (wordOccAux name (some c) skip cs).map (· + clen c)
  | prev, 0, c :: cs =>
    if name.isPrefixOf (c :: cs) then
      if prev.any isWordChar || (((c :: cs).drop name.length).head?).any isWordChar then
        (wordOccAux name (some c) (name.length - 1) cs).map (· + clen c)
      else some 0
    else (wordOccAux name (some c) 0 cs).map (· + clen c)

def isQuote (c : Char) : Bool := c == '"' || c == '\''

/-- the search starts at the opening quote, so that a prefix letter (`r"r"`) is never taken for the
    name: `literal.find(['"', '\'']).unwrap_or(0)` -/
def skipStringPrefix (s : Nat) (seg : Chars) : Nat × Chars :=
  if seg.any isQuote then
    (s + blen (seg.takeWhile (fun c => !isQuote c)), seg.dropWhile (fun c => !isQuote c))
  else (s, seg)

/-- the part of line `ln` (1-based) that lies inside the literal `r` (from its opening quote on
    the first line), with its starting byte column -/
def literalSegment (lines : List Chars) (line col endLine endCol ln : Nat) : Option (Nat × Chars) :=
  match lines[ln - 1]? with
  | none => none
  | some L =>
    let s := if ln == line then col else 0
    let e := if ln == endLine then endCol else blen L
    match bsliceFrom L s with
    | none => none
    | some t =>
      (bsliceTo t (e - s)).map (fun seg => if ln == line then skipStringPrefix s seg else (s, seg))

/-- `record_string_fixture_usage`: where the name stands, as a whole word, inside the literal's
    source text (line, start byte column, end byte column). A name with a line break in it is not
    looked for. When the text does not spell the name (escapes, implicit concatenation): the span
    between the first and the last column of the literal, the end never before the start. -/
def stringNameSpan (lines : List Chars) (name : Chars) (line col endLine endCol : Nat) : Nat × Nat × Nat :=
  let found :=
    if name.contains '\n' then none
    else (List.range (endLine + 1 - line)).findSome? (fun k =>
      match literalSegment lines line col endLine endCol (line + k) with
      | none => none
      | some (s, seg) =>
        (wordOccAux name none 0 seg).map (fun off => (line + k, s + off, s + off + blen name)))
  found.getD (line, col + 1, max (endCol - 1) (col + 1))

/-! ### `find_function_name_position` (byte columns) -/

def findFunctionNamePosition (lines : List Chars) (line : Nat) (fname : Chars) : Nat × Nat :=
  match lines[line - 1]? with
  | none => (0, blen fname)
  | some lc =>
    let viaDef : Option (Nat × Nat) :=
      match bfind "def ".toList lc with
      | none => none
      | some dp =>
        match bsliceFrom lc (dp + 4) with
        | none => none
        | some after =>
          match bfind fname after with
          | none => none
          | some np => some (dp + 4 + np, dp + 4 + np + blen fname)
    match viaDef with
    | some r => r
    | none =>
      match bfind fname lc with
      | some p => (p, p + blen fname)
      | none => (0, blen fname)

/-! ### `parameter_has_annotation` (inlay hints) -/

/-- `parameter_has_annotation`: `line_text.get(end_char..)` — a column past the line or inside a
    character yields `false` (total since the repair of E16). -/
def parameterHasAnnotation (lines : List Chars) (line : Nat) (endChar : Nat) : Bool :=
  match lines[line - 1]? with
  | none => false
  | some lt =>
    match bsliceFrom lt endChar with
    | none => false
    | some after => (trimStart after).head? == some ':' 

end PLS
