/-
  PLS.Model.Config — `src/config/mod.rs`: the `[tool.pytest-language-server]` table of
  `pyproject.toml` and its validation (`Config::load`, `parse`, `from_raw`,
  `is_diagnostic_disabled`), and the publisher's use of it (`publish_diagnostics_for_file`).

  TOML parsing and typed deserialisation (`toml` + `serde`) are NOT modelled: they are the
  parameter `Loaded` — what the file turned out to be.  The correspondence check computes that
  value independently (CPython's `tomllib` + the field types of `RawConfig`) and compares the
  server's behaviour with the model's under it.  Glob compilation (`glob::Pattern::new`) is the
  parameter `compiles`.
-/
import PLS.Generated
import PLS.Model.Lsp
namespace PLS

/-- `RawConfig`: the four arrays of strings as they stand in the file -/
structure RawConfig where
  exclude : List String := []
  disabledDiagnostics : List String := []
  fixturePaths : List String := []
  skipPlugins : List String := []
  deriving Repr, DecidableEq

/-- `Config` (patterns kept as their source strings) -/
structure Config where
  exclude : List String := []
  disabledDiagnostics : List String := []
  fixturePaths : List String := []
  skipPlugins : List String := []
  deriving Repr, DecidableEq

/-- what `Config::load` finds -/
inductive Loaded where
  | absent                       -- no pyproject.toml
  | unreadable                   -- exists, `read_to_string` fails (directory, not UTF-8 …)
  | malformed                    -- not TOML, or a value of the wrong type on the path to a field
  | noSection                    -- valid, but no `[tool.pytest-language-server]`
  | table (raw : RawConfig)
  deriving Repr

/-- `Config::from_raw`: every pattern and every code is judged on its own. -/
def Config.fromRaw (compiles : String → Bool) (raw : RawConfig) : Config :=
  { exclude := raw.exclude.filter compiles,
    disabledDiagnostics := raw.disabledDiagnostics.filter (fun c => Generated.validDiagnosticCodes.contains c),
    fixturePaths := raw.fixturePaths,
    skipPlugins := raw.skipPlugins }

/-- `Config::load` -/
def Config.load (compiles : String → Bool) : Loaded → Config
  | .table raw => Config.fromRaw compiles raw
  | _ => {}

/-- `is_diagnostic_disabled` -/
def Config.isDisabled (c : Config) (code : String) : Bool := c.disabledDiagnostics.any (· == code)

namespace Index

/-- `publish_diagnostics_for_file` under a loaded configuration -/
def publish (st : Index) (cfg : Config) (f : Path) (cycles : List Cycle)
    (res : Def → String → Option Def) : List Diag :=
  st.hDiagnostics cfg.disabledDiagnostics f cycles res

end Index
end PLS
