/-
  PLS.Model.Analyze — `analyze_file`'s extraction of fixtures, usages, imports and body
  references from one parsed module, mirroring `analyzer.rs`, `decorators.rs`, `docstring.rs`
  and `undeclared.rs` function by function.

  The result is a list of *events* in the order the implementation records them; the index
  (`Index.lean`) replays them against the shared maps.
-/
import PLS.Model.Py
import PLS.Model.Text
namespace PLS

/-! ### decorators.rs -/

/-- `is_fixture_decorator`. -/
def isFixtureDecorator : Expr → Bool
  | .name id _ => id == "fixture"
  | .attribute (.name v _) attr _ => (v == "pytest" || v == "pytest_asyncio") && attr == "fixture"
  | .call f _ _ _ _ => isFixtureDecorator f
  | _ => false

/-- `is_pytest_mark_decorator(expr, marker)`. -/
def isMarkDecorator (marker : String) : Expr → Bool
  | .call f _ _ _ _ => isMarkDecorator marker f
  | .attribute v attr _ =>
    attr == marker &&
      (match v with
       | .attribute (.name p _) m _ => m == "mark" && p == "pytest"
       | .name m _ => m == "mark"
       | _ => false)
  | _ => false

def isUsefixtures (e : Expr) : Bool := isMarkDecorator "usefixtures" e
def isParametrize (e : Expr) : Bool := isMarkDecorator "parametrize" e

/-- keyword lookup: values of the keywords named `k`, in order. -/
def kwValues (k : String) : List (Option String) → List Expr → List Expr
  | n :: ns, v :: vs => if n == some k then v :: kwValues k ns vs else kwValues k ns vs
  | _, _ => []

def strConst? : Expr → Option String
  | .constant (.str s) _ => some s
  | _ => none

/-- `is_indirect_parametrize_decorator`: a `parametrize(...)` call with an `indirect=` keyword
    other than the constant `False` (only then its argument names can be fixtures). -/
def isIndirectParametrize : Expr → Bool
  | .call f _ kn kv _ =>
    isParametrize f && (kwValues "indirect" kn kv).any (fun v =>
      match v with
      | .constant (.bool false) _ => false
      | _ => true)
  | _ => false

/-- `extract_fixture_name_from_decorator`. -/
def fixtureNameOf : Expr → Option String
  | .call f _ kn kv _ =>
    if isFixtureDecorator f then (kwValues "name" kn kv).findSome? strConst? else none
  | _ => none

def asciiLower (s : String) : String := String.ofList (s.toList.map Char.toLower)

/-- `extract_fixture_scope`. -/
def fixtureScopeOf : Expr → Option Scope
  | .call f _ kn kv _ =>
    if isFixtureDecorator f then
      (kwValues "scope" kn kv).findSome? (fun v =>
        match strConst? v with
        | some s => Scope.parseLower (asciiLower s)
        | none => none)
    else none
  | _ => none

/-- `extract_fixture_autouse`. -/
def fixtureAutouseOf : Expr → Bool
  | .call f _ kn kv _ =>
    isFixtureDecorator f &&
      (kwValues "autouse" kn kv).any (fun v => match v with
        | .constant (.bool true) _ => true
        | _ => false)
  | _ => false

/-- `extract_usefixtures_names`: string constants among the positional args. -/
def usefixturesNames : Expr → List (String × Range)
  | .call f args _ _ _ =>
    if isUsefixtures f then
      args.filterMap (fun a => match a with
        | .constant (.str s) r => some (s, r)
        | _ => none)
    else []
  | _ => []

/-- `extract_usefixtures_from_expr` (pytestmark values; lists and tuples nest). -/
def usefixturesFromExpr : Expr → List (String × Range)
  | .call f args kn kv r => usefixturesNames (.call f args kn kv r)
  | .list elts _ => go elts
  | .tuple elts _ => go elts
  | _ => []
where
  go : List Expr → List (String × Range)
    | [] => []
    | e :: es => usefixturesFromExpr e ++ go es

/-- `str::split(',')` then `trim` (always at least one piece). -/
def splitCommaTrim (s : Chars) : List Chars :=
  let rec go : Chars → Chars → List Chars
    | [], cur => [cur.reverse]
    | c :: cs, cur => if c == ',' then cur.reverse :: go cs [] else go cs (c :: cur)
  (go s []).map trim

/-- `extract_parametrize_indirect_fixtures`. -/
def parametrizeIndirect : Expr → List (String × Range)
  | .call f args kn kv _ =>
    if !isParametrize f then [] else
    match (kwValues "indirect" kn kv).head? with
    | none => []
    | some ind =>
      match args.head? with
      | some (.constant (.str ps) pr) =>
        let names := (splitCommaTrim ps.toList).map String.ofList
        match ind with
        | .constant (.bool true) _ => names.map (fun n => (n, pr))
        | .list elts _ =>
          elts.filterMap (fun e => match e with
            | .constant (.str s) r => if names.contains s then some (s, r) else none
            | _ => none)
        | _ => []
      | _ => []
  | _ => []

/-! ### docstring.rs -/

mutual
  /-- `first_yield_offset` (as a line): the first `yield` / `yield from` inside an expression - the
      expression itself or one in expression position; the forms the bridge leaves as `other`
      (lambdas, comprehensions: scopes of their own) are not entered -/
  def yieldInExpr : Expr → Option Nat
    | .yield _ r => some r.line
    | .yieldFrom _ r => some r.line
    | .call f args _ kw _ => (yieldInExpr f).orElse (fun _ => (yieldInExprs args).orElse (fun _ => yieldInExprs kw))
    | .attribute v _ _ => yieldInExpr v
    | .binOp l _ r _ => (yieldInExpr l).orElse (fun _ => yieldInExpr r)
    | .unaryOp o _ => yieldInExpr o
    | .compare l cs _ => (yieldInExpr l).orElse (fun _ => yieldInExprs cs)
    | .subscript v sl _ => (yieldInExpr v).orElse (fun _ => yieldInExpr sl)
    | .list es _ => yieldInExprs es
    | .tuple es _ => yieldInExprs es
    | .dict ks vs _ => (yieldInExprs ks).orElse (fun _ => yieldInExprs vs)
    | .await v _ => yieldInExpr v
    | .group ps _ => yieldInExprs ps
    | _ => none
  def yieldInExprs : List Expr → Option Nat
    | [] => none
    | e :: es => (yieldInExpr e).orElse (fun _ => yieldInExprs es)
end

def yieldInOpt : Option Expr → Option Nat
  | none => none
  | some e => yieldInExpr e


mutual
  /-- `contains_yield` (since the repair it visits what `find_yield_in_stmt` visits: `async with`,
      `async for` and `except` bodies too). -/
  def containsYieldStmt : Stmt → Bool
    | .expr e _ => (yieldInExpr e).isSome
    -- a yield in expression position makes the function a generator just the same
    | .assign _ v _ => (yieldInExpr v).isSome
    | .augAssign _ v _ => (yieldInExpr v).isSome
    | .annAssign _ v _ => (yieldInOpt v).isSome
    | .return_ v _ => (yieldInOpt v).isSome
    | .if_ _ b o _ => containsYield b || containsYield o
    | .for_ _ _ _ b o _ => containsYield b || containsYield o
    | .while_ _ b o _ => containsYield b || containsYield o
    | .with_ _ _ _ b _ => containsYield b
    | .try_ b h o f _ => containsYield b || containsYield h || containsYield o || containsYield f
    | _ => false
  def containsYield : List Stmt → Bool
    | [] => false
    | s :: ss => containsYieldStmt s || containsYield ss
end

mutual
  /-- `expr_to_string`. -/
  def exprToString : Expr → String
    | .name id _ => id
    | .attribute v attr _ => exprToString v ++ "." ++ attr
    | .subscript v s _ => exprToString v ++ "[" ++ exprToString s ++ "]"
    | .tuple elts _ => ", ".intercalate (exprsToStrings elts)
    | .constant (.str s) _ => "Str(" ++ s.quote ++ ")"
    | .constant (.bool true) _ => "Bool(true)"
    | .constant (.bool false) _ => "Bool(false)"
    | .constant (.other d) _ => d
    | .binOp l true r _ => exprToString l ++ " | " ++ exprToString r
    | _ => "Any"
  def exprsToStrings : List Expr → List String
    | [] => []
    | e :: es => exprToString e :: exprsToStrings es
end

/-- `extract_yielded_type`. -/
def yieldedType : Expr → String
  | .subscript _ (.tuple (e :: _) _) _ => exprToString e
  | .subscript v (.tuple [] r) r' => exprToString (.subscript v (.tuple [] r) r')
  | .subscript _ s _ => exprToString s
  | e => exprToString e

/-- `extract_return_type`. -/
def returnTypeOf (returns : Option Expr) (body : List Stmt) : Option String :=
  match returns with
  | none => none
  | some e => if containsYield body then some (yieldedType e) else some (exprToString e)

/-- `extract_docstring`. -/
def docstringOf (body : List Stmt) : Option String :=
  match body with
  | .expr (.constant (.str s) _) _ :: _ => some (String.ofList (formatDocstring s.toList))
  | _ => none

/-! ### analyzer.rs: yield line -/

mutual
  /-- `find_yield_in_stmt`. -/
  def yieldInStmt : Stmt → Option Nat
    | .expr e _ => yieldInExpr e
    | .assign _ v _ => yieldInExpr v
    | .augAssign _ v _ => yieldInExpr v
    | .annAssign _ v _ => yieldInOpt v
    | .return_ v _ => yieldInOpt v
    | .if_ _ b o _ => (yieldLine b).orElse (fun _ => yieldLine o)
    | .with_ _ _ _ b _ => yieldLine b
    | .try_ b h o f _ =>
      (yieldLine b).orElse (fun _ => (yieldLine h).orElse (fun _ => (yieldLine o).orElse (fun _ => yieldLine f)))
    | .for_ _ _ _ b o _ => (yieldLine b).orElse (fun _ => yieldLine o)
    | .while_ _ b o _ => (yieldLine b).orElse (fun _ => yieldLine o)
    | _ => none
  /-- `find_yield_line`. -/
  def yieldLine : List Stmt → Option Nat
    | [] => none
    | s :: ss => (yieldInStmt s).orElse (fun _ => yieldLine ss)
end

/-! ### undeclared.rs -/

structure NameRef where
  name : String
  line : Nat
  startChar : Nat
  endChar : Nat
  deriving DecidableEq, Repr, Inhabited

mutual
  /-- `collect_names_from_expr` (order irrelevant: callers insert into sets/maps with one line). -/
  def namesFromExpr : Expr → List String
    | .name id _ => [id]
    | .tuple elts _ => namesFromExprs elts
    | .list elts _ => namesFromExprs elts
    | _ => []
  def namesFromExprs : List Expr → List String
    | [] => []
    | e :: es => namesFromExpr e ++ namesFromExprs es
end

mutual
  /-- `collect_local_variables`: bindings in insertion order (later entries override). -/
  def localsOfStmt : Stmt → List (String × Nat)
    | .assign ts _ r => (namesFromExprs ts).map (fun n => (n, r.line))
    | .annAssign t _ r => (namesFromExpr t).map (fun n => (n, r.line))
    | .augAssign t _ r => (namesFromExpr t).map (fun n => (n, r.line))
    | .for_ _ t _ b _ r => (namesFromExpr t).map (fun n => (n, r.line)) ++ localsOf b
    | .while_ _ b _ _ => localsOf b
    | .if_ _ b o _ => localsOf b ++ localsOf o
    | .with_ _ _ vars b r => (namesFromExprs vars).map (fun n => (n, r.line)) ++ localsOf b
    | .try_ b _ o f _ => localsOf b ++ localsOf o ++ localsOf f
    | _ => []
  def localsOf : List Stmt → List (String × Nat)
    | [] => []
    | s :: ss => localsOfStmt s ++ localsOf ss
end

mutual
  /-- `visit_expr_for_names`: the `Name` nodes reached, in visiting order. -/
  def refsOfExpr : Expr → List NameRef
    | .name id r => [⟨id, r.line, r.col, r.endCol⟩]
    | .call f args _ kwVals _ => refsOfExpr f ++ refsOfExprs args ++ refsOfExprs kwVals
    | .attribute v _ _ => refsOfExpr v
    | .binOp l _ r _ => refsOfExpr l ++ refsOfExpr r
    | .unaryOp o _ => refsOfExpr o
    | .compare l cs _ => refsOfExpr l ++ refsOfExprs cs
    | .subscript v s _ => refsOfExpr v ++ refsOfExpr s
    | .list elts _ => refsOfExprs elts
    | .tuple elts _ => refsOfExprs elts
    | .dict ks vs _ => refsOfExprs ks ++ refsOfExprs vs
    | .await v _ => refsOfExpr v
    | .group parts _ => refsOfExprs parts
    | .yield v _ => refsOfExprs v
    | .yieldFrom v _ => refsOfExprs v
    | _ => []
  def refsOfExprs : List Expr → List NameRef
    | [] => []
    | e :: es => refsOfExpr e ++ refsOfExprs es
end

def refsOfOpt : Option Expr → List NameRef
  | none => []
  | some e => refsOfExpr e

mutual
  /-- `visit_stmt_for_names`. -/
  def refsOfStmt : Stmt → List NameRef
    | .expr e _ => refsOfExpr e
    | .assign _ v _ => refsOfExpr v
    | .augAssign _ v _ => refsOfExpr v
    | .return_ v _ => refsOfOpt v
    | .if_ t b o _ => refsOfExpr t ++ refsOfStmts b ++ refsOfStmts o
    | .while_ t b _ _ => refsOfExpr t ++ refsOfStmts b
    | .for_ _ _ it b _ _ => refsOfExpr it ++ refsOfStmts b
    | .with_ _ ctxs _ b _ => refsOfExprs ctxs ++ refsOfStmts b
    | .assert_ t m _ => refsOfExpr t ++ refsOfOpt m
    | _ => []
  def refsOfStmts : List Stmt → List NameRef
    | [] => []
    | s :: ss => refsOfStmt s ++ refsOfStmts ss
end

/-- everything `scan_function_body_for_undeclared_fixtures` needs that does not depend on the
    index: the decision per reference is taken when the event is replayed. -/
structure BodyScan where
  fnName : String
  fnLine : Nat
  declared : List String
  /-- local bindings then module-level names (line 0); the FIRST (smallest-line) binding of a name counts. -/
  locals : List (String × Nat)
  refs : List NameRef
  deriving Repr, Inhabited

/-- the line a name is first bound on: the smallest line among its bindings (`record_binding`
    keeps the first binding; before the repair `HashMap::insert` kept the last) -/
def minLine : Option Nat → List Nat → Option Nat
  | acc, [] => acc
  | none, x :: xs => minLine (some x) xs
  | some a, x :: xs => minLine (some (min a x)) xs

def lookupFirst (l : List (String × Nat)) (n : String) : Option Nat :=
  minLine none ((l.filter (fun p => p.1 == n)).map (·.2))

/-- `!declared.contains(name) && !is_local_var_in_scope` — the index-independent half. -/
def BodyScan.candidate (b : BodyScan) (r : NameRef) : Bool :=
  !b.declared.contains r.name &&
    !(match lookupFirst b.locals r.name with
      | some dl => decide (dl < r.line)
      | none => false)

/-! ### analyzer.rs: events -/

/-- a definition before the index stamps `is_third_party` / `is_plugin` on it. -/
inductive Event where
  | defn (d : Def)
  | usage (u : Usage)
  | scan (b : BodyScan)
  /-- an analysis-aborting panic. No statement produces it any more (E7 repaired; see
      `C11_analysis_never_panics`); kept so that the replay machinery stays total. -/
  | panic
  deriving Repr, Inhabited

/-- `record_string_fixture_usage`: a fixture named inside a string literal; the span is the name's
    own place in the literal's source text (`stringNameSpan`). -/
def strUsage (f : Path) (lines : List Chars) (p : String × Range) : Event :=
  let sp := stringNameSpan lines p.1.toList p.2.line p.2.col p.2.endLine p.2.endCol
  .usage ⟨p.1, f, sp.1, sp.2.1, sp.2.2⟩

def argUsage (f : Path) (a : Arg) : Event :=
  .usage ⟨a.name, f, a.line, a.col, a.col + a.name.utf8ByteSize⟩

/-- the `is_test` branch of `visit_stmt`: every parameter but `self` is a usage, then the body scan. -/
def testEvents (f : Path) (modNames : List String) (name : String) (args : Args) (body : List Stmt)
    (r : Range) : List Event :=
  if name.startsWith "test_" then
    ((args.all.filter (fun a => a.name != "self" && !a.hasDefault)).map (argUsage f)) ++
    [.scan ⟨name, r.line, ["self", "request"] ++ args.all.map (·.name),
      localsOf body ++ modNames.map (fun n => (n, 0)), refsOfStmts body⟩]
  else []

/-- the definition recorded for a fixture function -/
def fixtureDef (f : Path) (lines : List Chars) (name : String) (deco : Expr) (args : Args)
    (returns : Option Expr) (body : List Stmt) (r : Range) (doc : Option String) : Def :=
  { name := (fixtureNameOf deco).getD name, file := f, line := r.line, endLine := r.endLine,
    startChar := (findFunctionNamePosition lines r.line name.toList).1,
    endChar := (findFunctionNamePosition lines r.line name.toList).2,
    docstring := doc, returnType := returnTypeOf returns body,
    thirdParty := false, plugin := false,
    deps := ((args.all.filter (fun a => !a.hasDefault)).map (·.name)).filter (fun a => a != "self" && a != "request"),
    scope := (fixtureScopeOf deco).getD .function,
    yieldLine := yieldLine body, autouse := fixtureAutouseOf deco }

/-- the fixture branch of `visit_stmt`: the definition, its parameter usages, the body scan. -/
def fixtureEvents (f : Path) (lines : List Chars) (modNames : List String) (name : String) (deco : Expr)
    (args : Args) (returns : Option Expr) (body : List Stmt) (r : Range) (doc : Option String) : List Event :=
  [.defn (fixtureDef f lines name deco args returns body r doc)] ++
  ((args.all.filter (fun a => a.name != "self" && a.name != "request" && !a.hasDefault)).map (argUsage f)) ++
  [.scan ⟨name, r.line, ["self", "request", name] ++ args.all.map (·.name),
    localsOf body ++ modNames.map (fun n => (n, 0)), refsOfStmts body⟩]

/-- the function part of `visit_stmt`. -/
def visitFunction (f : Path) (lines : List Chars) (modNames : List String)
    (name : String) (decos : List Expr) (args : Args) (returns : Option Expr)
    (body : List Stmt) (r : Range) : List Event :=
  let marks := decos.flatMap (fun d => (usefixturesNames d).map (strUsage f lines)) ++
    decos.flatMap (fun d => (parametrizeIndirect d).map (strUsage f lines))
  match decos.find? isFixtureDecorator with
  | none => marks ++ testEvents f modNames name args body r
  | some deco =>
    -- a decorated fixture is a fixture whatever its name (since the E5 repair the `is_test` branch
    -- is not taken for it: its parameters used to be recorded twice)
    marks ++ fixtureEvents f lines modNames name deco args returns body r (docstringOf body)

/-- the definition an assignment-style fixture records for one target -/
def assignTargetDef (f : Path) (r : Range) : Expr → Option Def
  | .name id nr => some {
      name := id, file := f, line := r.line, endLine := r.line,
      startChar := nr.col, endChar := nr.endCol, docstring := none, returnType := none,
      thirdParty := false, plugin := false, deps := [], scope := .function,
      yieldLine := none, autouse := false }
  | _ => none

/-- `visit_assignment_fixture`. -/
def visitAssignFixture (f : Path) (targets : List Expr) (value : Expr) (r : Range) : List Event :=
  match value with
  | .call (.call inner _ _ _ _) _ _ _ _ =>
    if isFixtureDecorator inner then (targets.filterMap (assignTargetDef f r)).map Event.defn else []
  | _ => []

def isNameNamed (n : String) : Expr → Bool
  | .name id _ => id == n
  | _ => false

mutual
  /-- `visit_stmt`. -/
  def visitStmt (f : Path) (lines : List Chars) (modNames : List String) : Stmt → List Event
    | .assign ts v r =>
      visitAssignFixture f ts v r ++
      (if ts.any (isNameNamed "pytestmark") then
        (usefixturesFromExpr v).map (strUsage f lines) else [])
    | .annAssign t v _ =>
      if isNameNamed "pytestmark" t then
        match v with
        | some v => (usefixturesFromExpr v).map (strUsage f lines)
        | none => []
      else []
    | .classDef _ decos body _ =>
      decos.flatMap (fun d => (usefixturesNames d).map (strUsage f lines)) ++
      visitStmts f lines modNames body
    | .funcDef _ name decos args returns body r =>
      visitFunction f lines modNames name decos args returns body r
    | _ => []
  def visitStmts (f : Path) (lines : List Chars) (modNames : List String) : List Stmt → List Event
    | [] => []
    | s :: ss => visitStmt f lines modNames s ++ visitStmts f lines modNames ss
end

/-- events after a panic are never recorded. -/
def cutAtPanic : List Event → List Event
  | [] => []
  | .panic :: _ => [.panic]
  | e :: es => e :: cutAtPanic es

/-! ### module-level names, imports, pytest_plugins -/

/-- `collect_module_level_names`. -/
def moduleLevelNames : List Stmt → List String
  | [] => []
  | s :: ss =>
    (match s with
     | .import_ names _ => names.map (fun a => a.asname.getD a.name)
     | .importFrom _ _ names _ => names.map (fun a => a.asname.getD a.name)
     | .funcDef _ name decos _ _ _ _ => if decos.any isFixtureDecorator then [] else [name]
     | .classDef name _ _ _ => [name]
     | .assign ts _ _ => namesFromExprs ts
     | .annAssign t _ _ => namesFromExpr t
     | _ => []) ++ moduleLevelNames ss

structure ImportRec where
  modulePath : String
  isStar : Bool
  /-- `asname.unwrap_or(name)` — what the implementation keeps -/
  names : List String
  /-- the names as they exist in the imported module (used by the spec only) -/
  orig : List String
  deriving DecidableEq, Repr, Inhabited

/-- `extract_fixture_imports` given the stdlib table. -/
def fixtureImports (stdlib : List String) : List Stmt → List ImportRec
  | [] => []
  | .importFrom m level names _ :: ss =>
    let modp := String.ofList (List.replicate level '.') ++ m.getD ""
    let first := String.ofList (modp.toList.takeWhile (· != '.'))
    if stdlib.contains first then fixtureImports stdlib ss
    else if names.any (·.name == "*") then ⟨modp, true, [], []⟩ :: fixtureImports stdlib ss
    else if names.isEmpty then fixtureImports stdlib ss
    else ⟨modp, false, names.map (fun a => a.asname.getD a.name), names.map (·.name)⟩ :: fixtureImports stdlib ss
  | _ :: ss => fixtureImports stdlib ss

def strElts (es : List Expr) : List String := es.filterMap strConst?

/-- `extract_pytest_plugins`: the last assignment wins. -/
def pytestPlugins (acc : List String) : List Stmt → List String
  | [] => acc
  | s :: ss =>
    let value : Option Expr :=
      match s with
      | .assign ts v _ => if ts.any (isNameNamed "pytest_plugins") then some v else none
      | .annAssign t v _ => if isNameNamed "pytest_plugins" t then v else none
      | _ => none
    match value with
    | none => pytestPlugins acc ss
    | some (.constant (.str m) _) => pytestPlugins [m] ss
    | some (.list es _) => pytestPlugins (strElts es) ss
    | some (.tuple es _) => pytestPlugins (strElts es) ss
    | some _ => pytestPlugins [] ss

mutual
  /-- function ranges in the order `find_function_containing_line` tries them: top-level functions
      and, recursively, the methods of classes (nested functions are never entered). -/
  def funcRangesStmt : Stmt → List (String × Nat × Nat)
    | .funcDef _ name _ _ _ _ r => [(name, r.line, r.endLine)]
    | .classDef _ _ body _ => funcRangesOf body
    | _ => []
  def funcRangesOf : List Stmt → List (String × Nat × Nat)
    | [] => []
    | s :: ss => funcRangesStmt s ++ funcRangesOf ss
end

/-- What one successfully parsed text contributes. -/
structure FileRec where
  events : List Event
  modNames : List String
  imports : List ImportRec
  plugins : List String
  /-- `(name, first line, last line)` of the functions `find_containing_function` can answer with -/
  funcRanges : List (String × Nat × Nat) := []
  /-- the module body (completion context and other AST-walking queries re-read the cached AST) -/
  body : List Stmt := []
  deriving Repr, Inhabited

def analyzeModule (stdlib : List String) (f : Path) (text : Chars) (body : List Stmt) : FileRec :=
  let mn := moduleLevelNames body
  { events := cutAtPanic (visitStmts f (linesOf text) mn body),
    modNames := mn,
    imports := fixtureImports stdlib body,
    plugins := pytestPlugins [] body,
    funcRanges := funcRangesOf body,
    body := body }

def FileRec.defs (r : FileRec) : List Def :=
  r.events.filterMap (fun e => match e with | .defn d => some d | _ => none)

def FileRec.usages (r : FileRec) : List Usage :=
  r.events.filterMap (fun e => match e with | .usage u => some u | _ => none)

end PLS
