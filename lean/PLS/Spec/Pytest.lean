/-
  PLS.Spec.Pytest — what "the definition pytest itself would inject" means here (C01, C02, C05):
  an order-free, declarative reading of the property text.  No pytest is installed in the
  sandbox; this is the independent reference the properties ask for.

  A workspace is a *set* of definitions plus an import relation between files.
  `Provides imp c d` : conftest/module `c` makes definition `d` available — it defines it, or it
  reaches `d.file` through import edges that export `d.name`.
-/
import PLS.Model.Basic
namespace PLS.Spec
open PLS

/-- one import edge `src → dst`: `names = none` exports everything `dst` provides (star import,
    `pytest_plugins`), `some ns` only those names. -/
structure Edge where
  src : Path
  dst : Path
  names : Option (List String)
  deriving DecidableEq, Repr

def Edge.exports (e : Edge) (n : String) : Bool :=
  match e.names with
  | none => true
  | some ns => ns.contains n

/-- `Provides es c d`: inductively, through edges exporting `d.name`. -/
inductive Provides (es : List Edge) : Path → Def → Prop where
  | own {c d} : d.file = c → Provides es c d
  | via {c d} (e : Edge) : e ∈ es → e.src = c → e.exports d.name = true → Provides es e.dst d →
      Provides es c d

/-- executable closure with fuel (number of edges + 1 suffices; see `Props/C01`). -/
def provides (es : List Edge) : Nat → Path → Def → Bool
  | 0, c, d => d.file == c
  | fuel + 1, c, d =>
    d.file == c || es.any (fun e => e.src == c && e.exports d.name && provides es fuel e.dst d)

/-- `d` is visible from `f` through the conftest in `dir`. -/
def ViaConftest (es : List Edge) (confs : List Path) (f : Path) (d : Def) : Prop :=
  ∃ dir, dir <+: dirOf f ∧ conftestOf dir ∈ confs ∧ Provides es (conftestOf dir) d

/-- the visibility rule of the property. `confs` = the conftest files that exist. -/
def Visible (es : List Edge) (confs : List Path) (f : Path) (d : Def) : Prop :=
  d.file = f ∨ ViaConftest es confs f d ∨ (d.plugin = true ∧ d.thirdParty = false) ∨ d.thirdParty = true

/-- executable rank: 0 same file; `1 + k` conftest `k` levels up; then plugin; then third party. -/
def rank (es : List Edge) (confs : List Path) (fuel : Nat) (f : Path) (d : Def) : Option Nat :=
  if d.file == f then some 0 else
  let dirs := ancestorsOfDir (dirOf f)
  match (List.range dirs.length).find? (fun k =>
      match dirs[k]? with
      | some dir => confs.contains (conftestOf dir) && provides es fuel (conftestOf dir) d
      | none => false) with
  | some k => some (1 + k)
  | none =>
    if d.plugin && !d.thirdParty then some (dirs.length + 1)
    else if d.thirdParty then some (dirs.length + 2)
    else none

/-- the set of answers the property allows for name `n` used in file `f`: the visible
    definitions of minimal rank; in the same file only the last one. Empty = "answer is empty". -/
def acceptable (ix : List Def) (es : List Edge) (confs : List Path) (f : Path) (n : String) : List Def :=
  let fuel := es.length + 1
  let cands := (ix.filter (·.name == n)).filterMap (fun d => (rank es confs fuel f d).map (fun r => (r, d)))
  match cands.foldl (fun (m : Option Nat) p => match m with
      | none => some p.1
      | some x => some (min x p.1)) none with
  | none => []
  | some best =>
    let top := (cands.filter (·.1 == best)).map (·.2)
    if best == 0 then
      let ml := top.foldl (fun m d => max m d.line) 0
      top.filter (·.line == ml)
    else top

end PLS.Spec
