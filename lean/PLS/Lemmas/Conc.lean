/-
  PLS.Lemmas.Conc — the invariant behind C09: every thread's steps act on its own file's
  projection exactly as if it ran alone, and leave every other file's projection untouched;
  an empty vector is only ever visible while the thread that emptied it is about to remove it.
-/
import PLS.Model.Conc
namespace PLS.Conc

/-- Lemma A: a thread's step acts on its own projection exactly as `lstep`. -/
theorem own_step (m : Map) (F : File) (flag : Bool) (ins : Instr) :
    (fun k => projF F (ents (stepInstr m F flag ins).1 k)) =
      lstep F (fun k => projF F (ents m k)) ins := by
  funext k'
  cases ins with
  | retain k =>
    simp only [stepInstr, lstep]
    cases hm : m k with
    | none =>
      by_cases hk : k' = k
      · subst hk; simp [ents, hm, projF]
      · simp [hk]
    | some v =>
      by_cases hk : k' = k
      · subst hk
        simp [ents_upd_same, projF, List.filter_filter]
      · simp [hk, ents_upd_other _ _ _ _ hk]
  | condRemove k =>
    simp only [stepInstr, lstep]
    split
    · split
      · rename_i hm
        by_cases hk : k' = k
        · subst hk; simp [ents, hm]
        · simp [ents_upd_other _ _ _ _ hk]
      · rfl
    · rfl
  | push k t =>
    simp only [stepInstr, lstep]
    by_cases hk : k' = k
    · subst hk; simp [ents_upd_same, projF, List.filter_append, ents]
    · simp [hk, ents_upd_other _ _ _ _ hk]

/-- Lemma B: a step of a thread for file `F` leaves every other file's projection alone. -/
theorem other_step (m : Map) (F G : File) (hFG : G ≠ F) (flag : Bool) (ins : Instr) (k' : Key) :
    projF G (ents (stepInstr m F flag ins).1 k') = projF G (ents m k') := by
  cases ins with
  | retain k =>
    simp only [stepInstr]
    cases hm : m k with
    | none => rfl
    | some v =>
      by_cases hk : k' = k
      · subst hk
        simp [ents_upd_same, projF, List.filter_filter, ents, hm]
        apply List.filter_congr
        intro a _
        by_cases h : a.file = G
        · simp [h, hFG]
        · simp [h]
      · simp [ents_upd_other _ _ _ _ hk]
  | condRemove k =>
    simp only [stepInstr]
    split
    · split
      · rename_i hm
        by_cases hk : k' = k
        · subst hk; simp [ents, hm]
        · simp [ents_upd_other _ _ _ _ hk]
      · rfl
    · rfl
  | push k t =>
    simp only [stepInstr]
    by_cases hk : k' = k
    · subst hk
      simp [ents_upd_same, projF, List.filter_append, ents]
      intro h; exact absurd h.symm hFG
    · simp [ents_upd_other _ _ _ _ hk]


/-! ### shape of a remaining program: every `retain k` is immediately followed by `condRemove k` -/

def WFProg (p : List Instr) : Prop :=
  (∃ olds news, p = program olds news) ∨ (∃ k olds news, p = .condRemove k :: program olds news)

theorem program_cons (k : Key) (olds news) :
    program (k :: olds) news = .retain k :: .condRemove k :: program olds news := by
  simp [program]
theorem program_nil_cons (kt : Key × Nat) (news) :
    program [] (kt :: news) = .push kt.1 kt.2 :: program [] news := by
  simp [program]

theorem WFProg.tail {ins : Instr} {rest : List Instr} (h : WFProg (ins :: rest)) : WFProg rest := by
  rcases h with ⟨olds, news, heq⟩ | ⟨k, olds, news, heq⟩
  · cases olds with
    | nil =>
      cases news with
      | nil => simp [program] at heq
      | cons kt news =>
        rw [program_nil_cons] at heq
        injection heq with _ h2; subst h2; exact Or.inl ⟨[], news, rfl⟩
    | cons k olds =>
      rw [program_cons] at heq
      injection heq with _ h2; subst h2; exact Or.inr ⟨k, olds, news, rfl⟩
  · injection heq with _ h2; subst h2; exact Or.inl ⟨olds, news, rfl⟩

theorem WFProg.retain_next {k : Key} {rest : List Instr} (h : WFProg (.retain k :: rest)) :
    ∃ rest', rest = .condRemove k :: rest' := by
  rcases h with ⟨olds, news, heq⟩ | ⟨k', olds, news, heq⟩
  · cases olds with
    | nil =>
      cases news with
      | nil => simp [program] at heq
      | cons kt news => rw [program_nil_cons] at heq; injection heq with h1 _; cases h1
    | cons k' olds =>
      rw [program_cons] at heq
      injection heq with h1 h2
      injection h1 with h1; subst h1; exact ⟨_, h2⟩
  · injection heq with h1 _; cases h1

structure Inv (s0 s : Sys) : Prop where
  len : s.ts.length = s0.ts.length
  files : ∀ (i : Nat) (t t0 : Thread), s.ts[i]? = some t → s0.ts[i]? = some t0 → t.file = t0.file
  work : ∀ (i : Nat) (t t0 : Thread), s.ts[i]? = some t → s0.ts[i]? = some t0 →
      lrun t.file (fun k => projF t.file (ents s.m k)) t.prog =
      lrun t0.file (fun k => projF t0.file (ents s0.m k)) t0.prog
  other : ∀ G, (∀ t ∈ s0.ts, t.file ≠ G) → ∀ k, projF G (ents s.m k) = projF G (ents s0.m k)
  wf : ∀ t ∈ s.ts, WFProg t.prog
  wit : ∀ k, s.m k = some [] →
      ∃ t ∈ s.ts, t.flag = true ∧ ∃ rest, t.prog = .condRemove k :: rest

theorem inv_init (s0 : Sys) (hwf : ∀ t ∈ s0.ts, WFProg t.prog) (hne : ∀ k, s0.m k ≠ some []) :
    Inv s0 s0 :=
  { len := rfl
    files := by intro i t t0 h h0; rw [h] at h0; injection h0 with h0; rw [h0]
    work := by intro i t t0 h h0; rw [h] at h0; injection h0 with h0; rw [h0]
    other := by intros; rfl
    wf := hwf
    wit := by intro k h; exact absurd h (hne k) }

theorem inv_step (s0 s : Sys) (hnd : (s0.ts.map (·.file)).Nodup) (h : Inv s0 s) (i : Nat) :
    Inv s0 (stepSys s i) := by
  unfold stepSys
  cases hti : s.ts[i]? with
  | none => simpa using h
  | some t =>
    simp only
    cases hp : t.prog with
    | nil => simpa [hp] using h
    | cons ins rest =>
      simp only
      have hi : i < s.ts.length := by
        rcases List.getElem?_eq_some_iff.mp hti with ⟨hi, _⟩; exact hi
      have hi0 : i < s0.ts.length := h.len ▸ hi
      obtain ⟨t0, ht0⟩ : ∃ t0, s0.ts[i]? = some t0 := ⟨s0.ts[i], List.getElem?_eq_getElem hi0⟩
      have hfile : t.file = t0.file := h.files i t t0 hti ht0
      have twf : WFProg (ins :: rest) := hp ▸ h.wf t (List.mem_of_getElem? hti)
      -- abbreviations
      generalize hm' : (stepInstr s.m t.file t.flag ins).1 = m'
      generalize hf' : (stepInstr s.m t.file t.flag ins).2 = fl'
      have hpair : stepInstr s.m t.file t.flag ins = (m', fl') := by rw [← hm', ← hf']
      try simp only [hpair]
      -- lookups in the updated thread list
      have look : ∀ j u, (s.ts.set i { t with flag := fl', prog := rest })[j]? = some u →
          (j = i ∧ u = { t with flag := fl', prog := rest }) ∨ (j ≠ i ∧ s.ts[j]? = some u) := by
        intro j u hu
        by_cases hji : j = i
        · subst hji
          rw [List.getElem?_set_self hi] at hu
          injection hu with hu; exact Or.inl ⟨rfl, hu.symm⟩
        · rw [List.getElem?_set_ne (Ne.symm hji)] at hu; exact Or.inr ⟨hji, hu⟩
      refine
        { len := by simp [h.len]
          files := ?_, work := ?_, other := ?_, wf := ?_, wit := ?_ }
      · intro j u u0 hu hu0
        rcases look j u hu with ⟨rfl, rfl⟩ | ⟨_, hu'⟩
        · cases Option.some.inj (ht0.symm.trans hu0); exact hfile
        · exact h.files j u u0 hu' hu0
      · intro j u u0 hu hu0
        rcases look j u hu with ⟨rfl, rfl⟩ | ⟨hji, hu'⟩
        · cases Option.some.inj (ht0.symm.trans hu0)
          have hw := h.work j t t0 hti ht0
          rw [hp] at hw
          simp only
          rw [← hw, ← hm', own_step]
          rfl
        · have hw := h.work j u u0 hu' hu0
          rw [← hw]
          have hne : u.file ≠ t.file := by
            have hj : j < s.ts.length := by
              rcases List.getElem?_eq_some_iff.mp hu' with ⟨hj, _⟩; exact hj
            have e1 := h.files j u u0 hu' hu0
            intro heq
            have : u0.file = t0.file := by rw [← e1, ← hfile, heq]
            have hj0 : j < s0.ts.length := h.len ▸ hj
            have hlen : (s0.ts.map (·.file)).length = s0.ts.length := by simp
            have hinj := (List.getElem_inj (xs := s0.ts.map (·.file)) (i := j) (j := i)
              (h₀ := by omega) (h₁ := by omega) hnd).mp (by
                simp only [List.getElem_map]
                rcases List.getElem?_eq_some_iff.mp hu0 with ⟨_, e⟩
                rcases List.getElem?_eq_some_iff.mp ht0 with ⟨_, e'⟩
                rw [e, e']; exact this)
            exact hji hinj
          congr 1
          funext k
          rw [← hm']
          exact other_step s.m t.file u.file hne t.flag ins k
      · intro G hG k
        rw [← h.other G hG k, ← hm']
        have : G ≠ t.file := by
          intro e; exact hG t0 (List.mem_of_getElem? ht0) (by rw [← hfile, e])
        exact other_step s.m t.file G this t.flag ins k
      · intro u hu
        rcases List.mem_iff_getElem?.mp hu with ⟨j, hj⟩
        rcases look j u hj with ⟨_, rfl⟩ | ⟨_, hu'⟩
        · exact twf.tail
        · exact h.wf u (List.mem_of_getElem? hu')
      · -- witnesses for empty vectors
        intro k hk
        -- helper: an old witness other than thread i survives
        have keep : ∀ u, u ∈ s.ts → u.flag = true → (∃ r, u.prog = .condRemove k :: r) →
            (∀ r, u.prog = .condRemove k :: r → ins = .condRemove k → False) →
            ∃ u' ∈ s.ts.set i { t with flag := fl', prog := rest },
              u'.flag = true ∧ ∃ r, u'.prog = .condRemove k :: r := by
          intro u hu hfl hpr hnot
          rcases List.mem_iff_getElem?.mp hu with ⟨j, hj⟩
          by_cases hji : j = i
          · subst hji
            rw [hti] at hj; injection hj with hj; subst hj
            rcases hpr with ⟨r, hr⟩
            rw [hp] at hr; injection hr with h1 h2
            exact absurd (hnot r (by rw [hp, h1, h2]) h1) id
          · exact ⟨u, List.mem_iff_getElem?.mpr ⟨j, by rw [List.getElem?_set_ne (Ne.symm hji)]; exact hj⟩,
              hfl, hpr⟩
        cases ins with
        | retain k1 =>
          simp only [stepInstr] at hpair
          cases hmk : s.m k1 with
          | none =>
            simp only [hmk] at hpair
            injection hpair with e1 e2; subst e1
            obtain ⟨u, hu, hfl, hpr⟩ := h.wit k hk
            exact keep u hu hfl hpr (by intro _ _ hh; cases hh)
          | some v =>
            simp only [hmk] at hpair
            injection hpair with e1 e2
            by_cases hkk : k = k1
            · subst hkk
              rw [← e1] at hk; simp at hk
              obtain ⟨r', hr'⟩ := twf.retain_next
              refine ⟨{ t with flag := fl', prog := rest }, List.mem_iff_getElem?.mpr ⟨i, List.getElem?_set_self hi⟩, ?_, r', hr'⟩
              simp only; rw [← e2]; simpa using hk
            · have : s.m k = some [] := by rw [← e1] at hk; simpa [upd, hkk] using hk
              obtain ⟨u, hu, hfl, hpr⟩ := h.wit k this
              exact keep u hu hfl hpr (by intro _ _ hh; cases hh)
        | condRemove k1 =>
          simp only [stepInstr] at hpair
          by_cases hflag : t.flag = true
          · simp only [hflag, if_true] at hpair
            by_cases hkk : k = k1
            · subst hkk
              -- after a flagged condRemove the key is never `some []`
              exfalso
              cases hmk : s.m k with
              | none => simp [hmk] at hpair; rw [← hpair.1, hmk] at hk; cases hk
              | some v =>
                cases v with
                | nil => simp [hmk] at hpair; rw [← hpair.1] at hk; simp at hk
                | cons a v => simp [hmk] at hpair; rw [← hpair.1, hmk] at hk; cases hk
            · have hmk : s.m k = some [] := by
                have : m' k = s.m k := by
                  split at hpair <;> (injection hpair with e1 _; rw [← e1]) <;> simp [upd, hkk]
                rw [← this]; exact hk
              obtain ⟨u, hu, hfl, hpr⟩ := h.wit k hmk
              refine keep u hu hfl hpr ?_
              intro r hr hins; injection hins with hins; exact hkk hins.symm
          · simp only [hflag] at hpair
            injection hpair with e1 e2; subst e1
            obtain ⟨u, hu, hfl, hpr⟩ := h.wit k hk
            rcases List.mem_iff_getElem?.mp hu with ⟨j, hj⟩
            by_cases hji : j = i
            · subst hji; rw [hti] at hj; injection hj with hj; subst hj
              exact absurd hfl hflag
            · exact ⟨u, List.mem_iff_getElem?.mpr ⟨j, by rw [List.getElem?_set_ne (Ne.symm hji)]; exact hj⟩, hfl, hpr⟩
        | push k1 tg =>
          simp only [stepInstr] at hpair
          injection hpair with e1 e2
          by_cases hkk : k = k1
          · subst hkk; rw [← e1] at hk; simp at hk
          · have : s.m k = some [] := by rw [← e1] at hk; simpa [upd, hkk] using hk
            obtain ⟨u, hu, hfl, hpr⟩ := h.wit k this
            exact keep u hu hfl hpr (by intro _ _ hh; cases hh)

theorem inv_run (s0 s : Sys) (hnd : (s0.ts.map (·.file)).Nodup) (h : Inv s0 s) (sched : List Nat) :
    Inv s0 (run s sched) := by
  induction sched generalizing s with
  | nil => exact h
  | cons i rest ih => exact ih (stepSys s i) (inv_step s0 s hnd h i)

/-- **C09 (reduced): every complete schedule ends in the same per-file contents, with no empty
vector left behind.**  The right-hand sides do not mention the schedule. -/
theorem conc_final (s0 : Sys) (hnd : (s0.ts.map (·.file)).Nodup)
    (hwf : ∀ t ∈ s0.ts, WFProg t.prog) (hne : ∀ k, s0.m k ≠ some [])
    (sched : List Nat) (hdone : ∀ t ∈ (run s0 sched).ts, t.prog = []) :
    (∀ k, (run s0 sched).m k ≠ some []) ∧
    (∀ (i : Nat) (t0 : Thread), s0.ts[i]? = some t0 → ∀ k,
        projF t0.file (ents (run s0 sched).m k) =
          lrun t0.file (fun k => projF t0.file (ents s0.m k)) t0.prog k) ∧
    (∀ G, (∀ t ∈ s0.ts, t.file ≠ G) → ∀ k,
        projF G (ents (run s0 sched).m k) = projF G (ents s0.m k)) := by
  have hI := inv_run s0 s0 hnd (inv_init s0 hwf hne) sched
  refine ⟨?_, ?_, hI.other⟩
  · intro k hk
    obtain ⟨t, ht, _, r, hr⟩ := hI.wit k hk
    rw [hdone t ht] at hr; cases hr
  · intro i t0 ht0 k
    have hi0 : i < s0.ts.length := by
      rcases List.getElem?_eq_some_iff.mp ht0 with ⟨hi, _⟩; exact hi
    have hi : i < (run s0 sched).ts.length := hI.len ▸ hi0
    have ht : (run s0 sched).ts[i]? = some ((run s0 sched).ts[i]) := List.getElem?_eq_getElem hi
    have hw := hI.work i _ t0 ht ht0
    have hf := hI.files i _ t0 ht ht0
    rw [hdone _ (List.mem_of_getElem? ht)] at hw
    simp only [lrun, List.foldl_nil] at hw
    rw [← hf]
    have := congrFun hw k
    simpa [lrun, hf] using this



end PLS.Conc
