/-
  PLS.Lemmas.Bridge — the state-threading walk (`walkUpM`, `resolveFM`) answers like the pure
  walk for the oracle that records what the import test said at each conftest.
-/
import PLS.Lemmas.Resolve
namespace PLS

/-- the pure walk only consults the oracle at the conftests of the directories it visits -/
theorem walkUp_congr (ds : List Def) (filt : Def → Bool) (i j : Path → Bool) (dirs : List Path)
    (h : ∀ x ∈ dirs, i (conftestOf x) = j (conftestOf x)) :
    walkUp ds filt i dirs = walkUp ds filt j dirs := by
  induction dirs with
  | nil => rfl
  | cons dir rest ih =>
    simp only [walkUp]
    rw [h dir (by simp), ih (fun x hx => h x (by simp [hx]))]

/-- the oracle "what `impM` answered during the walk from state `s`" -/
def walkOracle {σ : Type} (impM : Path → σ → Bool × σ) : List Path → σ → Path → Bool
  | [], _ => fun _ => false
  | dir :: rest, s =>
      fun c => if c = conftestOf dir then (impM (conftestOf dir) s).1
               else walkOracle impM rest (impM (conftestOf dir) s).2 c

theorem walkUpM_eq {σ : Type} (ds : List Def) (filt : Def → Bool) (impM : Path → σ → Bool × σ)
    (dirs : List Path) (hn : dirs.Nodup) (s : σ) :
    (walkUpM ds filt impM dirs s).1 = walkUp ds filt (walkOracle impM dirs s) dirs := by
  induction dirs generalizing s with
  | nil => rfl
  | cons dir rest ih =>
    have hnr : rest.Nodup := (List.nodup_cons.mp hn).2
    have hnot : dir ∉ rest := (List.nodup_cons.mp hn).1
    -- the oracle restricted to `rest` is the recursive oracle
    have hc : walkUp ds filt (walkOracle impM (dir :: rest) s) rest
        = walkUp ds filt (walkOracle impM rest (impM (conftestOf dir) s).2) rest := by
      apply walkUp_congr
      intro x hx
      have : conftestOf x ≠ conftestOf dir := by
        intro he
        exact hnot (conftestOf_inj he ▸ hx)
      simp [walkOracle, this]
    have hhead : walkOracle impM (dir :: rest) s (conftestOf dir) = (impM (conftestOf dir) s).1 := by
      simp [walkOracle]
    rw [walkUp, hc, hhead, walkUpM]
    split
    · rfl
    · rcases hi : impM (conftestOf dir) s with ⟨b, s'⟩
      cases b with
      | true =>
        simp only [if_true]
        split
        · rfl
        · exact ih hnr s'
      | false =>
        simp only [Bool.false_eq_true, if_false]
        exact ih hnr s'

theorem resolveFM_bridge {σ : Type} (ix : List Def) (impM : String → Path → σ → Bool × σ) (f : Path)
    (n : String) (filt : Def → Bool) (s : σ) :
    ∃ imp : Path → Bool, (resolveFM ix impM f n filt s).1 =
      resolveF ix (fun c _ => imp c) f n filt := by
  refine ⟨walkOracle (impM n) (ancestorsOfDir (dirOf f)) s, ?_⟩
  unfold resolveFM resolveF
  simp only
  cases h1 : maxByLine ((defsOf ix n).filter (fun d => d.file == f && filt d)) with
  | some d => rfl
  | none =>
    simp only
    have hw := walkUpM_eq (defsOf ix n) filt (impM n) (ancestorsOfDir (dirOf f)) (ancestors_nodup _) s
    rcases hm : walkUpM (defsOf ix n) filt (impM n) (ancestorsOfDir (dirOf f)) s with ⟨r, s'⟩
    rw [hm] at hw
    simp only at hw
    rw [← hw]
    cases r with
    | some d => rfl
    | none =>
      simp only
      cases (defsOf ix n).find? (fun d => d.plugin && !d.thirdParty && filt d) <;> rfl

end PLS
