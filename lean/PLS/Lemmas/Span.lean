/-
  Lemmas about `wordOccAux` / `stringNameSpan` (the place of a fixture name inside a string
  literal's source text).
-/
import PLS.Model.Text
namespace PLS

theorem blen_append (a b : Chars) : blen (a ++ b) = blen a + blen b := by
  induction a with
  | nil => simp [blen]
  | cons c cs ih => simp only [List.cons_append, blen, ih]; omega

theorem bsliceFrom_split : ∀ (l : Chars) (k : Nat) (t : Chars),
    bsliceFrom l k = some t → ∃ p, l = p ++ t ∧ blen p = k := by
  intro l
  induction l with
  | nil =>
    intro k t h
    cases k with
    | zero => simp only [bsliceFrom, Option.some.injEq] at h; exact ⟨[], by simp [h], rfl⟩
    | succ k => simp [bsliceFrom] at h
  | cons c cs ih =>
    intro k t h
    cases k with
    | zero => simp only [bsliceFrom, Option.some.injEq] at h; exact ⟨[], by simp [h], rfl⟩
    | succ k =>
      simp only [bsliceFrom] at h
      split at h
      · rename_i hle
        obtain ⟨p, hp, hb⟩ := ih _ _ h
        exact ⟨c :: p, by rw [hp]; rfl, by simp only [blen, hb]; omega⟩
      · cases h

theorem bsliceTo_split : ∀ (l : Chars) (k : Nat) (seg : Chars),
    bsliceTo l k = some seg → ∃ q, l = seg ++ q ∧ blen seg = k := by
  intro l
  induction l with
  | nil =>
    intro k seg h
    cases k with
    | zero => simp only [bsliceTo, Option.some.injEq] at h; exact ⟨[], by simp [← h], by simp [← h, blen]⟩
    | succ k => simp [bsliceTo] at h
  | cons c cs ih =>
    intro k seg h
    cases k with
    | zero => simp only [bsliceTo, Option.some.injEq] at h; exact ⟨c :: cs, by simp [← h], by simp [← h, blen]⟩
    | succ k =>
      simp only [bsliceTo] at h
      split at h
      · rename_i hle
        simp only [Option.map_eq_some_iff] at h
        obtain ⟨s', hs', rfl⟩ := h
        obtain ⟨q, hq, hb⟩ := ih _ _ hs'
        exact ⟨q, by rw [hq]; rfl, by simp only [blen, hb]; omega⟩
      · cases h

/-- **what is found spells the name**: the segment is `pre ++ name ++ post` with `pre` of the
    reported byte length, and the character after the match is not a word character -/
theorem wordOccAux_spells (name : Chars) : ∀ (seg : Chars) (prev : Option Char) (skip off : Nat),
    wordOccAux name prev skip seg = some off →
    ∃ pre post, seg = pre ++ name ++ post ∧ blen pre = off ∧ post.head?.any isWordChar = false := by
  intro seg
  induction seg with
  | nil => intro prev skip off h; simp [wordOccAux] at h
  | cons c cs ih =>
    intro prev skip off h
    cases skip with
    | succ k =>
      simp only [wordOccAux, Option.map_eq_some_iff] at h
      obtain ⟨o, ho, rfl⟩ := h
      obtain ⟨pre, post, hs, hb, ha⟩ := ih (some c) k o ho
      exact ⟨c :: pre, post, by rw [hs]; rfl, by simp only [blen, hb]; omega, ha⟩
    | zero =>
      simp only [wordOccAux] at h
      split at h
      · rename_i hpre
        split at h
        · simp only [Option.map_eq_some_iff] at h
          obtain ⟨o, ho, rfl⟩ := h
          obtain ⟨pre, post, hs, hb, ha⟩ := ih (some c) _ o ho
          exact ⟨c :: pre, post, by rw [hs]; rfl, by simp only [blen, hb]; omega, ha⟩
        · rename_i hrej
          have : off = 0 := by simpa using h.symm
          subst this
          obtain ⟨t, ht⟩ := List.isPrefixOf_iff_prefix.mp hpre
          refine ⟨[], t, by simp [ht], rfl, ?_⟩
          simp only [Bool.or_eq_true, not_or, Bool.not_eq_true] at hrej
          have h2 := hrej.2
          rw [← ht, List.drop_left] at h2
          exact h2
      · simp only [Option.map_eq_some_iff] at h
        obtain ⟨o, ho, rfl⟩ := h
        obtain ⟨pre, post, hs, hb, ha⟩ := ih (some c) 0 o ho
        exact ⟨c :: pre, post, by rw [hs]; rfl, by simp only [blen, hb]; omega, ha⟩

theorem clen_pos (c : Char) : 0 < clen c := by
  unfold clen; split <;> (try split) <;> (try split) <;> omega

theorem bsliceFrom_append : ∀ (p t : Chars), bsliceFrom (p ++ t) (blen p) = some t := by
  intro p
  induction p with
  | nil => intro t; cases t <;> rfl
  | cons c cs ih =>
    intro t
    have hp := clen_pos c
    obtain ⟨k, hk⟩ : ∃ k, clen c + blen cs = k + 1 := ⟨clen c + blen cs - 1, by omega⟩
    simp only [List.cons_append, blen, hk, bsliceFrom]
    have hle : clen c ≤ k + 1 := by omega
    simp only [hle, if_true]
    have : k + 1 - clen c = blen cs := by omega
    rw [this]; exact ih t

theorem bsliceTo_append : ∀ (a b : Chars), bsliceTo (a ++ b) (blen a) = some a := by
  intro a
  induction a with
  | nil => intro b; cases b <;> rfl
  | cons c cs ih =>
    intro b
    have hp := clen_pos c
    obtain ⟨k, hk⟩ : ∃ k, clen c + blen cs = k + 1 := ⟨clen c + blen cs - 1, by omega⟩
    simp only [List.cons_append, blen, hk, bsliceTo]
    have hle : clen c ≤ k + 1 := by omega
    simp only [hle, if_true]
    have : k + 1 - clen c = blen cs := by omega
    rw [this, ih b]; rfl

/-- a name that stands at the start of the segment, after a non-word character (or nothing) and
    before a non-word character (or nothing), is found at offset 0 -/
theorem wordOccAux_at_start (name post : Chars) (prev : Option Char) (hn : name ≠ [])
    (hprev : prev.any isWordChar = false) (hp : post.head?.any isWordChar = false) :
    wordOccAux name prev 0 (name ++ post) = some 0 := by
  cases hname : name with
  | nil => exact absurd hname hn
  | cons c cs =>
    have hpre : (c :: cs).isPrefixOf (c :: (cs ++ post)) = true := by
      rw [List.isPrefixOf_iff_prefix]; exact ⟨post, rfl⟩
    have hdrop : (c :: (cs ++ post)).drop (c :: cs).length = post := by
      have : c :: (cs ++ post) = (c :: cs) ++ post := rfl
      rw [this, List.drop_left]
    simp only [List.cons_append, wordOccAux, hpre, if_true, hdrop, hp, hprev, Bool.or_self]
    rfl

/-- one non-word character before the name (the opening quote) moves the match by its length -/
theorem wordOccAux_after_quote (name post : Chars) (q : Char) (hn : name ≠ [])
    (hq : isWordChar q = false) (hw : ∀ c ∈ name, isWordChar c = true)
    (hp : post.head?.any isWordChar = false) :
    wordOccAux name none 0 (q :: (name ++ post)) = some (clen q) := by
  have hnp : name.isPrefixOf (q :: (name ++ post)) = false := by
    cases hname : name with
    | nil => exact absurd hname hn
    | cons c cs =>
      have hc : isWordChar c = true := hw c (by simp [hname])
      have : c ≠ q := by intro h; rw [h, hq] at hc; cases hc
      simp [List.isPrefixOf, this]
  have h0 := wordOccAux_at_start name post (some q) hn (by simp [hq]) hp
  simp only [wordOccAux, hnp, Bool.false_eq_true, if_false, h0, Option.map_some, Nat.zero_add]

theorem skipStringPrefix_spec (s : Nat) (seg : Chars) :
    ∃ p, seg = p ++ (skipStringPrefix s seg).2 ∧ (skipStringPrefix s seg).1 = s + blen p := by
  unfold skipStringPrefix
  split
  · exact ⟨seg.takeWhile (fun c => !isQuote c), (List.takeWhile_append_dropWhile).symm, rfl⟩
  · exact ⟨[], rfl, rfl⟩

/-- a segment of the literal is a piece of its line, at the byte column it is reported with -/
theorem literalSegment_spec (lines : List Chars) (line col endLine endCol ln s : Nat) (seg : Chars)
    (h : literalSegment lines line col endLine endCol ln = some (s, seg)) :
    ∃ L p q, lines[ln - 1]? = some L ∧ L = p ++ seg ++ q ∧ blen p = s := by
  simp only [literalSegment] at h
  cases hL : lines[ln - 1]? with
  | none => simp [hL] at h
  | some L =>
    simp only [hL] at h
    split at h
    · cases h
    · rename_i t hfrom
      simp only [Option.map_eq_some_iff] at h
      obtain ⟨seg', hto, hs'⟩ := h
      obtain ⟨p, hp, hpb⟩ := bsliceFrom_split _ _ _ hfrom
      obtain ⟨q, hq, _⟩ := bsliceTo_split _ _ _ hto
      split at hs'
      · rename_i hln
        simp only [hln, if_true] at hpb
        obtain ⟨p', hp', hb'⟩ := skipStringPrefix_spec col seg'
        rw [hs'] at hp' hb'
        simp only at hp' hb'
        refine ⟨L, p ++ p', q, rfl, ?_, ?_⟩
        · rw [hp, hq, hp']; simp [List.append_assoc]
        · rw [blen_append, hpb, hb']
      · rename_i hln
        simp only [hln, Bool.false_eq_true, if_false] at hpb
        simp only [Prod.mk.injEq] at hs'
        obtain ⟨rfl, rfl⟩ := hs'
        exact ⟨L, p, q, rfl, by rw [hp, hq]; simp [List.append_assoc], hpb⟩

end PLS
