/-
  PLS.Lemmas.Resolve — helper lemmas about the resolver cascade (`Model/Resolve.lean`).
-/
import PLS.Model.Resolve
namespace PLS

theorem maxByLine_eq_none {ds : List Def} : maxByLine ds = none ↔ ds = [] := by
  cases ds with
  | nil => simp [maxByLine]
  | cons x xs =>
    simp only [maxByLine]
    split
    · simp
    · split <;> simp

theorem maxByLine_mem {ds : List Def} {d : Def} (h : maxByLine ds = some d) : d ∈ ds := by
  induction ds generalizing d with
  | nil => simp [maxByLine] at h
  | cons x xs ih =>
    simp only [maxByLine] at h
    split at h
    · simp at h; simp [h]
    · rename_i e he
      split at h
      · simp at h; simp [h]
      · simp at h; subst h; exact List.mem_cons_of_mem _ (ih he)

theorem maxByLine_ge {ds : List Def} {d : Def} (h : maxByLine ds = some d) :
    ∀ e ∈ ds, e.line ≤ d.line := by
  induction ds generalizing d with
  | nil => simp
  | cons x xs ih =>
    simp only [maxByLine] at h
    intro e he
    split at h
    · rename_i hn
      simp at h; subst h
      rcases List.mem_cons.mp he with rfl | hm
      · exact Nat.le_refl _
      · rw [maxByLine_eq_none.mp hn] at hm; simp at hm
    · rename_i m hm
      have := ih hm
      split at h
      · simp at h; subst h
        rcases List.mem_cons.mp he with rfl | hm'
        · exact Nat.le_refl _
        · have := this e hm'; omega
      · simp at h; subst h
        rcases List.mem_cons.mp he with rfl | hm'
        · omega
        · exact this e hm'

theorem mem_defsOf {ix : List Def} {n : String} {e : Def} :
    e ∈ defsOf ix n ↔ e ∈ ix ∧ e.name = n := by
  simp [defsOf, List.mem_filter]

theorem mem_ancestors {p dir : Path} : dir ∈ ancestorsOfDir p ↔ dir <+: p := by
  unfold ancestorsOfDir
  simp only [List.mem_map, List.mem_reverse, List.mem_range]
  constructor
  · rintro ⟨k, _, rfl⟩; exact List.take_prefix k p
  · intro h
    refine ⟨dir.length, ?_, ?_⟩
    · have := h.length_le; omega
    · exact (List.prefix_iff_eq_take.mp h).symm

/-- the walk visits strictly shorter directories after a given one -/
theorem ancestors_sorted {p : Path} {pre post : List Path} {dir : Path}
    (h : ancestorsOfDir p = pre ++ dir :: post) : ∀ x ∈ post, x.length < dir.length := by
  have hp : (ancestorsOfDir p).Pairwise (fun a b => b.length < a.length) := by
    unfold ancestorsOfDir
    rw [List.pairwise_map]
    rw [List.pairwise_reverse]
    refine List.Pairwise.imp_of_mem ?_ (List.pairwise_lt_range)
    intro a b ha hb hab
    simp only [List.mem_range] at ha hb
    simp [List.length_take]; omega
  rw [h] at hp
  have := (List.pairwise_append.mp hp).2.1
  exact (List.pairwise_cons.mp this).1

theorem ancestors_nodup (p : Path) : (ancestorsOfDir p).Nodup := by
  have hp : (ancestorsOfDir p).Pairwise (fun a b => b.length < a.length) := by
    unfold ancestorsOfDir
    rw [List.pairwise_map]
    rw [List.pairwise_reverse]
    refine List.Pairwise.imp_of_mem ?_ (List.pairwise_lt_range)
    intro a b ha hb hab
    simp only [List.mem_range] at ha hb
    simp [List.length_take]; omega
  exact hp.imp (fun {a b} h hab => by subst hab; omega)

theorem conftestOf_length (d : Path) : (conftestOf d).length = d.length + 1 := by
  simp [conftestOf]

theorem conftestOf_inj {a b : Path} (h : conftestOf a = conftestOf b) : a = b := by
  simpa [conftestOf] using h

/-- what a successful walk tells us -/
theorem walkUp_some {ds : List Def} {filt : Def → Bool} {imp : Path → Bool} {dirs : List Path} {d : Def}
    (h : walkUp ds filt imp dirs = some d) :
    ∃ pre dir post, dirs = pre ++ dir :: post ∧ d ∈ ds ∧ filt d = true ∧
      ((d.file = conftestOf dir) ∨
       ((∀ e ∈ ds, e.file = conftestOf dir → filt e = false) ∧ imp (conftestOf dir) = true ∧
         ds.find? filt = some d)) ∧
      (∀ x ∈ pre, (∀ e ∈ ds, e.file = conftestOf x → filt e = false) ∧
         (imp (conftestOf x) = true → ds.find? filt = none)) := by
  induction dirs with
  | nil => simp [walkUp] at h
  | cons dir rest ih =>
    simp only [walkUp] at h
    split at h
    · rename_i d' hf
      simp at h; subst h
      have := List.find?_some hf
      have hm := List.mem_of_find?_eq_some hf
      simp at this
      exact ⟨[], dir, rest, by simp, hm, this.2, Or.inl this.1, by simp⟩
    · rename_i hf
      have hnone : ∀ e ∈ ds, e.file = conftestOf dir → filt e = false := by
        intro e he hef
        have := List.find?_eq_none.mp hf e he
        simp at this
        cases hfe : filt e with
        | false => rfl
        | true => exact absurd hfe (by simpa using this hef)
      split at h
      · rename_i himp
        split at h
        · rename_i d' hf2
          simp at h; subst h
          have hm := List.mem_of_find?_eq_some hf2
          have hfd := List.find?_some hf2
          exact ⟨[], dir, rest, by simp, hm, hfd, Or.inr ⟨hnone, himp, hf2⟩, by simp⟩
        · rename_i hf2
          obtain ⟨pre, dir', post, hd, hm, hfilt, hcase, hpre⟩ := ih h
          refine ⟨dir :: pre, dir', post, by simp [hd], hm, hfilt, hcase, ?_⟩
          intro x hx
          rcases List.mem_cons.mp hx with rfl | hx'
          · exact ⟨hnone, fun _ => hf2⟩
          · exact hpre x hx'
      · rename_i himp
        obtain ⟨pre, dir', post, hd, hm, hfilt, hcase, hpre⟩ := ih h
        refine ⟨dir :: pre, dir', post, by simp [hd], hm, hfilt, hcase, ?_⟩
        intro x hx
        rcases List.mem_cons.mp hx with rfl | hx'
        · exact ⟨hnone, fun hi => absurd hi himp⟩
        · exact hpre x hx'

theorem walkUp_none {ds : List Def} {filt : Def → Bool} {imp : Path → Bool} {dirs : List Path}
    (h : walkUp ds filt imp dirs = none) :
    ∀ x ∈ dirs, (∀ e ∈ ds, e.file = conftestOf x → filt e = false) ∧
      (imp (conftestOf x) = true → ds.find? filt = none) := by
  induction dirs with
  | nil => simp
  | cons dir rest ih =>
    simp only [walkUp] at h
    split at h
    · simp at h
    · rename_i hf
      have hnone : ∀ e ∈ ds, e.file = conftestOf dir → filt e = false := by
        intro e he hef
        have := List.find?_eq_none.mp hf e he
        simp at this
        cases hfe : filt e with
        | false => rfl
        | true => exact absurd hfe (by simpa using this hef)
      intro x hx
      split at h
      · rename_i himp
        split at h
        · simp at h
        · rename_i hf2
          rcases List.mem_cons.mp hx with rfl | hx'
          · exact ⟨hnone, fun _ => hf2⟩
          · exact ih h x hx'
      · rename_i himp
        rcases List.mem_cons.mp hx with rfl | hx'
        · exact ⟨hnone, fun hi => absurd hi himp⟩
        · exact ih h x hx'

/-- case analysis of the cascade, stated once (unfiltered form) -/
theorem resolve_cases (ix : List Def) (imp : Path → String → Bool) (f : Path) (n : String)
    (r : Option Def) (h : resolve ix imp f n = r) :
    let ds := defsOf ix n
    (∃ d, r = some d ∧ maxByLine (ds.filter (fun d => d.file == f)) = some d) ∨
    (maxByLine (ds.filter (fun d => d.file == f)) = none ∧
      ((∃ d, r = some d ∧ walkUp ds (fun _ => true) (fun c => imp c n) (ancestorsOfDir (dirOf f)) = some d) ∨
       (walkUp ds (fun _ => true) (fun c => imp c n) (ancestorsOfDir (dirOf f)) = none ∧
         ((∃ d, r = some d ∧ ds.find? (fun d => d.plugin && !d.thirdParty) = some d) ∨
          (ds.find? (fun d => d.plugin && !d.thirdParty) = none ∧
            r = ds.find? (fun d => d.thirdParty)))))) := by
  intro ds
  have hds : defsOf ix n = ds := rfl
  unfold resolve resolveF at h
  simp only [Bool.and_true, hds] at h
  cases h1 : maxByLine (ds.filter (fun d => d.file == f)) with
  | some d => left; simp only [h1] at h; exact ⟨d, h.symm, rfl⟩
  | none =>
    right; refine ⟨rfl, ?_⟩
    simp only [h1] at h
    cases h2 : walkUp ds (fun _ => true) (fun c => imp c n) (ancestorsOfDir (dirOf f)) with
    | some d => left; simp only [h2] at h; exact ⟨d, h.symm, rfl⟩
    | none =>
      right; refine ⟨rfl, ?_⟩
      simp only [h2] at h
      cases h3 : ds.find? (fun d => d.plugin && !d.thirdParty) with
      | some d => left; simp only [h3] at h; exact ⟨d, h.symm, rfl⟩
      | none =>
        right; refine ⟨rfl, ?_⟩
        simp only [h3] at h
        exact h.symm

/-! ### filtering commutes with the cascade -/

theorem maxByLine_filter_eq (ds : List Def) (p q : Def → Bool) :
    maxByLine ((ds.filter q).filter p) = maxByLine (ds.filter (fun d => p d && q d)) := by
  congr 1
  rw [List.filter_filter]

theorem find?_filter_and (ds : List Def) (p q : Def → Bool) :
    (ds.filter q).find? p = ds.find? (fun d => p d && q d) := by
  induction ds with
  | nil => rfl
  | cons x xs ih =>
    simp only [List.filter_cons, List.find?_cons]
    cases hq : q x <;> cases hp : p x <;> simp [hp, ih]

theorem walkUp_filter (ds : List Def) (filt : Def → Bool) (imp : Path → Bool) (dirs : List Path) :
    walkUp (ds.filter filt) (fun _ => true) imp dirs = walkUp ds filt imp dirs := by
  induction dirs with
  | nil => rfl
  | cons dir rest ih =>
    simp only [walkUp]
    rw [find?_filter_and]
    have h2 : (ds.filter filt).find? (fun _ => true) = ds.find? filt := by
      rw [find?_filter_and]; simp
    rw [h2, ih]
    simp only [Bool.and_true]

theorem defsOf_filter (ix : List Def) (filt : Def → Bool) (n : String) :
    defsOf (ix.filter filt) n = (defsOf ix n).filter filt := by
  simp [defsOf, List.filter_filter, Bool.and_comm]

/-- excluding definitions with a filter is the same as resolving over the index without them -/
theorem resolveF_filter (ix : List Def) (imp : Path → String → Bool) (f : Path) (n : String)
    (filt : Def → Bool) :
    resolveF ix imp f n filt = resolve (ix.filter filt) imp f n := by
  unfold resolve resolveF
  simp only [defsOf_filter, Bool.and_true]
  rw [walkUp_filter]
  have e1 : maxByLine (((defsOf ix n).filter filt).filter (fun d => d.file == f)) =
      maxByLine ((defsOf ix n).filter (fun d => d.file == f && filt d)) := by
    rw [List.filter_filter]
  rw [e1]
  rw [find?_filter_and, find?_filter_and]

end PLS
