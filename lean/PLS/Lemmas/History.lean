/-
  PLS.Lemmas.History — what one `analyze_file` does to the shared maps, as closed forms.
-/
import PLS.Model.Index
namespace PLS
open Index

/-- the flags `record_fixture_definition` receives: they depend on the path and on state that no
    analysis changes (plugin files, editable installs, workspace root). -/
def stampDef (pfx : Path) (st : Index) (f : Path) (d : Def) : Def :=
  { d with thirdParty := inSitePackages pfx st f || st.editableThirdParty f,
           plugin := st.pluginFiles.contains f }

def eventDefs : List Event → List Def
  | [] => []
  | .defn d :: es => d :: eventDefs es
  | _ :: es => eventDefs es

def eventUsages : List Event → List Usage
  | [] => []
  | .usage u :: es => u :: eventUsages es
  | _ :: es => eventUsages es

/-- the parts of the state `stampDef` reads -/
def sameEnv (a b : Index) : Prop :=
  a.pluginFiles = b.pluginFiles ∧ a.editable = b.editable ∧ a.workspaceRoot = b.workspaceRoot

theorem stampDef_env {pfx : Path} {a b : Index} (h : sameEnv a b) (f : Path) (d : Def) :
    stampDef pfx a f d = stampDef pfx b f d := by
  obtain ⟨h1, h2, h3⟩ := h
  simp [stampDef, editableThirdParty, inSitePackages, h1, h2, h3]

theorem scanStep_fields (f : Path) (b : BodyScan) (st : Index) (r : NameRef) :
    (scanStep f b st r).defs = st.defs ∧ (scanStep f b st r).fileDefs = st.fileDefs ∧
    (scanStep f b st r).usages = st.usages ∧ (scanStep f b st r).ubf = st.ubf ∧
    (scanStep f b st r).cache = st.cache ∧ (scanStep f b st r).version = st.version ∧
    sameEnv (scanStep f b st r) st := by
  unfold scanStep
  split <;> simp [sameEnv]

/-- the body scan only appends to `undeclared` -/
theorem scan_fold_fields (f : Path) (b : BodyScan) (refs : List NameRef) (st : Index) :
    (refs.foldl (scanStep f b) st).defs = st.defs ∧
    (refs.foldl (scanStep f b) st).fileDefs = st.fileDefs ∧
    (refs.foldl (scanStep f b) st).usages = st.usages ∧
    (refs.foldl (scanStep f b) st).ubf = st.ubf ∧
    (refs.foldl (scanStep f b) st).cache = st.cache ∧
    (refs.foldl (scanStep f b) st).version = st.version ∧
    sameEnv (refs.foldl (scanStep f b) st) st := by
  induction refs generalizing st with
  | nil => simp [sameEnv]
  | cons r rs ih =>
    simp only [List.foldl_cons]
    have h1 := ih (scanStep f b st r)
    have h2 := scanStep_fields f b st r
    refine ⟨h1.1.trans h2.1, h1.2.1.trans h2.2.1, h1.2.2.1.trans h2.2.2.1, h1.2.2.2.1.trans h2.2.2.2.1,
      h1.2.2.2.2.1.trans h2.2.2.2.2.1, h1.2.2.2.2.2.1.trans h2.2.2.2.2.2.1, ?_⟩
    exact ⟨h1.2.2.2.2.2.2.1.trans h2.2.2.2.2.2.2.1, h1.2.2.2.2.2.2.2.1.trans h2.2.2.2.2.2.2.2.1,
      h1.2.2.2.2.2.2.2.2.trans h2.2.2.2.2.2.2.2.2⟩

theorem applyEvent_env (pfx f : Path) (st : Index) (e : Event) : sameEnv (applyEvent pfx f st e) st := by
  cases e with
  | defn d => simp [applyEvent, sameEnv]
  | usage u => simp [applyEvent, sameEnv]
  | scan b => exact (scan_fold_fields f b b.refs st).2.2.2.2.2.2
  | panic => simp [applyEvent, sameEnv]

theorem sameEnv_trans {a b c : Index} (h1 : sameEnv a b) (h2 : sameEnv b c) : sameEnv a c :=
  ⟨h1.1.trans h2.1, h1.2.1.trans h2.2.1, h1.2.2.trans h2.2.2⟩

theorem foldl_env (pfx f : Path) (es : List Event) (st : Index) :
    sameEnv (es.foldl (applyEvent pfx f) st) st := by
  induction es generalizing st with
  | nil => simp [sameEnv]
  | cons e es ih =>
    simp only [List.foldl_cons]
    exact sameEnv_trans (ih _) (applyEvent_env pfx f st e)

/-- replaying the events appends the stamped definitions, in order -/
theorem foldl_defs (pfx f : Path) (es : List Event) (st : Index) :
    (es.foldl (applyEvent pfx f) st).defs = st.defs ++ (eventDefs es).map (stampDef pfx st f) := by
  induction es generalizing st with
  | nil => simp [eventDefs]
  | cons e es ih =>
    simp only [List.foldl_cons]
    rw [ih]
    have henv := applyEvent_env pfx f st e
    have hs : ∀ d, stampDef pfx (applyEvent pfx f st e) f d = stampDef pfx st f d :=
      fun d => stampDef_env henv f d
    cases e with
    | defn d =>
      simp only [eventDefs, List.map_cons]
      have : (applyEvent pfx f st (.defn d)).defs = st.defs ++ [stampDef pfx st f d] := by
        simp [applyEvent, stampDef]
      rw [this]
      simp [hs]
    | usage u =>
      have : (applyEvent pfx f st (.usage u)).defs = st.defs := by simp [applyEvent]
      simp [eventDefs, this, hs]
    | scan b =>
      have : (applyEvent pfx f st (.scan b)).defs = st.defs := (scan_fold_fields f b b.refs st).1
      simp [eventDefs, this, hs]
    | panic =>
      simp [eventDefs, applyEvent]

/-- replaying the events appends the usages to the reverse index, in order -/
theorem foldl_ubf (pfx f : Path) (es : List Event) (st : Index) :
    (es.foldl (applyEvent pfx f) st).ubf = st.ubf ++ eventUsages es := by
  induction es generalizing st with
  | nil => simp [eventUsages]
  | cons e es ih =>
    simp only [List.foldl_cons]
    rw [ih]
    cases e with
    | defn d => simp [applyEvent, eventUsages]
    | usage u => simp [applyEvent, eventUsages]
    | scan b =>
      have : (applyEvent pfx f st (.scan b)).ubf = st.ubf := (scan_fold_fields f b b.refs st).2.2.2.1
      simp [eventUsages, this]
    | panic => simp [applyEvent, eventUsages]

/-- index invariant: every definition is listed in the reverse index of its file -/
def DefsTracked (st : Index) : Prop :=
  ∀ d ∈ st.defs, ∃ names, alookup st.fileDefs d.file = some names ∧ d.name ∈ names

theorem alookup_aerase_ne {β} (l : List (Path × β)) (k k' : Path) (h : k' ≠ k) :
    alookup (aerase l k) k' = alookup l k' := by
  unfold alookup aerase
  induction l with
  | nil => rfl
  | cons p ps ih =>
    simp only [List.filter_cons]
    by_cases hp : p.1 = k
    · have : (p.1 != k) = false := by simp [hp]
      simp only [this]
      rw [List.find?_cons]
      have : (p.1 == k') = false := by
        rw [hp]; simp [Ne.symm h]
      simp only [this]
      exact ih
    · have : (p.1 != k) = true := by simp [hp]
      simp only [this, if_true]
      rw [List.find?_cons, List.find?_cons]
      cases hk : (p.1 == k') with
      | true => rfl
      | false => exact ih

/-- under the invariant, `cleanup_definitions_for_file` removes exactly the file's definitions -/
theorem cleanupDefs_defs (st : Index) (f : Path) (h : DefsTracked st) :
    (cleanupDefs st f).defs = st.defs.filter (fun d => d.file != f) := by
  unfold cleanupDefs
  cases hl : alookup st.fileDefs f with
  | none =>
    simp only
    symm
    rw [List.filter_eq_self]
    intro d hd
    by_cases hf : d.file = f
    · obtain ⟨names, hn, _⟩ := h d hd
      rw [hf, hl] at hn; cases hn
    · simp [hf]
  | some names =>
    simp only
    apply List.filter_congr
    intro d hd
    by_cases hf : d.file = f
    · obtain ⟨names', hn, hmem⟩ := h d hd
      rw [hf, hl] at hn
      cases hn
      simp [hf, hmem]
    · have h1 : (d.file == f) = false := by simp [hf]
      have h2 : (d.file != f) = true := by simp [hf]
      simp [h1, h2]

end PLS

namespace PLS
open Index

theorem alookup_append {β} (l m : List (Path × β)) (k : Path) :
    alookup (l ++ m) k = (alookup l k).orElse (fun _ => alookup m k) := by
  unfold alookup
  rw [List.find?_append]
  cases List.find? (fun p => p.1 == k) l <;> simp

theorem alookup_aerase_self {β} (l : List (Path × β)) (k : Path) : alookup (aerase l k) k = none := by
  unfold alookup aerase
  have : (l.filter (fun p => p.1 != k)).find? (fun p => p.1 == k) = none := by
    rw [List.find?_eq_none]
    intro x hx
    simp only [List.mem_filter] at hx
    simpa using hx.2
  rw [this]; rfl

theorem alookup_ainsert_self {β} (l : List (Path × β)) (k : Path) (v : β) :
    alookup (ainsert l k v) k = some v := by
  unfold ainsert
  rw [alookup_append, alookup_aerase_self]
  simp [alookup]

theorem alookup_ainsert_ne {β} (l : List (Path × β)) (k k' : Path) (v : β) (h : k' ≠ k) :
    alookup (ainsert l k v) k' = alookup l k' := by
  unfold ainsert
  rw [alookup_append, alookup_aerase_ne l k k' h]
  cases hl : alookup l k' with
  | some x => simp
  | none =>
    have : ¬ (k = k') := fun e => h e.symm
    simp [alookup, this]

theorem addName_lookup_self (l : List (Path × List String)) (f : Path) (n : String) :
    ∃ names, alookup (addName l f n) f = some names ∧ n ∈ names ∧
      ∀ m, (∃ ns, alookup l f = some ns ∧ m ∈ ns) → m ∈ names := by
  unfold addName
  cases hl : alookup l f with
  | none =>
    refine ⟨[n], alookup_ainsert_self _ _ _, by simp, ?_⟩
    rintro m ⟨ns, h, _⟩; cases h
  | some ns =>
    simp only
    split
    · rename_i hc
      exact ⟨ns, hl, by simpa using hc, fun m ⟨ns', h, hm⟩ => by cases h; exact hm⟩
    · refine ⟨ns ++ [n], alookup_ainsert_self _ _ _, by simp, ?_⟩
      rintro m ⟨ns', h, hm⟩; cases h; simp [hm]

theorem addName_lookup_ne (l : List (Path × List String)) (f g : Path) (n : String) (h : g ≠ f) :
    alookup (addName l f n) g = alookup l g := by
  unfold addName
  cases hl : alookup l f with
  | none => exact alookup_ainsert_ne _ _ _ _ h
  | some ns =>
    simp only
    split
    · rfl
    · exact alookup_ainsert_ne _ _ _ _ h

/-- every event definition carries the file being analysed -/
def EventsFor (f : Path) (es : List Event) : Prop := ∀ d ∈ eventDefs es, d.file = f

theorem applyEvent_fileDefs_ne (pfx f g : Path) (st : Index) (e : Event) (h : g ≠ f) :
    alookup (applyEvent pfx f st e).fileDefs g = alookup st.fileDefs g := by
  cases e with
  | defn d => simp only [applyEvent]; exact addName_lookup_ne _ _ _ _ h
  | usage u => simp [applyEvent]
  | scan b => simp only [applyEvent]; rw [(scan_fold_fields f b b.refs st).2.1]
  | panic => simp [applyEvent]

theorem foldl_fileDefs_ne (pfx f g : Path) (es : List Event) (st : Index) (h : g ≠ f) :
    alookup (es.foldl (applyEvent pfx f) st).fileDefs g = alookup st.fileDefs g := by
  induction es generalizing st with
  | nil => rfl
  | cons e es ih =>
    simp only [List.foldl_cons]
    rw [ih, applyEvent_fileDefs_ne pfx f g st e h]

/-- names already listed for `f` stay listed -/
theorem applyEvent_fileDefs_mono (pfx f : Path) (st : Index) (e : Event) (m : String)
    (h : ∃ ns, alookup st.fileDefs f = some ns ∧ m ∈ ns) :
    ∃ ns, alookup (applyEvent pfx f st e).fileDefs f = some ns ∧ m ∈ ns := by
  cases e with
  | defn d =>
    simp only [applyEvent]
    obtain ⟨names, h1, _, h3⟩ := addName_lookup_self st.fileDefs f d.name
    exact ⟨names, h1, h3 m h⟩
  | usage u => simpa [applyEvent] using h
  | scan b => simp only [applyEvent]; rw [(scan_fold_fields f b b.refs st).2.1]; exact h
  | panic => simpa [applyEvent] using h

theorem foldl_fileDefs_mono (pfx f : Path) (es : List Event) (st : Index) (m : String)
    (h : ∃ ns, alookup st.fileDefs f = some ns ∧ m ∈ ns) :
    ∃ ns, alookup (es.foldl (applyEvent pfx f) st).fileDefs f = some ns ∧ m ∈ ns := by
  induction es generalizing st with
  | nil => exact h
  | cons e es ih =>
    simp only [List.foldl_cons]
    exact ih _ (applyEvent_fileDefs_mono pfx f st e m h)

/-- every recorded definition's name ends up listed for `f` -/
theorem foldl_fileDefs_has (pfx f : Path) (es : List Event) (st : Index) :
    ∀ d ∈ eventDefs es, ∃ ns, alookup (es.foldl (applyEvent pfx f) st).fileDefs f = some ns ∧ d.name ∈ ns := by
  induction es generalizing st with
  | nil => simp [eventDefs]
  | cons e es ih =>
    intro d hd
    simp only [List.foldl_cons]
    cases e with
    | defn d' =>
      simp only [eventDefs, List.mem_cons] at hd
      rcases hd with rfl | hd
      · apply foldl_fileDefs_mono
        simp only [applyEvent]
        obtain ⟨names, h1, h2, _⟩ := addName_lookup_self st.fileDefs f d.name
        exact ⟨names, h1, h2⟩
      · exact ih _ d hd
    | usage u => exact ih _ d (by simpa [eventDefs] using hd)
    | scan b => exact ih _ d (by simpa [eventDefs] using hd)
    | panic => exact ih _ d (by simpa [eventDefs] using hd)

end PLS
