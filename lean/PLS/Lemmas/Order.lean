/-
  PLS.Lemmas.Order — membership of resolver answers, and independence of the registration order
  under uniqueness hypotheses.
-/
import PLS.Lemmas.Resolve
namespace PLS

/-- the resolver only ever returns a registered definition of the requested name (no hypotheses) -/
theorem resolve_mem {ix : List Def} {imp : Path → String → Bool} {f : Path} {n : String} {d : Def}
    (h : resolve ix imp f n = some d) : d ∈ ix ∧ d.name = n := by
  have hc := resolve_cases ix imp f n _ h
  simp only at hc
  rcases hc with ⟨d', hr, hd⟩ | ⟨_, hc⟩
  · cases hr
    have hm := maxByLine_mem hd
    simp only [List.mem_filter] at hm
    exact mem_defsOf.mp hm.1
  · rcases hc with ⟨d', hr, hw⟩ | ⟨_, hc⟩
    · cases hr
      obtain ⟨_, _, _, _, hm, _⟩ := walkUp_some hw
      exact mem_defsOf.mp hm
    · rcases hc with ⟨d', hr, hp⟩ | ⟨_, hr⟩
      · cases hr
        exact mem_defsOf.mp (List.mem_of_find?_eq_some hp)
      · exact mem_defsOf.mp (List.mem_of_find?_eq_some hr.symm)

theorem resolveF_mem {ix : List Def} {imp : Path → String → Bool} {f : Path} {n : String}
    {filt : Def → Bool} {d : Def} (h : resolveF ix imp f n filt = some d) :
    d ∈ ix ∧ d.name = n ∧ filt d = true := by
  rw [resolveF_filter] at h
  have := resolve_mem h
  simp only [List.mem_filter] at this
  exact ⟨this.1.1, this.2, this.1.2⟩

theorem resolveUsage_mem {ix : List Def} {imp : Path → String → Bool} {u : Usage} {d : Def}
    (h : resolveUsage ix imp u = some d) : d ∈ ix ∧ d.name = u.name := by
  unfold resolveUsage at h
  split at h
  · have := resolveF_mem h; exact ⟨this.1, this.2.1⟩
  · exact resolve_mem h

/-! ### order independence -/

/-- `find?` does not depend on the order when at most one element satisfies the predicate -/
theorem find?_perm_unique {l l' : List Def} (p : Def → Bool) (hp : l.Perm l')
    (hu : ∀ a ∈ l, ∀ b ∈ l, p a = true → p b = true → a = b) :
    l.find? p = l'.find? p := by
  cases h : l.find? p with
  | none =>
    have hn := List.find?_eq_none.mp h
    symm
    rw [List.find?_eq_none]
    intro x hx
    exact hn x (hp.mem_iff.mpr hx)
  | some a =>
    have ha := List.mem_of_find?_eq_some h
    have hpa := List.find?_some h
    cases h' : l'.find? p with
    | none =>
      have hn := List.find?_eq_none.mp h'
      exact absurd hpa (hn a (hp.mem_iff.mp ha))
    | some b =>
      have hb := List.mem_of_find?_eq_some h'
      have hpb := List.find?_some h'
      rw [hu a ha b (hp.mem_iff.mpr hb) hpa hpb]

theorem maxByLine_singleton_or_none {l : List Def}
    (hu : ∀ a ∈ l, ∀ b ∈ l, a = b) : maxByLine l = l.head? := by
  cases l with
  | nil => rfl
  | cons x xs =>
    simp only [maxByLine, List.head?_cons]
    cases hm : maxByLine xs with
    | none => rfl
    | some e =>
      have he : e ∈ xs := maxByLine_mem hm
      have : e = x := hu e (List.mem_cons_of_mem _ he) x (List.mem_cons_self)
      subst this
      simp

/-- all elements equal ⇒ permutations have the same head -/
theorem head?_perm_unique {l l' : List Def} (hp : l.Perm l') (hu : ∀ a ∈ l, ∀ b ∈ l, a = b) :
    l.head? = l'.head? := by
  have := find?_perm_unique (fun _ => true) hp (fun a ha b hb _ _ => hu a ha b hb)
  cases l <;> cases l' <;> simp_all

/-- **uniqueness hypothesis** for name `n`: at most one definition per file, at most one
    workspace-plugin definition, at most one third-party definition; and the import branch is
    only taken when the name has a single definition (so "first anywhere" is unambiguous). -/
structure Uniq (ix : List Def) (imp : Path → String → Bool) (n : String) : Prop where
  perFile : ∀ a ∈ ix, ∀ b ∈ ix, a.name = n → b.name = n → a.file = b.file → a = b
  plugin : ∀ a ∈ ix, ∀ b ∈ ix, a.name = n → b.name = n →
    (a.plugin && !a.thirdParty) = true → (b.plugin && !b.thirdParty) = true → a = b
  third : ∀ a ∈ ix, ∀ b ∈ ix, a.name = n → b.name = n → a.thirdParty = true → b.thirdParty = true → a = b
  imported : (∃ c, imp c n = true) → ∀ a ∈ ix, ∀ b ∈ ix, a.name = n → b.name = n → a = b

theorem walkUp_perm {ds ds' : List Def} (hp : ds.Perm ds') (imp : Path → Bool) (dirs : List Path)
    (hfile : ∀ a ∈ ds, ∀ b ∈ ds, a.file = b.file → a = b)
    (himp : (∃ c, imp c = true) → ∀ a ∈ ds, ∀ b ∈ ds, a = b) :
    walkUp ds (fun _ => true) imp dirs = walkUp ds' (fun _ => true) imp dirs := by
  induction dirs with
  | nil => rfl
  | cons dir rest ih =>
    simp only [walkUp]
    have h1 : ds.find? (fun d => d.file == conftestOf dir && true) =
        ds'.find? (fun d => d.file == conftestOf dir && true) := by
      apply find?_perm_unique _ hp
      intro a ha b hb pa pb
      simp at pa pb
      exact hfile a ha b hb (pa.trans pb.symm)
    rw [h1, ih]
    by_cases hi : imp (conftestOf dir) = true
    · have h2 : ds.find? (fun _ => true) = ds'.find? (fun _ => true) :=
        find?_perm_unique _ hp (fun a ha b hb _ _ => himp ⟨_, hi⟩ a ha b hb)
      rw [h2]
    · simp [hi]

theorem defsOf_perm {ix ix' : List Def} (hp : ix.Perm ix') (n : String) :
    (defsOf ix n).Perm (defsOf ix' n) := hp.filter _

/-- under `Uniq`, resolution does not depend on the registration order -/
theorem resolve_perm {ix ix' : List Def} (hp : ix.Perm ix') (imp : Path → String → Bool) (f : Path)
    (n : String) (hu : Uniq ix imp n) : resolve ix imp f n = resolve ix' imp f n := by
  have hd := defsOf_perm hp n
  unfold resolve resolveF
  simp only [Bool.and_true]
  have e1 : maxByLine ((defsOf ix n).filter (fun d => d.file == f)) =
      maxByLine ((defsOf ix' n).filter (fun d => d.file == f)) := by
    have hpf := hd.filter (fun d => d.file == f)
    have huf : ∀ a ∈ (defsOf ix n).filter (fun d => d.file == f),
        ∀ b ∈ (defsOf ix n).filter (fun d => d.file == f), a = b := by
      intro a ha b hb
      simp only [List.mem_filter, beq_iff_eq] at ha hb
      have ma := mem_defsOf.mp ha.1; have mb := mem_defsOf.mp hb.1
      exact hu.perFile a ma.1 b mb.1 ma.2 mb.2 (ha.2.trans hb.2.symm)
    have huf' : ∀ a ∈ (defsOf ix' n).filter (fun d => d.file == f),
        ∀ b ∈ (defsOf ix' n).filter (fun d => d.file == f), a = b := by
      intro a ha b hb
      exact huf a (hpf.mem_iff.mpr ha) b (hpf.mem_iff.mpr hb)
    rw [maxByLine_singleton_or_none huf, maxByLine_singleton_or_none huf']
    exact head?_perm_unique hpf huf
  have e2 : walkUp (defsOf ix n) (fun _ => true) (fun c => imp c n) (ancestorsOfDir (dirOf f)) =
      walkUp (defsOf ix' n) (fun _ => true) (fun c => imp c n) (ancestorsOfDir (dirOf f)) := by
    apply walkUp_perm hd
    · intro a ha b hb hab
      have ma := mem_defsOf.mp ha; have mb := mem_defsOf.mp hb
      exact hu.perFile a ma.1 b mb.1 ma.2 mb.2 hab
    · intro hex a ha b hb
      have ma := mem_defsOf.mp ha; have mb := mem_defsOf.mp hb
      exact hu.imported hex a ma.1 b mb.1 ma.2 mb.2
  have e3 : (defsOf ix n).find? (fun d => d.plugin && !d.thirdParty) =
      (defsOf ix' n).find? (fun d => d.plugin && !d.thirdParty) := by
    apply find?_perm_unique _ hd
    intro a ha b hb pa pb
    have ma := mem_defsOf.mp ha; have mb := mem_defsOf.mp hb
    exact hu.plugin a ma.1 b mb.1 ma.2 mb.2 pa pb
  have e4 : (defsOf ix n).find? (fun d => d.thirdParty) = (defsOf ix' n).find? (fun d => d.thirdParty) := by
    apply find?_perm_unique _ hd
    intro a ha b hb pa pb
    have ma := mem_defsOf.mp ha; have mb := mem_defsOf.mp hb
    exact hu.third a ma.1 b mb.1 ma.2 mb.2 pa pb
  rw [e1, e2, e3, e4]

end PLS
