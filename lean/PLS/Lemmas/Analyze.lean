/-
  PLS.Lemmas.Analyze — structural facts about the analyzer model.
-/
import PLS.Model.Analyze
import PLS.Lemmas.History
namespace PLS

theorem eventDefs_append (a b : List Event) : eventDefs (a ++ b) = eventDefs a ++ eventDefs b := by
  induction a with
  | nil => rfl
  | cons e es ih => cases e <;> simp [eventDefs, ih]

theorem eventUsages_append (a b : List Event) : eventUsages (a ++ b) = eventUsages a ++ eventUsages b := by
  induction a with
  | nil => rfl
  | cons e es ih => cases e <;> simp [eventUsages, ih]

/-- a list made of usage events only records no definition -/
theorem eventDefs_map_usage {α} (l : List α) (g : α → Usage) : eventDefs (l.map (fun x => Event.usage (g x))) = [] := by
  induction l with
  | nil => rfl
  | cons x xs ih => simp [eventDefs, ih]

theorem eventDefs_strUsages (f : Path) (l : List (String × Range)) :
    eventDefs (l.map (strUsage f lines)) = [] := by
  induction l with
  | nil => rfl
  | cons x xs ih => simp [eventDefs, strUsage, ih]

theorem eventDefs_flatMap_strUsages (f : Path) (decos : List Expr) (g : Expr → List (String × Range)) :
    eventDefs (decos.flatMap (fun d => (g d).map (strUsage f lines))) = [] := by
  induction decos with
  | nil => rfl
  | cons d ds ih => simp [List.flatMap_cons, eventDefs_append, eventDefs_strUsages, ih]

theorem eventDefs_argUsages (f : Path) (l : List Arg) : eventDefs (l.map (argUsage f)) = [] := by
  induction l with
  | nil => rfl
  | cons x xs ih => simp [eventDefs, argUsage, ih]

theorem eventUsages_file_strUsages (f : Path) (l : List (String × Range)) :
    ∀ u ∈ eventUsages (l.map (strUsage f lines)), u.file = f := by
  induction l with
  | nil => simp [eventUsages]
  | cons x xs ih =>
    intro u hu
    simp only [List.map_cons, strUsage, eventUsages, List.mem_cons] at hu
    rcases hu with rfl | hu
    · rfl
    · exact ih u hu

end PLS
