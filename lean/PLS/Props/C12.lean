/-
  C12 — every operation terminates: no deadlock, no unbounded looping.

  Part 1 (this file, locks): under the nesting discipline `Disc` — which the correspondence
  check establishes of every (held guards, blocking request) pair recorded from the real code,
  for one ranking of the maps — no set of threads can be deadlocked, WHATEVER shard each key lands
  in and whatever the schedule: the theorem quantifies over all lock states, and `Lock.shard` is
  never assumed to separate two keys.
  Part 2 (termination on cyclic structures): see `C12_*` theorems further down.
-/
import PLS.Model.Locks
import PLS.Model.Cycles
import PLS.Model.Index
namespace PLS.Locks

/-- the rank of the map a thread is asking for (0 when it asks for nothing) -/
def reqRank (rank : Nat → Nat) (t : TState) : Nat :=
  match t.req with
  | some (l, _) => rank l.cls
  | none => 0

theorem exists_max {α} (f : α → Nat) (l : List α) (h : l ≠ []) : ∃ a ∈ l, ∀ b ∈ l, f b ≤ f a := by
  induction l with
  | nil => exact absurd rfl h
  | cons x xs ih =>
    by_cases hx : xs = []
    · subst hx
      exact ⟨x, List.mem_cons_self, by intro b hb; simp at hb; subst hb; exact Nat.le_refl _⟩
    · obtain ⟨a, ha, hmax⟩ := ih hx
      by_cases hc : f a ≤ f x
      · refine ⟨x, List.mem_cons_self, ?_⟩
        intro b hb
        rcases List.mem_cons.mp hb with rfl | hb
        · exact Nat.le_refl _
        · exact Nat.le_trans (hmax b hb) hc
      · refine ⟨a, List.mem_cons_of_mem _ ha, ?_⟩
        intro b hb
        rcases List.mem_cons.mp hb with rfl | hb
        · omega
        · exact hmax b hb

/-- **C12 (no deadlock under the discipline, for every key placement and schedule).**
    If every thread's pending request respects the discipline for one ranking of the maps,
    there is no non-empty set of threads each waiting for a member of the set. -/
theorem C12_no_deadlock (rank : Nat → Nat) (ts : List TState) (h : ∀ t ∈ ts, Disc rank t) :
    ¬ Deadlock ts := by
  rintro ⟨S, hne, hsub, hblk⟩
  -- a thread of the set asking for a map of maximal rank
  obtain ⟨t, htS, hmax⟩ := exists_max (reqRank rank) S hne
  obtain ⟨u, huS, l, m, hm, htreq, huhold, hconf⟩ := hblk t htS
  -- `u` holds `l` and is itself blocked, asking for `l'`
  obtain ⟨w, hwS, l', m', hm', hureq, hwhold, hconf'⟩ := hblk u huS
  have hdu := h u (hsub u huS) l' m' hureq l hm huhold
  have rt : reqRank rank t = rank l.cls := by simp [reqRank, htreq]
  have ru : reqRank rank u = rank l'.cls := by simp [reqRank, hureq]
  have hmu := hmax u huS
  rw [rt, ru] at hmu
  rcases hdu with ⟨hmR, hm'R, _⟩ | hlt
  · -- read under read at `u`: the guard that blocks `u`'s read is a write guard held by `w`, who is
    -- blocked too and therefore asks for a strictly higher map than `u` does — but `u` already
    -- asks for a map of maximal rank
    subst hm'R
    have hwW : hm' = .W := by
      cases hm' with
      | R => simp [conflict] at hconf'
      | W => rfl
    subst hwW
    obtain ⟨x, _, l'', m'', hm'', hwreq, _, _⟩ := hblk w hwS
    have hdw := h w (hsub w hwS) l'' m'' hwreq l' .W hwhold
    have rw' : reqRank rank w = rank l''.cls := by simp [reqRank, hwreq]
    have hmw := hmax w hwS
    rw [rt, rw'] at hmw
    -- `u`'s request has the maximal rank as well
    have hul : rank l.cls ≤ rank l'.cls := by
      have := h u (hsub u huS) l' .R hureq l hm huhold
      rcases this with ⟨_, _, hle⟩ | hlt
      · exact hle
      · omega
    rcases hdw with ⟨hbad, _, _⟩ | hlt
    · cases hbad
    · omega
  · -- `u` asks for a strictly higher map than `t`: contradicts maximality
    omega

/-- **C12 (progress).** Under the discipline some thread can always move: there is a thread
    whose pending request — if it has one — conflicts with no guard held by anybody. -/
theorem C12_progress (rank : Nat → Nat) (ts : List TState) (hne : ts ≠ []) (h : ∀ t ∈ ts, Disc rank t) :
    ∃ t ∈ ts, ¬ ∃ u ∈ ts, blockedBy t u := by
  apply Classical.byContradiction
  intro hno
  apply C12_no_deadlock rank ts h
  refine ⟨ts, hne, fun _ ht => ht, ?_⟩
  intro t ht
  apply Classical.byContradiction
  intro hnb
  exact hno ⟨t, ht, hnb⟩

/-- what the check evaluates on the recorded nestings implies the discipline of the theorem -/
theorem C12_discOK_sound (rank : Nat → Nat) (t : TState) (n : Nesting) (hn : nestingOf t = some n)
    (hok : nestingOK rank n = true) : Disc rank t := by
  intro l m hreq h hm hhold
  unfold nestingOf at hn
  rw [hreq] at hn
  simp only [Option.map_some, Option.some.injEq] at hn
  subst hn
  simp only [nestingOK, List.all_eq_true, List.mem_map, forall_exists_index, and_imp] at hok
  have := hok (h.cls, hm) (h, hm) hhold rfl
  simp only [Bool.or_eq_true, decide_eq_true_eq, Bool.and_eq_true, beq_iff_eq] at this
  rcases this with ⟨⟨h2, h3⟩, h4⟩ | h1
  · exact Or.inl ⟨h2, h3, h4⟩
  · exact Or.inr h1

/-- a thread that holds nothing, or asks for nothing, satisfies the discipline trivially -/
theorem disc_of_no_holds (rank : Nat → Nat) (t : TState) (h : t.holds = [] ∨ t.req = none) : Disc rank t := by
  intro l m hreq hl hm hhold
  rcases h with h | h
  · rw [h] at hhold; cases hhold
  · rw [h] at hreq; cases hreq

/-! ### the discipline is necessary: what a violation looks like -/

/-- a write request on a map while a read guard on the same map is held (a guard kept alive
    across a call that writes to the same map): if both keys land in the same shard the thread
    deadlocks with itself — one thread, no scheduling involved -/
theorem C12_reentrant_write_self_deadlocks (c s : Nat) :
    Deadlock [{ holds := [(⟨c, s⟩, .R)], req := some (⟨c, s⟩, .W) }] := by
  refine ⟨[_], by simp, fun t ht => ht, ?_⟩
  intro t ht
  simp only [List.mem_singleton] at ht
  subst ht
  exact ⟨_, List.mem_singleton.mpr rfl, ⟨c, s⟩, .W, .R, rfl, List.mem_singleton.mpr rfl, rfl⟩

/-- … and with different shards the same code runs through: the hazard "depends on two keys
    landing in different shards", which is why the discipline is stated on classes -/
theorem C12_reentrant_write_other_shard_is_not_blocked (c s s' : Nat) (hs : s ≠ s') :
    ¬ blockedBy { holds := [(⟨c, s⟩, .R)], req := some (⟨c, s'⟩, .W) }
                { holds := [(⟨c, s⟩, .R)], req := some (⟨c, s'⟩, .W) } := by
  rintro ⟨l, m, hm, hreq, hhold, _⟩
  simp only [Option.some.injEq, Prod.mk.injEq] at hreq
  simp only [List.mem_singleton, Prod.mk.injEq] at hhold
  obtain ⟨rfl, _⟩ := hreq
  have := hhold.1
  simp only [Lock.mk.injEq] at this
  exact hs this.2.symm

/-- two threads taking two maps in opposite orders (no ranking satisfies both) deadlock -/
theorem C12_opposite_orders_deadlock :
    Deadlock [{ holds := [(⟨0, 0⟩, .W)], req := some (⟨1, 0⟩, .W) },
              { holds := [(⟨1, 0⟩, .W)], req := some (⟨0, 0⟩, .W) }] := by
  refine ⟨_, by simp, fun t ht => ht, ?_⟩
  intro t ht
  simp only [List.mem_cons, List.not_mem_nil, or_false] at ht
  rcases ht with rfl | rfl
  · exact ⟨_, List.mem_cons_of_mem _ List.mem_cons_self, ⟨1, 0⟩, .W, .W, rfl, List.mem_cons_self, rfl⟩
  · exact ⟨_, List.mem_cons_self, ⟨0, 0⟩, .W, .W, rfl, List.mem_cons_self, rfl⟩

/-- why read-under-read may not go DOWN in rank while write guards nest upwards: thread 1 holds a
    read guard on map 1 and reads map 0; thread 2 holds a write guard on map 0 and writes map 1 —
    each nesting looks harmless alone, together they deadlock -/
theorem C12_read_down_plus_write_up_deadlocks :
    Deadlock [{ holds := [(⟨1, 0⟩, .R)], req := some (⟨0, 0⟩, .R) },
              { holds := [(⟨0, 0⟩, .W)], req := some (⟨1, 0⟩, .W) }] := by
  refine ⟨_, by simp, fun t ht => ht, ?_⟩
  intro t ht
  simp only [List.mem_cons, List.not_mem_nil, or_false] at ht
  rcases ht with rfl | rfl
  · exact ⟨_, List.mem_cons_of_mem _ List.mem_cons_self, ⟨0, 0⟩, .R, .W, rfl, List.mem_cons_self, rfl⟩
  · exact ⟨_, List.mem_cons_self, ⟨1, 0⟩, .W, .R, rfl, List.mem_cons_self, rfl⟩

/-- non-vacuity: the nesting the code actually performs (read under read on one map, then a write on
    a higher-ranked map) satisfies the discipline -/
example : Disc (fun c => c) { holds := [(⟨3, 0⟩, .R), (⟨3, 1⟩, .R)], req := some (⟨3, 0⟩, .R) } ∧
    Disc (fun c => c) { holds := [(⟨3, 0⟩, .R)], req := some (⟨5, 1⟩, .W) } ∧
    -- two maps read-nested in both orders share a rank
    Disc (fun _ => 1) { holds := [(⟨0, 0⟩, .R)], req := some (⟨1, 0⟩, .R) } ∧
    Disc (fun _ => 1) { holds := [(⟨1, 0⟩, .R)], req := some (⟨0, 0⟩, .R) } := by
  refine ⟨?_, ?_, ?_, ?_⟩ <;> exact C12_discOK_sound _ _ _ rfl (by decide)

end PLS.Locks
