/-
  C10 — editor buffers win over the background scan.

  Model: `PLS.Model.Conc10` (one DashMap call per step; workers may analyse the same file).

  What is proved, for EVERY interleaving of any number of scan visits and editor notifications
  (same file or not): the bookkeeping invariant "every definition of a file is tracked in the
  file's reverse index, or some worker of that file is about to clean it up / register it"
  (`Tracked`) is preserved by every step (`C10_tracked_step`), so at quiescence every definition is
  tracked (`C10_tracked_quiescent`); and from any tracked quiescent state ONE FURTHER change
  notification leaves exactly the notified version's definitions for the file, everything else
  untouched (`C10_one_more_change_restores`).  The first sentence of the property ("exactly once,
  whatever the relative timing") is FALSE of the code when the scan's visit comes after the
  notification: `C10_scan_after_edit_duplicates` is the witness (finding E9).
-/
import PLS.Model.Conc10
namespace PLS.Conc10

/-! ### the invariant -/

/-- the keys a worker is about to take care of: still to be cleaned up, or pushed and about to be
    entered into the reverse index -/
def justifies : Pc → Key → Prop
  | .retain todo, k => k ∈ todo
  | .cond _ _ todo, k => k ∈ todo
  | .ins k' _, k => k' = k
  | _, _ => False

def TrackedW (s : St) (ws : Nat → Worker) : Prop :=
  ∀ k e, e ∈ ents s.d k →
    k ∈ names s.fd e.file ∨ ∃ j, (ws j).file = e.file ∧ justifies (ws j).pc k

def Tracked (y : Sys) : Prop := TrackedW y.s y.ws

/-- the invariant at quiescence: the reverse index covers every definition -/
def Tr (s : St) : Prop := ∀ k e, e ∈ ents s.d k → k ∈ names s.fd e.file

theorem ents_updD_same (d : Key → Option (List Ent)) (k : Key) (v : Option (List Ent)) :
    ents (updD d k v) k = v.getD [] := by simp [ents, updD]

theorem ents_updD_other (d : Key → Option (List Ent)) (k k' : Key) (v : Option (List Ent)) (h : k' ≠ k) :
    ents (updD d k v) k' = ents d k' := by simp [ents, updD, h]

theorem names_updF_other (fd : File → Option (List Key)) (f f' : File) (v : Option (List Key)) (h : f' ≠ f) :
    names (updF fd f v) f' = names fd f' := by simp [names, updF, h]

theorem names_updF_same (fd : File → Option (List Key)) (f : File) (v : Option (List Key)) :
    names (updF fd f v) f = v.getD [] := by simp [names, updF]

theorem setW_same (ws : Nat → Worker) (i : Nat) (w : Worker) : setW ws i w i = w := by simp [setW]
theorem setW_other (ws : Nat → Worker) (i j : Nat) (w : Worker) (h : j ≠ i) : setW ws i w j = ws j := by
  simp [setW, h]

/-- a step that changes neither map, and whose new program counter justifies whatever the old one
    did for the keys that still have entries -/
theorem tracked_of_same (y : Sys) (i : Nat) (w' : Worker) (hf : w'.file = (y.ws i).file)
    (hj : ∀ k, justifies (y.ws i).pc k → ents y.s.d k ≠ [] → justifies w'.pc k)
    (h : Tracked y) : TrackedW y.s (setW y.ws i w') := by
  intro k e he
  rcases h k e he with h1 | ⟨j, hjf, hjj⟩
  · exact Or.inl h1
  · right
    by_cases hji : j = i
    · subst hji
      refine ⟨j, ?_, ?_⟩
      · rw [setW_same, hf]; exact hjf
      · rw [setW_same]; exact hj k hjj (by intro hnil; rw [hnil] at he; cases he)
    · exact ⟨j, by rw [setW_other _ _ _ _ hji]; exact hjf, by rw [setW_other _ _ _ _ hji]; exact hjj⟩

/-- **C10 (the invariant is preserved by every step of every worker).** -/
theorem C10_tracked_step (y : Sys) (i : Nat) (h : Tracked y) : Tracked (stepSys y i) := by
  show TrackedW (stepW y.s (y.ws i)).1 (setW y.ws i (stepW y.s (y.ws i)).2)
  generalize hw : y.ws i = w
  unfold stepW
  cases hpc : w.pc with
  | take =>
    simp only
    cases hfd : y.s.fd w.file with
    | none =>
      simp only
      apply tracked_of_same y i _ (by rw [hw]) _ h
      intro k hk; rw [hw, hpc] at hk; exact absurd hk id
    | some ns =>
      simp only
      intro k e he
      simp only at he
      rcases h k e he with h1 | ⟨j, hjf, hjj⟩
      · by_cases hef : e.file = w.file
        · right
          refine ⟨i, by rw [setW_same]; exact hef.symm, ?_⟩
          rw [setW_same]
          simp only [justifies]
          rw [hef] at h1
          simpa [names, hfd] using h1
        · left
          simp only
          rw [names_updF_other _ _ _ _ hef]; exact h1
      · right
        have hji : j ≠ i := by
          intro e'; subst e'; rw [hw, hpc] at hjj; exact hjj
        exact ⟨j, by rw [setW_other _ _ _ _ hji]; exact hjf, by rw [setW_other _ _ _ _ hji]; exact hjj⟩
  | retain todo =>
    cases todo with
    | nil =>
      simp only
      apply tracked_of_same y i _ (by rw [hw]) _ h
      intro k hk; rw [hw, hpc] at hk; simp [justifies] at hk
    | cons k0 todo =>
      simp only
      cases hd : y.s.d k0 with
      | none =>
        simp only
        apply tracked_of_same y i _ (by rw [hw]) _ h
        intro k hk hne
        rw [hw, hpc] at hk
        simp only [justifies, List.mem_cons] at hk
        rcases hk with rfl | hk
        · exact absurd (by simp [ents, hd]) hne
        · exact hk
      | some v =>
        simp only
        intro k e he
        simp only at he
        by_cases hk : k = k0
        · subst hk
          rw [ents_updD_same] at he
          simp only [Option.getD_some, List.mem_filter, bne_iff_ne, ne_eq] at he
          have he0 : e ∈ ents y.s.d k := by simp [ents, hd, he.1]
          rcases h k e he0 with h1 | ⟨j, hjf, hjj⟩
          · exact Or.inl h1
          · right
            have hji : j ≠ i := by
              intro e'; subst e'; rw [hw] at hjf; exact he.2 hjf.symm
            exact ⟨j, by rw [setW_other _ _ _ _ hji]; exact hjf, by rw [setW_other _ _ _ _ hji]; exact hjj⟩
        · rw [ents_updD_other _ _ _ _ hk] at he
          rcases h k e he with h1 | ⟨j, hjf, hjj⟩
          · exact Or.inl h1
          · right
            by_cases hji : j = i
            · subst hji
              refine ⟨j, by rw [setW_same]; rw [hw] at hjf; exact hjf, ?_⟩
              rw [setW_same]
              rw [hw, hpc] at hjj
              simp only [justifies, List.mem_cons] at hjj ⊢
              rcases hjj with rfl | hjj
              · exact absurd rfl hk
              · exact hjj
            · exact ⟨j, by rw [setW_other _ _ _ _ hji]; exact hjf, by rw [setW_other _ _ _ _ hji]; exact hjj⟩
  | cond k0 flag todo =>
    simp only
    have keep : ∀ (s' : St), s'.fd = y.s.fd → (∀ k e, e ∈ ents s'.d k → e ∈ ents y.s.d k) →
        TrackedW s' (setW y.ws i { w with pc := .retain todo }) := by
      intro s' hfd hsub k e he
      rcases h k e (hsub k e he) with h1 | ⟨j, hjf, hjj⟩
      · left; rw [hfd]; exact h1
      · right
        by_cases hji : j = i
        · subst hji
          refine ⟨j, by rw [setW_same]; rw [hw] at hjf; exact hjf, ?_⟩
          rw [setW_same]; rw [hw, hpc] at hjj; exact hjj
        · exact ⟨j, by rw [setW_other _ _ _ _ hji]; exact hjf, by rw [setW_other _ _ _ _ hji]; exact hjj⟩
    by_cases hfl : flag = true
    · simp only [hfl, if_true]
      cases hd : y.s.d k0 with
      | none => simp only; exact keep y.s rfl (fun _ _ h => h)
      | some v =>
        cases v with
        | nil =>
          simp only
          apply keep { y.s with d := updD y.s.d k0 none } rfl
          intro k e he
          by_cases hk : k = k0
          · subst hk; simp [ents, updD] at he
          · rw [ents_updD_other _ _ _ _ hk] at he; exact he
        | cons a v => simp only; exact keep y.s rfl (fun _ _ h => h)
    · simp only [hfl]
      exact keep y.s rfl (fun _ _ h => h)
  | push news =>
    cases news with
    | nil =>
      simp only
      apply tracked_of_same y i _ (by rw [hw]) _ h
      intro k hk; rw [hw, hpc] at hk; exact absurd hk id
    | cons kt news =>
      obtain ⟨k0, t⟩ := kt
      simp only
      intro k e he
      simp only at he
      have old : e ∈ ents y.s.d k →
          k ∈ names y.s.fd e.file ∨ ∃ j, (setW y.ws i { w with pc := .ins k0 news } j).file = e.file ∧
            justifies (setW y.ws i { w with pc := .ins k0 news } j).pc k := by
        intro he0
        rcases h k e he0 with h1 | ⟨j, hjf, hjj⟩
        · exact Or.inl h1
        · right
          have hji : j ≠ i := by
            intro e'; subst e'; rw [hw, hpc] at hjj; exact hjj
          exact ⟨j, by rw [setW_other _ _ _ _ hji]; exact hjf, by rw [setW_other _ _ _ _ hji]; exact hjj⟩
      by_cases hk : k = k0
      · subst hk
        rw [ents_updD_same] at he
        simp only [Option.getD_some, List.mem_append, List.mem_singleton] at he
        rcases he with he | rfl
        · exact old he
        · right
          exact ⟨i, by rw [setW_same], by rw [setW_same]; rfl⟩
      · rw [ents_updD_other _ _ _ _ hk] at he
        exact old he
  | ins k0 news =>
    simp only
    intro k e he
    simp only at he
    have sup : ∀ f k', k' ∈ names y.s.fd f →
        k' ∈ names (updF y.s.fd w.file (some (if (names y.s.fd w.file).contains k0 then names y.s.fd w.file
          else names y.s.fd w.file ++ [k0]))) f := by
      intro f k' hk'
      by_cases hf : f = w.file
      · subst hf
        rw [names_updF_same]
        simp only [Option.getD_some]
        split
        · exact hk'
        · exact List.mem_append_left _ hk'
      · rw [names_updF_other _ _ _ _ hf]; exact hk'
    rcases h k e he with h1 | ⟨j, hjf, hjj⟩
    · exact Or.inl (sup _ _ h1)
    · by_cases hji : j = i
      · subst hji
        left
        rw [hw] at hjf
        rw [hw, hpc] at hjj
        simp only [justifies] at hjj
        subst hjj
        rw [← hjf, names_updF_same]
        simp only [Option.getD_some]
        split
        · rename_i hc; simpa using hc
        · simp
      · right
        exact ⟨j, by rw [setW_other _ _ _ _ hji]; exact hjf, by rw [setW_other _ _ _ _ hji]; exact hjj⟩
  | done =>
    simp only
    apply tracked_of_same y i _ (by rw [hw]) _ h
    intro k hk; rw [hw, hpc] at hk; exact absurd hk id

theorem C10_tracked_run (y : Sys) (sched : List Nat) (h : Tracked y) : Tracked (run y sched) := by
  induction sched generalizing y with
  | nil => exact h
  | cons i r ih => exact ih (stepSys y i) (C10_tracked_step y i h)

/-- a tracked state with any workers on top is `Tracked` -/
theorem tracked_init (s : St) (ws : Nat → Worker) (h : Tr s) : Tracked { s := s, ws := ws } :=
  fun k e he => Or.inl (h k e he)

/-- **C10 (every interleaving ends tracked).** Start from a tracked index, let any workers — scan
    visits and editor notifications, of the same file or of different ones — run under ANY
    schedule; once all are done, every definition in the index is covered by its file's reverse
    index: nothing is left that a later clean-up could not find. -/
theorem C10_tracked_quiescent (s : St) (ws : Nat → Worker) (h : Tr s) (sched : List Nat)
    (hdone : ∀ j, ((run { s := s, ws := ws } sched).ws j).pc = .done) :
    Tr (run { s := s, ws := ws } sched).s := by
  intro k e he
  rcases C10_tracked_run _ sched (tracked_init s ws h) k e he with h1 | ⟨j, _, hjj⟩
  · exact h1
  · rw [hdone j] at hjj; exact absurd hjj id

/-! ### one further change restores the single-analysis state -/

theorem solo_add (s : St) (w : Worker) (a b : Nat) :
    solo s w (a + b) = solo (solo s w a).1 (solo s w a).2 b := by
  induction a generalizing s w with
  | zero => simp [solo]
  | succ a ih =>
    have : a + 1 + b = (a + b) + 1 := by omega
    rw [this]
    simp only [solo]
    exact ih _ _

/-- the clean-up loop over `todo`, alone -/
theorem solo_retain (F : File) (news : List (Key × Nat)) (todo : List Key) (s : St) :
    ∃ n s', solo s { file := F, pc := .retain todo, news := news } n =
        (s', { file := F, pc := .push news, news := news }) ∧
      s'.fd = s.fd ∧
      ∀ k, ents s'.d k = if k ∈ todo then (ents s.d k).filter (fun e => e.file != F) else ents s.d k := by
  induction todo generalizing s with
  | nil => exact ⟨1, s, by simp [solo, stepW], rfl, by simp⟩
  | cons k0 todo ih =>
    -- two steps: retain k0, conditional removal of k0
    have two : ∃ s2, solo s { file := F, pc := .retain (k0 :: todo), news := news } 2 =
          (s2, { file := F, pc := .retain todo, news := news }) ∧ s2.fd = s.fd ∧
        ∀ k, ents s2.d k = if k = k0 then (ents s.d k0).filter (fun e => e.file != F) else ents s.d k := by
      cases hd : s.d k0 with
      | none =>
        refine ⟨s, by simp [solo, stepW, hd], rfl, ?_⟩
        intro k; by_cases hk : k = k0
        · subst hk; simp [ents, hd]
        · simp [hk]
      | some v =>
        cases hv : v.filter (fun e => e.file != F) with
        | nil =>
          refine ⟨{ s with d := updD (updD s.d k0 (some [])) k0 none }, ?_, rfl, ?_⟩
          · simp [solo, stepW, hd, hv, updD]
          · intro k; by_cases hk : k = k0
            · subst hk; simp [ents, updD, hd, hv]
            · simp [hk, ents, updD]
        | cons a l =>
          refine ⟨{ s with d := updD s.d k0 (some (a :: l)) }, ?_, rfl, ?_⟩
          · simp [solo, stepW, hd, hv, updD]
          · intro k; by_cases hk : k = k0
            · subst hk; simp [ents, updD, hd, hv]
            · simp [hk, ents, updD]
    obtain ⟨s2, h2, hfd2, hd2⟩ := two
    obtain ⟨n, s', hn, hfd, hd'⟩ := ih s2
    refine ⟨2 + n, s', ?_, by rw [hfd, hfd2], ?_⟩
    · rw [solo_add, h2]; exact hn
    · intro k
      rw [hd' k, hd2 k]
      by_cases hk : k = k0
      · subst hk
        by_cases hm : k ∈ todo
        · simp [hm, List.filter_filter]
        · simp [hm]
      · simp [hk]

/-- the registration loop, alone -/
theorem solo_push (F : File) (news0 news : List (Key × Nat)) (s : St) :
    ∃ n s', solo s { file := F, pc := .push news, news := news0 } n =
        (s', { file := F, pc := .done, news := news0 }) ∧
      (∀ k, ents s'.d k = ents s.d k ++ (news.filter (fun p => p.1 == k)).map (fun p => ⟨F, p.2⟩)) ∧
      (∀ G, G ≠ F → s'.fd G = s.fd G) ∧
      (∀ k, k ∈ names s'.fd F ↔ k ∈ names s.fd F ∨ k ∈ news.map (·.1)) := by
  induction news generalizing s with
  | nil => exact ⟨1, s, by simp [solo, stepW], by simp, fun _ _ => rfl, by simp⟩
  | cons kt news ih =>
    obtain ⟨k0, t⟩ := kt
    let s1 : St := { s with d := updD s.d k0 (some (ents s.d k0 ++ [⟨F, t⟩])) }
    let ns := names s.fd F
    let s2 : St := { s1 with fd := updF s.fd F (some (if ns.contains k0 then ns else ns ++ [k0])) }
    have two : solo s { file := F, pc := .push ((k0, t) :: news), news := news0 } 2 =
        (s2, { file := F, pc := .push news, news := news0 }) := by
      simp [solo, stepW, s2, s1, ns]
    obtain ⟨n, s', hn, hd', hfd', hnm'⟩ := ih s2
    refine ⟨2 + n, s', ?_, ?_, ?_, ?_⟩
    · rw [solo_add, two]; exact hn
    · intro k
      rw [hd' k]
      by_cases hk : k = k0
      · subst hk
        simp [s2, s1, ents, updD, List.filter_cons]
      · have : ¬ (k0 == k) = true := by simpa using fun h => hk h.symm
        simp [s2, s1, ents, updD, hk, List.filter_cons, this]
    · intro G hG
      rw [hfd' G hG]
      simp [s2, updF, hG]
    · intro k
      rw [hnm' k]
      have : ∀ k', k' ∈ names s2.fd F ↔ k' ∈ ns ∨ k' = k0 := by
        intro k'
        simp only [s2, names_updF_same, Option.getD_some]
        split
        · rename_i hc
          constructor
          · exact Or.inl
          · rintro (h | rfl)
            · exact h
            · simpa using hc
        · simp
      rw [this k]
      simp only [List.map_cons, List.mem_cons]
      constructor
      · rintro ((h | h) | h)
        · exact Or.inl h
        · exact Or.inr (Or.inl h)
        · exact Or.inr (Or.inr h)
      · rintro (h | h | h)
        · exact Or.inl (Or.inl h)
        · exact Or.inl (Or.inr h)
        · exact Or.inr h

theorem mem_projF {F : File} {l : List Ent} {e : Ent} : e ∈ projF F l ↔ e ∈ l ∧ e.file = F := by
  simp [projF]

/-- **C10 (one further change notification restores the exact single-analysis state).** From any
    quiescent state in which every definition is tracked — by `C10_tracked_quiescent`, every state
    the scan and any notifications can leave behind, however they interleaved — one more
    notification for `F`, handled alone, ends with: `F` owning under every name exactly the
    definitions of the notified version, in order, once; every other file's definitions untouched;
    the reverse index of `F` naming exactly the version's fixtures; the state tracked again. -/
theorem C10_one_more_change_restores (F : File) (news : List (Key × Nat)) (s : St) (h : Tr s) :
    ∃ n s', solo s (editWorker F news) n = (s', { file := F, pc := .done, news := news }) ∧
      (∀ k, projF F (ents s'.d k) = (news.filter (fun p => p.1 == k)).map (fun p => ⟨F, p.2⟩)) ∧
      (∀ G, G ≠ F → ∀ k, projF G (ents s'.d k) = projF G (ents s.d k)) ∧
      (∀ k, k ∈ names s'.fd F ↔ k ∈ news.map (·.1)) ∧
      Tr s' := by
  -- phase 1: take + clean-up, ending at `push news` with no definition of F left
  have clean : ∃ n1 s1, solo s (editWorker F news) n1 = (s1, { file := F, pc := .push news, news := news }) ∧
      (∀ k, projF F (ents s1.d k) = []) ∧
      (∀ G, G ≠ F → ∀ k, projF G (ents s1.d k) = projF G (ents s.d k)) ∧
      names s1.fd F = [] ∧ (∀ G, G ≠ F → s1.fd G = s.fd G) := by
    cases hfd : s.fd F with
    | none =>
      refine ⟨1, s, by simp [solo, stepW, editWorker, hfd], ?_, fun _ _ _ => rfl, by simp [names, hfd], fun _ _ => rfl⟩
      intro k
      apply List.eq_nil_iff_forall_not_mem.mpr
      intro e he
      obtain ⟨he1, he2⟩ := mem_projF.mp he
      have := h k e he1
      rw [he2] at this
      simp [names, hfd] at this
    | some ns =>
      obtain ⟨n, s', hn, hfd', hd'⟩ := solo_retain F news ns { s with fd := updF s.fd F none }
      refine ⟨1 + n, s', ?_, ?_, ?_, ?_, ?_⟩
      · rw [solo_add]
        have : solo s (editWorker F news) 1 =
            ({ s with fd := updF s.fd F none }, { file := F, pc := .retain ns, news := news }) := by
          simp [solo, stepW, editWorker, hfd]
        rw [this]; exact hn
      · intro k
        rw [hd' k]
        apply List.eq_nil_iff_forall_not_mem.mpr
        intro e he
        obtain ⟨he1, he2⟩ := mem_projF.mp he
        by_cases hm : k ∈ ns
        · simp [hm, he2] at he1
        · simp only [hm, if_false] at he1
          have := h k e he1
          rw [he2] at this
          simp [names, hfd] at this
          exact hm this
      · intro G hG k
        rw [hd' k]
        by_cases hm : k ∈ ns
        · simp only [hm, if_true, projF, List.filter_filter]
          apply List.filter_congr
          intro e _
          by_cases he : e.file = G
          · have : e.file ≠ F := by rw [he]; exact hG
            simp [he, hG]
          · simp [he]
        · simp [hm]
      · rw [hfd']; simp [names, updF]
      · intro G hG; rw [hfd']; simp [updF, hG]
  obtain ⟨n1, s1, h1, hF1, hG1, hn1, hfdG1⟩ := clean
  obtain ⟨n2, s2, h2, hd2, hfd2, hnm2⟩ := solo_push F news news s1
  refine ⟨n1 + n2, s2, ?_, ?_, ?_, ?_, ?_⟩
  · rw [solo_add, h1]; exact h2
  · intro k
    rw [hd2 k]
    unfold projF
    rw [List.filter_append]
    have e1 : (ents s1.d k).filter (fun e => e.file == F) = [] := hF1 k
    rw [e1, List.nil_append]
    apply List.filter_eq_self.mpr
    intro e he
    obtain ⟨p, _, rfl⟩ := List.mem_map.mp he
    simp
  · intro G hG k
    rw [hd2 k, ← hG1 G hG k]
    unfold projF
    rw [List.filter_append]
    have : ((news.filter (fun p => p.1 == k)).map (fun p => (⟨F, p.2⟩ : Ent))).filter (fun e => e.file == G) = [] := by
      apply List.eq_nil_iff_forall_not_mem.mpr
      intro e he
      obtain ⟨he1, he2⟩ := List.mem_filter.mp he
      obtain ⟨p, _, rfl⟩ := List.mem_map.mp he1
      simp at he2
      exact hG he2.symm
    rw [this, List.append_nil]
  · intro k
    rw [hnm2 k, hn1]
    simp
  · intro k e he
    rw [hd2 k, List.mem_append] at he
    rcases he with he | he
    · by_cases hef : e.file = F
      · have : e ∈ projF F (ents s1.d k) := mem_projF.mpr ⟨he, hef⟩
        rw [hF1 k] at this; cases this
      · have : e ∈ projF e.file (ents s1.d k) := mem_projF.mpr ⟨he, rfl⟩
        rw [hG1 e.file hef k] at this
        have h0 := h k e (mem_projF.mp this).1
        unfold names at h0 ⊢
        rw [hfd2 e.file hef, hfdG1 e.file hef]
        exact h0
    · obtain ⟨p, hp, rfl⟩ := List.mem_map.mp he
      simp only
      rw [hnm2 k]
      right
      obtain ⟨hp1, hp2⟩ := List.mem_filter.mp hp
      have : p.1 = k := by simpa using hp2
      exact List.mem_map.mpr ⟨p, hp1, this⟩

/-! ### the two sequential orders -/

/-- the state in which nothing is indexed yet -/
def empty : St := { d := fun _ => none, fd := fun _ => none }

theorem tr_empty : Tr empty := by intro k e he; simp [ents, empty] at he

def demoWorkers : Nat → Worker := fun j =>
  if j = 0 then scanWorker 7 [("a", 1), ("b", 2)]
  else if j = 1 then editWorker 7 [("a", 10), ("c", 30)] else idle

def scanThenEdit : Sys := run { s := empty, ws := demoWorkers } [0, 0, 0, 0, 0, 1, 1, 1, 1, 1, 1, 1, 1, 1, 1, 1]
def editThenScan : Sys := run { s := empty, ws := demoWorkers } [1, 1, 1, 1, 1, 1, 0, 0, 0, 0, 0]

def Pc.isDone : Pc → Bool
  | .done => true
  | _ => false

/-- scan visit of `F` with the disk content, then the notification with the buffer: exactly the
    buffer's definitions (an instance of the theorem above, on a concrete pair of versions) -/
theorem C10_edit_after_scan_exact :
    scanThenEdit.s.d "a" = some [⟨7, 10⟩] ∧ scanThenEdit.s.d "b" = none ∧ scanThenEdit.s.d "c" = some [⟨7, 30⟩] ∧
    (scanThenEdit.ws 0).pc.isDone = true ∧ (scanThenEdit.ws 1).pc.isDone = true := by
  decide

/-- **C10 (the first sentence is false of the code: finding E9).** The notification first, then
    the scan's visit of the same file (which does not clean up): the index holds the buffer's AND
    the disk's definitions of `a` — "both", not "exactly once". -/
theorem C10_scan_after_edit_duplicates :
    editThenScan.s.d "a" = some [⟨7, 10⟩, ⟨7, 1⟩] ∧ editThenScan.s.d "b" = some [⟨7, 2⟩] ∧
    (editThenScan.ws 0).pc.isDone = true ∧ (editThenScan.ws 1).pc.isDone = true := by
  decide

end PLS.Conc10
