/-
  C10 / C09 — the two models of one analysis agree.

  `PLS.Model.Index.analyze` (a whole analysis as one step, lists of definitions) is the model the
  sequential properties use; `PLS.Model.Conc10` runs the same analysis as a worker program, one
  DashMap call per step, on `definitions : name → entries` and `file_definitions`.  This file shows
  that the worker program of a notification, run ALONE to completion from the abstraction of an
  index state, ends in the abstraction of what `Index.analyze` computes — per fixture name and per
  file, the same entries in the same order (`C10_solo_run_is_analyze`).  Together with
  `C10_tracked_quiescent` (any interleaving leaves a tracked state) this puts the interleaving
  theorems and the history theorems on one footing.
-/
import PLS.Props.C10B
namespace PLS
namespace Bridge10
open Conc10

/-- the entries `absSt` lists for name `k`, without the `none`-when-empty wrapping -/
theorem ents_abs (enc : Path → Nat) (st : Index) (k : String) :
    ents (absSt enc st).d k = (st.defs.filter (fun d => d.name == k)).map (fun d => (⟨enc d.file, d.line⟩ : Ent)) := by
  unfold ents absSt
  simp only
  split
  · rename_i h
    rw [List.isEmpty_iff] at h
    rw [h]; rfl
  · rfl

/-- the converse of `tracked_of_Tr`: C06's bookkeeping invariant is the op-level invariant -/
theorem Tr_of_tracked (enc : Path → Nat) (hinj : ∀ a b, enc a = enc b → a = b) (st : Index)
    (h : DefsTracked st) : Tr (absSt enc st) := by
  intro k e he
  rw [ents_abs] at he
  obtain ⟨d, hd, rfl⟩ := List.mem_map.mp he
  have hm := List.mem_filter.mp hd
  obtain ⟨names, hl, hn⟩ := h d hm.1
  have hk : d.name = k := by simpa using hm.2
  simp only [Conc10.names, absSt]
  have hsame : (fun (q : Path × List String) => enc q.1 == enc d.file) = (fun q => q.1 == d.file) := by
    funext q
    by_cases hq : q.1 = d.file
    · rw [hq]; simp
    · have hne : enc q.1 ≠ enc d.file := fun e => hq (hinj _ _ e)
      have h1 : (q.1 == d.file) = false := by simpa using hq
      have h2 : (enc q.1 == enc d.file) = false := by simpa using hne
      rw [h1, h2]
  rw [hsame]
  unfold alookup at hl
  cases hf : st.fileDefs.find? (fun q => q.1 == d.file) with
  | none => rw [hf] at hl; simp at hl
  | some p =>
    rw [hf] at hl
    simp only [Option.map_some, Option.some.injEq] at hl
    simp only [Option.map_some, Option.getD_some]
    rw [hl, ← hk]
    exact hn

theorem projF_map_filter (enc : Path → Nat) (hinj : ∀ a b, enc a = enc b → a = b) (g : Path) (l : List Def) :
    projF (enc g) (l.map (fun d => (⟨enc d.file, d.line⟩ : Ent))) =
      (l.filter (fun d => d.file == g)).map (fun d => (⟨enc d.file, d.line⟩ : Ent)) := by
  unfold projF
  induction l with
  | nil => rfl
  | cons d l ih =>
    simp only [List.map_cons, List.filter_cons]
    by_cases hd : d.file = g
    · simp [hd, ih]
    · have hne : enc d.file ≠ enc g := fun e => hd (hinj _ _ e)
      have h1 : (d.file == g) = false := by simpa using hd
      have h2 : (enc d.file == enc g) = false := by simpa using hne
      simp only [h1, h2, Bool.false_eq_true, if_false]
      exact ih

/-- **the notification's worker program, run alone, computes `Index.analyze`** (definitions side).
    From the abstraction of any tracked index state: running `editWorker` for the analysed file to
    completion yields, for every fixture name `k` and every file `g`, exactly the entries that the
    abstraction of `Index.analyze`'s result holds for `k` and `g` — in the same order. -/
theorem C10_solo_run_is_analyze (enc : Path → Nat) (hinj : ∀ a b, enc a = enc b → a = b)
    (pfx : Path) (st : Index) (f : Path) (v : Version) (fr : FileRec) (hv : v.parsed = some fr)
    (hinv : DefsTracked st) (hev : EventsFor f fr.events) :
    ∃ n s', solo (absSt enc st) (editWorker (enc f) ((eventDefs fr.events).map (fun d => (d.name, d.line)))) n =
        (s', { file := enc f, pc := .done, news := (eventDefs fr.events).map (fun d => (d.name, d.line)) }) ∧
      ∀ (k : String) (g : Path),
        projF (enc g) (ents s'.d k) =
          projF (enc g) (ents (absSt enc (Index.analyze pfx true st f v).1).d k) := by
  obtain ⟨n, s', hrun, hF, hother, _, _⟩ :=
    C10_one_more_change_restores (enc f) ((eventDefs fr.events).map (fun d => (d.name, d.line)))
      (absSt enc st) (Tr_of_tracked enc hinj st hinv)
  refine ⟨n, s', hrun, ?_⟩
  intro k g
  rw [ents_abs, C06_defs_after_analyze pfx st f v fr hv hinv, projF_map_filter enc hinj]
  have hstamp : ∀ d : Def, (stampDef pfx st f d).name = d.name ∧ (stampDef pfx st f d).file = d.file ∧
      (stampDef pfx st f d).line = d.line := fun d => ⟨rfl, rfl, rfl⟩
  by_cases hg : g = f
  · subst hg
    rw [hF k]
    simp only [List.filter_append, List.map_append]
    have h1 : ((st.defs.filter (fun d => d.file != g)).filter (fun d => d.name == k)).filter (fun d => d.file == g) = [] := by
      apply List.filter_eq_nil_iff.mpr
      intro d hd
      have := (List.mem_filter.mp (List.mem_filter.mp hd).1).2
      simp only [bne_iff_ne, ne_eq] at this
      simp [this]
    rw [h1, List.map_nil, List.nil_append]
    -- every new definition is in file `g`; stampDef keeps name, file and line
    have key : ∀ (ds : List Def), (∀ d ∈ ds, d.file = g) →
        ((ds.map (fun d => (d.name, d.line))).filter (fun p => p.1 == k)).map (fun p => (⟨enc g, p.2⟩ : Ent)) =
        (((ds.map (stampDef pfx st g)).filter (fun d => d.name == k)).filter (fun d => d.file == g)).map
          (fun d => (⟨enc d.file, d.line⟩ : Ent)) := by
      intro ds
      induction ds with
      | nil => intro _; rfl
      | cons d ds ih =>
        intro hall
        have hd := hall d List.mem_cons_self
        have ih' := ih (fun x hx => hall x (List.mem_cons_of_mem _ hx))
        simp only [List.map_cons, List.filter_cons]
        by_cases hk : d.name = k
        · simp only [hk, beq_self_eq_true, if_true, (hstamp d).1, List.filter_cons, (hstamp d).2.1, hd, List.map_cons, (hstamp d).2.2]
          rw [ih']
        · have hk' : (d.name == k) = false := by simpa using hk
          simp only [hk', Bool.false_eq_true, if_false, (hstamp d).1]
          exact ih'
    exact key _ hev
  · rw [hother (enc g) (fun e => hg (hinj _ _ e)) k, ents_abs, projF_map_filter enc hinj]
    simp only [List.filter_append, List.map_append]
    have h2 : ((((eventDefs fr.events).map (stampDef pfx st f)).filter (fun d => d.name == k)).filter (fun d => d.file == g)) = [] := by
      apply List.filter_eq_nil_iff.mpr
      intro d hd
      have hm := (List.mem_filter.mp hd).1
      obtain ⟨d0, hd0, rfl⟩ := List.mem_map.mp hm
      have : (stampDef pfx st f d0).file = f := by rw [(hstamp d0).2.1]; exact hev d0 hd0
      rw [this]
      simpa using fun e => hg e.symm
    rw [h2, List.map_nil, List.append_nil]
    congr 1
    -- filtering the other files' definitions by `file == g` is unaffected by dropping file `f`
    have : ∀ (l : List Def), ((l.filter (fun d => d.file != f)).filter (fun d => d.name == k)).filter (fun d => d.file == g) =
        (l.filter (fun d => d.name == k)).filter (fun d => d.file == g) := by
      intro l
      induction l with
      | nil => rfl
      | cons d l ih =>
        simp only [List.filter_cons]
        by_cases hdf : d.file = f
        · have h1 : (d.file != f) = false := by simp [hdf]
          have h3 : (d.file == g) = false := by rw [hdf]; simpa using fun e => hg e.symm
          simp only [h1, Bool.false_eq_true, if_false]
          by_cases hk : (d.name == k) = true
          · simp only [hk, if_true, List.filter_cons, h3, Bool.false_eq_true, if_false]; exact ih
          · have hk' : (d.name == k) = false := by simpa using hk
            simp only [hk', Bool.false_eq_true, if_false]; exact ih
        · have h1 : (d.file != f) = true := by simp [hdf]
          simp only [h1, if_true, List.filter_cons]
          by_cases hk : (d.name == k) = true
          · simp only [hk, if_true, List.filter_cons]
            by_cases h3 : (d.file == g) = true
            · simp only [h3, if_true, ih]
            · have h3' : (d.file == g) = false := by simpa using h3
              simp only [h3', Bool.false_eq_true, if_false, ih]
          · have hk' : (d.name == k) = false := by simpa using hk
            simp only [hk', Bool.false_eq_true, if_false, ih]
    exact (this st.defs).symm
end Bridge10
end PLS
