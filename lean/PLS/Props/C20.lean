/-
  C20 — CLI reports agree with the language server and are reproducible.
-/
import PLS.Model.Cli
import PLS.Model.Index
import PLS.Props.C04
namespace PLS

/-- **C20 (`fixtures unused` lists exactly the project fixtures that are not autouse and that no
    usage resolves to).** One entry per definition; keys are `(file, name)`. -/
theorem C20_unused_iff (ix : List Def) (imp : Path → String → Bool) (us : List Usage) (f : Path) (n : String) :
    (f, n) ∈ unusedRaw ix imp us ↔
      ∃ d ∈ ix, d.file = f ∧ d.name = n ∧ d.thirdParty = false ∧ d.autouse = false ∧
        cliCount ix imp us d.file d.name = 0 := by
  unfold unusedRaw
  simp only [List.mem_map, List.mem_filter, Bool.and_eq_true, Bool.not_eq_true', beq_iff_eq, Prod.mk.injEq]
  constructor
  · rintro ⟨d, ⟨hd, ⟨⟨htp, hau⟩, hc⟩⟩, hf, hn⟩
    exact ⟨d, hd, hf, hn, htp, hau, hc⟩
  · rintro ⟨d, hd, hf, hn, htp, hau, hc⟩
    exact ⟨d, ⟨hd, ⟨⟨htp, hau⟩, hc⟩⟩, hf, hn⟩

/-- when `(file, name)` identifies one definition, "no usage resolves into the key" is "the
    definition has no references" — the set the server's find-references reports. -/
theorem C20_unused_iff_no_refs (ix : List Def) (imp : Path → String → Bool) (us : List Usage) (D : Def)
    (hD : D ∈ ix) (huniq : ∀ e ∈ ix, e.name = D.name → e.file = D.file → e = D)
    (hp : D.thirdParty = false) (ha : D.autouse = false) :
    (D.file, D.name) ∈ unusedRaw ix imp us ↔ refsFor ix imp us D = [] := by
  rw [C20_unused_iff]
  constructor
  · rintro ⟨d, hd, hf, hn, _, _, hc⟩
    have : d = D := huniq d hd hn hf
    subst this
    rw [C04_cli_count_eq_refs ix imp us d huniq] at hc
    exact List.length_eq_zero_iff.mp hc
  · intro h
    refine ⟨D, hD, rfl, rfl, hp, ha, ?_⟩
    rw [C04_cli_count_eq_refs ix imp us D huniq, h]
    rfl

/-- **C20 (exit status 1 exactly when the list is non-empty).** -/
theorem C20_exit (unused : List (Path × String)) : unusedExitCode unused = 1 ↔ unused ≠ [] := by
  unfold unusedExitCode
  cases unused <;> simp

/-- **C20 (the two filters of `fixtures list` partition the fixtures).** -/
theorem C20_filters_partition (count : Nat) (autouse : Bool) :
    showOnlyUnused count autouse = !showSkipUnused count autouse := by
  unfold showOnlyUnused showSkipUnused
  cases autouse <;> cases count <;> simp

/-- the printed count of `fixtures list` for a key identifying one definition is the number of
    references the server reports for it -/
theorem C20_counts (ix : List Def) (imp : Path → String → Bool) (us : List Usage) (D : Def)
    (huniq : ∀ e ∈ ix, e.name = D.name → e.file = D.file → e = D) :
    cliCount ix imp us D.file D.name = (refsFor ix imp us D).length :=
  C04_cli_count_eq_refs ix imp us D huniq

/-- sorting by (path, name) only permutes the entries -/
theorem insertPN_perm (x : Path × String) (l : List (Path × String)) :
    (Index.insertPN x l).Perm (x :: l) := by
  induction l with
  | nil => simp [Index.insertPN]
  | cons y ys ih =>
    simp only [Index.insertPN]
    split
    · exact List.Perm.refl _
    · exact (List.Perm.cons y ih).trans (List.Perm.swap x y ys)

theorem C20_sorted_is_perm (l : List (Path × String)) : (l.foldr Index.insertPN []).Perm l := by
  induction l with
  | nil => simp
  | cons x xs ih =>
    simp only [List.foldr_cons]
    exact (insertPN_perm x _).trans (List.Perm.cons x ih)

end PLS
