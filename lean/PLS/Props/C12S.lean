/-
  C12, part 4 — the work-list loop of `scan_imported_fixture_modules` (`scanner.rs`, modelled as
  `Index.importScan`): "iterate until no new module turns up", with `processed_files` as the only
  guard.  Import graphs may be cyclic, so the loop is not obviously finite.

  Since the repair that made plugin status independent of the visiting order, a file whose imports
  were walked before it became a plugin file is taken out of `processed_files` again and walked
  once more - so `processed` no longer only grows.

  The theorem: give every file of the universe (the files to check at the start, the files on
  disk, the files cached) the weight (1 if unprocessed) + (2 if not a plugin file).  No step raises
  any file's weight - un-processing a file happens only together with marking it as a plugin file,
  2 down and 1 up - and every round that does not stop lowers the weight of at least one file.  Hence
  the loop makes at most (3 x universe + 1) rounds, and any larger fuel gives the same result.
-/
import PLS.Model.Scan
import PLS.Props.C12I
namespace PLS
namespace ScanT
open Index

/-! ### resolved modules exist (on disk or in the cache) -/

theorem mem_keys_of_ahas {β} (l : List (Path × β)) (k : Path) (h : ahas l k = true) : k ∈ l.map (·.1) := by
  unfold ahas at h
  simp only [List.any_eq_true, beq_iff_eq] at h
  obtain ⟨p, hp, rfl⟩ := h
  exact List.mem_map.mpr ⟨p, hp, rfl⟩

theorem findModuleFile_exists (st : Index) (parts : List String) (base t : Path)
    (h : findModuleFile st parts base = some t) : ahas st.disk t = true ∨ ahas st.cache t = true := by
  induction parts generalizing base with
  | nil => simp [findModuleFile] at h
  | cons p ps ih =>
    cases ps with
    | nil =>
      simp only [findModuleFile] at h
      split at h
      · rename_i hc
        cases h
        simpa using hc
      · split at h
        · rename_i hc
          cases h
          simpa using hc
        · cases h
    | cons q qs =>
      simp only [findModuleFile] at h
      split at h
      · exact ih _ h
      · cases h

theorem findSome_exists {α} (st : Index) (l : List α) (g : α → Option Path) (t : Path)
    (hg : ∀ a r, g a = some r → ahas st.disk r = true ∨ ahas st.cache r = true)
    (h : l.findSome? g = some t) : ahas st.disk t = true ∨ ahas st.cache t = true := by
  obtain ⟨a, _, ha⟩ := List.exists_of_findSome?_eq_some h
  exact hg a t ha

theorem resolveModule_exists (st : Index) (m : String) (f t : Path) (h : st.resolveModule m f = some t) :
    ahas st.disk t = true ∨ ahas st.cache t = true := by
  unfold resolveModule at h
  simp only at h
  split at h
  · -- relative
    unfold resolveRelative at h
    simp only at h
    split at h
    · cases h
    · split at h
      · split at h
        · rename_i hc; cases h; exact Or.inl hc
        · cases h
      · exact findModuleFile_exists st _ _ t h
  · unfold resolveAbsolute at h
    cases h1 : (ancestorsOfDir (dirOf f)).findSome? (findModuleFile st ((splitDots m.toList).map String.ofList)) with
    | some r =>
      simp only [h1, Option.orElse] at h
      cases h
      exact findSome_exists st _ _ _ (fun a r hr => findModuleFile_exists st _ a r hr) h1
    | none =>
      simp only [h1, Option.orElse] at h
      cases h2 : st.sitePackages.findSome? (findModuleFile st ((splitDots m.toList).map String.ofList)) with
      | some r =>
        simp only [h2] at h
        cases h
        exact findSome_exists st _ _ _ (fun a r hr => findModuleFile_exists st _ a r hr) h2
      | none =>
        simp only [h2] at h
        exact findSome_exists st _ _ _ (fun a r hr => findModuleFile_exists st _ a.1 r hr) h

/-! ### one round -/

/-- files the scan can ever meet: a fixed list `U` containing the disk and the cache -/
structure Good (U : List Path) (st0 st : Index) : Prop where
  disk : st.disk = st0.disk
  cacheU : ∀ k, ahas st.cache k = true → k ∈ U
  diskU : ∀ k, ahas st.disk k = true → k ∈ U

def PA (U : List Path) (st0 : Index) (acc : ScanAcc) : Prop :=
  Good U st0 acc.st ∧ (∀ t, t ∈ acc.news → t ∈ U) ∧ (∀ t, t ∈ acc.rewalk → t ∈ U)

/-- the weight of one file: 1 while unprocessed, 2 while not a plugin file -/
def w (processed plugin : List Path) (g : Path) : Nat :=
  (if processed.contains g then 0 else 1) + (if plugin.contains g then 0 else 2)

def wA (acc : ScanAcc) (g : Path) : Nat := w acc.processed acc.st.pluginFiles g

def mu (U processed plugin : List Path) : Nat := (U.map (w processed plugin)).sum

theorem sum_le {α} (U : List α) (f h : α → Nat) (hle : ∀ g ∈ U, f g ≤ h g) : (U.map f).sum ≤ (U.map h).sum := by
  induction U with
  | nil => simp
  | cons a U ih =>
    simp only [List.map_cons, List.sum_cons]
    have := hle a List.mem_cons_self
    have := ih (fun g hg => hle g (List.mem_cons_of_mem _ hg))
    omega

theorem sum_lt {α} (U : List α) (f h : α → Nat) (hle : ∀ g ∈ U, f g ≤ h g) (x : α) (hx : x ∈ U) (hlt : f x < h x) :
    (U.map f).sum < (U.map h).sum := by
  induction U with
  | nil => cases hx
  | cons a U ih =>
    simp only [List.map_cons, List.sum_cons]
    have ha := hle a List.mem_cons_self
    have hU := sum_le U f h (fun g hg => hle g (List.mem_cons_of_mem _ hg))
    rcases List.mem_cons.mp hx with rfl | hxU
    · omega
    · have := ih (fun g hg => hle g (List.mem_cons_of_mem _ hg)) hxU
      omega

theorem w_le_three (processed plugin : List Path) (g : Path) : w processed plugin g ≤ 3 := by
  unfold w; split <;> split <;> omega

theorem mu_le (U processed plugin : List Path) : mu U processed plugin ≤ 3 * U.length := by
  unfold mu
  induction U with
  | nil => simp
  | cons a U ih =>
    simp only [List.map_cons, List.sum_cons, List.length_cons]
    have := w_le_three processed plugin a
    omega

theorem ite_or {α} (c : Prop) [Decidable c] (a b : α) :
    (if c then b else a) = a ∨ (if c then b else a) = b := by
  split
  · exact Or.inr rfl
  · exact Or.inl rfl

theorem importStep_fields (mark : Bool) (acc : ScanAcc) (t : Path) :
    (importStep mark acc t).st.disk = acc.st.disk ∧
    (importStep mark acc t).st.cache = acc.st.cache ∧
    ((importStep mark acc t).news = acc.news ∨ (importStep mark acc t).news = acc.news ++ [t]) ∧
    ((importStep mark acc t).rewalk = acc.rewalk ∨ (importStep mark acc t).rewalk = acc.rewalk ++ [t]) := by
  unfold importStep
  simp only
  refine ⟨?_, ?_, ?_, ?_⟩
  · split <;> rfl
  · split <;> rfl
  · exact ite_or _ _ _
  · exact ite_or _ _ _

theorem importStep_PA (U : List Path) (st0 : Index) (mark : Bool) (acc : ScanAcc) (t : Path)
    (ht : t ∈ U) (h : PA U st0 acc) : PA U st0 (importStep mark acc t) := by
  obtain ⟨hg, hn, hr⟩ := h
  obtain ⟨f1, f2, f3, f4⟩ := importStep_fields mark acc t
  refine ⟨⟨f1.trans hg.disk, ?_, ?_⟩, ?_, ?_⟩
  · intro k hk; rw [f2] at hk; exact hg.cacheU k hk
  · intro k hk; rw [f1] at hk; exact hg.diskU k hk
  · intro x hx
    rcases f3 with e | e
    · rw [e] at hx; exact hn x hx
    · rw [e] at hx
      rcases List.mem_append.mp hx with hx | hx
      · exact hn x hx
      · simp only [List.mem_singleton] at hx; subst hx; exact ht
  · intro x hx
    rcases f4 with e | e
    · rw [e] at hx; exact hr x hx
    · rw [e] at hx
      rcases List.mem_append.mp hx with hx | hx
      · exact hr x hx
      · simp only [List.mem_singleton] at hx; subst hx; exact ht

/-- **no import step raises a file's weight**: a file leaves `processed` only in the step that
    makes it a plugin file -/
theorem importStep_w (mark : Bool) (acc : ScanAcc) (t g : Path) :
    wA (importStep mark acc t) g ≤ wA acc g := by
  unfold wA importStep w
  simp only
  by_cases hm : (mark && !acc.st.pluginFiles.contains t) = true
  · simp only [hm, if_true, Bool.true_and]
    have htp : acc.st.pluginFiles.contains t = false := by
      simp only [Bool.and_eq_true, Bool.not_eq_true'] at hm; exact hm.2
    by_cases hg : g = t
    · subst hg
      have h1 : (acc.st.pluginFiles ++ [g]).contains g = true := by simp
      by_cases hp : acc.processed.contains g = true
      · simp only [hp, if_true, h1, htp, Bool.false_eq_true, if_false]
        split <;> omega
      · simp only [hp, Bool.false_eq_true, if_false, h1, if_true, htp]
        omega
    · have h1 : (acc.st.pluginFiles ++ [t]).contains g = acc.st.pluginFiles.contains g := by
        simp only [List.contains_eq_mem, List.mem_append, List.mem_singleton, hg, or_false]
      by_cases hp : acc.processed.contains t = true
      · have h2 : (acc.processed.filter (fun x => x != t)).contains g = acc.processed.contains g := by
          simp only [List.contains_eq_mem, List.mem_filter, bne_iff_ne, ne_eq, hg, not_false_eq_true, and_true]
        simp only [hp, if_true, h1, h2]
        omega
      · simp only [hp, Bool.false_eq_true, if_false, h1]
        omega
  · simp only [hm, Bool.false_eq_true, if_false, Bool.false_and]
    omega

/-- the invariant carried through the walk of one file -/
def Q (U : List Path) (st0 : Index) (acc0 acc : ScanAcc) : Prop :=
  PA U st0 acc ∧ ∀ g, wA acc g ≤ wA acc0 g

theorem importScanFile_Q (U : List Path) (st0 : Index) (f : Path) (acc0 acc : ScanAcc)
    (h : Q U st0 acc0 acc) : Q U st0 acc0 (importScanFile f acc) := by
  unfold importScanFile
  split
  · rename_i fr _ _ _
    have step : ∀ (mark : Bool) (b : ScanAcc) (m : String), Q U st0 acc0 b →
        Q U st0 acc0 (match b.st.resolveModule m f with | some t => importStep mark b t | none => b) := by
      intro mark b m hb
      cases hres : b.st.resolveModule m f with
      | none => exact hb
      | some t =>
        have htU : t ∈ U := by
          rcases resolveModule_exists b.st m f t hres with hd | hc
          · exact hb.1.1.diskU t hd
          · exact hb.1.1.cacheU t hc
        exact ⟨importStep_PA U st0 mark b t htU hb.1,
          fun g => Nat.le_trans (importStep_w mark b t g) (hb.2 g)⟩
    apply ImpT.foldl_inv (Q U st0 acc0)
    · apply ImpT.foldl_inv (Q U st0 acc0)
      · exact h
      · intro b imp hb; exact step _ b imp.modulePath hb
    · intro b m hb; exact step _ b m hb
  · exact h

theorem roundStep_Q (U : List Path) (st0 : Index) (acc0 acc : ScanAcc) (f : Path)
    (h : Q U st0 acc0 acc) : Q U st0 acc0 (roundStep acc f) := by
  unfold roundStep
  split
  · exact h
  · apply importScanFile_Q
    refine ⟨h.1, fun g => Nat.le_trans ?_ (h.2 g)⟩
    unfold wA w
    simp only
    have : acc.processed.contains g = true → (acc.processed ++ [f]).contains g = true := by
      intro hc; simp only [List.contains_eq_mem, List.mem_append, decide_eq_true_eq] at hc ⊢; exact Or.inl hc
    by_cases hc : acc.processed.contains g = true
    · simp only [this hc, hc, if_true]; omega
    · simp only [hc, Bool.false_eq_true, if_false]; split <;> omega

/-- processing a file lowers its weight, whatever its own imports do to it afterwards -/
theorem roundStep_strict (U : List Path) (st0 : Index) (acc : ScanAcc) (f : Path)
    (hpa : PA U st0 acc) (hf : acc.processed.contains f = false) : wA (roundStep acc f) f < wA acc f := by
  unfold roundStep
  simp only [hf, Bool.false_eq_true, if_false]
  have hq : Q U st0 { acc with processed := acc.processed ++ [f] } { acc with processed := acc.processed ++ [f] } :=
    ⟨hpa, fun g => Nat.le_refl _⟩
  have := (importScanFile_Q U st0 f _ _ hq).2 f
  apply Nat.lt_of_le_of_lt this
  unfold wA w
  simp only [hf, Bool.false_eq_true, if_false]
  have : (acc.processed ++ [f]).contains f = true := by simp
  simp only [this, if_true]
  omega

/-- a whole round: no weight rises, and the weight of some file of `U` falls when the round had
    an unprocessed file to check -/
theorem round_measure (U : List Path) (st0 : Index) (toCheck : List Path) (hT : ∀ x, x ∈ toCheck → x ∈ U) :
    ∀ acc : ScanAcc, PA U st0 acc →
      Q U st0 acc (toCheck.foldl roundStep acc) ∧
      ((∃ f, f ∈ toCheck ∧ acc.processed.contains f = false) →
        ∃ x, x ∈ U ∧ wA (toCheck.foldl roundStep acc) x < wA acc x) := by
  induction toCheck with
  | nil => intro acc hpa; exact ⟨⟨hpa, fun g => Nat.le_refl _⟩, fun ⟨f, hf, _⟩ => by cases hf⟩
  | cons a l ih =>
    intro acc hpa
    simp only [List.foldl_cons]
    have hq1 : Q U st0 acc (roundStep acc a) := roundStep_Q U st0 acc acc a ⟨hpa, fun g => Nat.le_refl _⟩
    obtain ⟨hq2, hs2⟩ := ih (fun x hx => hT x (List.mem_cons_of_mem _ hx)) (roundStep acc a) hq1.1
    refine ⟨⟨hq2.1, fun g => Nat.le_trans (hq2.2 g) (hq1.2 g)⟩, ?_⟩
    rintro ⟨f, hf, hfp⟩
    by_cases ha : acc.processed.contains a = true
    · have hsame : roundStep acc a = acc := by unfold roundStep; rw [if_pos ha]
      have hfl : f ∈ l := by
        rcases List.mem_cons.mp hf with rfl | hfl
        · rw [ha] at hfp; cases hfp
        · exact hfl
      rw [hsame] at hs2 ⊢
      exact hs2 ⟨f, hfl, hfp⟩
    · have ha' : acc.processed.contains a = false := by simpa using ha
      refine ⟨a, hT a List.mem_cons_self, ?_⟩
      exact Nat.lt_of_le_of_lt (hq2.2 a) (roundStep_strict U st0 acc a hpa ha')

/-- a round in which everything to check is already processed changes nothing -/
theorem round_idle (toCheck : List Path) (acc : ScanAcc) (h : ∀ f, f ∈ toCheck → acc.processed.contains f = true) :
    toCheck.foldl roundStep acc = acc := by
  induction toCheck generalizing acc with
  | nil => rfl
  | cons a l ih =>
    simp only [List.foldl_cons]
    have : roundStep acc a = acc := by
      unfold roundStep
      rw [if_pos (h a List.mem_cons_self)]
    rw [this]
    exact ih acc (fun f hf => h f (List.mem_cons_of_mem _ hf))

/-! ### analysing the new modules keeps the universe -/

theorem ahas_ainsert {β} (l : List (Path × β)) (k x : Path) (v : β) (h : ahas (ainsert l k v) x = true) :
    ahas l x = true ∨ x = k := by
  unfold ahas ainsert aerase at h
  simp only [List.any_append, List.any_filter, Bool.or_eq_true, List.any_eq_true, Bool.and_eq_true] at h
  rcases h with ⟨p, hp, _, hpx⟩ | ⟨p, hp, hpx⟩
  · left
    unfold ahas
    simp only [List.any_eq_true]
    exact ⟨p, hp, hpx⟩
  · right
    simp only [List.mem_singleton] at hp
    subst hp
    have : k = x := by simpa using hpx
    exact this.symm

theorem scanStep_cd (f : Path) (b : BodyScan) (st : Index) (r : NameRef) :
    (scanStep f b st r).disk = st.disk ∧ (scanStep f b st r).cache = st.cache := by
  unfold scanStep
  split <;> exact ⟨rfl, rfl⟩

theorem applyEvent_cd (pfx f : Path) (st : Index) (e : Event) :
    (applyEvent pfx f st e).disk = st.disk ∧ (applyEvent pfx f st e).cache = st.cache := by
  cases e with
  | defn d => exact ⟨rfl, rfl⟩
  | usage u => exact ⟨rfl, rfl⟩
  | panic => exact ⟨rfl, rfl⟩
  | scan b =>
    simp only [applyEvent]
    generalize b.refs = refs
    induction refs generalizing st with
    | nil => exact ⟨rfl, rfl⟩
    | cons r rs ih =>
      simp only [List.foldl_cons]
      obtain ⟨h1, h2⟩ := ih (scanStep f b st r)
      obtain ⟨g1, g2⟩ := scanStep_cd f b st r
      exact ⟨h1.trans g1, h2.trans g2⟩

theorem foldl_cd (pfx f : Path) (es : List Event) (st : Index) :
    (es.foldl (applyEvent pfx f) st).disk = st.disk ∧ (es.foldl (applyEvent pfx f) st).cache = st.cache := by
  induction es generalizing st with
  | nil => exact ⟨rfl, rfl⟩
  | cons e es ih =>
    simp only [List.foldl_cons]
    obtain ⟨h1, h2⟩ := ih (applyEvent pfx f st e)
    obtain ⟨g1, g2⟩ := applyEvent_cd pfx f st e
    exact ⟨h1.trans g1, h2.trans g2⟩

theorem preState_cd (cl : Bool) (st : Index) (f : Path) (v : Version) (fr : FileRec) :
    (preState cl st f v fr).disk = st.disk ∧ (preState cl st f v fr).cache = ainsert st.cache f v := by
  unfold preState
  cases cl
  · exact ⟨rfl, rfl⟩
  · simp only [if_true]
    unfold cleanupDefs
    split <;> exact ⟨rfl, rfl⟩

/-- the version an analysis leaves in the cache: the text as it is, together - when it does not
    parse - with the record carried over from the file's previous cache entry -/
def cachedAs (st : Index) (f : Path) (v : Version) : Version :=
  match v.parsed with
  | none => carry st f v
  | some _ => v

theorem cachedAs_parsed (st : Index) (f : Path) (v : Version) :
    (cachedAs st f v).parsed = v.parsed ∧ (cachedAs st f v).text = v.text := by
  unfold cachedAs carry
  cases h : v.parsed with
  | none => exact ⟨rfl, rfl⟩
  | some fr => exact ⟨h, rfl⟩

theorem analyze_cd (pfx : Path) (cl : Bool) (st : Index) (f : Path) (v : Version) :
    (analyze pfx cl st f v).1.disk = st.disk ∧
    (analyze pfx cl st f v).1.cache = ainsert st.cache f (cachedAs st f v) := by
  unfold analyze cachedAs
  cases v.parsed with
  | none => exact ⟨rfl, rfl⟩
  | some fr =>
    simp only
    obtain ⟨h1, h2⟩ := foldl_cd pfx f fr.events (preState cl st f v fr)
    obtain ⟨g1, g2⟩ := preState_cd cl st f v fr
    exact ⟨h1.trans g1, h2.trans g2⟩

theorem analyzeNew_good (pfx : Path) (U : List Path) (st0 st : Index) (m : Path) (hm : m ∈ U) (h : Good U st0 st) :
    Good U st0 (analyzeNew pfx st m) := by
  unfold analyzeNew
  cases alookup st.disk m with
  | none => exact h
  | some v =>
    simp only
    split
    · obtain ⟨h1, h2⟩ := analyze_cd pfx false st m v
      refine ⟨h1.trans h.disk, ?_, ?_⟩
      · intro k hk
        rw [h2] at hk
        rcases ahas_ainsert _ _ _ _ hk with hk | rfl
        · exact h.cacheU k hk
        · exact hm
      · intro k hk; rw [h1] at hk; exact h.diskU k hk
    · exact h

theorem analyzeAll_good (pfx : Path) (U : List Path) (st0 : Index) (news : List Path) (st : Index)
    (hn : ∀ m, m ∈ news → m ∈ U) (h : Good U st0 st) : Good U st0 (news.foldl (analyzeNew pfx) st) := by
  induction news generalizing st with
  | nil => exact h
  | cons m ms ih =>
    simp only [List.foldl_cons]
    exact ih _ (fun x hx => hn x (List.mem_cons_of_mem _ hx)) (analyzeNew_good pfx U st0 st m (hn m List.mem_cons_self) h)

/-! ### analysis leaves the plugin marks alone -/

theorem scanStep_pf (f : Path) (b : BodyScan) (st : Index) (r : NameRef) :
    (scanStep f b st r).pluginFiles = st.pluginFiles := by
  unfold scanStep
  split <;> rfl

theorem applyEvent_pf (pfx f : Path) (st : Index) (e : Event) :
    (applyEvent pfx f st e).pluginFiles = st.pluginFiles := by
  cases e with
  | defn d => rfl
  | usage u => rfl
  | panic => rfl
  | scan b =>
    simp only [applyEvent]
    generalize b.refs = refs
    induction refs generalizing st with
    | nil => rfl
    | cons r rs ih =>
      simp only [List.foldl_cons]
      exact (ih (scanStep f b st r)).trans (scanStep_pf f b st r)

theorem foldl_pf (pfx f : Path) (es : List Event) (st : Index) :
    (es.foldl (applyEvent pfx f) st).pluginFiles = st.pluginFiles := by
  induction es generalizing st with
  | nil => rfl
  | cons e es ih =>
    simp only [List.foldl_cons]
    exact (ih (applyEvent pfx f st e)).trans (applyEvent_pf pfx f st e)

theorem preState_pf (cl : Bool) (st : Index) (f : Path) (v : Version) (fr : FileRec) :
    (preState cl st f v fr).pluginFiles = st.pluginFiles := by
  unfold preState
  cases cl
  · rfl
  · simp only [if_true]
    unfold cleanupDefs
    split <;> rfl

theorem analyze_pf (pfx : Path) (cl : Bool) (st : Index) (f : Path) (v : Version) :
    (analyze pfx cl st f v).1.pluginFiles = st.pluginFiles := by
  unfold analyze
  cases v.parsed with
  | none => rfl
  | some fr =>
    simp only
    exact (foldl_pf pfx f fr.events (preState cl st f v fr)).trans (preState_pf cl st f v fr)

theorem analyzeNew_pf (pfx : Path) (st : Index) (m : Path) : (analyzeNew pfx st m).pluginFiles = st.pluginFiles := by
  unfold analyzeNew
  cases alookup st.disk m with
  | none => rfl
  | some v =>
    simp only
    split
    · exact analyze_pf pfx false st m v
    · rfl

theorem analyzeAll_pf (pfx : Path) (news : List Path) (st : Index) :
    (news.foldl (analyzeNew pfx) st).pluginFiles = st.pluginFiles := by
  induction news generalizing st with
  | nil => rfl
  | cons m ms ih =>
    simp only [List.foldl_cons]
    exact (ih _).trans (analyzeNew_pf pfx st m)

/-! ### the loop -/

theorem importScan_eq (pfx : Path) (fuel : Nat) (st : Index) (toCheck processed re : List Path) :
    importScan pfx (fuel + 1) st toCheck processed re =
      if toCheck.isEmpty then (st, re) else
      let r := toCheck.foldl roundStep { news := [], re := re, st := st, processed := processed, rewalk := [] }
      if r.news.isEmpty && r.rewalk.isEmpty then (r.st, r.re) else
      importScan pfx fuel (r.news.foldl (analyzeNew pfx) r.st) (r.news ++ r.rewalk) r.processed r.re := by
  conv => lhs; rw [importScan]

/-- **more fuel than the total weight of the universe changes nothing** -/
theorem importScan_stable (pfx : Path) (U : List Path) (st0 : Index) :
    ∀ (n : Nat) (st : Index) (toCheck processed re : List Path), Good U st0 st → (∀ f, f ∈ toCheck → f ∈ U) →
      mu U processed st.pluginFiles < n → ∀ m, n ≤ m →
      importScan pfx m st toCheck processed re = importScan pfx n st toCheck processed re := by
  intro n
  induction n with
  | zero => intro st toCheck processed re _ _ h; omega
  | succ n ih =>
    intro st toCheck processed re hgood hT hmu m hm
    cases m with
    | zero => omega
    | succ m =>
      rw [importScan_eq, importScan_eq]
      by_cases he : toCheck.isEmpty = true
      · simp only [he, if_true]
      · simp only [he]
        generalize hacc : ({ news := [], re := re, st := st, processed := processed, rewalk := [] } : ScanAcc) = acc0
        have hpa0 : PA U st0 acc0 := by
          rw [← hacc]
          refine ⟨hgood, ?_, ?_⟩ <;> intro t ht <;> cases ht
        obtain ⟨hq, hstrict⟩ := round_measure U st0 toCheck hT acc0 hpa0
        generalize hr : toCheck.foldl roundStep acc0 = r at hq hstrict
        by_cases hn : (r.news.isEmpty && r.rewalk.isEmpty) = true
        · simp only [hn, if_true]
        · simp only [hn]
          -- some file to check was not processed yet, otherwise the round would have been idle
          have hex : ∃ f, f ∈ toCheck ∧ acc0.processed.contains f = false := by
            apply Classical.byContradiction
            intro hno
            have hall : ∀ f, f ∈ toCheck → acc0.processed.contains f = true := by
              intro f hf
              cases hc : acc0.processed.contains f with
              | true => rfl
              | false => exact absurd ⟨f, hf, hc⟩ hno
            have := round_idle toCheck acc0 hall
            rw [hr] at this
            rw [this, ← hacc] at hn
            exact hn rfl
          obtain ⟨x, hxU, hxlt⟩ := hstrict hex
          have hdec : mu U r.processed r.st.pluginFiles < mu U processed st.pluginFiles := by
            have h0 : mu U processed st.pluginFiles = (U.map (wA acc0)).sum := by rw [← hacc]; rfl
            rw [h0]
            exact sum_lt U (wA r) (wA acc0) (fun g _ => hq.2 g) x hxU hxlt
          apply ih
          · exact analyzeAll_good pfx U st0 r.news r.st hq.1.2.1 hq.1.1
          · intro f hf
            rcases List.mem_append.mp hf with hf | hf
            · exact hq.1.2.1 f hf
            · exact hq.1.2.2 f hf
          · rw [analyzeAll_pf]; omega
          · omega

end ScanT

open ScanT in
/-- **C12 (the scan's import work-list loop terminates on every import graph).** Let `U` be any
    list containing the files on disk, the cached files and the files to check.  Any fuel larger
    than three times the number of files of `U` gives the same final index and the same
    re-analysis list: a file is walked again only after it has been marked as a plugin file, which
    happens once per file, so circular and self imports cannot keep the loop going. -/
theorem C12_import_scan_fuel_irrelevant (pfx : Path) (U : List Path) (st : Index) (toCheck processed re : List Path)
    (hdisk : ∀ k, ahas st.disk k = true → k ∈ U) (hcache : ∀ k, ahas st.cache k = true → k ∈ U)
    (hT : ∀ f, f ∈ toCheck → f ∈ U) (m : Nat) (hm : 3 * U.length + 1 ≤ m) :
    Index.importScan pfx m st toCheck processed re = Index.importScan pfx (3 * U.length + 1) st toCheck processed re := by
  apply importScan_stable pfx U st (3 * U.length + 1) st toCheck processed re ⟨rfl, hcache, hdisk⟩ hT _ m hm
  have := mu_le U processed st.pluginFiles
  omega

end PLS
