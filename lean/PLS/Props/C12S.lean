/-
  C12, part 4 — the work-list loop of `scan_imported_fixture_modules` (`scanner.rs`, modelled as
  `Index.importScan`): "iterate until no new module turns up", with `processed_files` as the only
  guard.  Import graphs may be cyclic, so the loop is not obviously finite.

  The theorem: every round that does not stop moves at least one file of the universe (the files
  to check at the start, the files on disk, the files cached) into `processed`; hence the loop makes
  at most (unprocessed universe + 1) rounds, and any larger fuel gives the same result.
-/
import PLS.Model.Scan
import PLS.Props.C12I
namespace PLS
namespace ScanT
open Index

/-! ### resolved modules exist (on disk or in the cache) -/

theorem mem_keys_of_ahas {β} (l : List (Path × β)) (k : Path) (h : ahas l k = true) : k ∈ l.map (·.1) := by
  unfold ahas at h
  simp only [List.any_eq_true, beq_iff_eq] at h
  obtain ⟨p, hp, rfl⟩ := h
  exact List.mem_map.mpr ⟨p, hp, rfl⟩

theorem findModuleFile_exists (st : Index) (parts : List String) (base t : Path)
    (h : findModuleFile st parts base = some t) : ahas st.disk t = true ∨ ahas st.cache t = true := by
  induction parts generalizing base with
  | nil => simp [findModuleFile] at h
  | cons p ps ih =>
    cases ps with
    | nil =>
      simp only [findModuleFile] at h
      split at h
      · rename_i hc
        cases h
        simpa using hc
      · split at h
        · rename_i hc
          cases h
          simpa using hc
        · cases h
    | cons q qs =>
      simp only [findModuleFile] at h
      split at h
      · exact ih _ h
      · cases h

theorem findSome_exists {α} (st : Index) (l : List α) (g : α → Option Path) (t : Path)
    (hg : ∀ a r, g a = some r → ahas st.disk r = true ∨ ahas st.cache r = true)
    (h : l.findSome? g = some t) : ahas st.disk t = true ∨ ahas st.cache t = true := by
  obtain ⟨a, _, ha⟩ := List.exists_of_findSome?_eq_some h
  exact hg a t ha

theorem resolveModule_exists (st : Index) (m : String) (f t : Path) (h : st.resolveModule m f = some t) :
    ahas st.disk t = true ∨ ahas st.cache t = true := by
  unfold resolveModule at h
  simp only at h
  split at h
  · -- relative
    unfold resolveRelative at h
    simp only at h
    split at h
    · cases h
    · split at h
      · split at h
        · rename_i hc; cases h; exact Or.inl hc
        · cases h
      · exact findModuleFile_exists st _ _ t h
  · unfold resolveAbsolute at h
    cases h1 : (ancestorsOfDir (dirOf f)).findSome? (findModuleFile st ((splitDots m.toList).map String.ofList)) with
    | some r =>
      simp only [h1, Option.orElse] at h
      cases h
      exact findSome_exists st _ _ _ (fun a r hr => findModuleFile_exists st _ a r hr) h1
    | none =>
      simp only [h1, Option.orElse] at h
      cases h2 : st.sitePackages.findSome? (findModuleFile st ((splitDots m.toList).map String.ofList)) with
      | some r =>
        simp only [h2] at h
        cases h
        exact findSome_exists st _ _ _ (fun a r hr => findModuleFile_exists st _ a r hr) h2
      | none =>
        simp only [h2] at h
        exact findSome_exists st _ _ _ (fun a r hr => findModuleFile_exists st _ a.1 r hr) h

/-! ### one round -/

abbrev Acc3 := List Path × List Path × Index
abbrev Acc4 := List Path × List Path × Index × List Path

/-- files the scan can ever meet: a fixed list `U` containing the disk and the cache -/
structure Good (U : List Path) (st0 st : Index) : Prop where
  disk : st.disk = st0.disk
  cacheU : ∀ k, ahas st.cache k = true → k ∈ U
  diskU : ∀ k, ahas st.disk k = true → k ∈ U

def P3 (U : List Path) (st0 : Index) (acc : Acc3) : Prop :=
  Good U st0 acc.2.2 ∧ ∀ t, t ∈ acc.1 → t ∈ U

theorem importStep_fields (processed : List Path) (mark : Bool) (acc : Acc3) (t : Path) :
    (importStep processed mark acc t).2.2.disk = acc.2.2.disk ∧
    (importStep processed mark acc t).2.2.cache = acc.2.2.cache ∧
    ((importStep processed mark acc t).1 = acc.1 ∨ (importStep processed mark acc t).1 = acc.1 ++ [t]) := by
  unfold importStep
  simp only
  refine ⟨?_, ?_, ?_⟩
  · by_cases h : (mark && !acc.2.2.pluginFiles.contains t) = true
    · simp only [h, if_true]
    · simp only [h]; rfl
  · by_cases h : (mark && !acc.2.2.pluginFiles.contains t) = true
    · simp only [h, if_true]
    · simp only [h]; rfl
  · by_cases h2 : (!processed.contains t && !ahas acc.2.2.cache t && !acc.1.contains t) = true
    · right; simp only [h2, if_true]
    · left; simp only [h2]; rfl

theorem importStep_P3 (U : List Path) (st0 : Index) (processed : List Path) (mark : Bool) (acc : Acc3) (t : Path)
    (ht : t ∈ U) (h : P3 U st0 acc) : P3 U st0 (importStep processed mark acc t) := by
  obtain ⟨⟨hd, hc, hdu⟩, hn⟩ := h
  obtain ⟨f1, f2, f3⟩ := importStep_fields processed mark acc t
  refine ⟨⟨f1.trans hd, ?_, ?_⟩, ?_⟩
  · intro k hk; rw [f2] at hk; exact hc k hk
  · intro k hk; rw [f1] at hk; exact hdu k hk
  · intro x hx
    rcases f3 with e | e
    · rw [e] at hx; exact hn x hx
    · rw [e] at hx
      rcases List.mem_append.mp hx with hx | hx
      · exact hn x hx
      · simp only [List.mem_singleton] at hx; subst hx; exact ht

theorem importScanFile_P3 (U : List Path) (st0 st : Index) (processed : List Path) (f : Path) (acc : Acc3)
    (h : P3 U st0 acc) : P3 U st0 (importScanFile st processed f acc) := by
  unfold importScanFile
  split
  · rename_i fr _ _
    apply ImpT.foldl_inv (P3 U st0)
    · apply ImpT.foldl_inv (P3 U st0) _ _ _ h
      intro b a hb
      split
      · rename_i t ht
        apply importStep_P3 U st0 _ _ _ _ _ hb
        rcases resolveModule_exists b.2.2 _ _ t ht with h1 | h1
        · exact hb.1.diskU t h1
        · exact hb.1.cacheU t h1
      · exact hb
    · intro b a hb
      split
      · rename_i t ht
        apply importStep_P3 U st0 _ _ _ _ _ hb
        rcases resolveModule_exists b.2.2 _ _ t ht with h1 | h1
        · exact hb.1.diskU t h1
        · exact hb.1.cacheU t h1
      · exact hb
  · exact h

/-- one file of one round of `importScan` -/
def roundStep (acc : Acc4) (f : Path) : Acc4 :=
  if acc.2.2.2.contains f then acc else
  let processed := acc.2.2.2 ++ [f]
  let r := importScanFile acc.2.2.1 processed f (acc.1, acc.2.1, acc.2.2.1)
  (r.1, r.2.1, r.2.2, processed)

def P4 (U : List Path) (st0 : Index) (proc0 : List Path) (acc : Acc4) : Prop :=
  P3 U st0 (acc.1, acc.2.1, acc.2.2.1) ∧ (∀ x, x ∈ proc0 → x ∈ acc.2.2.2)

theorem roundStep_P4 (U : List Path) (st0 : Index) (proc0 : List Path) (acc : Acc4) (f : Path)
    (h : P4 U st0 proc0 acc) : P4 U st0 proc0 (roundStep acc f) := by
  unfold roundStep
  split
  · exact h
  · simp only
    exact ⟨importScanFile_P3 U st0 acc.2.2.1 _ f _ h.1, fun x hx => List.mem_append_left _ (h.2 x hx)⟩

/-- after the round every file that was to be checked is processed -/
theorem round_covers (toCheck : List Path) (acc : Acc4) :
    (∀ x, x ∈ acc.2.2.2 → x ∈ (toCheck.foldl roundStep acc).2.2.2) ∧
    (∀ f, f ∈ toCheck → f ∈ (toCheck.foldl roundStep acc).2.2.2) := by
  induction toCheck generalizing acc with
  | nil => exact ⟨fun x hx => hx, fun f hf => by cases hf⟩
  | cons a l ih =>
    simp only [List.foldl_cons]
    obtain ⟨h1, h2⟩ := ih (roundStep acc a)
    have hstep : ∀ x, x ∈ acc.2.2.2 → x ∈ (roundStep acc a).2.2.2 := by
      intro x hx
      unfold roundStep
      split
      · exact hx
      · exact List.mem_append_left _ hx
    have ha : a ∈ (roundStep acc a).2.2.2 := by
      unfold roundStep
      split
      · rename_i hc; simpa using hc
      · simp
    refine ⟨fun x hx => h1 x (hstep x hx), ?_⟩
    intro f hf
    rcases List.mem_cons.mp hf with rfl | hf
    · exact h1 f ha
    · exact h2 f hf

/-- a round in which everything to check is already processed changes nothing -/
theorem round_idle (toCheck : List Path) (acc : Acc4) (h : ∀ f, f ∈ toCheck → acc.2.2.2.contains f = true) :
    toCheck.foldl roundStep acc = acc := by
  induction toCheck generalizing acc with
  | nil => rfl
  | cons a l ih =>
    simp only [List.foldl_cons]
    have : roundStep acc a = acc := by
      unfold roundStep
      rw [if_pos (h a List.mem_cons_self)]
    rw [this]
    exact ih acc (fun f hf => h f (List.mem_cons_of_mem _ hf))

/-! ### analysing the new modules keeps the universe -/

theorem ahas_ainsert {β} (l : List (Path × β)) (k x : Path) (v : β) (h : ahas (ainsert l k v) x = true) :
    ahas l x = true ∨ x = k := by
  unfold ahas ainsert aerase at h
  simp only [List.any_append, List.any_filter, Bool.or_eq_true, List.any_eq_true, Bool.and_eq_true] at h
  rcases h with ⟨p, hp, _, hpx⟩ | ⟨p, hp, hpx⟩
  · left
    unfold ahas
    simp only [List.any_eq_true]
    exact ⟨p, hp, hpx⟩
  · right
    simp only [List.mem_singleton] at hp
    subst hp
    have : k = x := by simpa using hpx
    exact this.symm

theorem scanStep_cd (f : Path) (b : BodyScan) (st : Index) (r : NameRef) :
    (scanStep f b st r).disk = st.disk ∧ (scanStep f b st r).cache = st.cache := by
  unfold scanStep
  split <;> exact ⟨rfl, rfl⟩

theorem applyEvent_cd (pfx f : Path) (st : Index) (e : Event) :
    (applyEvent pfx f st e).disk = st.disk ∧ (applyEvent pfx f st e).cache = st.cache := by
  cases e with
  | defn d => exact ⟨rfl, rfl⟩
  | usage u => exact ⟨rfl, rfl⟩
  | panic => exact ⟨rfl, rfl⟩
  | scan b =>
    simp only [applyEvent]
    generalize b.refs = refs
    induction refs generalizing st with
    | nil => exact ⟨rfl, rfl⟩
    | cons r rs ih =>
      simp only [List.foldl_cons]
      obtain ⟨h1, h2⟩ := ih (scanStep f b st r)
      obtain ⟨g1, g2⟩ := scanStep_cd f b st r
      exact ⟨h1.trans g1, h2.trans g2⟩

theorem foldl_cd (pfx f : Path) (es : List Event) (st : Index) :
    (es.foldl (applyEvent pfx f) st).disk = st.disk ∧ (es.foldl (applyEvent pfx f) st).cache = st.cache := by
  induction es generalizing st with
  | nil => exact ⟨rfl, rfl⟩
  | cons e es ih =>
    simp only [List.foldl_cons]
    obtain ⟨h1, h2⟩ := ih (applyEvent pfx f st e)
    obtain ⟨g1, g2⟩ := applyEvent_cd pfx f st e
    exact ⟨h1.trans g1, h2.trans g2⟩

theorem preState_cd (cl : Bool) (st : Index) (f : Path) (v : Version) (fr : FileRec) :
    (preState cl st f v fr).disk = st.disk ∧ (preState cl st f v fr).cache = ainsert st.cache f v := by
  unfold preState
  cases cl
  · exact ⟨rfl, rfl⟩
  · simp only [if_true]
    unfold cleanupDefs
    split <;> exact ⟨rfl, rfl⟩

theorem analyze_cd (pfx : Path) (cl : Bool) (st : Index) (f : Path) (v : Version) :
    (analyze pfx cl st f v).1.disk = st.disk ∧ (analyze pfx cl st f v).1.cache = ainsert st.cache f v := by
  unfold analyze
  cases v.parsed with
  | none => exact ⟨rfl, rfl⟩
  | some fr =>
    simp only
    obtain ⟨h1, h2⟩ := foldl_cd pfx f fr.events (preState cl st f v fr)
    obtain ⟨g1, g2⟩ := preState_cd cl st f v fr
    exact ⟨h1.trans g1, h2.trans g2⟩

/-- analysis of one newly found module (`analyze_file_fresh` when it is readable) -/
def analyzeNew (pfx : Path) (st : Index) (m : Path) : Index :=
  match alookup st.disk m with
  | some v => if readable v then (analyze pfx false st m v).1 else st
  | none => st

theorem analyzeNew_good (pfx : Path) (U : List Path) (st0 st : Index) (m : Path) (hm : m ∈ U) (h : Good U st0 st) :
    Good U st0 (analyzeNew pfx st m) := by
  unfold analyzeNew
  cases alookup st.disk m with
  | none => exact h
  | some v =>
    simp only
    split
    · obtain ⟨h1, h2⟩ := analyze_cd pfx false st m v
      refine ⟨h1.trans h.disk, ?_, ?_⟩
      · intro k hk
        rw [h2] at hk
        rcases ahas_ainsert _ _ _ _ hk with hk | rfl
        · exact h.cacheU k hk
        · exact hm
      · intro k hk; rw [h1] at hk; exact h.diskU k hk
    · exact h

theorem analyzeAll_good (pfx : Path) (U : List Path) (st0 : Index) (news : List Path) (st : Index)
    (hn : ∀ m, m ∈ news → m ∈ U) (h : Good U st0 st) : Good U st0 (news.foldl (analyzeNew pfx) st) := by
  induction news generalizing st with
  | nil => exact h
  | cons m ms ih =>
    simp only [List.foldl_cons]
    exact ih _ (fun x hx => hn x (List.mem_cons_of_mem _ hx)) (analyzeNew_good pfx U st0 st m (hn m List.mem_cons_self) h)

/-! ### the loop -/

theorem importScan_eq (pfx : Path) (fuel : Nat) (st : Index) (toCheck processed re : List Path) :
    importScan pfx (fuel + 1) st toCheck processed re =
      if toCheck.isEmpty then (st, re) else
      let r := toCheck.foldl roundStep (([] : List Path), re, st, processed)
      if r.1.isEmpty then (r.2.2.1, r.2.1) else
      importScan pfx fuel (r.1.foldl (analyzeNew pfx) r.2.2.1) r.1 r.2.2.2 r.2.1 := by
  conv => lhs; rw [importScan]
  unfold roundStep analyzeNew
  rfl

def mu (U processed : List Path) : Nat := (U.filter (fun g => !processed.contains g)).length

/-- **more fuel than unprocessed files of the universe changes nothing** -/
theorem importScan_stable (pfx : Path) (U : List Path) (st0 : Index) :
    ∀ (n : Nat) (st : Index) (toCheck processed re : List Path), Good U st0 st → (∀ f, f ∈ toCheck → f ∈ U) →
      mu U processed < n → ∀ m, n ≤ m →
      importScan pfx m st toCheck processed re = importScan pfx n st toCheck processed re := by
  intro n
  induction n with
  | zero => intro st toCheck processed re _ _ h; omega
  | succ n ih =>
    intro st toCheck processed re hgood hT hmu m hm
    cases m with
    | zero => omega
    | succ m =>
      rw [importScan_eq, importScan_eq]
      by_cases he : toCheck.isEmpty = true
      · simp only [he, if_true]
      · simp only [he]
        generalize hr : toCheck.foldl roundStep (([] : List Path), re, st, processed) = r
        by_cases hn : r.1.isEmpty = true
        · simp only [hn, if_true]
        · simp only [hn]
          -- the round's result satisfies the invariants
          have hP4 : P4 U st0 processed r := by
            rw [← hr]
            apply ImpT.foldl_inv (P4 U st0 processed)
            · exact ⟨⟨hgood, fun t ht => by cases ht⟩, fun x hx => hx⟩
            · intro b a hb; exact roundStep_P4 U st0 processed b a hb
          have hcov := round_covers toCheck (([] : List Path), re, st, processed)
          rw [hr] at hcov
          -- some file to check was not processed yet, otherwise the round would have been idle
          have hex : ∃ f, f ∈ toCheck ∧ processed.contains f = false := by
            apply Classical.byContradiction
            intro hno
            have hall : ∀ f, f ∈ toCheck → processed.contains f = true := by
              intro f hf
              cases hc : processed.contains f with
              | true => rfl
              | false => exact absurd ⟨f, hf, hc⟩ hno
            have := round_idle toCheck (([] : List Path), re, st, processed) hall
            rw [hr] at this
            rw [this] at hn
            exact hn rfl
          obtain ⟨f, hfT, hfP⟩ := hex
          have hdec : mu U r.2.2.2 < mu U processed := by
            unfold mu
            apply DfsT.filter_len_strict U _ _ _ f (hT f hfT)
            · rw [hfP]; rfl
            · have : f ∈ r.2.2.2 := hcov.2 f hfT
              simp [this]
            · intro g _ hg
              simp only [Bool.not_eq_true', List.contains_eq_mem, decide_eq_false_iff_not] at hg ⊢
              exact fun h => hg (hcov.1 g h)
          apply ih
          · exact analyzeAll_good pfx U st0 r.1 r.2.2.1 hP4.1.2 hP4.1.1
          · exact hP4.1.2
          · omega
          · omega

end ScanT

open ScanT in
/-- **C12 (the scan's import work-list loop terminates on every import graph).** Let `U` be any
    list containing the files on disk, the cached files and the files to check.  Any fuel larger
    than the number of files of `U` not yet processed gives the same final index and the same
    re-analysis list: each round that does not stop processes a new file of `U`, so circular and
    self imports cannot keep the loop going. -/
theorem C12_import_scan_fuel_irrelevant (pfx : Path) (U : List Path) (st : Index) (toCheck processed re : List Path)
    (hdisk : ∀ k, ahas st.disk k = true → k ∈ U) (hcache : ∀ k, ahas st.cache k = true → k ∈ U)
    (hT : ∀ f, f ∈ toCheck → f ∈ U) (m : Nat) (hm : U.length + 1 ≤ m) :
    Index.importScan pfx m st toCheck processed re = Index.importScan pfx (U.length + 1) st toCheck processed re := by
  apply importScan_stable pfx U st (U.length + 1) st toCheck processed re ⟨rfl, hcache, hdisk⟩ hT _ m hm
  unfold mu
  have := List.length_filter_le (fun g => !processed.contains g) U
  omega

end PLS
