/-
  C12, part 3 — termination on circular and self imports: the `visited`-set recursion of
  `get_imported_fixtures` (`imports.rs`, modelled as `Index.imported` with a fuel argument).

  The Rust function recurses through star imports and `pytest_plugins` with no depth bound other
  than the `visited` set.  The theorem: once the fuel exceeds the number of files that have content
  and are not yet visited, more fuel changes NOTHING — for every import graph (cycles, self
  imports, diamonds) the recursion bottoms out because every level adds a file to `visited`; the
  model's fuel (`fuelFor`, > number of files) never cuts a recursion short.
-/
import PLS.Model.Index
import PLS.Props.C12T
import PLS.Props.C12
namespace PLS
namespace ImpT
open Index

/-- the files that have content (a cache entry or a disk entry): only these recurse further -/
def files (st : Index) : List Path := st.cache.map (·.1) ++ st.disk.map (·.1)

/-- files with content that are not visited yet -/
def mu (st : Index) (vis : List Path) : Nat := ((files st).filter (fun g => !vis.contains g)).length

def Same (a b : Index) : Prop := a.cache = b.cache ∧ a.disk = b.disk

theorem Same.refl (a : Index) : Same a a := ⟨rfl, rfl⟩
theorem Same.trans {a b c : Index} (h1 : Same a b) (h2 : Same b c) : Same a c :=
  ⟨h1.1.trans h2.1, h1.2.trans h2.2⟩

/-- what every call guarantees about its result: `visited` only grows, files are untouched -/
structure Post (st : Index) (vis : List Path) (r : List String × List Path × Index) : Prop where
  sub : ∀ g, g ∈ vis → g ∈ r.2.1
  same : Same r.2.2 st

theorem foldl_inv {α β} (P : β → Prop) (g : β → α → β) (l : List α) (b : β) (hb : P b)
    (hstep : ∀ b a, P b → P (g b a)) : P (l.foldl g b) := by
  induction l generalizing b with
  | nil => exact hb
  | cons a l ih => exact ih (g b a) (hstep b a hb)

theorem foldl_congr_inv {α β} (P : β → Prop) (g1 g2 : β → α → β) (l : List α) (b : β) (hb : P b)
    (heq : ∀ b a, P b → g1 b a = g2 b a) (hstep : ∀ b a, P b → P (g2 b a)) :
    l.foldl g1 b = l.foldl g2 b := by
  induction l generalizing b with
  | nil => rfl
  | cons a l ih =>
    simp only [List.foldl_cons]
    rw [heq b a hb]
    exact ih (g2 b a) (hstep b a hb)

/-- the accumulator invariant of the two folds of `compute` -/
def Q (st : Index) (vis : List Path) (acc : List String × List Path × Index) : Prop :=
  (∀ g, g ∈ vis → g ∈ acc.2.1) ∧ Same acc.2.2 st

/-- the two step functions of `compute`, parameterised by the recursive call -/
def starStep (rec_ : Index → Path → List Path → List String × List Path × Index) (f : Path)
    (acc : List String × List Path × Index) (imp : ImportRec) : List String × List Path × Index :=
  match acc.2.2.resolveModule imp.modulePath f with
  | none => acc
  | some target =>
    if imp.isStar then
      let direct := (alookup acc.2.2.fileDefs target).getD []
      let r := rec_ acc.2.2 target acc.2.1
      (unionNames (unionNames acc.1 direct) r.1, r.2.1, r.2.2)
    else
      (unionNames acc.1 (imp.names.filter (fun n => acc.2.2.defs.any (·.name == n))), acc.2.1, acc.2.2)

def plugStep (rec_ : Index → Path → List Path → List String × List Path × Index) (f : Path)
    (acc : List String × List Path × Index) (m : String) : List String × List Path × Index :=
  match acc.2.2.resolveModule m f with
  | none => acc
  | some target =>
    let direct := (alookup acc.2.2.fileDefs target).getD []
    let r := rec_ acc.2.2 target acc.2.1
    (unionNames (unionNames acc.1 direct) r.1, r.2.1, r.2.2)

/-- `compute` written with the two named step functions -/
theorem compute_eq (top : Bool) (fuel : Nat) (st : Index) (f : Path) (vis : List Path) (v : Version) :
    imported.compute top fuel st f vis v =
      match v.effRec with
      | none => ([], vis, if top then { st with impCache := ainsert st.impCache f (v.text, st.version, []) } else st)
      | some fr =>
        let s2 := fr.plugins.foldl (plugStep (imported fuel) f)
          (fr.imports.foldl (starStep (imported fuel) f) (([] : List String), vis, st))
        (s2.1, s2.2.1, if top then { s2.2.2 with impCache := ainsert s2.2.2.impCache f (v.text, s2.2.2.version, s2.1) } else s2.2.2) := by
  unfold imported.compute
  cases v.effRec with
  | none => rfl
  | some fr =>
    simp only
    unfold starStep plugStep
    rfl

theorem star_keeps (rec_ : Index → Path → List Path → List String × List Path × Index) (f : Path)
    (st : Index) (vis : List Path) (hrec : ∀ st' t vis', Post st' vis' (rec_ st' t vis'))
    (acc : List String × List Path × Index) (imp : ImportRec) (h : Q st vis acc) :
    Q st vis (starStep rec_ f acc imp) := by
  unfold starStep
  cases acc.2.2.resolveModule imp.modulePath f with
  | none => exact h
  | some target =>
    simp only
    split
    · have p := hrec acc.2.2 target acc.2.1
      exact ⟨fun g hg => p.sub g (h.1 g hg), p.same.trans h.2⟩
    · exact h

theorem plug_keeps (rec_ : Index → Path → List Path → List String × List Path × Index) (f : Path)
    (st : Index) (vis : List Path) (hrec : ∀ st' t vis', Post st' vis' (rec_ st' t vis'))
    (acc : List String × List Path × Index) (m : String) (h : Q st vis acc) :
    Q st vis (plugStep rec_ f acc m) := by
  unfold plugStep
  cases acc.2.2.resolveModule m f with
  | none => exact h
  | some target =>
    have p := hrec acc.2.2 target acc.2.1
    exact ⟨fun g hg => p.sub g (h.1 g hg), p.same.trans h.2⟩

theorem compute_post (top : Bool) (fuel : Nat) (hrec : ∀ st' t vis', Post st' vis' (imported fuel st' t vis'))
    (st : Index) (f : Path) (vis : List Path) (v : Version) :
    Post st vis (imported.compute top fuel st f vis v) := by
  rw [compute_eq]
  cases v.effRec with
  | none => cases top <;> exact ⟨fun g hg => hg, ⟨rfl, rfl⟩⟩
  | some fr =>
    simp only
    have q1 : Q st vis (fr.imports.foldl (starStep (imported fuel) f) (([] : List String), vis, st)) :=
      foldl_inv (Q st vis) _ _ _ ⟨fun g hg => hg, Same.refl st⟩ (fun b a hb => star_keeps _ f st vis hrec b a hb)
    have q2 := foldl_inv (Q st vis) (plugStep (imported fuel) f) fr.plugins _ q1
      (fun b a hb => plug_keeps _ f st vis hrec b a hb)
    cases top <;> exact ⟨q2.1, ⟨q2.2.1, q2.2.2⟩⟩

/-- **Lemma A**: every call only grows `visited` and leaves the files alone -/
theorem imported_post : ∀ (fuel : Nat) (st : Index) (f : Path) (vis : List Path),
    Post st vis (imported fuel st f vis) := by
  intro fuel
  induction fuel with
  | zero => intro st f vis; unfold imported; exact ⟨fun g hg => hg, Same.refl st⟩
  | succ n ih =>
    intro st f vis
    unfold imported
    split
    · exact ⟨fun g hg => hg, Same.refl st⟩
    · simp only
      have grow : ∀ r, Post st (f :: vis) r → Post st vis r :=
        fun r p => ⟨fun g hg => p.sub g (List.mem_cons_of_mem _ hg), p.same⟩
      cases st.content f with
      | none => exact ⟨fun g hg => List.mem_cons_of_mem _ hg, Same.refl st⟩
      | some v =>
        simp only
        cases alookup st.impCache f with
        | none => exact grow _ (compute_post _ n ih st f (f :: vis) v)
        | some e =>
          obtain ⟨t, ver, names⟩ := e
          simp only
          split
          · exact ⟨fun g hg => List.mem_cons_of_mem _ hg, Same.refl st⟩
          · exact grow _ (compute_post _ n ih st f (f :: vis) v)

/-! ### the measure only shrinks -/

theorem mu_antitone (a b : Index) (va vb : List Path) (hs : Same a b) (hsub : ∀ g, g ∈ vb → g ∈ va) :
    mu a va ≤ mu b vb := by
  unfold mu files
  rw [hs.1, hs.2]
  apply DfsT.filter_len_mono
  intro g _ hg
  simp only [Bool.not_eq_true', List.contains_eq_mem, decide_eq_false_iff_not] at hg ⊢
  exact fun h => hg (hsub g h)

theorem mem_files_of_content (st : Index) (f : Path) (v : Version) (h : st.content f = some v) : f ∈ files st := by
  unfold content at h
  unfold files
  rw [List.mem_append]
  have key : ∀ (l : List (Path × Version)) (w : Version), alookup l f = some w → f ∈ l.map (·.1) := by
    intro l w hl
    unfold alookup at hl
    cases hfind : l.find? (fun p => p.1 == f) with
    | none => simp [hfind] at hl
    | some p =>
      have hm := List.mem_of_find?_eq_some hfind
      have hp := List.find?_some hfind
      have : p.1 = f := by simpa using hp
      exact List.mem_map.mpr ⟨p, hm, this⟩
  cases hc : alookup st.cache f with
  | some w => exact Or.inl (key _ w hc)
  | none =>
    rw [hc] at h
    exact Or.inr (key _ v h)

theorem mu_cons_lt (st : Index) (f : Path) (vis : List Path) (hf : f ∈ files st) (hv : vis.contains f = false) :
    mu st (f :: vis) + 1 ≤ mu st vis := by
  unfold mu
  apply DfsT.filter_len_strict (files st) _ _ _ f hf
  · rw [hv]; rfl
  · simp
  · intro g _ hg
    simp only [Bool.not_eq_true', List.contains_eq_mem, decide_eq_false_iff_not, List.mem_cons, not_or] at hg ⊢
    exact hg.2

/-! ### more fuel changes nothing -/

theorem compute_stable (top : Bool) (n m : Nat) (hrecEq : ∀ st' t vis', mu st' vis' < n → imported m st' t vis' = imported n st' t vis')
    (st : Index) (f : Path) (vis : List Path) (v : Version) (hmu : mu st vis < n) :
    imported.compute top m st f vis v = imported.compute top n st f vis v := by
  rw [compute_eq, compute_eq]
  cases v.effRec with
  | none => rfl
  | some fr =>
    simp only
    have small : ∀ acc, Q st vis acc → mu acc.2.2 acc.2.1 < n := by
      intro acc hq
      exact Nat.lt_of_le_of_lt (mu_antitone acc.2.2 st acc.2.1 vis hq.2 hq.1) hmu
    have e1 : fr.imports.foldl (starStep (imported m) f) (([] : List String), vis, st) =
        fr.imports.foldl (starStep (imported n) f) (([] : List String), vis, st) := by
      apply foldl_congr_inv (Q st vis) _ _ _ _ ⟨fun g hg => hg, Same.refl st⟩
      · intro b a hb
        unfold starStep
        cases b.2.2.resolveModule a.modulePath f with
        | none => rfl
        | some target =>
          simp only
          rw [hrecEq b.2.2 target b.2.1 (small b hb)]
      · intro b a hb
        exact star_keeps _ f st vis (imported_post n) b a hb
    rw [e1]
    have q1 : Q st vis (fr.imports.foldl (starStep (imported n) f) (([] : List String), vis, st)) :=
      foldl_inv (Q st vis) _ _ _ ⟨fun g hg => hg, Same.refl st⟩ (fun b a hb => star_keeps _ f st vis (imported_post n) b a hb)
    have e2 : fr.plugins.foldl (plugStep (imported m) f) (fr.imports.foldl (starStep (imported n) f) (([] : List String), vis, st)) =
        fr.plugins.foldl (plugStep (imported n) f) (fr.imports.foldl (starStep (imported n) f) (([] : List String), vis, st)) := by
      apply foldl_congr_inv (Q st vis) _ _ _ _ q1
      · intro b a hb
        unfold plugStep
        cases b.2.2.resolveModule a f with
        | none => rfl
        | some target =>
          simp only
          rw [hrecEq b.2.2 target b.2.1 (small b hb)]
      · intro b a hb
        exact plug_keeps _ f st vis (imported_post n) b a hb
    rw [e2]

/-- **Lemma B**: with more fuel than unvisited files, the result does not depend on the fuel -/
theorem imported_stable : ∀ (n : Nat) (st : Index) (f : Path) (vis : List Path), mu st vis < n →
    ∀ m, n ≤ m → imported m st f vis = imported n st f vis := by
  intro n
  induction n with
  | zero => intro st f vis h; omega
  | succ n ih =>
    intro st f vis hmu m hm
    cases m with
    | zero => omega
    | succ m =>
      unfold imported
      split
      · rfl
      · rename_i hvis
        simp only
        cases hc : st.content f with
        | none => rfl
        | some v =>
          simp only
          have hv : vis.contains f = false := by simpa using hvis
          have hdec := mu_cons_lt st f vis (mem_files_of_content st f v hc) hv
          have hlt : mu st (f :: vis) < n := by omega
          have hcomp : ∀ top, imported.compute top m st f (f :: vis) v = imported.compute top n st f (f :: vis) v :=
            fun top => compute_stable top n m (fun st' t vis' h' => ih st' t vis' h' m (by omega)) st f (f :: vis) v hlt
          cases alookup st.impCache f with
          | none => exact hcomp _
          | some e =>
            obtain ⟨t, ver, names⟩ := e
            simp only
            split
            · rfl
            · exact hcomp _

theorem mu_le_files (st : Index) (vis : List Path) : mu st vis ≤ st.cache.length + st.disk.length := by
  unfold mu files
  have := List.length_filter_le (fun g => !vis.contains g) (st.cache.map (·.1) ++ st.disk.map (·.1))
  simp only [List.length_append, List.length_map] at this
  exact this

end ImpT

open ImpT in
/-- **C12 (import traversal terminates on every import graph).** For circular imports, self
    imports, diamonds — any graph — and any starting `visited` set: every fuel at least
    `fuelFor st` (number of cached + on-disk files, plus two) gives the same answer, the same
    `visited` set and the same memo table.  The recursion ends because each level adds a file with
    content to `visited`; the fuel is never what stops it. -/
theorem C12_imported_fuel_irrelevant (st : Index) (f : Path) (vis : List Path) (m : Nat) (hm : st.fuelFor ≤ m) :
    Index.imported m st f vis = Index.imported st.fuelFor st f vis := by
  apply imported_stable st.fuelFor st f vis _ m hm
  have := mu_le_files st vis
  unfold Index.fuelFor
  omega

open ImpT in
/-- the depth actually needed: one more than the files with content not yet visited -/
theorem C12_imported_depth_bounded (st : Index) (f : Path) (vis : List Path) (m : Nat) (hm : mu st vis + 1 ≤ m) :
    Index.imported m st f vis = Index.imported (mu st vis + 1) st f vis :=
  imported_stable (mu st vis + 1) st f vis (Nat.lt_succ_self _) m hm

end PLS
