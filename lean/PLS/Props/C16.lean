/-
  C16 — dependency diagnostics (cycles, scope mismatches) are exact and stable.
-/
import PLS.Generated
import PLS.Model.Cycles
import PLS.Lemmas.Order
namespace PLS

/-- **C16 (the scope order is the one of the statement).** The model's `Scope` is tied to the
    Rust enum: variant names and discriminants as extracted from `types.rs` on this run. -/
theorem C16_scope_table :
    Generated.scopeTable = [("Function", 0), ("Class", 1), ("Module", 2), ("Package", 3), ("Session", 4)] ∧
    Generated.scopeParseTable = [("function", "Function"), ("class", "Class"), ("module", "Module"),
      ("package", "Package"), ("session", "Session")] ∧
    Generated.scopeAsStrTable = [("Function", "function"), ("Class", "class"), ("Module", "module"),
      ("Package", "package"), ("Session", "session")] := ⟨rfl, rfl, rfl⟩

/-- function < class < module < package < session, a strict total order -/
theorem C16_scope_order :
    (Scope.function < Scope.cls ∧ Scope.cls < Scope.module ∧ Scope.module < Scope.package ∧
      Scope.package < Scope.session) ∧
    (∀ a b : Scope, a < b ∨ a = b ∨ b < a) ∧ (∀ a b : Scope, a < b → ¬ b < a) := by
  refine ⟨by decide, ?_, ?_⟩
  · intro a b; cases a <;> cases b <;> decide
  · intro a b; cases a <;> cases b <;> decide

/-- **C16 (every reported mismatch is a real scope inversion between the two definitions it
    names).** -/
theorem C16_mismatch_sound (ix : List Def) (names : List String) (f : Path) (fd dd : Def)
    (h : (fd, dd) ∈ mismatchesIn ix names f) :
    fd ∈ ix ∧ fd.file = f ∧ dd ∈ ix ∧ dd.name ∈ fd.deps ∧ dd.scope < fd.scope := by
  unfold mismatchesIn at h
  rw [List.mem_flatMap] at h
  obtain ⟨n, _, hn⟩ := h
  cases hf : (defsOf ix n).find? (fun d => d.file == f) with
  | none => simp [hf] at hn
  | some fd' =>
    simp only [hf, List.mem_filterMap] at hn
    obtain ⟨dep, hdep, hopt⟩ := hn
    cases hh : (defsOf ix dep).head? with
    | none => simp [hh] at hopt
    | some dd' =>
      simp only [hh] at hopt
      split at hopt
      · rename_i hlt
        simp at hopt
        obtain ⟨rfl, rfl⟩ := hopt
        have m1 := mem_defsOf.mp (List.mem_of_find?_eq_some hf)
        have p1 := List.find?_some hf
        have m2 := mem_defsOf.mp (List.mem_of_head? hh)
        exact ⟨m1.1, by simpa using p1, m2.1, by rw [m2.2]; exact hdep, hlt⟩
      · simp at hopt

/-- **C16 (… and every inversion against the first-registered definition of the dependency is
    reported).** -/
theorem C16_mismatch_complete (ix : List Def) (names : List String) (f : Path) (n dep : String) (fd dd : Def)
    (hn : n ∈ names) (hf : (defsOf ix n).find? (fun d => d.file == f) = some fd)
    (hdep : dep ∈ fd.deps) (hh : (defsOf ix dep).head? = some dd) (hlt : dd.scope < fd.scope) :
    (fd, dd) ∈ mismatchesIn ix names f := by
  unfold mismatchesIn
  rw [List.mem_flatMap]
  refine ⟨n, hn, ?_⟩
  simp only [hf, List.mem_filterMap]
  exact ⟨dep, hdep, by simp [hh, hlt]⟩

/-- **C16 (partial: with one definition per dependency name the verdict is about the resolved
    definition).** When the dependency name has a single definition, what resolution selects for
    the fixture's file — if anything — is the definition the scope check looked at. -/
theorem C16_single_def_is_resolved (ix : List Def) (imp : Path → String → Bool) (f : Path) (dep : String)
    (e : Def) (huniq : ∀ a ∈ ix, ∀ b ∈ ix, a.name = dep → b.name = dep → a = b)
    (hr : resolve ix imp f dep = some e) : (defsOf ix dep).head? = some e := by
  have hm := resolve_mem hr
  cases hd : defsOf ix dep with
  | nil =>
    have : e ∈ defsOf ix dep := mem_defsOf.mpr hm
    rw [hd] at this; cases this
  | cons a as =>
    have ha : a ∈ defsOf ix dep := by rw [hd]; exact List.mem_cons_self
    have ma := mem_defsOf.mp ha
    simp [huniq a ma.1 e hm.1 ma.2 hm.2]

/-- the name-level graph only has edges to names that are defined (dependencies on unknown names
    are dropped wherever they stand in the parameter list) -/
theorem C16_unknown_deps_dropped (ix : List Def) (n m : String) (h : m ∈ cyDeps ix n) :
    ∃ d ∈ ix, d.name = m := by
  unfold cyDeps at h
  split at h
  · cases h
  · simp only [List.mem_filter, List.any_eq_true, beq_iff_eq] at h
    exact h.2

/-- … and keeps every defined one, in order: an unknown name before a known one hides nothing -/
theorem C16_known_deps_kept (ix : List Def) (n m : String) (d : Def)
    (hd : cyDef ix n = some d) (hm : m ∈ d.deps) (hk : ∃ e ∈ ix, e.name = m) : m ∈ cyDeps ix n := by
  unfold cyDeps
  rw [hd]
  simp only [List.mem_filter, List.any_eq_true, beq_iff_eq]
  exact ⟨hm, hk⟩

end PLS
