/-
  C16 — dependency diagnostics (cycles, scope mismatches) are exact and stable.
-/
import PLS.Generated
import PLS.Model.Cycles
import PLS.Lemmas.Order
namespace PLS

/-- **C16 (the scope order is the one of the statement).** The model's `Scope` is tied to the
    Rust enum: variant names and discriminants as extracted from `types.rs` on this run. -/
theorem C16_scope_table :
    Generated.scopeTable = [("Function", 0), ("Class", 1), ("Module", 2), ("Package", 3), ("Session", 4)] ∧
    Generated.scopeParseTable = [("function", "Function"), ("class", "Class"), ("module", "Module"),
      ("package", "Package"), ("session", "Session")] ∧
    Generated.scopeAsStrTable = [("Function", "function"), ("Class", "class"), ("Module", "module"),
      ("Package", "package"), ("Session", "session")] := ⟨rfl, rfl, rfl⟩

/-- function < class < module < package < session, a strict total order -/
theorem C16_scope_order :
    (Scope.function < Scope.cls ∧ Scope.cls < Scope.module ∧ Scope.module < Scope.package ∧
      Scope.package < Scope.session) ∧
    (∀ a b : Scope, a < b ∨ a = b ∨ b < a) ∧ (∀ a b : Scope, a < b → ¬ b < a) := by
  refine ⟨by decide, ?_, ?_⟩
  · intro a b; cases a <;> cases b <;> decide
  · intro a b; cases a <;> cases b <;> decide

/-- **C16 (every reported mismatch is a real scope inversion between the two definitions it
    names)**: the fixture is defined in the file, the other definition is what the resolver `res`
    selected for one of its dependencies, and its scope is strictly narrower. -/
theorem C16_mismatch_sound (ix : List Def) (res : Def → String → Option Def) (names : List String) (f : Path)
    (fd dd : Def) (h : (fd, dd) ∈ mismatchesIn ix res names f) :
    fd ∈ ix ∧ fd.file = f ∧ (∃ dep ∈ fd.deps, res fd dep = some dd) ∧ dd.scope < fd.scope := by
  unfold mismatchesIn at h
  rw [List.mem_flatMap] at h
  obtain ⟨n, _, hn⟩ := h
  cases hf : (defsOf ix n).find? (fun d => d.file == f) with
  | none => simp [hf] at hn
  | some fd' =>
    simp only [hf, List.mem_filterMap] at hn
    obtain ⟨dep, hdep, hopt⟩ := hn
    cases hh : res fd' dep with
    | none => simp [hh] at hopt
    | some dd' =>
      simp only [hh] at hopt
      split at hopt
      · rename_i hlt
        simp at hopt
        obtain ⟨rfl, rfl⟩ := hopt
        have m1 := mem_defsOf.mp (List.mem_of_find?_eq_some hf)
        have p1 := List.find?_some hf
        exact ⟨m1.1, by simpa using p1, ⟨dep, hdep, hh⟩, hlt⟩
      · simp at hopt

/-- **C16 (… and every inversion against the selected definition of a dependency is reported).** -/
theorem C16_mismatch_complete (ix : List Def) (res : Def → String → Option Def) (names : List String) (f : Path)
    (n dep : String) (fd dd : Def)
    (hn : n ∈ names) (hf : (defsOf ix n).find? (fun d => d.file == f) = some fd)
    (hdep : dep ∈ fd.deps) (hh : res fd dep = some dd) (hlt : dd.scope < fd.scope) :
    (fd, dd) ∈ mismatchesIn ix res names f := by
  unfold mismatchesIn
  rw [List.mem_flatMap]
  refine ⟨n, hn, ?_⟩
  simp only [hf, List.mem_filterMap]
  exact ⟨dep, hdep, by simp [hh, hlt]⟩

/-- **C16 (the scope verdict is about the definition resolution selects).** With the resolver the
    code uses since the E14 repair (`scopeRes`: `find_closest_definition` from the fixture's file;
    for the fixture's own name the definition it overrides): a scope-mismatch on fixture `fd` about
    `dd` is issued IF AND ONLY IF `dd` is the definition resolution selects, from `fd`'s file, for
    one of `fd`'s dependencies, and `dd`'s scope is narrower — the property's sentence, for every
    index, import relation and file.  Definitions of the same name that resolution does not select
    (an unrelated conftest elsewhere, a later registration) cannot change the verdict. -/
theorem C16_mismatch_iff_resolved (ix : List Def) (imp : Path → String → Bool) (names : List String) (f : Path)
    (fd dd : Def) :
    (fd, dd) ∈ mismatchesIn ix (scopeRes ix imp f) names f ↔
      (∃ n ∈ names, (defsOf ix n).find? (fun d => d.file == f) = some fd) ∧
      (∃ dep ∈ fd.deps, scopeRes ix imp f fd dep = some dd) ∧ dd.scope < fd.scope := by
  constructor
  · intro h
    have hs := C16_mismatch_sound ix _ names f fd dd h
    refine ⟨?_, hs.2.2.1, hs.2.2.2⟩
    unfold mismatchesIn at h
    rw [List.mem_flatMap] at h
    obtain ⟨n, hn, hm⟩ := h
    refine ⟨n, hn, ?_⟩
    cases hf : (defsOf ix n).find? (fun d => d.file == f) with
    | none => simp [hf] at hm
    | some fd' =>
      simp only [hf, List.mem_filterMap] at hm
      obtain ⟨dep, _, hopt⟩ := hm
      cases hh : scopeRes ix imp f fd' dep with
      | none => simp [hh] at hopt
      | some dd' =>
        simp only [hh] at hopt
        split at hopt
        · simp at hopt; rw [hopt.1]
        · simp at hopt
  · rintro ⟨⟨n, hn, hf⟩, ⟨dep, hdep, hr⟩, hlt⟩
    exact C16_mismatch_complete ix _ names f n dep fd dd hn hf hdep hr hlt

/-- what `scopeRes` selects is a definition of the dependency's name in the index, and never the
    requesting fixture itself when it requests its own name -/
theorem C16_scopeRes_mem (ix : List Def) (imp : Path → String → Bool) (f : Path) (fd dd : Def) (dep : String)
    (h : scopeRes ix imp f fd dep = some dd) : dd ∈ ix ∧ dd.name = dep ∧ (dep = fd.name → dd ≠ fd) := by
  unfold scopeRes at h
  split at h
  · have := resolveF_mem h
    exact ⟨this.1, this.2.1, fun _ => by simpa using this.2.2⟩
  · rename_i hne
    have := resolve_mem h
    exact ⟨this.1, this.2, fun e => absurd (by simpa using e) hne⟩

/-- the name-level graph only has edges to names that are defined (dependencies on unknown names
    are dropped wherever they stand in the parameter list) -/
theorem C16_unknown_deps_dropped (ix : List Def) (n m : String) (h : m ∈ cyDeps ix n) :
    ∃ d ∈ ix, d.name = m := by
  unfold cyDeps at h
  split at h
  · cases h
  · simp only [List.mem_filter, List.any_eq_true, beq_iff_eq] at h
    exact h.2

/-- … and keeps every defined one, in order: an unknown name before a known one hides nothing -/
theorem C16_known_deps_kept (ix : List Def) (n m : String) (d : Def)
    (hd : cyDef ix n = some d) (hm : m ∈ d.deps) (hk : ∃ e ∈ ix, e.name = m) : m ∈ cyDeps ix n := by
  unfold cyDeps
  rw [hd]
  simp only [List.mem_filter, List.any_eq_true, beq_iff_eq]
  exact ⟨hm, hk⟩

end PLS
