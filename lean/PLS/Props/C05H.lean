/-
  C05 at the handler level: go-to-definition, hover, go-to-implementation and call-hierarchy
  preparation are four readings of ONE lookup.  In the handler model (`Model/Lsp.lean`, tied to the
  real handlers by the wire correspondence of `tools/plsv/wire.py`) each of them starts from
  `find_fixture_definition` (`goto`) or from `find_fixture_or_definition_at_position`
  (`gotoOrDef`), and the second agrees with the first wherever the first answers.  So at every
  position where go-to-definition finds a definition `d`, all four describe `d` — and leave the same
  state behind.
-/
import PLS.Props.C05
import PLS.Model.Lsp
namespace PLS
open Index

/-- `find_fixture_or_definition_at_position` extends `find_fixture_definition` -/
theorem C05_gotoOrDef_extends_goto (st st' : Index) (f : Path) (line0 col : Nat) (d : Def)
    (h : st.goto f line0 col = (some d, st')) : st.gotoOrDef f line0 col = (some d, st') := by
  unfold gotoOrDef
  rw [h]

/-- **C05 (one definition behind four requests).** Wherever go-to-definition finds a definition
    `d`: `textDocument/definition` points at `d`'s line, `textDocument/implementation` at `d`'s
    yield line (or `def` line), `textDocument/prepareCallHierarchy` returns the item of `d`, and
    the hover text is `d`'s documentation — the same `d` for all of them. -/
theorem C05_handlers_one_definition (st st' : Index) (f : Path) (line0 col : Nat) (d : Def)
    (h : st.goto f line0 col = (some d, st')) :
    st.hDefinition f line0 col = (some (pointLoc d.file (toLsp d.line)), st') ∧
    st.hImplementation f line0 col =
      (some (pointLoc d.file (toLsp (match d.yieldLine with | some y => y | none => d.line))), st') ∧
    st.hPrepareCallHierarchy f line0 col =
      (some { name := d.name, range := ⟨d.file, toLsp d.line, 0, toLsp d.line, d.endChar⟩,
              selection := spanLoc d.file (toLsp d.line) d.startChar d.endChar,
              detail := fixtureDetail d }, st') := by
  have hg := C05_gotoOrDef_extends_goto st st' f line0 col d h
  refine ⟨?_, ?_, ?_⟩
  · unfold hDefinition; rw [h]
  · unfold hImplementation; rw [hg]; rfl
  · unfold hPrepareCallHierarchy; rw [hg]

/-- … and where go-to-definition finds nothing, it answers nothing (never a guess) -/
theorem C05_definition_none (st st' : Index) (f : Path) (line0 col : Nat)
    (h : st.goto f line0 col = (none, st')) : st.hDefinition f line0 col = (none, st') := by
  unfold hDefinition; rw [h]

end PLS
