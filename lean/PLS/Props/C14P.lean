/-
  C14 / C08 — which files the scan marks as plugin files (`scan_imported_fixture_modules`,
  modelled as `Index.importScan`).

  A file passes plugin status on to the modules it star-imports and to the modules its
  `pytest_plugins` names.  The theorem of this file: when the loop stops, the plugin files are
  EXACTLY the files reachable from the initial plugin files along such edges - whatever order the
  work lists are visited in.  (Before the repair `2bbe7de` this was false: a module walked before its
  importer marked it never passed the status on.)
-/
import PLS.Props.C12S
import PLS.Props.C14I
import PLS.Props.C08
import PLS.Lemmas.History
namespace PLS
namespace ScanC
open Index ScanT

/-! ### what the scan leaves alone -/

/-- the parts of the index that module resolution and file contents depend on -/
structure Frame (a b : Index) : Prop where
  disk : b.disk = a.disk
  dirs : b.dirs = a.dirs
  sp : b.sitePackages = a.sitePackages
  ed : b.editable = a.editable
  pf : b.pluginFiles = a.pluginFiles

theorem Frame.rfl' (a : Index) : Frame a a := ⟨rfl, rfl, rfl, rfl, rfl⟩

theorem Frame.trans {a b c : Index} (h1 : Frame a b) (h2 : Frame b c) : Frame a c :=
  ⟨h2.disk.trans h1.disk, h2.dirs.trans h1.dirs, h2.sp.trans h1.sp, h2.ed.trans h1.ed, h2.pf.trans h1.pf⟩

theorem scanStep_frame (f : Path) (b : BodyScan) (st : Index) (r : NameRef) : Frame st (scanStep f b st r) := by
  unfold scanStep
  split <;> exact ⟨rfl, rfl, rfl, rfl, rfl⟩

theorem applyEvent_frame (pfx f : Path) (st : Index) (e : Event) : Frame st (applyEvent pfx f st e) := by
  cases e with
  | defn d => exact ⟨rfl, rfl, rfl, rfl, rfl⟩
  | usage u => exact ⟨rfl, rfl, rfl, rfl, rfl⟩
  | panic => exact ⟨rfl, rfl, rfl, rfl, rfl⟩
  | scan b =>
    simp only [applyEvent]
    generalize b.refs = refs
    induction refs generalizing st with
    | nil => exact Frame.rfl' st
    | cons r rs ih =>
      simp only [List.foldl_cons]
      exact (scanStep_frame f b st r).trans (ih (scanStep f b st r))

theorem foldl_frame (pfx f : Path) (es : List Event) (st : Index) : Frame st (es.foldl (applyEvent pfx f) st) := by
  induction es generalizing st with
  | nil => exact Frame.rfl' st
  | cons e es ih =>
    simp only [List.foldl_cons]
    exact (applyEvent_frame pfx f st e).trans (ih (applyEvent pfx f st e))

theorem preState_frame (cl : Bool) (st : Index) (f : Path) (v : Version) (fr : FileRec) :
    Frame st (preState cl st f v fr) := by
  unfold preState
  cases cl
  · exact ⟨rfl, rfl, rfl, rfl, rfl⟩
  · simp only [if_true]
    unfold cleanupDefs
    split <;> exact ⟨rfl, rfl, rfl, rfl, rfl⟩

theorem analyze_frame (pfx : Path) (cl : Bool) (st : Index) (f : Path) (v : Version) :
    Frame st (analyze pfx cl st f v).1 := by
  unfold analyze
  cases v.parsed with
  | none => exact ⟨rfl, rfl, rfl, rfl, rfl⟩
  | some fr =>
    simp only
    exact (preState_frame cl st f v fr).trans (foldl_frame pfx f fr.events _)

/-! ### module resolution and contents see the same files throughout -/

/-- `b` shows the same files, the same directories and the same contents as `a` -/
structure Same (a b : Index) : Prop where
  disk : b.disk = a.disk
  dirs : b.dirs = a.dirs
  sp : b.sitePackages = a.sitePackages
  ed : b.editable = a.editable
  ex : ∀ x, (ahas b.disk x || ahas b.cache x) = (ahas a.disk x || ahas a.cache x)
  /-- what a file's text parses to (the version kept in the cache may differ in what it carries) -/
  ct : ∀ f, (b.content f).bind (·.parsed) = (a.content f).bind (·.parsed)

theorem Same.rfl' (a : Index) : Same a a := ⟨rfl, rfl, rfl, rfl, fun _ => rfl, fun _ => rfl⟩

theorem Same.trans {a b c : Index} (h1 : Same a b) (h2 : Same b c) : Same a c :=
  ⟨h2.disk.trans h1.disk, h2.dirs.trans h1.dirs, h2.sp.trans h1.sp, h2.ed.trans h1.ed,
   fun x => (h2.ex x).trans (h1.ex x), fun f => (h2.ct f).trans (h1.ct f)⟩

/-- `b` shows the same files and directories as `a` (contents aside): all module resolution sees -/
structure SameFS (a b : Index) : Prop where
  disk : b.disk = a.disk
  dirs : b.dirs = a.dirs
  sp : b.sitePackages = a.sitePackages
  ed : b.editable = a.editable
  ex : ∀ x, (ahas b.disk x || ahas b.cache x) = (ahas a.disk x || ahas a.cache x)

theorem Same.fs {a b : Index} (h : Same a b) : SameFS a b := ⟨h.disk, h.dirs, h.sp, h.ed, h.ex⟩

theorem findModuleFile_same {a b : Index} (h : SameFS a b) : ∀ (parts : List String) (base : Path),
    findModuleFile b parts base = findModuleFile a parts base := by
  intro parts
  induction parts with
  | nil => intro base; rfl
  | cons p ps ih =>
    intro base
    cases ps with
    | nil =>
      simp only [findModuleFile]
      rw [h.ex, h.ex]
    | cons q qs =>
      have e1 : findModuleFile b (p :: q :: qs) base =
          if b.isDir (base ++ [p]) then findModuleFile b (q :: qs) (base ++ [p]) else none := rfl
      have e2 : findModuleFile a (p :: q :: qs) base =
          if a.isDir (base ++ [p]) then findModuleFile a (q :: qs) (base ++ [p]) else none := rfl
      rw [e1, e2, ih]
      unfold isDir
      rw [h.dirs]

theorem resolveModule_same {a b : Index} (h : SameFS a b) (m : String) (f : Path) :
    b.resolveModule m f = a.resolveModule m f := by
  have hf : findModuleFile b = findModuleFile a := by
    funext parts base; exact findModuleFile_same h parts base
  unfold resolveModule resolveRelative resolveAbsolute
  simp only [hf, h.disk, h.sp, h.ed]

/-- the files `f` passes plugin status on to: what it star-imports and what its `pytest_plugins`
    names, as far as they resolve to files -/
def marksOf (st : Index) (f : Path) : List Path :=
  match (st.content f).bind (·.parsed) with
  | some fr =>
    (fr.imports.filter (·.isStar)).filterMap (fun imp => st.resolveModule imp.modulePath f) ++
    fr.plugins.filterMap (fun m => st.resolveModule m f)
  | none => []

theorem marksOf_same {a b : Index} (h : Same a b) (f : Path) : marksOf b f = marksOf a f := by
  have hr : b.resolveModule = a.resolveModule := by
    funext m g; exact resolveModule_same h.fs m g
  unfold marksOf
  rw [h.ct f, hr]

/-! ### the invariant of the work-list loop -/

/-- reachable from the files of `P0` along the edges of `marksOf st0` -/
inductive Reach (st0 : Index) (P0 : List Path) : Path → Prop
  | base {g : Path} : g ∈ P0 → Reach st0 P0 g
  | step {f t : Path} : Reach st0 P0 f → t ∈ marksOf st0 f → Reach st0 P0 t

/-- `todo`: what is left of this round's list; `ex`: the file being walked right now (its own
    marks are still being made) -/
structure Inv (st0 : Index) (P0 : List Path) (ex : Option Path) (todo : List Path) (acc : ScanAcc) : Prop where
  same : Same st0 acc.st
  /-- a processed plugin file has passed its status on -/
  closed : ∀ g, g ∈ acc.processed → ex ≠ some g → g ∈ acc.st.pluginFiles →
    ∀ t, t ∈ marksOf st0 g → t ∈ acc.st.pluginFiles
  /-- no plugin file is forgotten -/
  plug : ∀ g, g ∈ acc.st.pluginFiles → g ∈ acc.processed ∨ g ∈ todo ∨ g ∈ acc.rewalk ∨ g ∈ acc.news
  reach : ∀ g, g ∈ acc.st.pluginFiles → Reach st0 P0 g
  newsFresh : ∀ t, t ∈ acc.news → ahas acc.st.cache t = false
  newsNodup : acc.news.Nodup

theorem mem_filter_ne {g t : Path} {l : List Path} (hg : g ∈ l) (hne : g ≠ t) : g ∈ l.filter (fun x => x != t) := by
  simp only [List.mem_filter, bne_iff_ne, ne_eq]
  exact ⟨hg, hne⟩

theorem same_setPlugin (st0 st : Index) (pl : List Path) (h : Same st0 st) : Same st0 { st with pluginFiles := pl } :=
  ⟨h.disk, h.dirs, h.sp, h.ed, h.ex, h.ct⟩

theorem importStep_st (mark : Bool) (acc : ScanAcc) (t : Path) : (importStep mark acc t).st =
    if (mark && !acc.st.pluginFiles.contains t) = true
    then { acc.st with pluginFiles := acc.st.pluginFiles ++ [t] } else acc.st := rfl

theorem importStep_processed (mark : Bool) (acc : ScanAcc) (t : Path) : (importStep mark acc t).processed =
    if (mark && !acc.st.pluginFiles.contains t && acc.processed.contains t) = true
    then acc.processed.filter (fun g => g != t) else acc.processed := rfl

theorem importStep_rewalkEq (mark : Bool) (acc : ScanAcc) (t : Path) : (importStep mark acc t).rewalk =
    if (((mark && !acc.st.pluginFiles.contains t && acc.processed.contains t) ||
        (!(importStep mark acc t).processed.contains t && ahas acc.st.cache t)) && !acc.rewalk.contains t) = true
    then acc.rewalk ++ [t] else acc.rewalk := rfl

/-- `rewalk` only grows, by the target at most -/
theorem importStep_rewalk_mono (mark : Bool) (acc : ScanAcc) (t : Path) :
    (∀ x, x ∈ acc.rewalk → x ∈ (importStep mark acc t).rewalk) ∧
    (((mark && !acc.st.pluginFiles.contains t && acc.processed.contains t) ||
        (!(importStep mark acc t).processed.contains t && ahas acc.st.cache t)) = true →
      t ∈ (importStep mark acc t).rewalk) := by
  rw [importStep_rewalkEq]
  generalize ((mark && !acc.st.pluginFiles.contains t && acc.processed.contains t) ||
        (!(importStep mark acc t).processed.contains t && ahas acc.st.cache t)) = c
  by_cases hc : acc.rewalk.contains t = true
  · simp only [hc, Bool.not_true, Bool.and_false, Bool.false_eq_true, if_false]
    exact ⟨fun x hx => hx, fun _ => by simpa using hc⟩
  · have hc' : acc.rewalk.contains t = false := by simpa using hc
    cases c with
    | false =>
      simp only [hc', Bool.not_false, Bool.and_true, Bool.false_eq_true, if_false]
      exact ⟨fun x hx => hx, fun h => by cases h⟩
    | true =>
      simp only [hc', Bool.not_false, Bool.and_self, if_true]
      exact ⟨fun x hx => List.mem_append_left _ hx, fun _ => by simp⟩

theorem importStep_news (mark : Bool) (acc : ScanAcc) (t : Path) : (importStep mark acc t).news =
    if (!(importStep mark acc t).processed.contains t && !ahas acc.st.cache t && !acc.news.contains t) = true
    then acc.news ++ [t] else acc.news := rfl

/-- one import step keeps the invariant; `hr`: a marking step is made for an edge of a reachable file -/
theorem importStep_inv (st0 : Index) (P0 : List Path) (ex : Option Path) (todo : List Path)
    (mark : Bool) (acc : ScanAcc) (t : Path)
    (hr : mark = true → ∃ f, Reach st0 P0 f ∧ t ∈ marksOf st0 f)
    (h : Inv st0 P0 ex todo acc) :
    Inv st0 P0 ex todo (importStep mark acc t) ∧
    (∀ g, g ∈ acc.st.pluginFiles → g ∈ (importStep mark acc t).st.pluginFiles) ∧
    (mark = true → t ∈ (importStep mark acc t).st.pluginFiles) ∧
    (mark = false → (importStep mark acc t).st.pluginFiles = acc.st.pluginFiles) := by
  -- what happens to `news` is the same in every case
  have newsCase : ∀ (c : Bool) (news' : List Path), news' = (if c then acc.news ++ [t] else acc.news) →
      (c = true → ahas acc.st.cache t = false ∧ acc.news.contains t = false) →
      (∀ x, x ∈ acc.news → x ∈ news') ∧ (∀ x, x ∈ news' → ahas acc.st.cache x = false) ∧ news'.Nodup ∧
      (c = true → t ∈ news') := by
    intro c news' he hc
    cases c with
    | false =>
      simp only [Bool.false_eq_true, if_false] at he
      subst he
      exact ⟨fun x hx => hx, h.newsFresh, h.newsNodup, fun hh => by cases hh⟩
    | true =>
      simp only [if_true] at he
      subst he
      obtain ⟨h1, h2⟩ := hc rfl
      refine ⟨fun x hx => List.mem_append_left _ hx, ?_, ?_, fun _ => by simp⟩
      · intro x hx
        rcases List.mem_append.mp hx with hx | hx
        · exact h.newsFresh x hx
        · simp only [List.mem_singleton] at hx; subst hx; exact h1
      · rw [List.nodup_append]
        refine ⟨h.newsNodup, List.nodup_cons.mpr ⟨List.not_mem_nil, List.nodup_nil⟩, ?_⟩
        intro a ha b hb
        simp only [List.mem_singleton] at hb
        subst hb
        intro hab
        subst hab
        simp only [List.contains_eq_mem, decide_eq_false_iff_not] at h2
        exact h2 ha
  obtain ⟨rw1, rw2⟩ := importStep_rewalk_mono mark acc t
  by_cases hm : (mark && !acc.st.pluginFiles.contains t) = true
  · -- the target becomes a plugin file
    have hmark : mark = true := by
      simp only [Bool.and_eq_true] at hm; exact hm.1
    obtain ⟨f0, hf0, ht0⟩ := hr hmark
    have est : (importStep mark acc t).st = { acc.st with pluginFiles := acc.st.pluginFiles ++ [t] } := by
      rw [importStep_st, if_pos hm]
    have ecache : (importStep mark acc t).st.cache = acc.st.cache := by rw [est]
    have epl : (importStep mark acc t).st.pluginFiles = acc.st.pluginFiles ++ [t] := by rw [est]
    by_cases hp : acc.processed.contains t = true
    · -- … after its imports were walked: it is walked again
      have hnotin : ¬ t ∈ acc.processed.filter (fun g => g != t) := by simp [List.mem_filter]
      have hfc : (acc.processed.filter (fun g => g != t)).contains t = false := by simpa using hnotin
      have epr : (importStep mark acc t).processed = acc.processed.filter (fun g => g != t) := by
        rw [importStep_processed, if_pos (by rw [hm, hp]; rfl)]
      obtain ⟨n1, n2, n3, n4⟩ := newsCase (!ahas acc.st.cache t && !acc.news.contains t)
        (importStep mark acc t).news (by rw [importStep_news, epr, hfc]; rfl) (by
          intro hc; simp only [Bool.and_eq_true, Bool.not_eq_true'] at hc; exact hc)
      have htrw : t ∈ (importStep mark acc t).rewalk := rw2 (by rw [hm, hp]; rfl)
      refine ⟨⟨?_, ?_, ?_, ?_, ?_, n3⟩, ?_, ?_, ?_⟩
      · rw [est]; exact same_setPlugin st0 acc.st _ h.same
      · intro g hg hex hgp x hx
        rw [epr] at hg
        rw [epl] at hgp ⊢
        have hgt : g ≠ t := by intro e; subst e; exact hnotin hg
        have hg' : g ∈ acc.processed := (List.mem_filter.mp hg).1
        rcases List.mem_append.mp hgp with hgp | hgp
        · exact List.mem_append_left _ (h.closed g hg' hex hgp x hx)
        · simp only [List.mem_singleton] at hgp; exact absurd hgp hgt
      · intro g hg
        rw [epl] at hg
        rw [epr]
        by_cases hgt : g = t
        · subst hgt; exact Or.inr (Or.inr (Or.inl htrw))
        · rcases List.mem_append.mp hg with hg | hg
          · rcases h.plug g hg with hc | hc | hc | hc
            · exact Or.inl (mem_filter_ne hc hgt)
            · exact Or.inr (Or.inl hc)
            · exact Or.inr (Or.inr (Or.inl (rw1 g hc)))
            · exact Or.inr (Or.inr (Or.inr (n1 g hc)))
          · simp only [List.mem_singleton] at hg; exact absurd hg hgt
      · intro g hg
        rw [epl] at hg
        rcases List.mem_append.mp hg with hg | hg
        · exact h.reach g hg
        · simp only [List.mem_singleton] at hg; subst hg; exact Reach.step hf0 ht0
      · intro x hx; rw [ecache]; exact n2 x hx
      · intro g hg; rw [epl]; exact List.mem_append_left _ hg
      · intro _; rw [epl]; simp
      · intro hf; rw [hf] at hmark; cases hmark
    · -- … before its imports are walked
      have hp' : acc.processed.contains t = false := by simpa using hp
      have htproc : t ∉ acc.processed := by simpa using hp'
      have epr : (importStep mark acc t).processed = acc.processed := by
        rw [importStep_processed, hm, hp']; rfl
      obtain ⟨n1, n2, n3, n4⟩ := newsCase (!ahas acc.st.cache t && !acc.news.contains t)
        (importStep mark acc t).news (by rw [importStep_news, epr, hp']; rfl) (by
          intro hc; simp only [Bool.and_eq_true, Bool.not_eq_true'] at hc; exact hc)
      refine ⟨⟨?_, ?_, ?_, ?_, ?_, n3⟩, ?_, ?_, ?_⟩
      · rw [est]; exact same_setPlugin st0 acc.st _ h.same
      · intro g hg hex hgp x hx
        rw [epr] at hg
        rw [epl] at hgp ⊢
        rcases List.mem_append.mp hgp with hgp | hgp
        · exact List.mem_append_left _ (h.closed g hg hex hgp x hx)
        · simp only [List.mem_singleton] at hgp; subst hgp; exact absurd hg htproc
      · intro g hg
        rw [epl] at hg
        rw [epr]
        rcases List.mem_append.mp hg with hg | hg
        · rcases h.plug g hg with hc | hc | hc | hc
          · exact Or.inl hc
          · exact Or.inr (Or.inl hc)
          · exact Or.inr (Or.inr (Or.inl (rw1 g hc)))
          · exact Or.inr (Or.inr (Or.inr (n1 g hc)))
        · simp only [List.mem_singleton] at hg
          subst hg
          by_cases hc : ahas acc.st.cache g = true
          · exact Or.inr (Or.inr (Or.inl (rw2 (by rw [epr, hp', hc]; simp))))
          · by_cases hn : acc.news.contains g = true
            · exact Or.inr (Or.inr (Or.inr (n1 g (by simpa using hn))))
            · have hc' : ahas acc.st.cache g = false := by simpa using hc
              have hn' : acc.news.contains g = false := by simpa using hn
              exact Or.inr (Or.inr (Or.inr (n4 (by rw [hc', hn']; rfl))))
      · intro g hg
        rw [epl] at hg
        rcases List.mem_append.mp hg with hg | hg
        · exact h.reach g hg
        · simp only [List.mem_singleton] at hg; subst hg; exact Reach.step hf0 ht0
      · intro x hx; rw [ecache]; exact n2 x hx
      · intro g hg; rw [epl]; exact List.mem_append_left _ hg
      · intro _; rw [epl]; simp
      · intro hf; rw [hf] at hmark; cases hmark
  · -- nothing is marked
    have hm' : (mark && !acc.st.pluginFiles.contains t) = false := by simpa using hm
    have est : (importStep mark acc t).st = acc.st := by rw [importStep_st, hm']; rfl
    have epr : (importStep mark acc t).processed = acc.processed := by rw [importStep_processed, hm']; rfl
    obtain ⟨n1, n2, n3, n4⟩ := newsCase (!acc.processed.contains t && !ahas acc.st.cache t && !acc.news.contains t)
      (importStep mark acc t).news (by rw [importStep_news, epr]) (by
        intro hc; simp only [Bool.and_eq_true, Bool.not_eq_true'] at hc; exact ⟨hc.1.2, hc.2⟩)
    refine ⟨⟨?_, ?_, ?_, ?_, ?_, n3⟩, ?_, ?_, ?_⟩
    · rw [est]; exact h.same
    · rw [est, epr]; exact h.closed
    · intro g hg
      rw [est] at hg
      rw [epr]
      rcases h.plug g hg with hc | hc | hc | hc
      · exact Or.inl hc
      · exact Or.inr (Or.inl hc)
      · exact Or.inr (Or.inr (Or.inl (rw1 g hc)))
      · exact Or.inr (Or.inr (Or.inr (n1 g hc)))
    · rw [est]; exact h.reach
    · intro x hx; rw [est]; exact n2 x hx
    · intro g hg; rw [est]; exact hg
    · intro hmk
      rw [est]
      rw [hmk] at hm'
      simpa using hm'
    · intro _; rw [est]

/-- a run of import steps for one importing file `f`, over any list of items that name a module
    (`md`) and say whether the target is to be marked (`mk`) -/
theorem fold_marks (st0 : Index) (P0 : List Path) (f : Path) (todo : List Path) {α} (mk : α → Bool) (md : α → String)
    (L : List α)
    (hmem : ∀ a, a ∈ L → mk a = true → Reach st0 P0 f ∧ ∀ t, st0.resolveModule (md a) f = some t → t ∈ marksOf st0 f) :
    ∀ b : ScanAcc, Inv st0 P0 (some f) todo b →
      Inv st0 P0 (some f) todo (L.foldl (fun acc a =>
        match acc.st.resolveModule (md a) f with
        | some t => importStep (mk a) acc t
        | none => acc) b) ∧
      (∀ g, g ∈ b.st.pluginFiles → g ∈ (L.foldl (fun acc a =>
        match acc.st.resolveModule (md a) f with
        | some t => importStep (mk a) acc t
        | none => acc) b).st.pluginFiles) ∧
      (∀ a, a ∈ L → mk a = true → ∀ t, st0.resolveModule (md a) f = some t → t ∈ (L.foldl (fun acc a =>
        match acc.st.resolveModule (md a) f with
        | some t => importStep (mk a) acc t
        | none => acc) b).st.pluginFiles) ∧
      ((∀ a, a ∈ L → mk a = false) → (L.foldl (fun acc a =>
        match acc.st.resolveModule (md a) f with
        | some t => importStep (mk a) acc t
        | none => acc) b).st.pluginFiles = b.st.pluginFiles) := by
  induction L with
  | nil =>
    intro b hb
    refine ⟨hb, fun g hg => hg, ?_, fun _ => rfl⟩
    intro a ha
    cases ha
  | cons a l ih =>
    intro b hb
    simp only [List.foldl_cons]
    have hres : b.st.resolveModule (md a) f = st0.resolveModule (md a) f := resolveModule_same hb.same.fs (md a) f
    -- the first step
    have hstep : Inv st0 P0 (some f) todo (match b.st.resolveModule (md a) f with
          | some t => importStep (mk a) b t
          | none => b) ∧
        (∀ g, g ∈ b.st.pluginFiles → g ∈ (match b.st.resolveModule (md a) f with
          | some t => importStep (mk a) b t
          | none => b).st.pluginFiles) ∧
        (mk a = true → ∀ t, st0.resolveModule (md a) f = some t → t ∈ (match b.st.resolveModule (md a) f with
          | some t => importStep (mk a) b t
          | none => b).st.pluginFiles) ∧
        (mk a = false → (match b.st.resolveModule (md a) f with
          | some t => importStep (mk a) b t
          | none => b).st.pluginFiles = b.st.pluginFiles) := by
      rw [hres]
      cases hr : st0.resolveModule (md a) f with
      | none =>
        refine ⟨hb, fun g hg => hg, ?_, fun _ => rfl⟩
        intro _ t ht
        cases ht
      | some t =>
        simp only
        obtain ⟨i1, i2, i3, i4⟩ := importStep_inv st0 P0 (some f) todo (mk a) b t
          (fun hm => ⟨f, (hmem a List.mem_cons_self hm).1, (hmem a List.mem_cons_self hm).2 t hr⟩) hb
        refine ⟨i1, i2, ?_, i4⟩
        intro hm t' ht'
        cases ht'
        exact i3 hm
    obtain ⟨s1, s2, s3, s4⟩ := hstep
    obtain ⟨r1, r2, r3, r4⟩ := ih (fun x hx => hmem x (List.mem_cons_of_mem _ hx)) _ s1
    refine ⟨r1, fun g hg => r2 g (s2 g hg), ?_, ?_⟩
    · intro x hx hm t ht
      rcases List.mem_cons.mp hx with rfl | hx
      · exact r2 t (s3 hm t ht)
      · exact r3 x hx hm t ht
    · intro hall
      rw [r4 (fun x hx => hall x (List.mem_cons_of_mem _ hx)), s4 (hall a List.mem_cons_self)]

/-- the walk of one file: a plugin file passes its status on to everything it star-imports or
    names in `pytest_plugins`; any other file marks nothing -/
theorem importScanFile_inv (st0 : Index) (P0 : List Path) (f : Path) (todo : List Path) (acc : ScanAcc)
    (h : Inv st0 P0 (some f) todo acc) :
    Inv st0 P0 (some f) todo (importScanFile f acc) ∧
    (∀ g, g ∈ acc.st.pluginFiles → g ∈ (importScanFile f acc).st.pluginFiles) ∧
    (f ∈ acc.st.pluginFiles → ∀ t, t ∈ marksOf st0 f → t ∈ (importScanFile f acc).st.pluginFiles) ∧
    (f ∉ acc.st.pluginFiles → (importScanFile f acc).st.pluginFiles = acc.st.pluginFiles) := by
  have hct : (acc.st.content f).bind (·.parsed) = (st0.content f).bind (·.parsed) := h.same.ct f
  unfold importScanFile
  cases hc : acc.st.content f with
  | none =>
    have hm : marksOf st0 f = [] := by unfold marksOf; rw [← hct, hc]; rfl
    refine ⟨h, fun g hg => hg, ?_, fun _ => rfl⟩
    intro _ t ht
    rw [hm] at ht
    cases ht
  | some v =>
    obtain ⟨text, parsed, carried⟩ := v
    cases parsed with
    | none =>
      have hm : marksOf st0 f = [] := by unfold marksOf; rw [← hct, hc]; rfl
      refine ⟨h, fun g hg => hg, ?_, fun _ => rfl⟩
      intro _ t ht
      rw [hm] at ht
      cases ht
    | some fr =>
      simp only
      have hm : marksOf st0 f =
          (fr.imports.filter (·.isStar)).filterMap (fun imp => st0.resolveModule imp.modulePath f) ++
          fr.plugins.filterMap (fun m => st0.resolveModule m f) := by
        unfold marksOf; rw [← hct, hc]; rfl
      by_cases hP : acc.st.pluginFiles.contains f = true
      · have hfP : f ∈ acc.st.pluginFiles := by simpa using hP
        have hreach : Reach st0 P0 f := h.reach f hfP
        simp only [hP, Bool.true_and]
        obtain ⟨a1, a2, a3, _⟩ := fold_marks st0 P0 f todo (fun imp : ImportRec => imp.isStar) (fun imp => imp.modulePath)
          fr.imports (by
            intro imp himp hstar
            refine ⟨hreach, fun t ht => ?_⟩
            rw [hm]
            apply List.mem_append_left
            rw [List.mem_filterMap]
            exact ⟨imp, List.mem_filter.mpr ⟨himp, hstar⟩, ht⟩) acc h
        obtain ⟨b1, b2, b3, _⟩ := fold_marks st0 P0 f todo (fun _ : String => true) (fun m => m)
          fr.plugins (by
            intro m hmm _
            refine ⟨hreach, fun t ht => ?_⟩
            rw [hm]
            apply List.mem_append_right
            rw [List.mem_filterMap]
            exact ⟨m, hmm, ht⟩) _ a1
        refine ⟨b1, fun g hg => b2 g (a2 g hg), ?_, fun hn => absurd hfP hn⟩
        intro _ t ht
        rw [hm] at ht
        rcases List.mem_append.mp ht with ht | ht
        · rw [List.mem_filterMap] at ht
          obtain ⟨imp, himp, hr⟩ := ht
          obtain ⟨hi1, hi2⟩ := List.mem_filter.mp himp
          exact b2 t (a3 imp hi1 hi2 t hr)
        · rw [List.mem_filterMap] at ht
          obtain ⟨m, hmm, hr⟩ := ht
          exact b3 m hmm rfl t hr
      · have hP' : acc.st.pluginFiles.contains f = false := by simpa using hP
        have hfP : f ∉ acc.st.pluginFiles := by simpa using hP'
        simp only [hP', Bool.false_and]
        obtain ⟨a1, a2, _, a4⟩ := fold_marks st0 P0 f todo (fun _ : ImportRec => false) (fun imp => imp.modulePath)
          fr.imports (by intro _ _ hh; cases hh) acc h
        obtain ⟨b1, b2, _, b4⟩ := fold_marks st0 P0 f todo (fun _ : String => false) (fun m => m)
          fr.plugins (by intro _ _ hh; cases hh) _ a1
        exact ⟨b1, fun g hg => b2 g (a2 g hg), fun hh => absurd hh hfP,
          fun _ => (b4 (fun _ _ => rfl)).trans (a4 (fun _ _ => rfl))⟩

/-- one file of one round -/
theorem roundStep_inv (st0 : Index) (P0 : List Path) (f : Path) (l : List Path) (acc : ScanAcc)
    (h : Inv st0 P0 none (f :: l) acc) :
    Inv st0 P0 none l (roundStep acc f) ∧ (∀ g, g ∈ acc.st.pluginFiles → g ∈ (roundStep acc f).st.pluginFiles) := by
  unfold roundStep
  by_cases hc : acc.processed.contains f = true
  · rw [if_pos hc]
    have hf : f ∈ acc.processed := by simpa using hc
    refine ⟨⟨h.same, h.closed, ?_, h.reach, h.newsFresh, h.newsNodup⟩, fun g hg => hg⟩
    · intro g hg
      rcases h.plug g hg with hh | hh | hh | hh
      · exact Or.inl hh
      · rcases List.mem_cons.mp hh with rfl | hh
        · exact Or.inl hf
        · exact Or.inr (Or.inl hh)
      · exact Or.inr (Or.inr (Or.inl hh))
      · exact Or.inr (Or.inr (Or.inr hh))
  · rw [if_neg hc]
    have h1 : Inv st0 P0 (some f) l { acc with processed := acc.processed ++ [f] } := by
      refine ⟨h.same, ?_, ?_, h.reach, h.newsFresh, h.newsNodup⟩
      · intro g hg hex hgp
        have hgf : g ≠ f := fun e => hex (by rw [e])
        have hg' : g ∈ acc.processed := by
          rcases List.mem_append.mp hg with hg | hg
          · exact hg
          · simp only [List.mem_singleton] at hg; exact absurd hg hgf
        exact h.closed g hg' (by intro e; cases e) hgp
      · intro g hg
        rcases h.plug g hg with hh | hh | hh | hh
        · exact Or.inl (List.mem_append_left _ hh)
        · rcases List.mem_cons.mp hh with rfl | hh
          · exact Or.inl (by simp)
          · exact Or.inr (Or.inl hh)
        · exact Or.inr (Or.inr (Or.inl hh))
        · exact Or.inr (Or.inr (Or.inr hh))
    obtain ⟨r1, r2, r3, r4⟩ := importScanFile_inv st0 P0 f l _ h1
    refine ⟨⟨r1.same, ?_, r1.plug, r1.reach, r1.newsFresh, r1.newsNodup⟩, r2⟩
    intro g hg _ hgp t ht
    by_cases hgf : g = f
    · subst hgf
      by_cases hP : g ∈ acc.st.pluginFiles
      · exact r3 hP t ht
      · have := r4 hP
        rw [this] at hgp
        exact absurd hgp hP
    · exact r1.closed g hg (by intro e; cases e; exact hgf rfl) hgp t ht

/-- a whole round -/
theorem round_inv (st0 : Index) (P0 : List Path) (toCheck : List Path) : ∀ acc : ScanAcc,
    Inv st0 P0 none toCheck acc →
    Inv st0 P0 none [] (toCheck.foldl roundStep acc) ∧
    (∀ g, g ∈ acc.st.pluginFiles → g ∈ (toCheck.foldl roundStep acc).st.pluginFiles) := by
  induction toCheck with
  | nil => intro acc h; exact ⟨h, fun g hg => hg⟩
  | cons f l ih =>
    intro acc h
    simp only [List.foldl_cons]
    obtain ⟨s1, s2⟩ := roundStep_inv st0 P0 f l acc h
    obtain ⟨r1, r2⟩ := ih _ s1
    exact ⟨r1, fun g hg => r2 g (s2 g hg)⟩

/-! ### analysing the new modules shows the same files -/

theorem ahas_of_alookup {β} (l : List (Path × β)) (k : Path) (v : β) (h : alookup l k = some v) : ahas l k = true := by
  unfold alookup at h
  unfold ahas
  cases hf : l.find? (fun p => p.1 == k) with
  | none => rw [hf] at h; cases h
  | some p =>
    have := List.find?_some hf
    have hm := List.mem_of_find?_eq_some hf
    exact List.any_eq_true.mpr ⟨p, hm, this⟩

theorem alookup_of_not_ahas {β} (l : List (Path × β)) (k : Path) (h : ahas l k = false) : alookup l k = none := by
  cases hl : alookup l k with
  | none => rfl
  | some v => rw [ahas_of_alookup l k v hl] at h; cases h

theorem ahas_ainsert_ne {β} (l : List (Path × β)) (k x : Path) (v : β) (hx : x ≠ k) :
    ahas (ainsert l k v) x = ahas l x := by
  unfold ahas ainsert aerase
  rw [List.any_append, List.any_filter]
  have h1 : ([(k, v)] : List (Path × β)).any (fun p => p.1 == x) = false := by
    simp only [List.any_cons, List.any_nil, Bool.or_false, beq_eq_false_iff_ne, ne_eq]
    exact fun e => hx e.symm
  rw [h1, Bool.or_false]
  congr 1
  funext p
  by_cases hp : p.1 = x
  · have : (p.1 != k) = true := by rw [hp]; simpa using hx
    rw [this, Bool.true_and]
  · have : (p.1 == x) = false := by simpa using hp
    rw [this, Bool.and_false]

theorem ahas_ainsert_self {β} (l : List (Path × β)) (k : Path) (v : β) : ahas (ainsert l k v) k = true := by
  unfold ahas ainsert
  rw [List.any_append]
  simp

theorem analyzeNew_same (pfx : Path) (st0 st : Index) (m : Path) (hs : Same st0 st) (hm : ahas st.cache m = false) :
    Same st0 (analyzeNew pfx st m) ∧ (analyzeNew pfx st m).pluginFiles = st.pluginFiles ∧
    (∀ g, ahas (analyzeNew pfx st m).cache g = true → ahas st.cache g = true ∨ g = m) := by
  unfold analyzeNew
  cases hl : alookup st.disk m with
  | none => exact ⟨hs, rfl, fun g hg => Or.inl hg⟩
  | some v =>
    simp only
    split
    · obtain ⟨_, hcache⟩ := analyze_cd pfx false st m v
      have hfr := analyze_frame pfx false st m v
      have hdm : ahas st.disk m = true := ahas_of_alookup _ _ _ hl
      refine ⟨hs.trans ⟨hfr.disk, hfr.dirs, hfr.sp, hfr.ed, ?_, ?_⟩, hfr.pf, ?_⟩
      · intro x
        rw [hfr.disk, hcache]
        by_cases hx : x = m
        · subst hx; rw [hdm]; simp
        · rw [ahas_ainsert_ne _ _ _ _ hx]
      · intro x
        unfold content
        rw [hfr.disk, hcache]
        by_cases hx : x = m
        · subst hx
          rw [alookup_ainsert_self, alookup_of_not_ahas _ _ hm, hl]
          simp only [Option.bind_some]
          exact (cachedAs_parsed st x v).1
        · rw [alookup_ainsert_ne _ _ _ _ hx]
      · intro g hg
        rw [hcache] at hg
        exact ahas_ainsert _ _ _ _ hg
    · exact ⟨hs, rfl, fun g hg => Or.inl hg⟩

theorem analyzeAll_same (pfx : Path) (st0 : Index) : ∀ (news : List Path) (st : Index), Same st0 st →
    (∀ t, t ∈ news → ahas st.cache t = false) → news.Nodup →
    Same st0 (news.foldl (analyzeNew pfx) st) ∧
    (news.foldl (analyzeNew pfx) st).pluginFiles = st.pluginFiles ∧
    (∀ g, ahas (news.foldl (analyzeNew pfx) st).cache g = true → ahas st.cache g = true ∨ g ∈ news) := by
  intro news
  induction news with
  | nil => intro st hs _ _; exact ⟨hs, rfl, fun g hg => Or.inl hg⟩
  | cons m ms ih =>
    intro st hs hf hnd
    simp only [List.foldl_cons]
    obtain ⟨a1, a2, a3⟩ := analyzeNew_same pfx st0 st m hs (hf m List.mem_cons_self)
    have hnd' := List.nodup_cons.mp hnd
    obtain ⟨b1, b2, b3⟩ := ih (analyzeNew pfx st m) a1 (by
      intro t ht
      cases hc : ahas (analyzeNew pfx st m).cache t with
      | false => rfl
      | true =>
        rcases a3 t hc with h1 | h1
        · rw [hf t (List.mem_cons_of_mem _ ht)] at h1; cases h1
        · subst h1; exact absurd ht hnd'.1) hnd'.2
    refine ⟨b1, b2.trans a2, ?_⟩
    intro g hg
    rcases b3 g hg with h1 | h1
    · rcases a3 g h1 with h2 | h2
      · exact Or.inl h2
      · subst h2; exact Or.inr List.mem_cons_self
    · exact Or.inr (List.mem_cons_of_mem _ h1)

/-! ### the loop -/

/-- what the loop returns, from any round on: plugin files reachable, closed under the marking
    edges, and never fewer than before -/
theorem importScan_closed (pfx : Path) (U : List Path) (stG st0 : Index) (P0 : List Path) :
    ∀ (n : Nat) (st : Index) (toCheck processed re : List Path), Good U stG st → (∀ f, f ∈ toCheck → f ∈ U) →
      mu U processed st.pluginFiles < n →
      Inv st0 P0 none toCheck { news := [], re := re, st := st, processed := processed, rewalk := [] } →
      (∀ g, g ∈ (importScan pfx n st toCheck processed re).1.pluginFiles → Reach st0 P0 g) ∧
      (∀ g, g ∈ (importScan pfx n st toCheck processed re).1.pluginFiles →
        ∀ t, t ∈ marksOf st0 g → t ∈ (importScan pfx n st toCheck processed re).1.pluginFiles) ∧
      (∀ g, g ∈ st.pluginFiles → g ∈ (importScan pfx n st toCheck processed re).1.pluginFiles) := by
  intro n
  induction n with
  | zero => intro st toCheck processed re _ _ h; omega
  | succ n ih =>
    intro st toCheck processed re hgood hT hmu hinv
    rw [importScan_eq]
    -- when nothing is left to do, every plugin file has been processed as one
    have done : ∀ acc : ScanAcc, Inv st0 P0 none [] acc → acc.news = [] → acc.rewalk = [] →
        (∀ g, g ∈ acc.st.pluginFiles → Reach st0 P0 g) ∧
        (∀ g, g ∈ acc.st.pluginFiles → ∀ t, t ∈ marksOf st0 g → t ∈ acc.st.pluginFiles) := by
      intro acc hi hn hr
      refine ⟨hi.reach, fun g hg t ht => ?_⟩
      rcases hi.plug g hg with hh | hh | hh | hh
      · exact hi.closed g hh (by intro e; cases e) hg t ht
      · cases hh
      · rw [hr] at hh; cases hh
      · rw [hn] at hh; cases hh
    by_cases he : toCheck.isEmpty = true
    · simp only [he, if_true]
      have hnil : toCheck = [] := by simpa using he
      rw [hnil] at hinv
      obtain ⟨d1, d2⟩ := done _ hinv rfl rfl
      exact ⟨d1, d2, fun g hg => hg⟩
    · simp only [he]
      generalize hacc : ({ news := [], re := re, st := st, processed := processed, rewalk := [] } : ScanAcc) = acc0 at hinv
      have hpa0 : PA U stG acc0 := by
        rw [← hacc]
        refine ⟨hgood, ?_, ?_⟩ <;> intro t ht <;> cases ht
      obtain ⟨hq, hstrict⟩ := round_measure U stG toCheck hT acc0 hpa0
      obtain ⟨hri, hrm⟩ := round_inv st0 P0 toCheck acc0 hinv
      have hst0 : acc0.st = st := by rw [← hacc]
      generalize hr : toCheck.foldl roundStep acc0 = r at hq hstrict hri hrm
      by_cases hn : (r.news.isEmpty && r.rewalk.isEmpty) = true
      · simp only [hn, if_true]
        simp only [Bool.and_eq_true, List.isEmpty_iff] at hn
        obtain ⟨d1, d2⟩ := done r hri hn.1 hn.2
        exact ⟨d1, d2, fun g hg => hrm g (by rw [hst0]; exact hg)⟩
      · simp only [hn]
        have hex : ∃ f, f ∈ toCheck ∧ acc0.processed.contains f = false := by
          apply Classical.byContradiction
          intro hno
          have hall : ∀ f, f ∈ toCheck → acc0.processed.contains f = true := by
            intro f hf
            cases hc : acc0.processed.contains f with
            | true => rfl
            | false => exact absurd ⟨f, hf, hc⟩ hno
          have := round_idle toCheck acc0 hall
          rw [hr] at this
          rw [this, ← hacc] at hn
          exact hn rfl
        obtain ⟨x, hxU, hxlt⟩ := hstrict hex
        have hdec : mu U r.processed r.st.pluginFiles < mu U processed st.pluginFiles := by
          have h0 : mu U processed st.pluginFiles = (U.map (wA acc0)).sum := by rw [← hacc]; rfl
          rw [h0]
          exact sum_lt U (wA r) (wA acc0) (fun g _ => hq.2 g) x hxU hxlt
        obtain ⟨a1, a2, a3⟩ := analyzeAll_same pfx st0 r.news r.st hri.same hri.newsFresh hri.newsNodup
        have hinv' : Inv st0 P0 none (r.news ++ r.rewalk)
            { news := [], re := r.re, st := r.news.foldl (analyzeNew pfx) r.st, processed := r.processed, rewalk := [] } := by
          refine ⟨a1, ?_, ?_, ?_, ?_, List.nodup_nil⟩
          · intro g hg hex' hgp t ht
            simp only at hg hgp ⊢
            rw [a2] at hgp ⊢
            exact hri.closed g hg hex' hgp t ht
          · intro g hg
            simp only at hg ⊢
            rw [a2] at hg
            rcases hri.plug g hg with h1 | h1 | h1 | h1
            · exact Or.inl h1
            · cases h1
            · exact Or.inr (Or.inl (List.mem_append_right _ h1))
            · exact Or.inr (Or.inl (List.mem_append_left _ h1))
          · intro g hg
            simp only at hg
            rw [a2] at hg
            exact hri.reach g hg
          · intro t ht; cases ht
        obtain ⟨c1, c2, c3⟩ := ih (r.news.foldl (analyzeNew pfx) r.st) (r.news ++ r.rewalk) r.processed r.re
          (analyzeAll_good pfx U stG r.news r.st hq.1.2.1 hq.1.1)
          (by
            intro f hf
            rcases List.mem_append.mp hf with hf | hf
            · exact hq.1.2.1 f hf
            · exact hq.1.2.2 f hf)
          (by rw [analyzeAll_pf]; omega) hinv'
        refine ⟨c1, c2, fun g hg => c3 g ?_⟩
        rw [a2]
        exact hrm g (by rw [hst0]; exact hg)

end ScanC

open ScanC ScanT in
/-- **C14 / C08 (the plugin files the scan ends with are exactly the closure).** Start the import
    scan on an index in which every plugin file is among the files to check (what `scan_workspace`
    does: the entry-point modules were analysed by the virtualenv phase) - whatever else is cached
    already, for instance documents opened in the editor before the scan - with enough rounds.
    Then a file ends up marked as a plugin file IF AND ONLY IF it can be reached from an initial
    plugin file by following star imports and `pytest_plugins` entries - chains of any length,
    diamonds, cycles. -/
theorem C14_plugin_files_are_the_closure (pfx : Path) (U : List Path) (st : Index) (roots : List Path)
    (hdisk : ∀ k, ahas st.disk k = true → k ∈ U) (hcache : ∀ k, ahas st.cache k = true → k ∈ U)
    (hT : ∀ f, f ∈ roots → f ∈ U)
    (hp : ∀ g, g ∈ st.pluginFiles → g ∈ roots)
    (m : Nat) (hm : 3 * U.length + 1 ≤ m) (g : Path) :
    g ∈ (Index.importScan pfx m st roots [] []).1.pluginFiles ↔ Reach st st.pluginFiles g := by
  have hinv : Inv st st.pluginFiles none roots { news := [], re := [], st := st, processed := [], rewalk := [] } := by
    refine ⟨Same.rfl' st, ?_, ?_, fun g hg => Reach.base hg, ?_, List.nodup_nil⟩
    · intro g hg; cases hg
    · intro g hg; exact Or.inr (Or.inl (hp g hg))
    · intro t ht; cases ht
  have hmu : mu U [] st.pluginFiles < m := by
    have := mu_le U [] st.pluginFiles
    omega
  obtain ⟨c1, c2, c3⟩ := importScan_closed pfx U st st st.pluginFiles m st roots [] [] ⟨rfl, hcache, hdisk⟩ hT hmu hinv
  constructor
  · exact c1 g
  · intro hr
    induction hr with
    | base hg => exact c3 _ hg
    | step _ ht ih => exact c2 _ ih _ ht

open ScanC ScanT in
/-- **C08 (the scan's plugin classification does not depend on the visiting order).** Two runs of
    the import scan on the same index whose lists of files to check contain the same files - in
    any order, with any repetitions - mark the same files as plugin files. -/
theorem C08_plugin_files_order_independent (pfx : Path) (U : List Path) (st : Index) (roots roots' : List Path)
    (hdisk : ∀ k, ahas st.disk k = true → k ∈ U) (hcache : ∀ k, ahas st.cache k = true → k ∈ U)
    (hT : ∀ f, f ∈ roots → f ∈ U) (hperm : ∀ f, f ∈ roots ↔ f ∈ roots')
    (hp : ∀ g, g ∈ st.pluginFiles → g ∈ roots)
    (m m' : Nat) (hm : 3 * U.length + 1 ≤ m) (hm' : 3 * U.length + 1 ≤ m') (g : Path) :
    g ∈ (Index.importScan pfx m st roots [] []).1.pluginFiles ↔
    g ∈ (Index.importScan pfx m' st roots' [] []).1.pluginFiles := by
  rw [C14_plugin_files_are_the_closure pfx U st roots hdisk hcache hT hp m hm g,
    C14_plugin_files_are_the_closure pfx U st roots' hdisk hcache (fun f hf => hT f ((hperm f).mpr hf))
      (fun g hg => (hperm g).mp (hp g hg)) m' hm' g]

/-! ### the hypotheses are met by a chain that the old loop got wrong -/

namespace ScanC
open Index

def exVersion (imps : List ImportRec) (pl : List String) : Version :=
  { text := "", parsed := some { events := [], modNames := [], imports := imps, plugins := pl } }

/-- `plugin.py → lvl1.py → lvl2.py` (a star import, then `pytest_plugins`), all three cached, only
    the entry module a plugin file at the start -/
def exIndex : Index :=
  let files : List (Path × Version) :=
    [ (["lvl2.py"], exVersion [] []),
      (["lvl1.py"], exVersion [] ["lvl2"]),
      (["plugin.py"], exVersion [⟨".lvl1", true, [], []⟩] []) ]
  { disk := files, cache := files, pluginFiles := [["plugin.py"]] }

def exRoots : List Path := [["lvl2.py"], ["lvl1.py"], ["plugin.py"]]

/-- visited innermost first - the order in which the loop before `2bbe7de` marked `lvl1.py` only -
    every module of the chain ends up a plugin file (a test of the definitions) -/
example : (importScan [] 10 exIndex exRoots [] []).1.pluginFiles = [["plugin.py"], ["lvl1.py"], ["lvl2.py"]] := by decide

/-- only the entry module is among the files to check; the others are cached already (opened in
    the editor before the scan): they are walked all the same (a test of the definitions) -/
example : (importScan [] 10 exIndex [["plugin.py"]] [] []).1.pluginFiles = [["plugin.py"], ["lvl1.py"], ["lvl2.py"]] := by decide

theorem ex_keys (l : List (Path × Version)) (hl : l = exIndex.disk) (k : Path) (h : ahas l k = true) : k ∈ exRoots := by
  subst hl
  simp only [ahas, exIndex, List.any_cons, List.any_nil, Bool.or_false, Bool.or_eq_true, beq_iff_eq] at h
  rcases h with h | h | h <;> (subst h; decide)

/-- the closure theorem applies to it: its hypotheses are satisfiable -/
example (g : Path) : g ∈ (importScan [] 10 exIndex exRoots [] []).1.pluginFiles ↔ Reach exIndex exIndex.pluginFiles g :=
  C14_plugin_files_are_the_closure [] exRoots exIndex exRoots (ex_keys _ rfl) (ex_keys _ rfl) (fun _ h => h)
    (by intro g hg; simp only [exIndex, List.mem_singleton] at hg; subst hg; decide) 10 (by decide) g

end ScanC

end PLS
