/-
  C19 — published diagnostics track the latest content and the configuration.
-/
import PLS.Model.Config
import PLS.Props.C06
import PLS.Props.C16
import PLS.Props.C17
namespace PLS
open Index

/-! ### the tables: the codes the validator accepts are the codes the publisher emits and gates -/

/-- **C19 (tables, regenerated from `config/mod.rs` and `providers/diagnostics.rs` on this run).**
    The codes `from_raw` accepts, the codes the publisher attaches, and the codes it asks
    `is_diagnostic_disabled` about are one and the same set — the three of the statement. -/
theorem C19_tables :
    (∀ c, c ∈ Generated.validDiagnosticCodes ↔ c ∈ Generated.emittedDiagnosticCodes) ∧
    (∀ c, c ∈ Generated.validDiagnosticCodes ↔ c ∈ Generated.checkedDiagnosticCodes) ∧
    (∀ c, c ∈ Generated.validDiagnosticCodes ↔
      c = "undeclared-fixture" ∨ c = "circular-dependency" ∨ c = "scope-mismatch") ∧
    Generated.checkedDiagnosticCodes.Nodup := by
  refine ⟨?_, ?_, ?_, by decide⟩ <;> intro c <;>
    simp [Generated.validDiagnosticCodes, Generated.emittedDiagnosticCodes, Generated.checkedDiagnosticCodes] <;>
    constructor <;> (intro h; rcases h with h | h | h <;> simp [h])

/-! ### the publisher -/

theorem filter_all {α} (l : List α) : l.filter (fun _ => true) = l := by
  induction l with
  | nil => rfl
  | cons a l ih => simp

/-- every published diagnostic carries one of the three codes -/
theorem C19_codes (st : Index) (dis : List String) (f : Path) (cy : List Cycle)
    (res : Def → String → Option Def) (d : Diag)
    (h : d ∈ st.hDiagnostics dis f cy res) : d.code ∈ Generated.validDiagnosticCodes := by
  unfold hDiagnostics at h
  simp only [List.mem_append] at h
  rcases h with (h | h) | h
  · split at h
    · cases h
    · obtain ⟨u, _, rfl⟩ := List.mem_map.mp h; simp [Generated.validDiagnosticCodes]
  · split at h
    · cases h
    · obtain ⟨u, _, rfl⟩ := List.mem_map.mp h; simp [Generated.validDiagnosticCodes]
  · split at h
    · cases h
    · obtain ⟨u, _, rfl⟩ := List.mem_map.mp h; simp [Generated.validDiagnosticCodes]

/-- **C19 (exactly the findings minus the disabled codes).** What is published under a set of
    disabled codes is what would be published with nothing disabled, minus the diagnostics whose
    code is in the set — nothing else is dropped, nothing is added, order is kept. -/
theorem C19_filter (st : Index) (dis : List String) (f : Path) (cy : List Cycle)
    (res : Def → String → Option Def) :
    st.hDiagnostics dis f cy res = (st.hDiagnostics [] f cy res).filter (fun d => !dis.contains d.code) := by
  unfold hDiagnostics
  simp only [List.contains_nil, Bool.false_eq_true, if_false, List.filter_append, List.filter_map]
  congr 1
  · congr 1
    · by_cases h : "undeclared-fixture" ∈ dis
      · simp [h, Function.comp_def]
      · simp [h, Function.comp_def, filter_all]
    · by_cases h : "circular-dependency" ∈ dis
      · simp [h, Function.comp_def]
      · simp [h, Function.comp_def, filter_all]
  · by_cases h : "scope-mismatch" ∈ dis
    · simp [h, Function.comp_def]
    · simp [h, Function.comp_def, filter_all]

/-! ### the configuration -/

/-- **C19 (codes are judged one by one).** A code ends up disabled iff it is listed and valid;
    the other entries of the list — unknown codes included — play no part. -/
theorem C19_config_codes (compiles : String → Bool) (raw : RawConfig) (c : String) :
    (Config.fromRaw compiles raw).isDisabled c = true ↔
      c ∈ raw.disabledDiagnostics ∧ c ∈ Generated.validDiagnosticCodes := by
  simp [Config.fromRaw, Config.isDisabled]

/-- **C19 (patterns are judged one by one).** A pattern is kept iff it is listed and compiles;
    an invalid pattern removes nothing else. -/
theorem C19_config_patterns (compiles : String → Bool) (raw : RawConfig) (p : String) :
    p ∈ (Config.fromRaw compiles raw).exclude ↔ p ∈ raw.exclude ∧ compiles p = true := by
  simp [Config.fromRaw, List.mem_filter]

/-- the two validations do not interact, and neither touches the other two settings -/
theorem C19_config_independent (compiles : String → Bool) (raw : RawConfig) (ex ex' : List String)
    (dd dd' : List String) :
    (Config.fromRaw compiles { raw with exclude := ex }).disabledDiagnostics =
      (Config.fromRaw compiles { raw with exclude := ex' }).disabledDiagnostics ∧
    (Config.fromRaw compiles { raw with disabledDiagnostics := dd }).exclude =
      (Config.fromRaw compiles { raw with disabledDiagnostics := dd' }).exclude ∧
    (Config.fromRaw compiles raw).fixturePaths = raw.fixturePaths ∧
    (Config.fromRaw compiles raw).skipPlugins = raw.skipPlugins := ⟨rfl, rfl, rfl, rfl⟩

/-- adding entries (valid or not) to either list never removes an accepted entry -/
theorem C19_config_monotone (compiles : String → Bool) (raw : RawConfig) (more : List String) :
    (Config.fromRaw compiles { raw with disabledDiagnostics := raw.disabledDiagnostics ++ more }).disabledDiagnostics =
      (Config.fromRaw compiles raw).disabledDiagnostics ++
        more.filter (fun c => Generated.validDiagnosticCodes.contains c) ∧
    (Config.fromRaw compiles { raw with exclude := raw.exclude ++ more }).exclude =
      (Config.fromRaw compiles raw).exclude ++ more.filter compiles := by
  simp [Config.fromRaw, List.filter_append]

/-- a file that is absent, unreadable, malformed or without the section leaves every default in
    place (nothing disabled, nothing excluded) -/
theorem C19_config_defaults (compiles : String → Bool) (l : Loaded)
    (h : match l with | .table _ => False | _ => True) (c : String) :
    (Config.load compiles l).isDisabled c = false ∧ (Config.load compiles l).exclude = [] := by
  cases l <;> simp_all [Config.load, Config.isDisabled]

/-- **C19 (end to end for the configuration).** Under the configuration loaded from a table, a
    diagnostic is published iff it is a finding and its code is not listed; unknown codes in the
    list and the `exclude` entries (valid or not) change nothing. -/
theorem C19_publish_config (compiles : String → Bool) (raw : RawConfig) (st : Index) (f : Path)
    (cy : List Cycle) (res : Def → String → Option Def) (d : Diag) :
    d ∈ st.publish (Config.load compiles (.table raw)) f cy res ↔
      d ∈ st.hDiagnostics [] f cy res ∧ d.code ∉ raw.disabledDiagnostics := by
  unfold publish
  rw [C19_filter, List.mem_filter]
  constructor
  · rintro ⟨hd, hc⟩
    refine ⟨hd, ?_⟩
    intro hmem
    have hv := C19_codes st [] f cy res d hd
    have : (Config.load compiles (.table raw)).disabledDiagnostics.contains d.code = true := by
      simp [Config.load, Config.fromRaw, List.mem_filter, hmem, hv]
    rw [this] at hc; cases hc
  · rintro ⟨hd, hc⟩
    refine ⟨hd, ?_⟩
    simp [Config.load, Config.fromRaw, List.mem_filter, hc]

/-- … and with no usable table everything is published -/
theorem C19_publish_default (compiles : String → Bool) (l : Loaded)
    (h : match l with | .table _ => False | _ => True) (st : Index) (f : Path) (cy : List Cycle)
    (res : Def → String → Option Def) :
    st.publish (Config.load compiles l) f cy res = st.hDiagnostics [] f cy res := by
  cases l <;> simp_all [Config.load, publish]

/-! ### the latest content -/

theorem applyEvent_undeclared_nonscan (pfx f : Path) (st : Index) (e : Event)
    (h : ∀ b, e ≠ .scan b) : (applyEvent pfx f st e).undeclared = st.undeclared := by
  cases e with
  | scan b => exact absurd rfl (h b)
  | _ => rfl

/-- the findings a list of events adds for the file come from its own body scans -/
theorem foldl_undeclared_from (pfx f : Path) (es : List Event) (st : Index) (u : Undeclared)
    (h : u ∈ (alookup (es.foldl (applyEvent pfx f) st).undeclared f).getD []) :
    u ∈ (alookup st.undeclared f).getD [] ∨
      ∃ b, Event.scan b ∈ es ∧ ∃ r ∈ b.refs, b.candidate r = true ∧
        u = Undeclared.mk r.name f r.line r.startChar r.endChar b.fnName b.fnLine := by
  induction es generalizing st with
  | nil => exact Or.inl h
  | cons e es ih =>
    simp only [List.foldl_cons] at h
    rcases ih _ h with h1 | ⟨b, hb, r, hr, hc, hu⟩
    · cases e with
      | scan b =>
        rw [C17_scan_exact, List.mem_append] at h1
        rcases h1 with h1 | h1
        · exact Or.inl h1
        · right
          unfold scanFindings at h1
          obtain ⟨r, hr, rfl⟩ := List.mem_map.mp h1
          simp only [List.mem_filter, Bool.and_eq_true] at hr
          exact ⟨b, List.mem_cons_self, r, hr.1, hr.2.1, rfl⟩
      | defn d => exact Or.inl h1
      | usage us => exact Or.inl h1
      | panic => exact Or.inl h1
    · exact Or.inr ⟨b, List.mem_cons_of_mem _ hb, r, hr, hc, hu⟩

theorem preState_undeclared (cl : Bool) (st : Index) (f : Path) (v : Version) (fr : FileRec) :
    alookup (preState cl st f v fr).undeclared f = none := by
  unfold preState
  cases cl
  · simp [clearFile, alookup_aerase_self]
  · simp only [if_true]
    unfold cleanupDefs
    split <;> simp [clearFile, alookup_aerase_self]

/-- **C19 (undeclared-fixture diagnostics are about the latest content).** After a document's
    valid version has been analysed, every undeclared-fixture finding held for it — hence every
    such diagnostic published next — is a name reference of a function body of THAT version, at
    that reference's own line and columns: nothing of an earlier version survives. -/
theorem C19_undeclared_latest (pfx : Path) (cl : Bool) (st : Index) (f : Path) (v : Version) (fr : FileRec)
    (hv : v.parsed = some fr) (u : Undeclared)
    (h : u ∈ (alookup (analyze pfx cl st f v).1.undeclared f).getD []) :
    ∃ b, Event.scan b ∈ fr.events ∧ ∃ r ∈ b.refs, b.candidate r = true ∧
      u = Undeclared.mk r.name f r.line r.startChar r.endChar b.fnName b.fnLine := by
  rw [analyze_eq pfx cl st f v fr hv] at h
  rcases foldl_undeclared_from pfx f fr.events _ u h with h1 | h2
  · rw [preState_undeclared] at h1; cases h1
  · exact h2

/-- **C19 (removing the cause clears the diagnostic on the next change).** If no function body of
    the new version mentions the name any more, no undeclared-fixture diagnostic for that name is
    published after the change — whatever was published before. -/
theorem C19_clears_undeclared (pfx : Path) (st : Index) (dis : List String) (f : Path) (v : Version)
    (fr : FileRec) (hv : v.parsed = some fr) (n : String) (cy : List Cycle) (res : Def → String → Option Def)
    (hgone : ∀ b, Event.scan b ∈ fr.events → ∀ r ∈ b.refs, r.name ≠ n) :
    ∀ d ∈ (analyze pfx true st f v).1.hDiagnostics dis f cy res, d.code = "undeclared-fixture" →
      d.message ≠ "Fixture '" ++ n ++ "' is used but not declared as a parameter" := by
  intro d hd hcode hmsg
  unfold hDiagnostics at hd
  simp only [List.mem_append] at hd
  rcases hd with (hd | hd) | hd
  · split at hd
    · cases hd
    · obtain ⟨u, hu, rfl⟩ := List.mem_map.mp hd
      obtain ⟨b, hb, r, hr, _, rfl⟩ := C19_undeclared_latest pfx true st f v fr hv u hu
      simp only at hmsg
      have h1 : ("Fixture '" ++ r.name ++ "' is used but not declared as a parameter").toList =
          ("Fixture '" ++ n ++ "' is used but not declared as a parameter").toList := by rw [hmsg]
      simp only [String.toList_append] at h1
      have h2 := List.append_cancel_left (List.append_cancel_right h1)
      exact hgone b hb r hr (String.toList_inj.mp h2)
  · split at hd
    · cases hd
    · obtain ⟨u, _, rfl⟩ := List.mem_map.mp hd; simp at hcode
  · split at hd
    · cases hd
    · obtain ⟨u, _, rfl⟩ := List.mem_map.mp hd; simp at hcode

/-- **C19 (scope-mismatch diagnostics are anchored in the latest content).** After a valid
    version of `f` has been analysed (bookkeeping invariant of C06 assumed of the state before),
    every scope-mismatch diagnostic published for `f` is anchored at a fixture definition of that
    version, and is a real scope inversion against the definition the resolver selects for one of
    its dependencies — for the resolver the code uses (`scopeRes`), a definition currently in the
    index. -/
theorem C19_mismatch_latest (pfx : Path) (st : Index) (f : Path) (v : Version) (fr : FileRec)
    (hv : v.parsed = some fr) (hinv : DefsTracked st) (imp : Path → String → Bool)
    (fd dd : Def)
    (h : (fd, dd) ∈ mismatchesIn (analyze pfx true st f v).1.defs
        (scopeRes (analyze pfx true st f v).1.defs imp f)
        ((alookup (analyze pfx true st f v).1.fileDefs f).getD []) f) :
    fd ∈ (eventDefs fr.events).map (stampDef pfx st f) ∧
    dd ∈ (analyze pfx true st f v).1.defs ∧ dd.name ∈ fd.deps ∧ dd.scope < fd.scope := by
  obtain ⟨h1, h2, ⟨dep, hdep, hres⟩, h5⟩ := C16_mismatch_sound _ _ _ _ _ _ h
  obtain ⟨m1, m2, _⟩ := C16_scopeRes_mem _ imp f fd dd dep hres
  refine ⟨?_, m1, by rw [m2]; exact hdep, h5⟩
  rw [C06_defs_after_analyze pfx st f v fr hv hinv, List.mem_append] at h1
  rcases h1 with h1 | h1
  · have := (List.mem_filter.mp h1).2
    simp [h2] at this
  · exact h1

example : (Config.fromRaw (fun p => p != "[") { exclude := ["[", "build"], disabledDiagnostics := ["bogus", "scope-mismatch"] }) =
    { exclude := ["build"], disabledDiagnostics := ["scope-mismatch"] } := by decide

end PLS
