/-
  C16, "every dependency cycle in the workspace is reported at least once" — as a theorem about the
  explicit-stack DFS of `Model/Cycles.lean`, for every dependency graph, every root order and every
  closed chain of the graph.

  What a depth-first search with one global `visited` set can promise is not "every elementary
  cycle is listed" (it is not: two cycles through the same back edge, or with the same node set,
  give one report) but:

      for every closed dependency chain C there are two CONSECUTIVE fixtures u → v of C and a
      reported cycle whose de-duplication key is the key of a path through u and v.

  (`C16_every_cycle_is_hit`).  The proof is the finishing-order argument: when a fixture is marked
  visited, each of its dependencies is either visited already — hence earlier in the `visited` list —
  or was found on the recursion stack, and then the path's key was put into `seen`; around a closed
  chain the position in `visited` cannot decrease for ever, so one of its edges was such a back edge.
  `seen` and `cycles` move together (`rep`), and by `C16_reported_cycles_are_cycles` what is
  reported under that key is a real closed chain.
-/
import PLS.Props.C16T
namespace PLS
namespace DfsC
open DfsT DfsS

/-! ### position in the `visited` list (the finishing order) -/

def pos : List String → String → Nat
  | [], _ => 0
  | y :: ys, x => if y = x then 0 else pos ys x + 1

theorem pos_lt_of_mem (l : List String) (x : String) (h : x ∈ l) : pos l x < l.length := by
  induction l with
  | nil => cases h
  | cons y ys ih =>
    unfold pos
    by_cases hy : y = x
    · simp [hy]
    · simp only [hy, if_false, List.length_cons]
      have : x ∈ ys := by
        rcases List.mem_cons.mp h with h | h
        · exact absurd h.symm hy
        · exact h
      have := ih this
      omega

theorem mem_of_pos_lt (l : List String) (x : String) (h : pos l x < l.length) : x ∈ l := by
  induction l with
  | nil => simp at h
  | cons y ys ih =>
    unfold pos at h
    by_cases hy : y = x
    · rw [hy]; exact List.mem_cons_self
    · simp only [hy, if_false, List.length_cons] at h
      exact List.mem_cons_of_mem _ (ih (by omega))

theorem pos_append_mem (l m : List String) (x : String) (h : x ∈ l) : pos (l ++ m) x = pos l x := by
  induction l with
  | nil => cases h
  | cons y ys ih =>
    simp only [List.cons_append]
    unfold pos
    by_cases hy : y = x
    · simp [hy]
    · simp only [hy, if_false]
      have : x ∈ ys := by
        rcases List.mem_cons.mp h with h | h
        · exact absurd h.symm hy
        · exact h
      rw [ih this]

theorem pos_append_new (l : List String) (x : String) (h : x ∉ l) : pos (l ++ [x]) x = l.length := by
  induction l with
  | nil => simp [pos]
  | cons y ys ih =>
    simp only [List.cons_append]
    unfold pos
    have hy : y ≠ x := fun e => h (by rw [e]; exact List.mem_cons_self)
    simp only [hy, if_false, List.length_cons]
    rw [ih (fun hm => h (List.mem_cons_of_mem _ hm))]

/-- `y` finished before `x` -/
def Before (l : List String) (y x : String) : Prop := pos l y < pos l x

theorem setInsert_eq_of_mem (l : List String) (c : String) (h : c ∈ l) : setInsert l c = l := by
  unfold setInsert
  rw [if_pos (List.contains_iff_mem.mpr h)]

theorem setInsert_eq_of_not_mem (l : List String) (c : String) (h : c ∉ l) : setInsert l c = l ++ [c] := by
  unfold setInsert
  have : l.contains c = false := by
    cases hc : l.contains c with
    | false => rfl
    | true => exact absurd (List.contains_iff_mem.mp hc) h
  rw [this]; rfl

theorem before_setInsert_old (l : List String) (c y x : String) (hx : x ∈ l) (h : Before l y x) :
    Before (setInsert l c) y x := by
  by_cases hc : c ∈ l
  · rw [setInsert_eq_of_mem l c hc]; exact h
  · rw [setInsert_eq_of_not_mem l c hc]
    unfold Before at *
    have hxl := pos_lt_of_mem l x hx
    have hy : y ∈ l := mem_of_pos_lt l y (by omega)
    rw [pos_append_mem l [c] x hx, pos_append_mem l [c] y hy]
    exact h

theorem before_setInsert_new (l : List String) (c y : String) (hy : y ∈ l) (hc : c ∉ l) :
    Before (setInsert l c) y c := by
  rw [setInsert_eq_of_not_mem l c hc]
  unfold Before
  rw [pos_append_mem l [c] y hy, pos_append_new l c hc]
  exact pos_lt_of_mem l y hy

/-! ### the invariant -/

/-- the edge `x → y` was seen as a back edge: the key of a path through both is in `seen` -/
def KeyHit (ix : List Def) (seen : List String) (x y : String) : Prop :=
  ∃ cp : List String, x ∈ cp.dropLast ∧ y ∈ cp.dropLast ∧ (∀ z ∈ cp.dropLast, z ∈ namesOf ix) ∧ cycleKey cp ∈ seen

def DepDone (ix : List Def) (vis seen : List String) (x y : String) : Prop := y ∈ vis ∨ KeyHit ix seen x y

/-- every frame has dealt with the dependencies before its index: visited, or a recorded back edge,
    or — for the last one only — being explored by the frame directly above -/
def FramesDone (ix : List Def) (vis seen : List String) : Option String → List Frame → Prop
  | _, [] => True
  | above, f :: rest =>
    (∀ j y, j < f.2.1 → (cyDeps ix f.1)[j]? = some y →
        DepDone ix vis seen f.1 y ∨ (j + 1 = f.2.1 ∧ above = some y)) ∧
    FramesDone ix vis seen (some f.1) rest

structure Inv3 (ix : List Def) (s : Dfs) : Prop where
  black : ∀ x ∈ s.visited, ∀ y ∈ cyDeps ix x, Before s.visited y x ∨ KeyHit ix s.seen x y
  frames : FramesDone ix s.visited s.seen none s.stack
  rep : ∀ k ∈ s.seen, ∃ c ∈ s.cycles, cycleKey c.path = k

theorem keyHit_mono {ix : List Def} {seen seen' : List String} (h : ∀ k ∈ seen, k ∈ seen') {x y : String}
    (hk : KeyHit ix seen x y) : KeyHit ix seen' x y := by
  obtain ⟨cp, h1, h2, hn, h3⟩ := hk
  exact ⟨cp, h1, h2, hn, h _ h3⟩

theorem depDone_mono {ix : List Def} {vis vis' seen seen' : List String} (hv : ∀ k ∈ vis, k ∈ vis') (hs : ∀ k ∈ seen, k ∈ seen')
    {x y : String} (h : DepDone ix vis seen x y) : DepDone ix vis' seen' x y := by
  rcases h with h | h
  · exact Or.inl (hv _ h)
  · exact Or.inr (keyHit_mono hs h)

theorem frames_mono (ix : List Def) {vis vis' seen seen' : List String} (hv : ∀ k ∈ vis, k ∈ vis')
    (hs : ∀ k ∈ seen, k ∈ seen') : ∀ (st : List Frame) (a : Option String),
    FramesDone ix vis seen a st → FramesDone ix vis' seen' a st := by
  intro st
  induction st with
  | nil => intro _ _; trivial
  | cons f rest ih =>
    intro a h
    refine ⟨?_, ih _ h.2⟩
    intro j y hj hy
    rcases h.1 j y hj hy with h1 | h1
    · exact Or.inl (depDone_mono hv hs h1)
    · exact Or.inr h1

/-- the frame above has finished: what it was exploring is now visited -/
theorem frames_pop (ix : List Def) {vis vis' seen : List String} (cur : String) (hv : ∀ k ∈ vis, k ∈ vis')
    (hcur : cur ∈ vis') (st : List Frame) (h : FramesDone ix vis seen (some cur) st) :
    FramesDone ix vis' seen none st := by
  cases st with
  | nil => trivial
  | cons f rest =>
    refine ⟨?_, frames_mono ix hv (fun _ hk => hk) rest _ h.2⟩
    intro j y hj hy
    rcases h.1 j y hj hy with h1 | ⟨_, h1⟩
    · exact Or.inl (depDone_mono hv (fun _ hk => hk) h1)
    · have : cur = y := by simpa using h1
      subst this
      exact Or.inl (Or.inl hcur)

/-! ### one iteration, described field by field -/

local macro "rt!" : term => `(by first | rfl | trivial)


theorem cyDef_some_of_dep (ix : List Def) (cur dep : String) (h : dep ∈ cyDeps ix cur) :
    ∃ d, cyDef ix dep = some d := by
  unfold cyDeps at h
  split at h
  · cases h
  · rename_i d0 _
    have hany := (List.mem_filter.mp h).2
    obtain ⟨d, hd, hn⟩ := List.any_eq_true.mp hany
    have hmem : d ∈ defsOf ix dep := List.mem_filter.mpr ⟨hd, hn⟩
    unfold cyDef
    cases hh : (defsOf ix dep) with
    | nil => rw [hh] at hmem; cases hmem
    | cons a l => exact ⟨a, rfl⟩

theorem step_desc (ix : List Def) (s : Dfs) (cur : String) (idx : Nat) (path : List String)
    (rest : List Frame) (hs : s.stack = (cur, idx, path) :: rest) :
    let path' := if (idx == 0) = true then path ++ [cur] else path
    let rs' := if (idx == 0) = true then setInsert s.recStack cur else s.recStack
    let dep := (cyDeps ix cur)[idx]!
    let cp := path'.drop ((indexOf? path' dep).getD 0) ++ [dep]
    (¬ idx < (cyDeps ix cur).length ∧ (dfsStep ix s).stack = rest ∧
        (dfsStep ix s).visited = setInsert s.visited cur ∧ (dfsStep ix s).seen = s.seen ∧
        (dfsStep ix s).cycles = s.cycles) ∨
    (idx < (cyDeps ix cur).length ∧ rs'.contains dep = true ∧
        (dfsStep ix s).stack = (cur, idx + 1, path') :: rest ∧ (dfsStep ix s).visited = s.visited ∧
        ((cycleKey cp ∈ s.seen ∧ (dfsStep ix s).seen = s.seen ∧ (dfsStep ix s).cycles = s.cycles) ∨
         ((dfsStep ix s).seen = s.seen ++ [cycleKey cp] ∧
            ∀ d, cyDef ix dep = some d → (dfsStep ix s).cycles = s.cycles ++ [⟨cp, d⟩]))) ∨
    (idx < (cyDeps ix cur).length ∧ rs'.contains dep = false ∧ s.visited.contains dep = false ∧
        (dfsStep ix s).stack = (dep, 0, path') :: (cur, idx + 1, path') :: rest ∧
        (dfsStep ix s).visited = s.visited ∧ (dfsStep ix s).seen = s.seen ∧ (dfsStep ix s).cycles = s.cycles) ∨
    (idx < (cyDeps ix cur).length ∧ rs'.contains dep = false ∧ s.visited.contains dep = true ∧
        (dfsStep ix s).stack = (cur, idx + 1, path') :: rest ∧
        (dfsStep ix s).visited = s.visited ∧ (dfsStep ix s).seen = s.seen ∧ (dfsStep ix s).cycles = s.cycles) := by
  unfold dfsStep
  simp only [hs]
  by_cases h0 : (idx == 0) = true
  · simp only [h0, if_true]
    by_cases hlt : idx < (cyDeps ix cur).length
    · simp only [hlt, if_true]
      by_cases hc : (setInsert s.recStack cur).contains (cyDeps ix cur)[idx]! = true
      · simp only [hc, if_true]
        right; left
        refine ⟨rt!, rt!, ?_⟩
        by_cases hk : s.seen.contains (cycleKey (List.drop ((indexOf? (path ++ [cur]) (cyDeps ix cur)[idx]!).getD 0) (path ++ [cur]) ++ [(cyDeps ix cur)[idx]!])) = true
        · simp only [hk, if_true]
          exact ⟨rt!, rt!, Or.inl ⟨List.contains_iff_mem.mp hk, rt!, rt!⟩⟩
        · have hk' : s.seen.contains (cycleKey (List.drop ((indexOf? (path ++ [cur]) (cyDeps ix cur)[idx]!).getD 0) (path ++ [cur]) ++ [(cyDeps ix cur)[idx]!])) = false := by simpa using hk
          simp only [hk', Bool.false_eq_true, if_false]
          split
          · rename_i d hd
            refine ⟨rt!, rt!, Or.inr ⟨rt!, ?_⟩⟩
            intro d' hd'
            rw [hd] at hd'
            cases hd'
            rfl
          · rename_i hd
            refine ⟨rt!, rt!, Or.inr ⟨rt!, ?_⟩⟩
            intro d' hd'
            rw [hd] at hd'
            cases hd'
      · have hc' : (setInsert s.recStack cur).contains (cyDeps ix cur)[idx]! = false := by simpa using hc
        simp only [hc', Bool.false_eq_true, if_false]
        by_cases hv : s.visited.contains (cyDeps ix cur)[idx]! = true
        · right; right; right
          simp only [hv, Bool.not_true, Bool.false_eq_true, if_false]
          exact ⟨rt!, rt!, rt!, rt!, rt!, rt!, rt!⟩
        · have hv' : s.visited.contains (cyDeps ix cur)[idx]! = false := by simpa using hv
          right; right; left
          simp only [hv', Bool.not_false, if_true]
          exact ⟨rt!, rt!, rt!, rt!, rt!, rt!, rt!⟩
    · simp only [hlt, if_false]
      left
      exact ⟨fun h => h, rt!, rt!, rt!, rt!⟩
  · have h0' : (idx == 0) = false := by simpa using h0
    simp only [h0', Bool.false_eq_true, if_false]
    by_cases hlt : idx < (cyDeps ix cur).length
    · simp only [hlt, if_true]
      by_cases hc : s.recStack.contains (cyDeps ix cur)[idx]! = true
      · simp only [hc, if_true]
        right; left
        refine ⟨rt!, rt!, ?_⟩
        by_cases hk : s.seen.contains (cycleKey (List.drop ((indexOf? path (cyDeps ix cur)[idx]!).getD 0) path ++ [(cyDeps ix cur)[idx]!])) = true
        · simp only [hk, if_true]
          exact ⟨rt!, rt!, Or.inl ⟨List.contains_iff_mem.mp hk, rt!, rt!⟩⟩
        · have hk' : s.seen.contains (cycleKey (List.drop ((indexOf? path (cyDeps ix cur)[idx]!).getD 0) path ++ [(cyDeps ix cur)[idx]!])) = false := by simpa using hk
          simp only [hk', Bool.false_eq_true, if_false]
          split
          · rename_i d hd
            refine ⟨rt!, rt!, Or.inr ⟨rt!, ?_⟩⟩
            intro d' hd'
            rw [hd] at hd'
            cases hd'
            rfl
          · rename_i hd
            refine ⟨rt!, rt!, Or.inr ⟨rt!, ?_⟩⟩
            intro d' hd'
            rw [hd] at hd'
            cases hd'
      · have hc' : s.recStack.contains (cyDeps ix cur)[idx]! = false := by simpa using hc
        simp only [hc', Bool.false_eq_true, if_false]
        by_cases hv : s.visited.contains (cyDeps ix cur)[idx]! = true
        · right; right; right
          simp only [hv, Bool.not_true, Bool.false_eq_true, if_false]
          exact ⟨rt!, rt!, rt!, rt!, rt!, rt!, rt!⟩
        · have hv' : s.visited.contains (cyDeps ix cur)[idx]! = false := by simpa using hv
          right; right; left
          simp only [hv', Bool.not_false, if_true]
          exact ⟨rt!, rt!, rt!, rt!, rt!, rt!, rt!⟩
    · simp only [hlt, if_false]
      left
      exact ⟨fun h => h, rt!, rt!, rt!, rt!⟩

theorem getElem?_bang (l : List String) (i : Nat) (y : String) (h : l[i]? = some y) : l[i]! = y := by
  obtain ⟨hlt, hget⟩ := List.getElem?_eq_some_iff.mp h
  rw [getElem!_pos l i hlt]; exact hget

theorem chain_names (ix : List Def) : ∀ (l : List String) (a : String), Chain ix (a :: l) → a ∈ namesOf ix →
    ∀ x ∈ a :: l, x ∈ namesOf ix := by
  intro l
  induction l with
  | nil => intro a _ ha x hx; simp only [List.mem_singleton] at hx; rw [hx]; exact ha
  | cons b m ih =>
    intro a hch ha x hx
    rcases List.mem_cons.mp hx with hx | hx
    · rw [hx]; exact ha
    · exact ih b (chain_tail hch) (deps_in_names ix a b hch.1) x hx

/-- a path through `cur` and `dep`, as reported for the back edge `cur → dep` -/
theorem backedge_hit (ix : List Def) (path' : List String) (cur dep : String) (hch : Chain ix path')
    (hdepname : dep ∈ namesOf ix) (hlast : path'.getLast? = some cur) (hmem : dep ∈ path') :
    cur ∈ (path'.drop ((indexOf? path' dep).getD 0) ++ [dep]).dropLast ∧
    dep ∈ (path'.drop ((indexOf? path' dep).getD 0) ++ [dep]).dropLast ∧
    ∀ z ∈ (path'.drop ((indexOf? path' dep).getD 0) ++ [dep]).dropLast, z ∈ namesOf ix := by
  rw [List.dropLast_concat]
  obtain ⟨i, hi, hget⟩ := indexOf_some path' dep hmem
  rw [hi, Option.getD_some]
  have hilt : i < path'.length := by
    rcases List.getElem?_eq_some_iff.mp hget with ⟨h, _⟩; exact h
  have hhead : (path'.drop i).head? = some dep := by rw [List.head?_drop, hget]
  refine ⟨?_, ?_, ?_⟩
  · apply List.mem_of_getLast?
    rw [List.getLast?_drop]
    simp [hlast]; omega
  · apply List.mem_of_mem_head?
    rw [hhead]; rfl
  · have hc := chain_drop path' i hch
    cases hd : path'.drop i with
    | nil => intro z hz; cases hz
    | cons a m =>
      rw [hd] at hhead hc
      have : a = dep := by simpa using hhead
      subst this
      exact chain_names ix m a hc hdepname

/-- **the invariant is preserved by every iteration** -/
theorem inv3_step (ix : List Def) (s : Dfs) (h2 : Inv2 ix (proj s)) (h3 : Inv3 ix s) (hne : s.stack ≠ []) :
    Inv3 ix (dfsStep ix s) := by
  cases hs : s.stack with
  | nil => exact absurd hs hne
  | cons fr rest =>
    obtain ⟨cur, idx, path⟩ := fr
    obtain ⟨hchain, hlast, hrs⟩ := top_facts h2 cur idx path rest hs
    have hF := h3.frames
    rw [hs] at hF
    obtain ⟨hFtop, hFrest⟩ := hF
    simp only at hFtop hFrest
    -- the top frame has nothing above it
    have hdone : ∀ j y, j < idx → (cyDeps ix cur)[j]? = some y → DepDone ix s.visited s.seen cur y := by
      intro j y hj hy
      rcases hFtop j y hj hy with h | ⟨_, h⟩
      · exact h
      · cases h
    rcases step_desc ix s cur idx path rest hs with
      ⟨hlt, hst, hv, hse, hcy⟩ | ⟨hlt, hc, hst, hv, hsc⟩ | ⟨hlt, hc, hnv, hst, hv, hse, hcy⟩ | ⟨hlt, hc, hnv, hst, hv, hse, hcy⟩
    · -- finished: `cur` becomes visited
      have hsub : ∀ k ∈ s.visited, k ∈ setInsert s.visited cur := fun k hk => (mem_setInsert _ _ _).mpr (Or.inl hk)
      have hcurin : cur ∈ setInsert s.visited cur := (mem_setInsert _ _ _).mpr (Or.inr rfl)
      refine ⟨?_, ?_, ?_⟩
      · rw [hv, hse]
        intro x hx y hy
        by_cases hxv : x ∈ s.visited
        · rcases h3.black x hxv y hy with h | h
          · exact Or.inl (before_setInsert_old _ _ _ _ hxv h)
          · exact Or.inr h
        · have hxc : x = cur := by
            rcases (mem_setInsert _ _ _).mp hx with h | h
            · exact absurd h hxv
            · exact h
          subst hxc
          obtain ⟨j, hj⟩ := List.mem_iff_getElem?.mp hy
          have hjlt : j < (cyDeps ix x).length := by
            rcases List.getElem?_eq_some_iff.mp hj with ⟨h, _⟩; exact h
          rcases hdone j y (by omega) hj with h | h
          · exact Or.inl (before_setInsert_new _ _ _ h hxv)
          · exact Or.inr h
      · rw [hst, hv, hse]
        exact frames_pop ix cur hsub hcurin rest hFrest
      · rw [hse, hcy]; exact h3.rep
    · -- a dependency on the recursion stack: the key is (or already was) in `seen`
      have hdepmem : (cyDeps ix cur)[idx]! ∈ (if (idx == 0) = true then path ++ [cur] else path) :=
        hrs _ (List.contains_iff_mem.mp hc)
      have hdep_in0 : (cyDeps ix cur)[idx]! ∈ cyDeps ix cur := by
        rw [getElem!_pos (cyDeps ix cur) idx hlt]; exact List.getElem_mem hlt
      obtain ⟨hh1, hh2, hh3⟩ := backedge_hit ix _ cur _ hchain (deps_in_names ix cur _ hdep_in0) hlast hdepmem
      have hseen_sub : ∀ k ∈ s.seen, k ∈ (dfsStep ix s).seen := by
        intro k hk
        rcases hsc with ⟨_, h, _⟩ | ⟨h, _⟩
        · rw [h]; exact hk
        · rw [h]; exact List.mem_append_left _ hk
      have hkey : KeyHit ix (dfsStep ix s).seen cur (cyDeps ix cur)[idx]! := by
        refine ⟨_, hh1, hh2, hh3, ?_⟩
        rcases hsc with ⟨hin, h, _⟩ | ⟨h, _⟩
        · rw [h]; exact hin
        · rw [h]; exact List.mem_append_right _ (List.mem_singleton.mpr rfl)
      refine ⟨?_, ?_, ?_⟩
      · rw [hv]
        intro x hx y hy
        rcases h3.black x hx y hy with h | h
        · exact Or.inl h
        · exact Or.inr (keyHit_mono hseen_sub h)
      · rw [hst, hv]
        refine ⟨?_, frames_mono ix (fun _ h => h) hseen_sub rest _ hFrest⟩
        intro j y hj hy
        by_cases hji : j < idx
        · exact Or.inl (depDone_mono (fun _ h => h) hseen_sub (hdone j y hji hy))
        · have hje : j = idx := by simp only at hj; omega
          subst hje
          have := getElem?_bang _ _ _ hy
          rw [this] at hkey
          exact Or.inl (Or.inr hkey)
      · intro k hk
        rcases hsc with ⟨_, h, hc2⟩ | ⟨h, hc2⟩
        · rw [h] at hk; rw [hc2]; exact h3.rep k hk
        · rw [h] at hk
          have hdep_in : (cyDeps ix cur)[idx]! ∈ cyDeps ix cur := by
            rw [getElem!_pos (cyDeps ix cur) idx hlt]; exact List.getElem_mem hlt
          obtain ⟨d, hd⟩ := cyDef_some_of_dep ix cur _ hdep_in
          rw [hc2 d hd]
          rcases List.mem_append.mp hk with hk | hk
          · obtain ⟨c, hcm, hck⟩ := h3.rep k hk
            exact ⟨c, List.mem_append_left _ hcm, hck⟩
          · have : k = _ := List.mem_singleton.mp hk
            exact ⟨_, List.mem_append_right _ (List.mem_singleton.mpr rfl), this.symm⟩
    · -- an unvisited dependency: explored by a new frame on top
      refine ⟨?_, ?_, ?_⟩
      · rw [hv, hse]; exact h3.black
      · rw [hst, hv, hse]
        refine ⟨?_, ?_, hFrest⟩
        · intro j y hj _; simp only at hj; omega
        · intro j y hj hy
          by_cases hji : j < idx
          · exact Or.inl (hdone j y hji hy)
          · have hje : j = idx := by simp only at hj; omega
            subst hje
            exact Or.inr ⟨rfl, by rw [getElem?_bang _ _ _ hy]⟩
      · rw [hse, hcy]; exact h3.rep
    · -- a visited dependency
      refine ⟨?_, ?_, ?_⟩
      · rw [hv, hse]; exact h3.black
      · rw [hst, hv, hse]
        refine ⟨?_, hFrest⟩
        intro j y hj hy
        by_cases hji : j < idx
        · exact Or.inl (hdone j y hji hy)
        · have hje : j = idx := by simp only at hj; omega
          subst hje
          have := getElem?_bang _ _ _ hy
          rw [this] at hnv
          exact Or.inl (Or.inl (List.contains_iff_mem.mp hnv))
      · rw [hse, hcy]; exact h3.rep

/-! ### the whole loop, and the loop over the roots -/

/-- the root of the running DFS is visited, or still the bottom frame of the stack -/
def RootInv (r : String) (s : Dfs) : Prop :=
  r ∈ s.visited ∨ ∃ f, s.stack.getLast? = some f ∧ f.1 = r

theorem visited_step_sub (ix : List Def) (s : Dfs) : ∀ k ∈ s.visited, k ∈ (dfsStep ix s).visited := by
  intro k hk
  cases hs : s.stack with
  | nil =>
    have : dfsStep ix s = s := by unfold dfsStep; simp [hs]
    rw [this]; exact hk
  | cons fr rest =>
    obtain ⟨cur, idx, path⟩ := fr
    rcases step_desc ix s cur idx path rest hs with
      ⟨_, _, hv, _⟩ | ⟨_, _, _, hv, _⟩ | ⟨_, _, _, _, hv, _⟩ | ⟨_, _, _, _, hv, _⟩
    · rw [hv]; exact (mem_setInsert _ _ _).mpr (Or.inl hk)
    · rw [hv]; exact hk
    · rw [hv]; exact hk
    · rw [hv]; exact hk

theorem getLast?_cons_ne (f : Frame) (rest : List Frame) (h : rest ≠ []) : (f :: rest).getLast? = rest.getLast? := by
  cases rest with
  | nil => exact absurd rfl h
  | cons a l => exact List.getLast?_cons_cons

theorem rootInv_step (ix : List Def) (r : String) (s : Dfs) (h : RootInv r s) : RootInv r (dfsStep ix s) := by
  rcases h with h | ⟨f, hf, hfr⟩
  · exact Or.inl (visited_step_sub ix s r h)
  · cases hs : s.stack with
    | nil => rw [hs] at hf; cases hf
    | cons fr rest =>
      obtain ⟨cur, idx, path⟩ := fr
      rw [hs] at hf
      rcases step_desc ix s cur idx path rest hs with
        ⟨_, hst, hv, _⟩ | ⟨_, _, hst, _⟩ | ⟨_, _, _, hst, _⟩ | ⟨_, _, _, hst, _⟩
      · by_cases hr : rest = []
        · subst hr
          have : f = (cur, idx, path) := by simpa using hf.symm
          left
          rw [hv]
          apply (mem_setInsert _ _ _).mpr
          right
          rw [← hfr, this]
        · right
          rw [getLast?_cons_ne _ _ hr] at hf
          exact ⟨f, by rw [hst]; exact hf, hfr⟩
      · right
        by_cases hr : rest = []
        · subst hr
          have : f = (cur, idx, path) := by simpa using hf.symm
          exact ⟨(cur, idx + 1, _), by rw [hst]; rfl, by rw [← hfr, this]⟩
        · rw [getLast?_cons_ne _ _ hr] at hf
          exact ⟨f, by rw [hst, getLast?_cons_ne _ _ hr]; exact hf, hfr⟩
      · right
        by_cases hr : rest = []
        · subst hr
          have : f = (cur, idx, path) := by simpa using hf.symm
          exact ⟨(cur, idx + 1, _), by rw [hst]; rfl, by rw [← hfr, this]⟩
        · rw [getLast?_cons_ne _ _ hr] at hf
          refine ⟨f, ?_, hfr⟩
          rw [hst, List.getLast?_cons_cons, getLast?_cons_ne _ _ hr]; exact hf
      · right
        by_cases hr : rest = []
        · subst hr
          have : f = (cur, idx, path) := by simpa using hf.symm
          exact ⟨(cur, idx + 1, _), by rw [hst]; rfl, by rw [← hfr, this]⟩
        · rw [getLast?_cons_ne _ _ hr] at hf
          exact ⟨f, by rw [hst, getLast?_cons_ne _ _ hr]; exact hf, hfr⟩

theorem run_inv (ix : List Def) (r : String) : ∀ (fuel : Nat) (s : Dfs), Inv2 ix (proj s) → Inv3 ix s → RootInv r s →
    Inv3 ix (dfsRun ix fuel s) ∧ RootInv r (dfsRun ix fuel s) ∧
      (∀ k ∈ s.visited, k ∈ (dfsRun ix fuel s).visited) := by
  intro fuel
  induction fuel with
  | zero => intro s _ h3 hr; exact ⟨h3, hr, fun _ h => h⟩
  | succ f ih =>
    intro s h2 h3 hr
    rw [dfsRun_succ]
    by_cases he : s.stack.isEmpty = true
    · simp only [he, if_true]; exact ⟨h3, hr, fun _ h => h⟩
    · simp only [he]
      have hne : s.stack ≠ [] := by
        intro hnil
        apply he
        rw [hnil]; rfl
      have hne' : (proj s).stack ≠ [] := hne
      have h2' := inv2_step ix (namesOf ix) (deps_in_names ix) (proj s) h2 hne'
      rw [← proj_step] at h2'
      obtain ⟨a, b, c⟩ := ih (dfsStep ix s) h2' (inv3_step ix s h2 h3 hne) (rootInv_step ix r s hr)
      exact ⟨a, b, fun k hk => c k (visited_step_sub ix s k hk)⟩

theorem inv3_start (ix : List Def) (s : Dfs) (r : String) (h : Inv3 ix s) : Inv3 ix (start s r) := by
  refine ⟨h.black, ?_, h.rep⟩
  show FramesDone ix s.visited s.seen none [(r, 0, [])]
  refine ⟨?_, trivial⟩
  intro j y hj _
  simp only at hj
  omega

/-- the state after all roots: the invariant holds, the stack is empty, every root is visited -/
theorem roots_inv (ix : List Def) : ∀ (roots : List String), (∀ r ∈ roots, r ∈ namesOf ix) →
    ∀ (s0 : Dfs), Inv3 ix s0 → s0.stack = [] →
    let sF := roots.foldl (fun (s : Dfs) r =>
      if s.visited.contains r then s
      else dfsRun ix (cyFuel ix) { s with stack := [(r, 0, [])], recStack := [] }) s0
    Inv3 ix sF ∧ sF.stack = [] ∧ (∀ k ∈ s0.visited, k ∈ sF.visited) ∧ (∀ r ∈ roots, r ∈ sF.visited) := by
  intro roots
  induction roots with
  | nil => intro _ s0 h3 h0; exact ⟨h3, h0, fun _ h => h, fun _ h => by cases h⟩
  | cons r rs ih =>
    intro hroots s0 h3 h0
    simp only [List.foldl_cons]
    have hrs : ∀ x ∈ rs, x ∈ namesOf ix := fun x hx => hroots x (List.mem_cons_of_mem _ hx)
    by_cases hc : s0.visited.contains r = true
    · simp only [hc, if_true]
      obtain ⟨a, b, c, d⟩ := ih hrs s0 h3 h0
      refine ⟨a, b, c, ?_⟩
      intro x hx
      rcases List.mem_cons.mp hx with hx | hx
      · rw [hx]; exact c r (List.contains_iff_mem.mp hc)
      · exact d x hx
    · have hc' : s0.visited.contains r = false := by simpa using hc
      simp only [hc', Bool.false_eq_true, if_false]
      have hterm := C12_dfs_terminates ix s0 r (hroots r List.mem_cons_self)
      have hroot0 : RootInv r (start s0 r) := Or.inr ⟨(r, 0, []), rfl, rfl⟩
      obtain ⟨i3, hroot, hmono⟩ := run_inv ix r (cyFuel ix) (start s0 r) (inv2_start ix s0 r) (inv3_start ix s0 r h3) hroot0
      have hrvis : r ∈ (dfsRun ix (cyFuel ix) (start s0 r)).visited := by
        rcases hroot with h | ⟨f, hf, _⟩
        · exact h
        · rw [hterm] at hf; cases hf
      obtain ⟨a, b, c, d⟩ := ih hrs (dfsRun ix (cyFuel ix) (start s0 r)) i3 hterm
      refine ⟨a, b, fun k hk => c k (hmono k hk), ?_⟩
      intro x hx
      rcases List.mem_cons.mp hx with hx | hx
      · rw [hx]; exact c r hrvis
      · exact d x hx

/-! ### around a closed chain the finishing position cannot decrease for ever -/

/-- `u`, `v` are consecutive entries of `l` -/
def Pair (u v : String) (l : List String) : Prop := ∃ l1 l2, l = l1 ++ u :: v :: l2

theorem pair_cons {u v a : String} {l : List String} (h : Pair u v l) : Pair u v (a :: l) := by
  obtain ⟨l1, l2, h⟩ := h
  exact ⟨a :: l1, l2, by rw [h]; rfl⟩

theorem chain_descends (ix : List Def) (vis seen : List String)
    (hblack : ∀ x ∈ vis, ∀ y ∈ cyDeps ix x, Before vis y x ∨ KeyHit ix seen x y) :
    ∀ (l : List String) (a : String), Chain ix (a :: l) → (∀ x ∈ a :: l, x ∈ vis) →
      (∀ u v, Pair u v (a :: l) → ¬ KeyHit ix seen u v) → l ≠ [] →
      ∀ z, (a :: l).getLast? = some z → pos vis z < pos vis a := by
  intro l
  induction l with
  | nil => intro _ _ _ _ h; exact absurd rfl h
  | cons b rest ih =>
    intro a hch hvis hno _ z hz
    have hedge : b ∈ cyDeps ix a := hch.1
    have hab : pos vis b < pos vis a := by
      rcases hblack a (hvis a List.mem_cons_self) b hedge with h | h
      · exact h
      · exact absurd h (hno a b ⟨[], rest, rfl⟩)
    by_cases hr : rest = []
    · subst hr
      have : z = b := by simpa using hz.symm
      rw [this]; exact hab
    · have hz' : (b :: rest).getLast? = some z := by
        rw [List.getLast?_cons_cons] at hz; exact hz
      have := ih b (chain_tail hch) (fun x hx => hvis x (List.mem_cons_of_mem _ hx))
        (fun u v hp => hno u v (pair_cons hp)) hr z hz'
      omega

/-! ### the de-duplication key determines the set of fixtures on the path (names without commas) -/

theorem split_unique (c : Char) : ∀ (a b r r' : List Char), c ∉ a → c ∉ b →
    a ++ c :: r = b ++ c :: r' → a = b ∧ r = r' := by
  intro a
  induction a with
  | nil =>
    intro b r r' _ hb h
    cases b with
    | nil => simp at h; exact ⟨rfl, h⟩
    | cons y b' =>
      simp only [List.nil_append, List.cons_append, List.cons.injEq] at h
      exact absurd (by rw [h.1]; exact List.mem_cons_self) hb
  | cons x a' ih =>
    intro b r r' ha hb h
    cases b with
    | nil =>
      simp only [List.nil_append, List.cons_append, List.cons.injEq] at h
      exact absurd (by rw [← h.1]; exact List.mem_cons_self) ha
    | cons y b' =>
      simp only [List.cons_append, List.cons.injEq] at h
      obtain ⟨e1, e2⟩ := ih b' r r' (fun hm => ha (List.mem_cons_of_mem _ hm))
        (fun hm => hb (List.mem_cons_of_mem _ hm)) h.2
      exact ⟨by rw [h.1, e1], e2⟩

theorem inter_inj (c : Char) : ∀ (L M : List (List Char)), L ≠ [] → M ≠ [] →
    (∀ a ∈ L, c ∉ a) → (∀ b ∈ M, c ∉ b) → [c].intercalate L = [c].intercalate M → L = M := by
  intro L
  induction L with
  | nil => intro _ h; exact absurd rfl h
  | cons a L' ih =>
    intro M _ hM hL hMc h
    cases M with
    | nil => exact absurd rfl hM
    | cons b M' =>
      cases L' with
      | nil =>
        cases M' with
        | nil => simp only [List.intercalate_singleton] at h; rw [h]
        | cons b2 M2 =>
          simp only [List.intercalate_singleton, List.intercalate_cons_cons] at h
          exact absurd (by rw [h]; simp) (hL a List.mem_cons_self)
      | cons a2 L2 =>
        cases M' with
        | nil =>
          simp only [List.intercalate_singleton, List.intercalate_cons_cons] at h
          exact absurd (by rw [← h]; simp) (hMc b List.mem_cons_self)
        | cons b2 M2 =>
          simp only [List.intercalate_cons_cons, List.append_assoc, List.singleton_append] at h
          obtain ⟨e1, e2⟩ := split_unique c a b _ _ (hL a List.mem_cons_self) (hMc b List.mem_cons_self) h
          have := ih (b2 :: M2) (by simp) (by simp) (fun x hx => hL x (List.mem_cons_of_mem _ hx))
            (fun x hx => hMc x (List.mem_cons_of_mem _ hx)) e2
          rw [e1, this]

theorem mem_insertS (x y : String) (l : List String) : y ∈ insertS x l ↔ y = x ∨ y ∈ l := by
  induction l with
  | nil => simp [insertS]
  | cons z zs ih =>
    unfold insertS
    split
    · simp
    · simp only [List.mem_cons, ih]
      constructor
      · rintro (h | h | h)
        · exact Or.inr (Or.inl h)
        · exact Or.inl h
        · exact Or.inr (Or.inr h)
      · rintro (h | h | h)
        · exact Or.inr (Or.inl h)
        · exact Or.inl h
        · exact Or.inr (Or.inr h)

theorem mem_sorted (l : List String) (y : String) : y ∈ l.foldr insertS [] ↔ y ∈ l := by
  induction l with
  | nil => simp
  | cons x xs ih => simp only [List.foldr_cons, mem_insertS, ih, List.mem_cons]

/-- no fixture name of the index contains the separator of the key -/
def CommaFree (ix : List Def) : Prop := ∀ n ∈ namesOf ix, ',' ∉ n.toList

theorem key_inj (ix : List Def) (hcf : CommaFree ix) (p q : List String)
    (hp : ∀ z ∈ p.dropLast, z ∈ namesOf ix) (hq : ∀ z ∈ q.dropLast, z ∈ namesOf ix)
    (hpn : p.dropLast ≠ []) (hqn : q.dropLast ≠ []) (h : cycleKey p = cycleKey q) :
    ∀ x, x ∈ p.dropLast ↔ x ∈ q.dropLast := by
  unfold cycleKey at h
  have h' := congrArg String.toList h
  rw [String.toList_intercalate, String.toList_intercalate] at h'
  have hc : ",".toList = [','] := rfl
  rw [hc] at h'
  have hne : ∀ l : List String, l ≠ [] → (l.foldr insertS []).map String.toList ≠ [] := by
    intro l hl
    cases l with
    | nil => exact absurd rfl hl
    | cons a m =>
      intro he
      have : a ∈ (a :: m).foldr insertS [] := (mem_sorted _ a).mpr List.mem_cons_self
      have := List.mem_map_of_mem (f := String.toList) this
      rw [he] at this; cases this
  have hfree : ∀ l : List String, (∀ z ∈ l, z ∈ namesOf ix) → ∀ a ∈ (l.foldr insertS []).map String.toList, ',' ∉ a := by
    intro l hl a ha
    obtain ⟨z, hz, rfl⟩ := List.mem_map.mp ha
    exact hcf z (hl z ((mem_sorted l z).mp hz))
  have heq := inter_inj ',' _ _ (hne _ hpn) (hne _ hqn) (hfree _ hp) (hfree _ hq) h'
  have heq' : p.dropLast.foldr insertS [] = q.dropLast.foldr insertS [] :=
    (List.map_inj_right (fun _ _ e => String.toList_injective e)).mp heq
  intro x
  rw [← mem_sorted p.dropLast x, ← mem_sorted q.dropLast x, heq']

theorem closed_names (ix : List Def) (C : List String) (hC : ClosedChain ix C) : ∀ x ∈ C, x ∈ namesOf ix := by
  obtain ⟨hlen, hhl, hchain⟩ := hC
  cases C with
  | nil => simp at hlen
  | cons a l =>
    have hl : l ≠ [] := by
      intro h; rw [h] at hlen; simp at hlen
    have hlast : (a :: l).getLast? = some a := by rw [← hhl]; rfl
    have htail : ∀ (m : List String) (b : String), Chain ix (b :: m) → ∀ x ∈ m, x ∈ namesOf ix := by
      intro m
      induction m with
      | nil => intro _ _ x hx; cases hx
      | cons c m ih =>
        intro b hch x hx
        rcases List.mem_cons.mp hx with hx | hx
        · rw [hx]; exact deps_in_names ix b c hch.1
        · exact ih c (chain_tail hch) x hx
    have ha : a ∈ l := by
      cases l with
      | nil => exact absurd rfl hl
      | cons b m =>
        rw [List.getLast?_cons_cons] at hlast
        exact List.mem_of_getLast? hlast
    intro x hx
    rcases List.mem_cons.mp hx with hx | hx
    · rw [hx]; exact htail l a hchain a ha
    · exact htail l a hchain x hx

end DfsC

open DfsC DfsS DfsT in
/-- **C16 (every dependency cycle is reported, up to the search's own de-duplication).** For every
    dependency graph, every root order that covers the graph's fixture names, and EVERY closed
    dependency chain `C` (self-loops, long cycles, cycles sharing fixtures, several components):
    there are two consecutive fixtures `u → v` of `C`, a path `cp` through both, and a reported
    cycle whose de-duplication key is the key of `cp`.  Together with
    `C16_reported_cycles_are_cycles` — what is reported is a real closed chain — a workspace has a
    dependency cycle if and only if `compute_fixture_cycles` reports one, and no cycle is disjoint
    from all reports. -/
theorem C16_every_cycle_is_hit (ix : List Def) (roots : List String)
    (hroots : ∀ r ∈ roots, r ∈ namesOf ix) (hall : ∀ n ∈ namesOf ix, n ∈ roots)
    (C : List String) (hC : ClosedChain ix C) :
    ∃ u v, Pair u v C ∧ ∃ cp : List String, u ∈ cp.dropLast ∧ v ∈ cp.dropLast ∧
      (∀ z ∈ cp.dropLast, z ∈ namesOf ix) ∧
      ∃ c ∈ computeCycles ix roots, cycleKey c.path = cycleKey cp := by
  have h0 : Inv3 ix ({} : Dfs) := by
    refine ⟨?_, trivial, ?_⟩
    · intro x hx; cases hx
    · intro k hk; cases hk
  obtain ⟨i3, _, _, hvis⟩ := roots_inv ix roots hroots {} h0 rfl
  -- the final state
  generalize hsF : (roots.foldl (fun (s : Dfs) r =>
      if s.visited.contains r then s
      else dfsRun ix (cyFuel ix) { s with stack := [(r, 0, [])], recStack := [] }) {}) = sF at i3 hvis
  have hcyc : computeCycles ix roots = sF.cycles := by unfold computeCycles; rw [hsF]
  obtain ⟨hlen, hhl, hchain⟩ := hC
  -- C = a :: l with l ≠ []
  cases C with
  | nil => simp at hlen
  | cons a l =>
    have hl : l ≠ [] := by
      intro h; rw [h] at hlen; simp at hlen
    -- every entry of C is a fixture name, hence a root, hence visited
    have hlast : (a :: l).getLast? = some a := by rw [← hhl]; rfl
    have hnames : ∀ x ∈ a :: l, x ∈ sF.visited := by
      have htail : ∀ (m : List String) (b : String), Chain ix (b :: m) → ∀ x ∈ m, x ∈ namesOf ix := by
        intro m
        induction m with
        | nil => intro _ _ x hx; cases hx
        | cons c m ih =>
          intro b hch x hx
          rcases List.mem_cons.mp hx with hx | hx
          · rw [hx]; exact deps_in_names ix b c hch.1
          · exact ih c (chain_tail hch) x hx
      have ha : a ∈ l := by
        have := List.mem_of_getLast? hlast
        cases l with
        | nil => exact absurd rfl hl
        | cons b m =>
          rw [List.getLast?_cons_cons] at hlast
          exact List.mem_of_getLast? hlast
      intro x hx
      apply hvis
      apply hall
      rcases List.mem_cons.mp hx with hx | hx
      · rw [hx]; exact htail l a hchain a ha
      · exact htail l a hchain x hx
    -- some consecutive pair was a back edge
    have hex : ∃ u v, Pair u v (a :: l) ∧ KeyHit ix sF.seen u v := by
      apply Classical.byContradiction
      intro hno
      have hno' : ∀ u v, Pair u v (a :: l) → ¬ KeyHit ix sF.seen u v :=
        fun u v hp hk => hno ⟨u, v, hp, hk⟩
      have := chain_descends ix sF.visited sF.seen i3.black l a hchain hnames hno' hl a hlast
      omega
    obtain ⟨u, v, hp, cp, h1, h2, hn, hk⟩ := hex
    obtain ⟨c, hc, hck⟩ := i3.rep _ hk
    exact ⟨u, v, hp, cp, h1, h2, hn, c, by rw [hcyc]; exact hc, hck⟩

open DfsC DfsS DfsT in
/-- **C16 (… in terms of fixtures, for names without a comma).** The de-duplication key is the
    comma-joined sorted list of the path's fixtures; when no fixture name contains a comma (every
    Python identifier; only a `name="a,b"` alias could) equal keys mean equal sets of fixtures, so:
    every closed dependency chain has two consecutive fixtures `u → v` that both lie on one
    reported cycle.  In particular no dependency cycle is disjoint from everything reported. -/
theorem C16_every_cycle_meets_a_report (ix : List Def) (roots : List String)
    (hroots : ∀ r ∈ roots, r ∈ namesOf ix) (hall : ∀ n ∈ namesOf ix, n ∈ roots) (hcf : CommaFree ix)
    (C : List String) (hC : ClosedChain ix C) :
    ∃ u v, Pair u v C ∧ ∃ c ∈ computeCycles ix roots, u ∈ c.path ∧ v ∈ c.path := by
  obtain ⟨u, v, hp, cp, h1, h2, hn, c, hc, hk⟩ := C16_every_cycle_is_hit ix roots hroots hall C hC
  obtain ⟨hclosed, _⟩ := C16_reported_cycles_are_cycles ix roots c hc
  have hcn : ∀ z ∈ c.path.dropLast, z ∈ namesOf ix :=
    fun z hz => closed_names ix c.path hclosed z (List.dropLast_subset _ hz)
  have hne1 : c.path.dropLast ≠ [] := by
    intro he
    have := congrArg List.length he
    have h2' := hclosed.1
    simp only [List.length_dropLast, List.length_nil] at this
    omega
  have hne2 : cp.dropLast ≠ [] := by
    intro he; rw [he] at h1; cases h1
  have hiff := key_inj ix hcf c.path cp hcn hn hne1 hne2 hk
  exact ⟨u, v, hp, c, hc, List.dropLast_subset _ ((hiff u).mpr h1), List.dropLast_subset _ ((hiff v).mpr h2)⟩

/-- a concrete cyclic graph: a ↔ b, and b also depends on itself -/
def demoDef (n : String) (ln : Nat) (deps : List String) : Def :=
  { name := n, file := ["f.py"], line := ln, endLine := ln, startChar := 4, endChar := 5, docstring := none,
    returnType := none, thirdParty := false, plugin := false, deps := deps, scope := .function,
    yieldLine := none, autouse := false }

def demoIx : List Def := [demoDef "a" 1 ["b"], demoDef "b" 2 ["a", "b"]]

/-- the hypotheses of the theorems are met by it: `a → b → a` is a closed chain of `demoIx` … -/
example : DfsS.ClosedChain demoIx ["a", "b", "a"] := by
  refine ⟨by decide, by decide, ?_, ?_, trivial⟩ <;> (unfold DfsS.Edge; decide)

/-- … and the search reports it (a test, by evaluation) -/
example : (computeCycles demoIx ["a", "b"]).map (·.path) = [["a", "b", "a"], ["b", "b"]] := by decide

end PLS
