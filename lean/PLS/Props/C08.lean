/-
  C08 — answers do not depend on scan order, thread schedule or process run.

  The only effect the parallel scan's schedule has on the index is the ORDER in which the per-file
  definition lists are merged into the per-name vectors (that is C09's theorem).  So order
  independence is: answers are invariant under permutations of the definition list.
-/
import PLS.Lemmas.Order
import PLS.Props.C01
namespace PLS

/-- the full statement: resolution is invariant under every permutation of the registration order -/
def C08_statement : Prop :=
  ∀ (ix ix' : List Def) (imp : Path → String → Bool) (f : Path) (n : String),
    ix.Perm ix' → resolve ix imp f n = resolve ix' imp f n

/-- **C08 (partial).** Under the uniqueness hypothesis `Uniq` (at most one candidate per file,
    per plugin class, per third-party class, and no import branch over several candidates), the
    answer is the same for every registration order. -/
theorem C08_resolve_perm (ix ix' : List Def) (imp : Path → String → Bool) (f : Path) (n : String)
    (hp : ix.Perm ix') (hu : Uniq ix imp n) : resolve ix imp f n = resolve ix' imp f n :=
  resolve_perm hp imp f n hu

/-- definitions of one name in one file with disjoint line ranges: the fixture a usage of its own
    name belongs to is order independent -/
theorem C08_ownDefAt_perm (ix ix' : List Def) (f : Path) (line : Nat) (n : String) (hp : ix.Perm ix')
    (hu : ∀ a ∈ ix, ∀ b ∈ ix, a.name = n → b.name = n → a.file = b.file →
      a.line ≤ line → line ≤ a.endLine → b.line ≤ line → line ≤ b.endLine → a = b) :
    ownDefAt ix f line n = ownDefAt ix' f line n := by
  unfold ownDefAt defsOf
  apply find?_perm_unique _ (hp.filter _)
  intro a ha b hb pa pb
  simp only [Bool.and_eq_true, beq_iff_eq, decide_eq_true_eq] at pa pb
  have ma := List.mem_filter.mp ha
  have mb := List.mem_filter.mp hb
  exact hu a ma.1 b mb.1 (by simpa using ma.2) (by simpa using mb.2) (pa.1.1.trans pb.1.1.symm)
    pa.1.2 pa.2 pb.1.2 pb.2

/-- the same-file rule is order independent without any hypothesis when lines are distinct:
    the LAST definition in the file wins whatever the registration order. -/
theorem C08_same_file_last (ix : List Def) (imp : Path → String → Bool) (f : Path) (n : String) (d : Def)
    (h : resolve ix imp f n = some d) (hf : d.file = f) :
    ∀ e ∈ ix, e.name = n → e.file = f → e.line ≤ d.line := by
  have hc := resolve_cases ix imp f n _ h
  simp only at hc
  rcases hc with ⟨d', hr, hd⟩ | ⟨hsame, _⟩
  · cases hr
    intro e he hen hef
    exact maxByLine_ge hd e (by simp [List.mem_filter, mem_defsOf, he, hen, hef])
  · have hm := resolve_mem h
    have := maxByLine_eq_none.mp hsame
    have hmem : d ∈ (defsOf ix n).filter (fun d => d.file == f) := by
      simp [List.mem_filter, mem_defsOf, hm.1, hm.2, hf]
    rw [this] at hmem; simp at hmem

open C01cx in
/-- **`C08_statement` fails** (E1 seen as an order dependence): the two registration orders of the
    same two definitions give different answers through the import branch. -/
theorem C08_statement_false : ¬ C08_statement := by
  intro h
  have h1 : resolve [dB, dA] imp f "foo" = some dB := by
    simp [resolve, resolveF, defsOf, dB, dA, f, maxByLine, ancestorsOfDir, dirOf, walkUp,
      conftestOf, imp, List.range, List.range.loop]
  have h2 : resolve [dA, dB] imp f "foo" = some dA := by
    simp [resolve, resolveF, defsOf, dB, dA, f, maxByLine, ancestorsOfDir, dirOf, walkUp,
      conftestOf, imp, List.range, List.range.loop]
  have := h [dB, dA] [dA, dB] imp f "foo" (List.Perm.swap dA dB [])
  rw [h1, h2] at this
  simp [dA, dB] at this

/-- non-vacuity of `Uniq`: two same-named definitions in different conftests, no imports -/
example : Uniq [C01cx.dB, { C01cx.dB with file := ["conftest.py"] }] (fun _ _ => false) "foo" := by
  constructor
  · intro a ha b hb _ _ hf
    simp at ha hb
    rcases ha with rfl | rfl <;> rcases hb with rfl | rfl <;> simp_all [C01cx.dB]
  · intro a ha b hb _ _ pa
    simp at ha
    rcases ha with rfl | rfl <;> simp [C01cx.dB] at pa
  · intro a ha b hb _ _ pa
    simp at ha
    rcases ha with rfl | rfl <;> simp [C01cx.dB] at pa
  · rintro ⟨c, hc⟩; simp at hc

end PLS
