/-
  C04 at the handler level: the code lens, `textDocument/references` and
  `callHierarchy/incomingCalls` are computed from ONE list — `find_references_for_definition` of the
  definition — in the handler model (`Model/Lsp.lean`, tied to the real handlers by the wire
  correspondence).  For a definition `d` and the list `refs` of its references:
  the lens shows `refs.length`, the incoming calls are the references not on `d`'s own line, and the
  references answer is the declaration followed by exactly those.  So the three numbers the
  property speaks of are `|refs|`, `|refs'|` and `1 + |refs'|` with `refs' ⊆ refs` the references
  off the declaration line — equal to `|refs|` whenever no reference sits on that line.
-/
import PLS.Props.C04
import PLS.Model.Lsp
namespace PLS
open Index

/-- the references of `d` that are not on `d`'s own line (what both handlers list) -/
def offDecl (d : Def) (refs : List Usage) : List Usage :=
  refs.filter (fun u => !(u.file == d.file && u.line == d.line))

/-- **incoming calls = the references off the declaration line**, one entry each -/
theorem C04_incoming_calls (st : Index) (f : Path) (name : String) (d : Def)
    (hd : (defsOf st.defs name).find? (fun d => d.file == f) = some d) :
    ∃ l, (st.hIncomingCalls f name).1 = some l ∧ l.length = (offDecl d (st.refsForSt d).1).length := by
  unfold hIncomingCalls
  rw [hd]
  exact ⟨_, rfl, by simp [offDecl]⟩

/-- **references = the declaration, then the references off the declaration line** -/
theorem C04_references (st st' : Index) (f : Path) (line0 col : Nat) (name : String) (d : Def)
    (hn : st.fixtureAt f line0 col = some name) (hg : st.goto f line0 col = (some d, st')) :
    ∃ l, (st.hReferences f line0 col).1 = some l ∧
      l.head? = some (pointLoc d.file (toLsp d.line)) ∧
      l.length = 1 + (offDecl d (st'.refsForSt d).1).length := by
  unfold hReferences
  rw [hn]
  simp only [hg]
  have hne : ¬ (((st'.refsForSt d).1.isEmpty && (some d).isNone) = true) := by simp
  simp only [Option.isNone_some, Bool.and_false, Bool.false_eq_true, if_false]
  refine ⟨_, rfl, rfl, ?_⟩
  simp only [List.length_append, List.length_cons, List.length_nil, offDecl]
  have : ∀ (rs : List Usage), (rs.filterMap (fun u =>
      if (u.file == d.file && u.line == d.line) = true then none
      else some (spanLoc u.file (toLsp u.line) u.startChar u.endChar))).length =
      (rs.filter (fun u => !(u.file == d.file && u.line == d.line))).length := by
    intro rs
    induction rs with
    | nil => rfl
    | cons u rs ih =>
      simp only [List.filterMap_cons, List.filter_cons]
      by_cases hu : (u.file == d.file && u.line == d.line) = true
      · simp only [hu, if_true, Bool.not_true, Bool.false_eq_true, if_false]; exact ih
      · have hu' : (u.file == d.file && u.line == d.line) = false := by simpa using hu
        simp only [hu', Bool.false_eq_true, if_false, Bool.not_false, if_true, List.length_cons, ih]
  rw [this]

/-- **the lens counts the references**: every lens of a file is `(line, |references|, column)` of a
    non-third-party definition of that file, the references taken on some state of the same index
    (the handler threads the memo tables through; `refsForSt` does not depend on them when they are
    coherent — C07) -/
theorem C04_lens_counts (st : Index) (f : Path) :
    ∀ e ∈ (st.hCodeLens f).1, ∃ d st0, d ∈ st.defs ∧ d.file = f ∧ d.thirdParty = false ∧
      e = (toLsp d.line, (Index.refsForSt st0 d).1.length, d.startChar) := by
  unfold hCodeLens
  have key : ∀ (ds : List Def) (acc : List (Nat × Nat × Nat) × Index),
      (∀ d ∈ ds, d ∈ st.defs ∧ d.file = f ∧ d.thirdParty = false) →
      (∀ e ∈ acc.1, ∃ d st0, d ∈ st.defs ∧ d.file = f ∧ d.thirdParty = false ∧
        e = (toLsp d.line, (Index.refsForSt st0 d).1.length, d.startChar)) →
      ∀ e ∈ (ds.foldl (fun (acc : List (Nat × Nat × Nat) × Index) d =>
        let (r, st') := acc.2.refsForSt d
        (acc.1 ++ [(toLsp d.line, r.length, d.startChar)], st')) acc).1,
        ∃ d st0, d ∈ st.defs ∧ d.file = f ∧ d.thirdParty = false ∧
          e = (toLsp d.line, (Index.refsForSt st0 d).1.length, d.startChar) := by
    intro ds
    induction ds with
    | nil => intro acc _ hacc e he; exact hacc e he
    | cons d ds ih =>
      intro acc hds hacc
      simp only [List.foldl_cons]
      apply ih
      · intro x hx; exact hds x (List.mem_cons_of_mem _ hx)
      · intro e he
        rcases List.mem_append.mp he with he | he
        · exact hacc e he
        · simp only [List.mem_singleton] at he
          obtain ⟨h1, h2, h3⟩ := hds d List.mem_cons_self
          exact ⟨d, acc.2, h1, h2, h3, he⟩
  apply key
  · intro d hd
    have := List.mem_filter.mp hd
    simp only [Bool.and_eq_true, beq_iff_eq, Bool.not_eq_true'] at this
    exact ⟨this.1, this.2.1, this.2.2⟩
  · intro e he; cases he

end PLS
