/-
  C12, part 2 — termination on cyclic structures: the explicit-stack DFS of
  `compute_fixture_cycles` (`resolver.rs`, modelled step by step in `PLS.Model.Cycles`).

  The `while let Some(..) = stack.pop()` loop has no syntactic bound: frames are pushed back with
  a larger index, dependencies are pushed as new frames, and the graph may contain cycles, self
  loops and several components.  The theorem: from every state satisfying the loop invariant
  (in particular from the state each DFS starts in) the stack is empty after at most
  `measure` iterations, for EVERY dependency graph — so the loop terminates, and the model's
  fuel (`cyFuel`, set to that bound) is never what ends it.
-/
import PLS.Model.Cycles
namespace PLS
namespace DfsT

/-- the part of the DFS state the control flow depends on -/
structure Sk where
  stack   : List (String × Nat × List String)
  visited : List String
  rs      : List String

def proj (s : Dfs) : Sk := ⟨s.stack, s.visited, s.recStack⟩

/-- `dfsStep` with the cycle bookkeeping (`seen`, `cycles`) left out -/
def skStep (ix : List Def) (k : Sk) : Sk :=
  match k.stack with
  | [] => k
  | (cur, idx, path) :: rest =>
    let rs := if idx == 0 then setInsert k.rs cur else k.rs
    let path' := if idx == 0 then path ++ [cur] else path
    let deps := cyDeps ix cur
    if idx < deps.length then
      let dep := deps[idx]!
      if rs.contains dep then ⟨(cur, idx + 1, path') :: rest, k.visited, rs⟩
      else if !k.visited.contains dep then ⟨(dep, 0, path') :: (cur, idx + 1, path') :: rest, k.visited, rs⟩
      else ⟨(cur, idx + 1, path') :: rest, k.visited, rs⟩
    else ⟨rest, setInsert k.visited cur, rs.filter (· != cur)⟩

theorem proj_step (ix : List Def) (s : Dfs) : proj (dfsStep ix s) = skStep ix (proj s) := by
  unfold dfsStep skStep proj
  cases hs : s.stack with
  | nil => simp [hs]
  | cons fr rest =>
    obtain ⟨cur, idx, path⟩ := fr
    simp only
    by_cases h0 : (idx == 0) = true
    · simp only [h0, if_true]
      by_cases hlt : idx < (cyDeps ix cur).length
      · simp only [hlt, if_true]
        by_cases hc : (setInsert s.recStack cur).contains (cyDeps ix cur)[idx]! = true
        · simp only [hc, if_true]
          split
          · rfl
          · split <;> rfl
        · have hc' : (setInsert s.recStack cur).contains (cyDeps ix cur)[idx]! = false := by simpa using hc
          simp only [hc', Bool.false_eq_true, if_false]
          by_cases hv : s.visited.contains (cyDeps ix cur)[idx]! = true
          · simp only [hv, Bool.not_true, Bool.false_eq_true, if_false]
          · have hv' : s.visited.contains (cyDeps ix cur)[idx]! = false := by simpa using hv
            simp only [hv', Bool.not_false, if_true]
      · simp [hlt]
    · have h0' : (idx == 0) = false := by simpa using h0
      simp only [h0', Bool.false_eq_true, if_false]
      by_cases hlt : idx < (cyDeps ix cur).length
      · simp only [hlt, if_true]
        by_cases hc : s.recStack.contains (cyDeps ix cur)[idx]! = true
        · simp only [hc, if_true]
          split
          · rfl
          · split <;> rfl
        · have hc' : s.recStack.contains (cyDeps ix cur)[idx]! = false := by simpa using hc
          simp only [hc', Bool.false_eq_true, if_false]
          by_cases hv : s.visited.contains (cyDeps ix cur)[idx]! = true
          · simp only [hv, Bool.not_true, Bool.false_eq_true, if_false]
          · have hv' : s.visited.contains (cyDeps ix cur)[idx]! = false := by simpa using hv
            simp only [hv', Bool.not_false, if_true]
      · simp [hlt]

/-! ### the measure -/

def deg (ix : List Def) (n : String) : Nat := (cyDeps ix n).length

/-- nodes sitting in a frame that has not been expanded yet -/
def pending (k : Sk) : List String := (k.stack.filter (fun f => f.2.1 == 0)).map (·.1)

def touched (k : Sk) (n : String) : Bool := k.visited.contains n || k.rs.contains n || (pending k).contains n

/-- number of nodes of the universe not met so far -/
def m1 (U : List String) (k : Sk) : Nat := (U.filter (fun n => !touched k n)).length

def wt (ix : List Def) (f : String × Nat × List String) : Nat := deg ix f.1 + 2 - f.2.1

/-- work left in the frames on the stack -/
def m2 (ix : List Def) (k : Sk) : Nat := (k.stack.map (wt ix)).sum

def bigK (ix : List Def) (U : List String) : Nat := (U.map (fun n => deg ix n + 2)).sum + 1

/-- the termination measure: lexicographic (untouched nodes, frame work), flattened -/
def measure (ix : List Def) (U : List String) (k : Sk) : Nat := m1 U k * bigK ix U + m2 ix k

structure Inv (ix : List Def) (k : Sk) : Prop where
  idx_le : ∀ f ∈ k.stack, f.2.1 ≤ deg ix f.1
  tail_pos : ∀ f ∈ k.stack.tail, 1 ≤ f.2.1

theorem filter_len_mono {α} (U : List α) (p q : α → Bool) (h : ∀ a ∈ U, q a = true → p a = true) :
    (U.filter q).length ≤ (U.filter p).length := by
  induction U with
  | nil => simp
  | cons a U ih =>
    have ih' := ih (fun b hb => h b (List.mem_cons_of_mem _ hb))
    simp only [List.filter_cons]
    by_cases hq : q a = true
    · have hp := h a List.mem_cons_self hq
      simp [hq, hp]; exact ih'
    · by_cases hp : p a = true
      · simp [hq, hp]; omega
      · simp [hq, hp]; exact ih'

theorem filter_len_strict {α} (U : List α) (p q : α → Bool) (h : ∀ a ∈ U, q a = true → p a = true)
    (x : α) (hx : x ∈ U) (hpx : p x = true) (hqx : q x = false) :
    (U.filter q).length < (U.filter p).length := by
  induction U with
  | nil => cases hx
  | cons a U ih =>
    simp only [List.filter_cons]
    have hmono := filter_len_mono U p q (fun b hb => h b (List.mem_cons_of_mem _ hb))
    rcases List.mem_cons.mp hx with rfl | hxU
    · simp [hpx, hqx]; omega
    · have ih' := ih (fun b hb => h b (List.mem_cons_of_mem _ hb)) hxU
      by_cases hq : q a = true
      · have hp := h a List.mem_cons_self hq
        simp [hq, hp]; exact ih'
      · by_cases hp : p a = true
        · simp [hq, hp]; omega
        · simp [hq, hp]; exact ih'

theorem sum_ge_of_mem (U : List String) (g : String → Nat) (x : String) (hx : x ∈ U) :
    g x ≤ (U.map g).sum := by
  induction U with
  | nil => cases hx
  | cons a U ih =>
    simp only [List.map_cons, List.sum_cons]
    rcases List.mem_cons.mp hx with rfl | h
    · omega
    · have := ih h; omega

theorem contains_setInsert (l : List String) (x y : String) :
    (setInsert l x).contains y = (l.contains y || x == y) := by
  unfold setInsert
  by_cases h : l.contains x = true
  · simp only [h, if_true]
    by_cases hxy : x = y
    · subst hxy; rw [h]; rfl
    · have : (x == y) = false := by simpa using hxy
      rw [this, Bool.or_false]
  · have h' : l.contains x = false := by simpa using h
    simp only [h', Bool.false_eq_true, if_false]
    have e : (l ++ [x]).contains y = (l.contains y || [x].contains y) := by
      induction l with
      | nil => simp
      | cons a l ih => simp [List.contains_cons, Bool.or_assoc]
    rw [e]
    congr 1
    by_cases hxy : x = y
    · subst hxy; simp
    · have h1 : (x == y) = false := by simpa using hxy
      have h2 : (y == x) = false := by simpa using fun h => hxy h.symm
      rw [h1]
      simp only [List.contains_cons, List.contains_nil, Bool.or_false, h2]

/-- the pending nodes of a state satisfying the invariant: at most the top frame's -/
theorem pending_of_inv {ix : List Def} {k : Sk} (h : Inv ix k) (cur : String) (idx : Nat) (path : List String)
    (rest : List (String × Nat × List String)) (hs : k.stack = (cur, idx, path) :: rest) :
    pending k = if idx == 0 then [cur] else [] := by
  unfold pending
  rw [hs, List.filter_cons]
  have hrest : rest.filter (fun f => f.2.1 == 0) = [] := by
    apply List.filter_eq_nil_iff.mpr
    intro f hf
    have := h.tail_pos f (by rw [hs]; exact hf)
    simp; omega
  by_cases h0 : (idx == 0) = true
  · simp [h0, hrest]
  · have : (idx == 0) = false := by simpa using h0
    simp [this, hrest]

/-- **one iteration strictly decreases the measure and keeps the invariant** -/
theorem step_decreases (ix : List Def) (U : List String) (hU : ∀ n d, d ∈ cyDeps ix n → d ∈ U)
    (k : Sk) (h : Inv ix k) (hne : k.stack ≠ []) :
    measure ix U (skStep ix k) < measure ix U k ∧ Inv ix (skStep ix k) := by
  cases hs : k.stack with
  | nil => exact absurd hs hne
  | cons fr rest =>
    obtain ⟨cur, idx, path⟩ := fr
    have hpend := pending_of_inv h cur idx path rest hs
    have hidx : idx ≤ deg ix cur := h.idx_le (cur, idx, path) (by rw [hs]; exact List.mem_cons_self)
    have hrestpos : ∀ f ∈ rest, 1 ≤ f.2.1 := fun f hf => h.tail_pos f (by rw [hs]; exact hf)
    have hrestle : ∀ f ∈ rest, f.2.1 ≤ deg ix f.1 := fun f hf => h.idx_le f (by rw [hs]; exact List.mem_cons_of_mem _ hf)
    have hm2 : m2 ix k = wt ix (cur, idx, path) + (rest.map (wt ix)).sum := by simp [m2, hs]
    -- pending nodes of a stack whose frames all have a positive index
    have nopend : ∀ (st : List (String × Nat × List String)), (∀ f ∈ st, 1 ≤ f.2.1) →
        (st.filter (fun f => f.2.1 == 0)) = [] := by
      intro st hst
      apply List.filter_eq_nil_iff.mpr
      intro f hf
      have := hst f hf
      simp; omega
    unfold skStep
    simp only [hs]
    -- abbreviations for the updated recursion stack
    generalize hrs : (if (idx == 0) = true then setInsert k.rs cur else k.rs) = rs'
    generalize hpath : (if (idx == 0) = true then path ++ [cur] else path) = path'
    have rs_sup : ∀ n, k.rs.contains n = true → rs'.contains n = true := by
      intro n hn
      rw [← hrs]
      split
      · rw [contains_setInsert, hn]; rfl
      · exact hn
    have cur_in : (idx == 0) = true → rs'.contains cur = true := by
      intro h0
      rw [← hrs]; simp only [h0, if_true]
      rw [contains_setInsert]; simp
    by_cases hlt : idx < (cyDeps ix cur).length
    · simp only [hlt, if_true]
      have hlt' : idx < deg ix cur := hlt
      have wstep : wt ix (cur, idx + 1, path') + 1 = wt ix (cur, idx, path) := by
        simp only [wt]; omega
      -- every node touched before is still touched when the frame is pushed back with idx+1
      have mono_of : ∀ (stk : List (String × Nat × List String)) (n : String),
          touched k n = true → touched ⟨stk, k.visited, rs'⟩ n = true := by
        intro stk n hn
        unfold touched at hn ⊢
        simp only [Bool.or_eq_true] at hn ⊢
        rcases hn with (hv | hr) | hp
        · exact Or.inl (Or.inl hv)
        · exact Or.inl (Or.inr (rs_sup n hr))
        · rw [hpend] at hp
          by_cases h0 : (idx == 0) = true
          · simp only [h0, if_true] at hp
            have : n = cur := by simpa using hp
            subst this
            exact Or.inl (Or.inr (cur_in h0))
          · have : (idx == 0) = false := by simpa using h0
            simp [this] at hp
      have hdep_mem : (cyDeps ix cur)[idx]! ∈ cyDeps ix cur := by
        rw [getElem!_pos (cyDeps ix cur) idx hlt]; exact List.getElem_mem hlt
      generalize hdep : (cyDeps ix cur)[idx]! = dep at hdep_mem
      have simple : measure ix U ⟨(cur, idx + 1, path') :: rest, k.visited, rs'⟩ < measure ix U k ∧
          Inv ix ⟨(cur, idx + 1, path') :: rest, k.visited, rs'⟩ := by
        constructor
        · unfold measure
          have h1 : m1 U ⟨(cur, idx + 1, path') :: rest, k.visited, rs'⟩ ≤ m1 U k := by
            unfold m1
            apply filter_len_mono
            intro a _ ha
            simp only [Bool.not_eq_true'] at ha ⊢
            cases hta : touched k a with
            | false => rfl
            | true => rw [mono_of _ a hta] at ha; cases ha
          have h2 : m2 ix ⟨(cur, idx + 1, path') :: rest, k.visited, rs'⟩ + 1 = m2 ix k := by
            rw [hm2]; simp only [m2, List.map_cons, List.sum_cons]; omega
          have := Nat.mul_le_mul_right (bigK ix U) h1
          omega
        · constructor
          · intro f hf
            rcases List.mem_cons.mp hf with rfl | hf
            · exact hlt'
            · exact hrestle f hf
          · intro f hf
            exact hrestpos f hf
      by_cases hc : rs'.contains dep = true
      · simp only [hc, if_true]; exact simple
      · have hc' : rs'.contains dep = false := by simpa using hc
        simp only [hc', Bool.false_eq_true, if_false]
        by_cases hv : k.visited.contains dep = true
        · simp only [hv, Bool.not_true, Bool.false_eq_true, if_false]; exact simple
        · have hv' : k.visited.contains dep = false := by simpa using hv
          simp only [hv', Bool.not_false, if_true]
          have hdepU : dep ∈ U := hU cur dep hdep_mem
          -- dep was untouched
          have hunt : touched k dep = false := by
            unfold touched
            have hr : k.rs.contains dep = false := by
              cases hh : k.rs.contains dep with
              | false => rfl
              | true => rw [rs_sup dep hh] at hc'; cases hc'
            have hp : (pending k).contains dep = false := by
              rw [hpend]
              by_cases h0 : (idx == 0) = true
              · simp only [h0, if_true]
                cases hh : [cur].contains dep with
                | false => rfl
                | true =>
                  have : dep = cur := by simpa using hh
                  subst this
                  rw [cur_in h0] at hc'; cases hc'
              · have : (idx == 0) = false := by simpa using h0
                simp [this]
            rw [hv', hr, hp]; rfl
          have htouch : touched ⟨(dep, 0, path') :: (cur, idx + 1, path') :: rest, k.visited, rs'⟩ dep = true := by
            unfold touched pending
            simp
          constructor
          · unfold measure
            have h1 : m1 U ⟨(dep, 0, path') :: (cur, idx + 1, path') :: rest, k.visited, rs'⟩ < m1 U k := by
              unfold m1
              apply filter_len_strict U _ _ _ dep hdepU
              · simp [hunt]
              · simp [htouch]
              · intro a _ ha
                simp only [Bool.not_eq_true'] at ha ⊢
                cases hta : touched k a with
                | false => rfl
                | true => rw [mono_of _ a hta] at ha; cases ha
            have h2 : m2 ix ⟨(dep, 0, path') :: (cur, idx + 1, path') :: rest, k.visited, rs'⟩ + 1 =
                m2 ix k + (deg ix dep + 2) := by
              rw [hm2]; simp only [m2, List.map_cons, List.sum_cons]
              have : wt ix (dep, 0, path') = deg ix dep + 2 := by simp [wt]
              omega
            have hK : deg ix dep + 2 < bigK ix U := by
              have := sum_ge_of_mem U (fun n => deg ix n + 2) dep hdepU
              unfold bigK; omega
            have h3 : (m1 U ⟨(dep, 0, path') :: (cur, idx + 1, path') :: rest, k.visited, rs'⟩ + 1) * bigK ix U
                ≤ m1 U k * bigK ix U := Nat.mul_le_mul_right _ h1
            rw [Nat.add_mul] at h3
            omega
          · constructor
            · intro f hf
              rcases List.mem_cons.mp hf with rfl | hf
              · exact Nat.zero_le _
              · rcases List.mem_cons.mp hf with rfl | hf
                · exact hlt'
                · exact hrestle f hf
            · intro f hf
              simp only [List.tail_cons] at hf
              rcases List.mem_cons.mp hf with rfl | hf
              · exact Nat.succ_le_succ (Nat.zero_le _)
              · exact hrestpos f hf
    · -- the frame is finished
      simp only [hlt, if_false]
      have hdeg : idx = deg ix cur := by
        have : ¬ idx < deg ix cur := hlt
        omega
      constructor
      · unfold measure
        have h1 : m1 U ⟨rest, setInsert k.visited cur, rs'.filter (· != cur)⟩ ≤ m1 U k := by
          unfold m1
          apply filter_len_mono
          intro a _ ha
          simp only [Bool.not_eq_true'] at ha ⊢
          cases hta : touched k a with
          | false => rfl
          | true =>
            exfalso
            have : touched ⟨rest, setInsert k.visited cur, rs'.filter (· != cur)⟩ a = true := by
              unfold touched at hta ⊢
              simp only [Bool.or_eq_true] at hta ⊢
              by_cases hac : a = cur
              · subst hac
                left; left
                rw [contains_setInsert]; simp
              · rcases hta with (hv | hr) | hp
                · left; left; rw [contains_setInsert, hv]; rfl
                · left; right
                  have := rs_sup a hr
                  simp only [List.contains_eq_mem, decide_eq_true_eq] at this ⊢
                  exact List.mem_filter.mpr ⟨this, by simpa using hac⟩
                · rw [hpend] at hp
                  by_cases h0 : (idx == 0) = true
                  · simp only [h0, if_true] at hp
                    have : a = cur := by simpa using hp
                    exact absurd this hac
                  · have : (idx == 0) = false := by simpa using h0
                    simp [this] at hp
            rw [this] at ha; cases ha
        have h2 : m2 ix ⟨rest, setInsert k.visited cur, rs'.filter (· != cur)⟩ + 2 = m2 ix k := by
          rw [hm2]; simp only [m2, wt]; omega
        have := Nat.mul_le_mul_right (bigK ix U) h1
        omega
      · constructor
        · intro f hf; exact hrestle f hf
        · intro f hf
          exact hrestpos f (List.mem_of_mem_tail hf)

/-! ### termination of the loop -/

theorem stack_nil_of_m2_zero {ix : List Def} {k : Sk} (h : Inv ix k) (hz : m2 ix k = 0) : k.stack = [] := by
  cases hs : k.stack with
  | nil => rfl
  | cons f rest =>
    exfalso
    have hle := h.idx_le f (by rw [hs]; exact List.mem_cons_self)
    have : m2 ix k = wt ix f + (rest.map (wt ix)).sum := by simp [m2, hs]
    have hw : 2 ≤ wt ix f := by unfold wt; omega
    omega

theorem dfsRun_zero (ix : List Def) (s : Dfs) : dfsRun ix 0 s = s := rfl

theorem dfsRun_succ (ix : List Def) (f : Nat) (s : Dfs) :
    dfsRun ix (f + 1) s = if s.stack.isEmpty then s else dfsRun ix f (dfsStep ix s) := rfl

/-- from every state satisfying the invariant the loop ends with an empty stack within `measure`
    iterations -/
theorem dfsRun_terminates (ix : List Def) (U : List String) (hU : ∀ n d, d ∈ cyDeps ix n → d ∈ U) :
    ∀ (fuel : Nat) (s : Dfs), Inv ix (proj s) → measure ix U (proj s) ≤ fuel → (dfsRun ix fuel s).stack = [] := by
  intro fuel
  induction fuel with
  | zero =>
    intro s hinv hm
    rw [dfsRun_zero]
    have hz : m2 ix (proj s) = 0 := by unfold measure at hm; omega
    exact stack_nil_of_m2_zero hinv hz
  | succ f ih =>
    intro s hinv hm
    rw [dfsRun_succ]
    by_cases he : s.stack.isEmpty = true
    · simp only [he, if_true]
      exact List.isEmpty_iff.mp he
    · simp only [he]
      have hne : (proj s).stack ≠ [] := by
        intro hnil
        apply he
        show s.stack.isEmpty = true
        have : s.stack = [] := hnil
        rw [this]; rfl
      obtain ⟨hlt, hinv'⟩ := step_decreases ix U hU (proj s) hinv hne
      rw [← proj_step] at hlt hinv'
      exact ih (dfsStep ix s) hinv' (by omega)

/-- once the stack is empty more fuel changes nothing -/
theorem dfsRun_stable (ix : List Def) : ∀ (f : Nat) (s : Dfs), (dfsRun ix f s).stack = [] →
    ∀ g, f ≤ g → dfsRun ix g s = dfsRun ix f s := by
  intro f
  induction f with
  | zero =>
    intro s hs g _
    rw [dfsRun_zero] at hs ⊢
    cases g with
    | zero => rfl
    | succ g => rw [dfsRun_succ]; simp [hs]
  | succ f ih =>
    intro s hs g hg
    cases g with
    | zero => omega
    | succ g =>
      rw [dfsRun_succ] at hs ⊢
      rw [dfsRun_succ]
      by_cases he : s.stack.isEmpty = true
      · simp [he]
      · simp only [he] at hs ⊢
        exact ih (dfsStep ix s) hs g (by omega)

/-- the state in which `compute_fixture_cycles` starts the DFS of a root -/
def start (s : Dfs) (r : String) : Dfs := { s with stack := [(r, 0, [])], recStack := [] }

theorem inv_start (ix : List Def) (s : Dfs) (r : String) : Inv ix (proj (start s r)) := by
  constructor
  · intro f hf
    simp only [proj, start, List.mem_singleton] at hf
    subst hf
    exact Nat.zero_le _
  · intro f hf
    simp [proj, start] at hf

theorem m1_le (U : List String) (k : Sk) : m1 U k ≤ U.length := by
  unfold m1; exact List.length_filter_le _ _

theorem deps_in_names (ix : List Def) : ∀ n d, d ∈ cyDeps ix n → d ∈ namesOf ix := by
  intro n d hd
  unfold cyDeps at hd
  cases hc : cyDef ix n with
  | none => simp [hc] at hd
  | some df =>
    simp only [hc, List.mem_filter, List.any_eq_true, beq_iff_eq] at hd
    obtain ⟨_, x, hx, hxn⟩ := hd
    unfold namesOf
    rw [List.mem_eraseDups]
    exact List.mem_map.mpr ⟨x, hx, hxn⟩

end DfsT

open DfsT in
/-- **C12 (the cycle DFS terminates on every dependency graph).** Whatever the definitions —
    self-referential fixtures, cycles of any length, several strongly connected components,
    overrides — and whatever was visited before, the explicit-stack loop started for a root `r`
    ends with an EMPTY stack after at most `cyFuel ix` iterations: it is the emptiness of the stack
    that ends it, never the model's fuel. -/
theorem C12_dfs_terminates (ix : List Def) (s : Dfs) (r : String) (hr : r ∈ namesOf ix) :
    (dfsRun ix (cyFuel ix) (start s r)).stack = [] := by
  apply dfsRun_terminates ix (namesOf ix) (deps_in_names ix) _ _ (inv_start ix s r)
  unfold DfsT.measure
  have h1 := m1_le (namesOf ix) (proj (start s r))
  have h2 : m2 ix (proj (start s r)) = deg ix r + 2 := by simp [m2, proj, start, wt]
  have h3 : deg ix r + 2 ≤ (List.map (fun n => deg ix n + 2) (namesOf ix)).sum :=
    sum_ge_of_mem (namesOf ix) (fun n => deg ix n + 2) r hr
  have hK : bigK ix (namesOf ix) = (List.map (fun n => deg ix n + 2) (namesOf ix)).sum + 1 := rfl
  have hF : cyFuel ix = ((namesOf ix).length + 1) * bigK ix (namesOf ix) := rfl
  have h4 : m1 (namesOf ix) (proj (start s r)) * bigK ix (namesOf ix) ≤ (namesOf ix).length * bigK ix (namesOf ix) :=
    Nat.mul_le_mul_right _ h1
  rw [hF, h2, Nat.add_mul, Nat.one_mul]
  generalize m1 (namesOf ix) (proj (start s r)) * bigK ix (namesOf ix) = x at h4 ⊢
  generalize (namesOf ix).length * bigK ix (namesOf ix) = y at h4 ⊢
  omega

open DfsT in
/-- **C12 (… and the answer does not depend on the fuel).** Any larger bound gives the same state:
    the fuel of the model is not an approximation of the loop. -/
theorem C12_dfs_fuel_irrelevant (ix : List Def) (s : Dfs) (r : String) (hr : r ∈ namesOf ix) (g : Nat)
    (hg : cyFuel ix ≤ g) : dfsRun ix g (start s r) = dfsRun ix (cyFuel ix) (start s r) :=
  dfsRun_stable ix (cyFuel ix) (start s r) (C12_dfs_terminates ix s r hr) g hg

open DfsT in
/-- **C12 (`compute_fixture_cycles` as a whole).** Starting one DFS per root, in any root order,
    never leaves a non-empty stack behind: every one of them ran to completion. -/
theorem C12_all_roots_complete (ix : List Def) (roots : List String) (hroots : ∀ r ∈ roots, r ∈ namesOf ix)
    (s0 : Dfs) (h0 : s0.stack = []) :
    (roots.foldl (fun (s : Dfs) r =>
      if s.visited.contains r then s
      else dfsRun ix (cyFuel ix) { s with stack := [(r, 0, [])], recStack := [] }) s0).stack = [] := by
  induction roots generalizing s0 with
  | nil => exact h0
  | cons r rs ih =>
    simp only [List.foldl_cons]
    apply ih (fun x hx => hroots x (List.mem_cons_of_mem _ hx))
    split
    · exact h0
    · exact C12_dfs_terminates ix s0 r (hroots r List.mem_cons_self)

end PLS
