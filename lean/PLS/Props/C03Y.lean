/-
  C03 — the recorded yield line is the FIRST yield of the body in source order.

  `stmtYields` / `bodyYields` are the specification: the lines of ALL statement-level yields of a body
  (one entry per expression that yields, by `yieldInExpr`), enumerated in the order the blocks of a
  compound statement appear in the source text — `if`: body, else; `for` / `while`: body, else;
  `with`: body; `try`: body, handlers, else, finally.  The theorem says the visitor (`find_yield_in_stmt`
  / `find_yield_line`) returns the head of that enumeration; a visitor that walks the blocks of a
  statement in another order (else before the handlers, say) returns something else on the example below.
-/
import PLS.Props.C03
namespace PLS

mutual
  /-- lines of the statement-level yields of one statement, in source order -/
  def stmtYields : Stmt → List Nat
    | .expr e _ => (yieldInExpr e).toList
    | .assign _ v _ => (yieldInExpr v).toList
    | .augAssign _ v _ => (yieldInExpr v).toList
    | .annAssign _ v _ => (yieldInOpt v).toList
    | .return_ v _ => (yieldInOpt v).toList
    | .if_ _ b o _ => bodyYields b ++ bodyYields o
    | .with_ _ _ _ b _ => bodyYields b
    | .try_ b h o f _ => bodyYields b ++ (bodyYields h ++ (bodyYields o ++ bodyYields f))
    | .for_ _ _ _ b o _ => bodyYields b ++ bodyYields o
    | .while_ _ b o _ => bodyYields b ++ bodyYields o
    | _ => []
  def bodyYields : List Stmt → List Nat
    | [] => []
    | s :: ss => stmtYields s ++ bodyYields ss
end

theorem head?_append_orElse (a b : List Nat) : (a ++ b).head? = a.head?.orElse (fun _ => b.head?) := by
  cases a <;> simp [Option.orElse]

theorem toList_head? (o : Option Nat) : o.toList.head? = o := by
  cases o <;> rfl

mutual
  theorem C03_yield_in_stmt_is_first : (s : Stmt) → yieldInStmt s = (stmtYields s).head?
    | .expr e _ => by simp only [yieldInStmt, stmtYields, toList_head?]
    | .assign _ v _ => by simp only [yieldInStmt, stmtYields, toList_head?]
    | .augAssign _ v _ => by simp only [yieldInStmt, stmtYields, toList_head?]
    | .annAssign _ v _ => by simp only [yieldInStmt, stmtYields, toList_head?]
    | .return_ v _ => by simp only [yieldInStmt, stmtYields, toList_head?]
    | .if_ _ b o _ => by
      simp only [yieldInStmt, stmtYields, head?_append_orElse]
      rw [C03_yield_line_is_first b, C03_yield_line_is_first o]
    | .for_ _ _ _ b o _ => by
      simp only [yieldInStmt, stmtYields, head?_append_orElse]
      rw [C03_yield_line_is_first b, C03_yield_line_is_first o]
    | .while_ _ b o _ => by
      simp only [yieldInStmt, stmtYields, head?_append_orElse]
      rw [C03_yield_line_is_first b, C03_yield_line_is_first o]
    | .with_ _ _ _ b _ => by
      simp only [yieldInStmt, stmtYields]
      exact C03_yield_line_is_first b
    | .try_ b h o f _ => by
      simp only [yieldInStmt, stmtYields, head?_append_orElse]
      rw [C03_yield_line_is_first b, C03_yield_line_is_first h, C03_yield_line_is_first o, C03_yield_line_is_first f]
    | .funcDef .. => by simp [yieldInStmt, stmtYields]
    | .classDef .. => by simp [yieldInStmt, stmtYields]
    | .import_ .. => by simp [yieldInStmt, stmtYields]
    | .importFrom .. => by simp [yieldInStmt, stmtYields]
    | .assert_ .. => by simp [yieldInStmt, stmtYields]
    | .other .. => by simp [yieldInStmt, stmtYields]
  /-- **C03 (yield line).** The yield line recorded for a fixture is the first entry of the source-order
      enumeration of the body's statement-level yields — for every body, nested to any depth. -/
  theorem C03_yield_line_is_first : (body : List Stmt) → yieldLine body = (bodyYields body).head?
    | [] => by simp [yieldLine, bodyYields]
    | s :: ss => by
      simp only [yieldLine, bodyYields, head?_append_orElse]
      rw [C03_yield_in_stmt_is_first s, C03_yield_line_is_first ss]
end

/-- corollary: a body is a generator exactly when the enumeration is not empty -/
theorem C03_generator_iff_some_yield (body : List Stmt) : (yieldLine body).isSome = !(bodyYields body).isEmpty := by
  rw [C03_yield_line_is_first]
  cases bodyYields body <;> rfl

/-- non-vacuity, and the order that matters: `try: pass / except: yield (line 4) / else: yield (line 6)` — the
    handler's yield comes first in the source, and it is the one recorded -/
example :
    let tryStmt : Stmt := .try_ [.other ⟨2, 8, 2, 12⟩]
        [.expr (.yield [] ⟨4, 8, 4, 13⟩) ⟨4, 8, 4, 13⟩]
        [.expr (.yield [] ⟨6, 8, 6, 13⟩) ⟨6, 8, 6, 13⟩] [] ⟨1, 4, 6, 13⟩
    bodyYields [tryStmt] = [4, 6] ∧ yieldLine [tryStmt] = some 4 := by
  simp [bodyYields, stmtYields, yieldLine, yieldInStmt, yieldInExpr, Option.orElse]

end PLS
