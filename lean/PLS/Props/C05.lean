/-
  C05 — all features agree on which definition a name denotes.
-/
import PLS.Lemmas.Order
namespace PLS

/-! helper facts about the per-file view -/

theorem mem_dedup {l : List String} {a : String} : a ∈ dedup l ↔ a ∈ l := by
  induction l with
  | nil => simp [dedup]
  | cons x xs ih =>
    simp only [dedup]
    split
    · rename_i h
      rw [ih]
      constructor
      · exact List.mem_cons_of_mem _
      · intro ha
        rcases List.mem_cons.mp ha with rfl | ha
        · simpa using h
        · exact ha
    · simp [ih]

theorem nodup_dedup (l : List String) : (dedup l).Nodup := by
  induction l with
  | nil => simp [dedup]
  | cons x xs ih =>
    simp only [dedup]
    split
    · exact ih
    · rename_i h
      refine List.nodup_cons.mpr ⟨?_, ih⟩
      rw [mem_dedup]
      simpa using h

theorem insertByName_perm (d : Def) (l : List Def) : (insertByName d l).Perm (d :: l) := by
  induction l with
  | nil => simp [insertByName]
  | cons e es ih =>
    simp only [insertByName]
    split
    · exact List.Perm.refl _
    · exact (List.Perm.cons e ih).trans (List.Perm.swap d e es)

theorem sortByName_perm (l : List Def) : (sortByName l).Perm l := by
  induction l with
  | nil => simp [sortByName]
  | cons d ds ih =>
    simp only [sortByName, List.foldr_cons]
    exact (insertByName_perm d _).trans (List.Perm.cons d ih)

theorem availWalk_name {ds : List Def} {cimp : Path → Bool} {dirs : List Path} {d : Def}
    (h : availWalk ds cimp dirs = some d) : d ∈ ds := by
  induction dirs with
  | nil => simp [availWalk] at h
  | cons dir rest ih =>
    simp only [availWalk] at h
    split at h
    · rename_i d' hf; simp at h; subst h; exact List.mem_of_find?_eq_some hf
    · split at h
      · split at h
        · rename_i d' hh; simp at h; subst h; exact List.mem_of_head? hh
        · exact ih h
      · exact ih h

theorem availPick_name {ix : List Def} {cimp : Path → String → Bool} {f : Path} {n : String} {d : Def}
    (h : availPick ix cimp f n = some d) : d ∈ ix ∧ d.name = n := by
  unfold availPick at h
  simp only at h
  split at h
  · rename_i d' hf; simp at h; subst h; exact mem_defsOf.mp (List.mem_filter.mp (maxByLine_mem hf)).1
  · split at h
    · rename_i d' hw; simp at h; subst h; exact mem_defsOf.mp (availWalk_name hw)
    · split at h
      · rename_i d' hf; simp at h; subst h; exact mem_defsOf.mp (List.mem_of_find?_eq_some hf)
      · exact mem_defsOf.mp (List.mem_of_find?_eq_some h)

theorem filterMap_names_nodup (ix : List Def) (cimp : Path → String → Bool) (f : Path) (ns : List String)
    (hn : ns.Nodup) : ((ns.filterMap (fun n => availPick ix cimp f n)).map (·.name)).Nodup := by
  induction ns with
  | nil => simp
  | cons n rest ih =>
    have hr := (List.nodup_cons.mp hn)
    simp only [List.filterMap_cons]
    cases hp : availPick ix cimp f n with
    | none => exact ih hr.2
    | some d =>
      simp only [List.map_cons]
      refine List.nodup_cons.mpr ⟨?_, ih hr.2⟩
      intro hmem
      rw [List.mem_map] at hmem
      obtain ⟨e, he, hen⟩ := hmem
      rw [List.mem_filterMap] at he
      obtain ⟨m, hm, hpm⟩ := he
      have h1 := (availPick_name hp).2
      have h2 := (availPick_name hpm).2
      have : m = n := by rw [← h2, hen, h1]
      subst this
      exact hr.1 hm

/-- **C05 (one entry per name).** The per-file view never lists a fixture name twice. -/
theorem C05_names_nodup (ix : List Def) (cimp : Path → String → Bool) (f : Path) :
    ((available ix cimp f).map (·.name)).Nodup := by
  unfold available
  have hp := (sortByName_perm ((dedup (ix.map (·.name))).filterMap (fun n => availPick ix cimp f n))).map (·.name)
  exact (hp.nodup_iff).mpr (filterMap_names_nodup ix cimp f _ (nodup_dedup _))

/-- every entry of the view is the per-name pick, and every name with a pick has an entry -/
theorem C05_mem_available (ix : List Def) (cimp : Path → String → Bool) (f : Path) (d : Def) :
    d ∈ available ix cimp f ↔ d ∈ ix ∧ availPick ix cimp f d.name = some d := by
  unfold available
  rw [(sortByName_perm _).mem_iff, List.mem_filterMap]
  constructor
  · rintro ⟨n, _, hp⟩
    have := availPick_name hp
    rw [← this.2] at hp
    exact ⟨this.1, hp⟩
  · rintro ⟨hd, hp⟩
    exact ⟨d.name, mem_dedup.mpr (List.mem_map.mpr ⟨d, hd, rfl⟩), hp⟩

theorem availWalk_eq_walkUp (ds : List Def) (imp : Path → Bool) (dirs : List Path) :
    availWalk ds imp dirs = walkUp ds (fun _ => true) imp dirs := by
  induction dirs with
  | nil => rfl
  | cons dir rest ih =>
    simp only [availWalk, walkUp, Bool.and_true]
    rw [ih]
    have : ds.find? (fun _ => true) = ds.head? := by cases ds <;> simp
    rw [this]

/-- **C05 (the view's entry is the one navigation selects).** For every index, file and name: when
    the import test of the view agrees with the resolver's (it is the same test since 2cb3f1f), the
    entry `compute_available_fixtures` keeps for `n` is exactly what `find_closest_definition`
    resolves `n` to from that file — the last definition in the file itself, else the nearest
    conftest's own or imported one, else a plugin's, else a third-party one. -/
theorem C05_pick_is_resolve (ix : List Def) (cimp imp : Path → String → Bool) (f : Path) (n : String)
    (horacle : ∀ c, cimp c n = imp c n) :
    availPick ix cimp f n = resolve ix imp f n := by
  unfold availPick resolve resolveF
  simp only [Bool.and_true]
  rw [availWalk_eq_walkUp]
  have : (fun c => cimp c n) = (fun c => imp c n) := funext horacle
  rw [this]

/-- the full statement (every entry is the definition go-to-definition would navigate to) -/
def C05_statement : Prop :=
  ∀ (ix : List Def) (imp : Path → String → Bool) (f : Path) (n : String),
    availPick ix imp f n = resolve ix imp f n

namespace C05cx
def d1 : Def :=
  { name := "foo", file := ["test_a.py"], line := 3, endLine := 4, startChar := 4,
    endChar := 7, docstring := none, returnType := none, thirdParty := false, plugin := false,
    deps := [], scope := .function, yieldLine := none, autouse := false }
def d2 : Def := { d1 with line := 7, endLine := 8 }
end C05cx

/-- **`C05_statement` holds** (it failed before 48a0862: a name defined twice in one file — the
    view listed the first definition, navigation goes to the last; `corpus/C05/e2_twice.case`). -/
theorem C05_statement_holds : C05_statement :=
  fun ix imp f n => C05_pick_is_resolve ix imp imp f n (fun _ => rfl)

open C05cx in
/-- the former counterexample: both now answer the LAST definition -/
example : availPick [d1, d2] (fun _ _ => false) ["test_a.py"] "foo" = some d2 ∧
    resolve [d1, d2] (fun _ _ => false) ["test_a.py"] "foo" = some d2 := by
  constructor <;> simp [availPick, resolve, resolveF, defsOf, d1, d2, maxByLine]

/-- `C05_pick_is_resolve` on two files -/
example : availPick [C05cx.d1, { C05cx.d1 with file := ["conftest.py"] }] (fun _ _ => false) ["test_a.py"] "foo"
    = resolve [C05cx.d1, { C05cx.d1 with file := ["conftest.py"] }] (fun _ _ => false) ["test_a.py"] "foo" :=
  C05_pick_is_resolve _ _ _ _ _ (fun _ => rfl)

end PLS
