/-
  C14 / C07 — resolving a dotted module path to a file (`find_module_file`).

  * every non-final part only has to be a DIRECTORY: no `__init__.py` is asked for (namespace packages);
  * for the final part a module `X.py` wins over a package `X/__init__.py`, wherever either is known from (disk or
    the editor's cache) — what is cached never changes which of the two is meant.
-/
import PLS.Props.C14P
namespace PLS
open Index

/-- the final part: `X.py`, known from disk or cache, is the answer — whatever is known about `X/__init__.py` -/
theorem C14_module_before_package (st : Index) (last : String) (base : Path)
    (h : ahas st.disk (base ++ [last ++ ".py"]) = true ∨ ahas st.cache (base ++ [last ++ ".py"]) = true) :
    findModuleFile st [last] base = some (base ++ [last ++ ".py"]) := by
  unfold findModuleFile
  rcases h with h | h <;> simp [h]

/-- … and the package is the answer exactly when there is no such module -/
theorem C14_package_when_no_module (st : Index) (last : String) (base : Path)
    (hd : ahas st.disk (base ++ [last ++ ".py"]) = false) (hc : ahas st.cache (base ++ [last ++ ".py"]) = false)
    (h : ahas st.disk (base ++ [last, "__init__.py"]) = true ∨ ahas st.cache (base ++ [last, "__init__.py"]) = true) :
    findModuleFile st [last] base = some (base ++ [last, "__init__.py"]) := by
  unfold findModuleFile
  rcases h with h | h <;> simp [hd, hc, h]

/-- one step down: a non-final part that is a directory is entered, with nothing else asked of it -/
theorem findModuleFile_step (st : Index) (p q : String) (ps : List String) (base : Path)
    (h : st.isDir (base ++ [p]) = true) :
    findModuleFile st (p :: q :: ps) base = findModuleFile st (q :: ps) (base ++ [p]) := by
  rw [findModuleFile]
  · simp [h]
  · intro hc; cases hc

/-- **C14 (namespace packages).** A dotted path `d₁.d₂.….dₙ.last` below `base` resolves to `base/d₁/…/dₙ/last.py`
    as soon as every `base/d₁/…/dₖ` is a directory and the module file exists: no `__init__.py` anywhere. -/
theorem C14_dotted_path_through_directories (st : Index) (last : String) :
    ∀ (dirs : List String) (base : Path),
      (∀ k, 0 < k → k ≤ dirs.length → st.isDir (base ++ dirs.take k) = true) →
      (ahas st.disk (base ++ dirs ++ [last ++ ".py"]) = true ∨ ahas st.cache (base ++ dirs ++ [last ++ ".py"]) = true) →
      findModuleFile st (dirs ++ [last]) base = some (base ++ dirs ++ [last ++ ".py"]) := by
  intro dirs
  induction dirs with
  | nil =>
    intro base _ h
    simpa using C14_module_before_package st last base (by simpa using h)
  | cons d ds ih =>
    intro base hdir h
    have hd : st.isDir (base ++ [d]) = true := by simpa using hdir 1 (by omega) (by simp)
    have hstep : findModuleFile st (d :: (ds ++ [last])) base = findModuleFile st (ds ++ [last]) (base ++ [d]) := by
      cases ds with
      | nil => exact findModuleFile_step st d last [] base hd
      | cons e es => exact findModuleFile_step st d e (es ++ [last]) base hd
    rw [List.cons_append, hstep]
    have := ih (base ++ [d])
      (by
        intro k hk hkl
        have := hdir (k + 1) (by omega) (by simp; omega)
        simpa [List.take_succ_cons, List.append_assoc] using this)
      (by simpa [List.append_assoc] using h)
    simpa [List.append_assoc] using this

/-- non-vacuity: `fixtures.db` below the root, `fixtures/` a directory without `__init__.py` -/
example (v : Version) :
    findModuleFile { (default : Index) with disk := [(["fixtures", "db.py"], v)], dirs := [["fixtures"]] }
      ["fixtures", "db"] [] = some ["fixtures", "db.py"] := by
  simp [findModuleFile, isDir, ahas]

end PLS
