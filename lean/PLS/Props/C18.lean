/-
  C18 — completion offers exactly the usable fixtures, only where they can be requested.
-/
import PLS.Model.Completion
import PLS.Props.C05
namespace PLS
open Index

/-- the sort classes are the ones of the Rust source as extracted on this run -/
theorem C18_priority_table :
    Generated.completionPriorities = [("fixture.file_path == current_file", 0), ("fixture.is_third_party", 3),
      ("fixture.is_plugin", 2), ("else", 1)] ∧
    Generated.excludedParamNames = ["self", "cls"] := ⟨rfl, rfl⟩

/-- **C18 (sort order: same file, then conftest / other project files, then plugin, then
    third-party; ties broken by name through the `"{priority}_{name}"` text).** -/
theorem C18_sort_classes (d : Def) (cur : Path) :
    (d.file = cur → sortPriority d cur = 0) ∧
    (d.file ≠ cur → d.thirdParty = true → sortPriority d cur = 3) ∧
    (d.file ≠ cur → d.thirdParty = false → d.plugin = true → sortPriority d cur = 2) ∧
    (d.file ≠ cur → d.thirdParty = false → d.plugin = false → sortPriority d cur = 1) := by
  unfold sortPriority
  refine ⟨?_, ?_, ?_, ?_⟩
  · intro h; simp [h]
  · intro h1 h2; simp [h1, h2]
  · intro h1 h2 h3; simp [h1, h2, h3]
  · intro h1 h2 h3; simp [h1, h2, h3]

/-- **C18 (what is filtered out): a name already declared, the fixture being edited, `self`/`cls`,
    and — inside a fixture — fixtures of narrower scope.  Nothing else.** -/
theorem C18_excluded_iff (d : Def) (declared : Option (List String)) (current : Option String) (scope : Option Scope) :
    excluded d declared current scope = true ↔
      (d.name ∈ Generated.excludedParamNames ∨ current = some d.name ∨
       (∃ ps, declared = some ps ∧ d.name ∈ ps) ∨ (∃ s, scope = some s ∧ d.scope < s)) := by
  unfold excluded
  simp only [Bool.or_eq_true, List.contains_eq_mem, decide_eq_true_eq]
  constructor
  · rintro (((h | h) | h) | h)
    · exact Or.inl (by simpa using h)
    · cases current with
      | none => simp at h
      | some n => simp at h; exact Or.inr (Or.inl (by rw [h]))
    · cases declared with
      | none => simp at h
      | some ps => exact Or.inr (Or.inr (Or.inl ⟨ps, rfl, by simpa using h⟩))
    · cases scope with
      | none => simp at h
      | some s => exact Or.inr (Or.inr (Or.inr ⟨s, rfl, by simpa using h⟩))
  · rintro (h | h | ⟨ps, rfl, h⟩ | ⟨s, rfl, h⟩)
    · exact Or.inl (Or.inl (Or.inl (by simpa using h)))
    · subst h; exact Or.inl (Or.inl (Or.inr (by simp)))
    · exact Or.inl (Or.inr (by simpa using h))
    · exact Or.inr (by simpa using h)

/-- **C18 (every name is offered once)**: filtering the per-file view keeps names distinct. -/
theorem C18_labels_nodup (ix : List Def) (cimp : Path → String → Bool) (f : Path)
    (p : Def → Bool) : (((available ix cimp f).filter p).map (·.name)).Nodup := by
  have h := C05_names_nodup ix cimp f
  exact (List.Nodup.sublist ((List.filter_sublist).map _) h)

/-- **C18 (signature vs body)**: inside a test/fixture function the context is "signature" up to
    the line the signature ends on, "body" below — and there is a context exactly when the
    cursor line is inside the function's range and the function is a test or a fixture. -/
theorem C18_func_context (lines : List Chars) (target : Nat) (name : String) (decos : List Expr)
    (args : Args) (ret : Option Expr) (body : List Stmt) (r : Range) :
    ((funcCtx lines target name decos args ret body r).isSome = true ↔
      (r.line ≤ target ∧ target ≤ r.endLine ∧ (name.startsWith "test_" = true ∨ decos.any isFixtureDecorator = true))) ∧
    (∀ fn l fx ps sc, funcCtx lines target name decos args ret body r = some (.signature fn l fx ps sc) →
      target ≤ signatureEndLine lines r.line args ret body) ∧
    (∀ fn l fx ps sc, funcCtx lines target name decos args ret body r = some (.body fn l fx ps sc) →
      signatureEndLine lines r.line args ret body < target) := by
  unfold funcCtx
  by_cases h1 : (target < r.line || target > r.endLine) = true
  · simp only [h1, if_true]
    simp only [Bool.or_eq_true, decide_eq_true_eq] at h1
    refine ⟨by simp; omega, by simp, by simp⟩
  · simp only [h1]
    simp only [Bool.or_eq_true, decide_eq_true_eq, not_or, Nat.not_lt] at h1
    by_cases h2 : (!name.startsWith "test_" && !decos.any isFixtureDecorator) = true
    · simp only [h2, if_true]
      simp only [Bool.and_eq_true, Bool.not_eq_true'] at h2
      refine ⟨by simp [h2.1, h2.2], by simp, by simp⟩
    · simp only [h2]
      have h2' : name.startsWith "test_" = true ∨ decos.any isFixtureDecorator = true := by
        simp only [Bool.and_eq_true, Bool.not_eq_true', not_and, Bool.not_eq_false] at h2
        by_cases ht : name.startsWith "test_" = true
        · exact Or.inl ht
        · exact Or.inr (h2 (by simpa using ht))
      by_cases h3 : target ≤ signatureEndLine lines r.line args ret body
      · simp only [h3, if_true]
        refine ⟨⟨fun _ => ⟨h1.1, by omega, h2'⟩, fun _ => rfl⟩, fun _ _ _ _ _ _ => trivial, by simp⟩
      · simp only [h3]
        refine ⟨⟨fun _ => ⟨h1.1, by omega, h2'⟩, fun _ => rfl⟩, by simp, fun _ _ _ _ _ _ => by omega⟩

/-- **C18 (a parametrize decorator is a fixture-name context only when it is indirect)** — since
    the E18 repair: a cursor on the lines of `@pytest.mark.parametrize(...)` gives a context iff the
    call carries `indirect=` with something other than the constant `False` (before, ANY
    parametrize decorator did). -/
theorem C18_parametrize_iff_indirect (target : Nat) (d : Expr) (ds : List Expr)
    (hline : d.range.line ≤ target ∧ target ≤ d.range.endLine)
    (hu : isUsefixtures d = false) :
    (isIndirectParametrize d = true → decoCtx target (d :: ds) = some .parametrize) ∧
    (isIndirectParametrize d = false → decoCtx target (d :: ds) = decoCtx target ds) := by
  constructor
  · intro hp; simp [decoCtx, hline.1, hline.2, hu, hp]
  · intro hp; simp [decoCtx, hline.1, hline.2, hu, hp]

/-- `parametrize("a", [1, 2])` without `indirect=` is not indirect; with `indirect=True` it is -/
example : isIndirectParametrize (.call (.attribute (.attribute (.name "pytest" ⟨1,1,1,7⟩) "mark" ⟨1,1,1,12⟩) "parametrize" ⟨1,1,1,24⟩)
    [.constant (.str "a") ⟨1,25,1,28⟩] [] [] ⟨1,1,1,40⟩) = false := by decide
example : isIndirectParametrize (.call (.attribute (.attribute (.name "pytest" ⟨1,1,1,7⟩) "mark" ⟨1,1,1,12⟩) "parametrize" ⟨1,1,1,24⟩)
    [.constant (.str "a") ⟨1,25,1,28⟩] [some "indirect"] [.constant (.bool true) ⟨1,40,1,44⟩] ⟨1,1,1,45⟩) = true := by decide

/-- **C18 (a document that parses is judged by its AST alone).** The text heuristics written for
    half-typed code are not consulted for a valid document: a `def` line the analyzer does not treat
    as a test or fixture (a helper nested in a function, a function under `if`) gives no context —
    like its body (before the repair the fallback ran on valid documents too). -/
theorem C18_valid_uses_ast (lower : String → String) (st : Index) (f : Path) (line0 : Nat) (v : Version) (fr : FileRec)
    (hc : st.content f = some v) (hp : v.parsed = some fr) :
    st.completionContext lower f line0 =
      (decoratorCtx (line0 + 1) fr.body).orElse (fun _ => functionCtx (linesOf v.text.toList) (line0 + 1) fr.body) := by
  unfold Index.completionContext
  rw [hc]
  simp only [hp]

/-- **C18 (handler: what a signature or body completion offers).** The labels are exactly the names of the per-file
    view that `excluded` lets through, where the "function being edited" is handed to the filter ONLY when that function
    is a fixture: a test function named like a visible fixture is offered that fixture like any other name. -/
theorem C18_offered_in_function (lower : String → String) (st : Index) (f : Path) (line0 : Nat) (comma : Bool)
    (fn : String) (fnLine : Nat) (isFx : Bool) (declared : List String) (scope : Option Scope)
    (h : st.completionContext lower f line0 = some (.signature fn fnLine isFx declared scope) ∨
         st.completionContext lower f line0 = some (.body fn fnLine isFx declared scope)) :
    ((hCompletion lower st f line0 comma).1.map (fun l => l.map (·.label))) =
      some (((st.availableSt f).1.filter
        (fun d => !excluded d (some declared) (if isFx then some fn else none) scope)).map (·.name)) := by
  unfold hCompletion
  rcases h with h | h <;> rw [h] <;> simp [List.map_map, Function.comp_def]

/-- the filter a TEST function's completion applies never looks at the function's own name -/
theorem C18_test_not_self_excluded (d : Def) (declared : List String) (fn : String) (scope : Option Scope) :
    excluded d (some declared) (if false then some fn else none) scope =
      (Generated.excludedParamNames.contains d.name || declared.contains d.name ||
       (match scope with | some s => decide (d.scope < s) | none => false)) := by
  cases scope <;> simp [excluded]

/-- … while a fixture's does: its own name is withheld -/
theorem C18_fixture_self_excluded (d : Def) (declared : List String) (scope : Option Scope) :
    excluded d (some declared) (if true then some d.name else none) scope = true := by
  simp [excluded]

end PLS
