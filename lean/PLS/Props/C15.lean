/-
  C15 — reported positions identify exactly the right tokens.
-/
import PLS.Model.Lsp
import PLS.Props.C03
namespace PLS

/-- UTF-16 length of a character / a prefix (what LSP `character` counts) -/
def u16len1 (c : Char) : Nat := if c.val < 0x10000 then 1 else 2
def u16len : Chars → Nat
  | [] => 0
  | c :: cs => u16len1 c + u16len cs

def isAscii (c : Char) : Bool := c.val < 0x80

/-- **C15 (byte columns are UTF-16 columns exactly on ASCII prefixes).** The implementation ships
    byte columns as `character`; they coincide with the protocol's UTF-16 columns when everything
    before the token on its line is ASCII. -/
theorem C15_ascii_prefix_cols (pre : Chars) (h : ∀ c ∈ pre, isAscii c = true) : blen pre = u16len pre := by
  induction pre with
  | nil => rfl
  | cons c cs ih =>
    have hc : c.val < 0x80 := by simpa [isAscii] using h c (by simp)
    have ih' := ih (fun x hx => h x (by simp [hx]))
    have h1 : clen c = 1 := by simp [clen, hc]
    have h2 : u16len1 c = 1 := by
      have : c.val < 0x10000 := UInt32.lt_trans hc (by decide)
      simp [u16len1, this]
    simp [blen, u16len, h1, h2, ih']

/-- … and differ as soon as one non-ASCII character precedes the token (E13). -/
theorem C15_non_ascii_cols_differ : ∃ pre : Chars, blen pre ≠ u16len pre :=
  ⟨['é'], by decide⟩

def Loc.wellFormed (l : Loc) : Prop :=
  l.line0 < l.endLine0 ∨ (l.line0 = l.endLine0 ∧ l.startChar ≤ l.endChar)

/-- `inner ⊆ outer` for LSP ranges -/
def Loc.within (inner outer : Loc) : Prop :=
  (outer.line0 < inner.line0 ∨ (outer.line0 = inner.line0 ∧ outer.startChar ≤ inner.startChar)) ∧
  (inner.endLine0 < outer.endLine0 ∨ (inner.endLine0 = outer.endLine0 ∧ inner.endChar ≤ outer.endChar))

/-- **C15 (navigation targets point at the definition line).** -/
theorem C15_definition_target (st : Index) (f : Path) (line0 col : Nat) (l : Loc)
    (h : (st.hDefinition f line0 col).1 = some l) :
    ∃ d, (st.goto f line0 col).1 = some d ∧ l = pointLoc d.file (d.line - 1) := by
  unfold Index.hDefinition at h
  cases hg : st.goto f line0 col with
  | mk r st' =>
    rw [hg] at h
    cases r with
    | none => simp at h
    | some d => simp at h; exact ⟨d, rfl, by simp [← h, toLsp]⟩

/-- **C15 (implementation points at the yield line when there is one, else at the def line).** -/
theorem C15_implementation_target (st : Index) (f : Path) (line0 col : Nat) (l : Loc)
    (h : (st.hImplementation f line0 col).1 = some l) :
    ∃ d, (st.gotoOrDef f line0 col).1 = some d ∧
      l = pointLoc d.file ((match d.yieldLine with | some y => y | none => d.line) - 1) := by
  unfold Index.hImplementation at h
  cases hg : st.gotoOrDef f line0 col with
  | mk r st' =>
    rw [hg] at h
    cases r with
    | none => simp at h
    | some d => simp at h; exact ⟨d, rfl, by rw [← h]; rfl⟩

/-- **C15 (a document symbol's selection range lies inside its range)** — for every definition
    whose lines are numbered from 1 and whose end is not before its start (every recorded one).
    Before the E17 repair the `range` of a one-line or assignment-style fixture was the empty range
    at column 0 and did not contain the name (`C15_selection_outside_range_before`). -/
theorem C15_symbol_selection (st : Index) (f : Path) (s : Index.DocSymbol) (h : s ∈ st.hDocumentSymbols f) :
    ∃ d ∈ st.defs,
      s.range = ⟨f, d.line - 1, 0, d.endLine - 1, if d.endLine == d.line then d.endChar else 0⟩ ∧
      s.selection = spanLoc f (d.line - 1) d.startChar d.endChar ∧
      (1 ≤ d.line → d.line ≤ d.endLine → Loc.within s.selection s.range) := by
  unfold Index.hDocumentSymbols at h
  rw [List.mem_map] at h
  obtain ⟨d, hd, rfl⟩ := h
  simp only [List.mem_filter] at hd
  refine ⟨d, hd.1, rfl, rfl, ?_⟩
  intro h1 hle
  simp only [Loc.within, spanLoc, toLsp]
  refine ⟨Or.inr ⟨trivial, Nat.zero_le _⟩, ?_⟩
  by_cases he : d.endLine = d.line
  · right
    simp [he]
  · left
    omega

/-- the shape the repair removed: an empty range at column 0 does not contain a name -/
theorem C15_selection_outside_range_before :
    ∃ (range selection : Loc), range = ⟨[], 3, 0, 3, 0⟩ ∧ selection = spanLoc [] 3 4 13 ∧
      ¬ Loc.within selection range := by
  refine ⟨_, _, rfl, rfl, ?_⟩
  simp [Loc.within, spanLoc]

/-- **C15 (parameter spans are well formed and cover the parameter name).** -/
theorem C15_param_range_wellformed (f : Path) (a : Arg) :
    match argUsage f a with
    | .usage u => Loc.wellFormed (spanLoc f (u.line - 1) u.startChar u.endChar) ∧
        u.endChar - u.startChar = a.name.utf8ByteSize
    | _ => False := by
  simp [argUsage, Loc.wellFormed, spanLoc]

/-- **C15 (string usages drop one column at each end of the literal's range)**: exact for a plain
    one-line `"name"` / `'name'` literal, off for prefixed and triple-quoted literals, and
    ill-formed when the literal ends on a later line at a smaller column. -/
theorem C15_string_usage_span (f : Path) (s : String) (r : Range) :
    match strUsage f (· + 1) (· - 1) (s, r) with
    | .usage u => u.line = r.line ∧ u.startChar = r.col + 1 ∧ u.endChar = r.endCol - 1
    | _ => False := by
  simp [strUsage]

end PLS
