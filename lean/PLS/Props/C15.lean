/-
  C15 — reported positions identify exactly the right tokens.
-/
import PLS.Model.Lsp
import PLS.Props.C03
import PLS.Lemmas.Span
namespace PLS

/-- UTF-16 length of a character / a prefix (what LSP `character` counts) -/
def u16len1 (c : Char) : Nat := if c.val < 0x10000 then 1 else 2
def u16len : Chars → Nat
  | [] => 0
  | c :: cs => u16len1 c + u16len cs

def isAscii (c : Char) : Bool := c.val < 0x80

/-- **C15 (byte columns are UTF-16 columns exactly on ASCII prefixes).** The implementation ships
    byte columns as `character`; they coincide with the protocol's UTF-16 columns when everything
    before the token on its line is ASCII. -/
theorem C15_ascii_prefix_cols (pre : Chars) (h : ∀ c ∈ pre, isAscii c = true) : blen pre = u16len pre := by
  induction pre with
  | nil => rfl
  | cons c cs ih =>
    have hc : c.val < 0x80 := by simpa [isAscii] using h c (by simp)
    have ih' := ih (fun x hx => h x (by simp [hx]))
    have h1 : clen c = 1 := by simp [clen, hc]
    have h2 : u16len1 c = 1 := by
      have : c.val < 0x10000 := UInt32.lt_trans hc (by decide)
      simp [u16len1, this]
    simp [blen, u16len, h1, h2, ih']

/-- … and differ as soon as one non-ASCII character precedes the token (E13). -/
theorem C15_non_ascii_cols_differ : ∃ pre : Chars, blen pre ≠ u16len pre :=
  ⟨['é'], by decide⟩

def Loc.wellFormed (l : Loc) : Prop :=
  l.line0 < l.endLine0 ∨ (l.line0 = l.endLine0 ∧ l.startChar ≤ l.endChar)

/-- `inner ⊆ outer` for LSP ranges -/
def Loc.within (inner outer : Loc) : Prop :=
  (outer.line0 < inner.line0 ∨ (outer.line0 = inner.line0 ∧ outer.startChar ≤ inner.startChar)) ∧
  (inner.endLine0 < outer.endLine0 ∨ (inner.endLine0 = outer.endLine0 ∧ inner.endChar ≤ outer.endChar))

/-- **C15 (navigation targets point at the definition line).** -/
theorem C15_definition_target (st : Index) (f : Path) (line0 col : Nat) (l : Loc)
    (h : (st.hDefinition f line0 col).1 = some l) :
    ∃ d, (st.goto f line0 col).1 = some d ∧ l = pointLoc d.file (d.line - 1) := by
  unfold Index.hDefinition at h
  cases hg : st.goto f line0 col with
  | mk r st' =>
    rw [hg] at h
    cases r with
    | none => simp at h
    | some d => simp at h; exact ⟨d, rfl, by simp [← h, toLsp]⟩

/-- **C15 (implementation points at the yield line when there is one, else at the def line).** -/
theorem C15_implementation_target (st : Index) (f : Path) (line0 col : Nat) (l : Loc)
    (h : (st.hImplementation f line0 col).1 = some l) :
    ∃ d, (st.gotoOrDef f line0 col).1 = some d ∧
      l = pointLoc d.file ((match d.yieldLine with | some y => y | none => d.line) - 1) := by
  unfold Index.hImplementation at h
  cases hg : st.gotoOrDef f line0 col with
  | mk r st' =>
    rw [hg] at h
    cases r with
    | none => simp at h
    | some d => simp at h; exact ⟨d, rfl, by rw [← h]; rfl⟩

/-- **C15 (a document symbol's selection range lies inside its range)** — for every definition
    whose lines are numbered from 1 and whose end is not before its start (every recorded one).
    Before the E17 repair the `range` of a one-line or assignment-style fixture was the empty range
    at column 0 and did not contain the name (`C15_selection_outside_range_before`). -/
theorem C15_symbol_selection (st : Index) (f : Path) (s : Index.DocSymbol) (h : s ∈ st.hDocumentSymbols f) :
    ∃ d ∈ st.defs,
      s.range = ⟨f, d.line - 1, 0, d.endLine - 1, if d.endLine == d.line then d.endChar else 0⟩ ∧
      s.selection = spanLoc f (d.line - 1) d.startChar d.endChar ∧
      (1 ≤ d.line → d.line ≤ d.endLine → Loc.within s.selection s.range) := by
  unfold Index.hDocumentSymbols at h
  rw [List.mem_map] at h
  obtain ⟨d, hd, rfl⟩ := h
  simp only [List.mem_filter] at hd
  refine ⟨d, hd.1, rfl, rfl, ?_⟩
  intro h1 hle
  simp only [Loc.within, spanLoc, toLsp]
  refine ⟨Or.inr ⟨trivial, Nat.zero_le _⟩, ?_⟩
  by_cases he : d.endLine = d.line
  · right
    simp [he]
  · left
    omega

/-- the shape the repair removed: an empty range at column 0 does not contain a name -/
theorem C15_selection_outside_range_before :
    ∃ (range selection : Loc), range = ⟨[], 3, 0, 3, 0⟩ ∧ selection = spanLoc [] 3 4 13 ∧
      ¬ Loc.within selection range := by
  refine ⟨_, _, rfl, rfl, ?_⟩
  simp [Loc.within, spanLoc]

/-- **C15 (parameter spans are well formed and cover the parameter name).** -/
theorem C15_param_range_wellformed (f : Path) (a : Arg) :
    match argUsage f a with
    | .usage u => Loc.wellFormed (spanLoc f (u.line - 1) u.startChar u.endChar) ∧
        u.endChar - u.startChar = a.name.utf8ByteSize
    | _ => False := by
  simp [argUsage, Loc.wellFormed, spanLoc]

/-- what `stringNameSpan` answers when some line of the literal spells the name as a whole word -/
theorem stringNameSpan_found (lines : List Chars) (name : Chars) (line col endLine endCol : Nat)
    (k : Nat × Nat × Nat)
    (h : (List.range (endLine + 1 - line)).findSome? (fun k =>
      match literalSegment lines line col endLine endCol (line + k) with
      | none => none
      | some (s, seg) =>
        (wordOccAux name none 0 seg).map (fun off => (line + k, s + off, s + off + blen name))) = some k) :
    line ≤ k.1 ∧ k.1 ≤ endLine ∧ k.2.2 = k.2.1 + blen name ∧
    ∃ L pre post, lines[k.1 - 1]? = some L ∧ L = pre ++ name ++ post ∧ blen pre = k.2.1 := by
  obtain ⟨i, hi, hk⟩ := List.exists_of_findSome?_eq_some h
  have hi' : i < endLine + 1 - line := by simpa using hi
  cases hseg : literalSegment lines line col endLine endCol (line + i) with
  | none => simp [hseg] at hk
  | some p =>
    obtain ⟨s, seg⟩ := p
    simp only [hseg, Option.map_eq_some_iff] at hk
    obtain ⟨off, hoff, rfl⟩ := hk
    obtain ⟨pre', post', hs, hb, ha⟩ := wordOccAux_spells name seg none 0 off hoff
    refine ⟨by omega, by omega, rfl, ?_⟩
    obtain ⟨L, p, q, hL, hLs, hpb⟩ := literalSegment_spec _ _ _ _ _ _ _ _ hseg
    refine ⟨L, p ++ pre', post' ++ q, hL, ?_, ?_⟩
    · rw [hLs, hs]; simp [List.append_assoc]
    · rw [blen_append, hpb, hb]

/-- **C15 (a fixture named in a string literal is reported at the name's own place).** The usage
    recorded for a name in `usefixtures("…")`, `pytestmark` or an indirect `parametrize` either
    lies on a line of the literal where the source text, at exactly the recorded byte columns,
    spells the name (whatever prefix, quote style or continuation line the literal has, and
    however many names share one string), or - when no line of the literal spells the name as a
    whole word (escape sequences, implicit concatenation, a line break in the name) - is the span
    between the first and the last column of the literal. In both cases the end is not before the
    start. -/
theorem C15_string_usage_span (f : Path) (lines : List Chars) (s : String) (r : Range) :
    match strUsage f lines (s, r) with
    | .usage u =>
      u.startChar ≤ u.endChar ∧
      ((r.line ≤ u.line ∧ u.line ≤ r.endLine ∧ u.endChar = u.startChar + blen s.toList ∧
        ∃ L pre post, lines[u.line - 1]? = some L ∧ L = pre ++ s.toList ++ post ∧ blen pre = u.startChar) ∨
      (u.line = r.line ∧ u.startChar = r.col + 1 ∧ u.endChar = max (r.endCol - 1) (r.col + 1)))
    | _ => False := by
  simp only [strUsage, stringNameSpan]
  split
  · simp only [Option.getD_none]
    exact ⟨by omega, Or.inr ⟨by trivial, by trivial, by trivial⟩⟩
  · cases hf : (List.range (r.endLine + 1 - r.line)).findSome? (fun k =>
        match literalSegment lines r.line r.col r.endLine r.endCol (r.line + k) with
        | none => none
        | some (s', seg) =>
          (wordOccAux s.toList none 0 seg).map (fun off => (r.line + k, s' + off, s' + off + blen s.toList))) with
    | none =>
      simp only [Option.getD_none]
      exact ⟨by omega, Or.inr ⟨by trivial, by trivial, by trivial⟩⟩
    | some k =>
      have h := stringNameSpan_found lines s.toList r.line r.col r.endLine r.endCol k hf
      simp only [Option.getD_some]
      exact ⟨by omega, Or.inl h⟩

/-- **C15 (a one-line literal `prefix"name"`)**: for an identifier between two quotes on one
    line - after any string prefix - the span is the text between the quotes. With an empty prefix
    this is what was recorded before the repair, so the repair changes nothing for the literals
    that were already right; with `r` / `b` / `u` it is the case the old `+1 / -1` rule missed. -/
theorem C15_oneline_literal_span (f : Path) (pre pfx post : Chars) (s : String) (q : Char) (ln : Nat)
    (lines : List Chars) (hs : s.toList ≠ []) (hw : ∀ c ∈ s.toList, isWordChar c = true)
    (hq : isQuote q = true) (hpfx : ∀ c ∈ pfx, isQuote c = false)
    (hl : lines[ln - 1]? = some (pre ++ (pfx ++ q :: (s.toList ++ [q])) ++ post)) :
    strUsage f lines (s, ⟨ln, blen pre, ln, blen pre + (blen pfx + blen s.toList + 2)⟩) =
      .usage ⟨s, f, ln, blen pre + blen pfx + 1, blen pre + blen pfx + 1 + blen s.toList⟩ := by
  have hqc : q = '"' ∨ q = '\'' := by simpa [isQuote] using hq
  have hq1 : clen q = 1 := by rcases hqc with rfl | rfl <;> decide
  have hqw : isWordChar q = false := by rcases hqc with rfl | rfl <;> decide
  have hr : List.range (ln + 1 - ln) = [0] := by
    have : ln + 1 - ln = 1 := by omega
    rw [this]; rfl
  have hlen : blen (pfx ++ q :: (s.toList ++ [q])) = blen pfx + blen s.toList + 2 := by
    simp only [blen, blen_append, hq1]; omega
  have htw : (pfx ++ q :: (s.toList ++ [q])).takeWhile (fun c => !isQuote c) = pfx := by
    rw [List.takeWhile_append_of_pos (by intro c hc; simp [hpfx c hc])]
    simp [List.takeWhile, hq]
  have hdw : (pfx ++ q :: (s.toList ++ [q])).dropWhile (fun c => !isQuote c) = q :: (s.toList ++ [q]) := by
    rw [List.dropWhile_append_of_pos (by intro c hc; simp [hpfx c hc])]
    simp [List.dropWhile, hq]
  have hany : (pfx ++ q :: (s.toList ++ [q])).any isQuote = true := by simp [hq]
  have hseg : literalSegment lines ln (blen pre) ln (blen pre + (blen pfx + blen s.toList + 2)) (ln + 0) =
      some (blen pre + blen pfx, q :: (s.toList ++ [q])) := by
    simp only [literalSegment, Nat.add_zero, hl, beq_self_eq_true, if_true]
    rw [List.append_assoc, bsliceFrom_append]
    have : blen pre + (blen pfx + blen s.toList + 2) - blen pre = blen (pfx ++ q :: (s.toList ++ [q])) := by
      rw [hlen]; omega
    simp only [this, bsliceTo_append, Option.map_some, skipStringPrefix, hany, if_true, htw, hdw]
  have hocc := wordOccAux_after_quote s.toList [q] q hs hqw hw (by simp [hqw])
  have hnl : s.toList.contains '\n' = false := by
    cases hc : s.toList.contains '\n' with
    | false => rfl
    | true =>
      have := hw '\n' (by simpa using hc)
      exact absurd this (by decide)
  simp only [strUsage, stringNameSpan, hnl, Bool.false_eq_true, if_false, hr, List.findSome?_cons, hseg, hocc,
    Option.map_some, hq1, Option.getD_some]
  rfl

/-- the model on the forms the old rule got wrong (tests of the definitions, not theorems):
    a raw literal, a triple-quoted literal continued on the next line, two names in one
    `parametrize` string, a name that is also the prefix letter, and the fallback for a literal
    whose source text does not spell the name -/
example : stringNameSpan ["@pytest.mark.usefixtures(r\"db\")".toList] "db".toList 1 25 1 30 = (1, 27, 29) := by decide
example : stringNameSpan ["@pytest.mark.usefixtures(\"\"\"".toList, "db\"\"\")".toList] "db".toList 1 25 2 5 = (2, 0, 2) := by decide
example : stringNameSpan ["@pytest.mark.parametrize(\"ab, a\", [], indirect=True)".toList] "a".toList 1 25 1 32 = (1, 30, 31) := by decide
example : stringNameSpan ["@pytest.mark.usefixtures(r\"r\")".toList] "r".toList 1 25 1 29 = (1, 27, 28) := by decide
example : stringNameSpan ["@pytest.mark.usefixtures(\"d\\x62\")".toList] "db".toList 1 25 1 32 = (1, 26, 31) := by decide
example : stringNameSpan ["@pytest.mark.usefixtures(\"\"\"".toList, "db\"\"\")".toList] "\ndb".toList 1 25 2 5 = (1, 26, 26) := by decide

end PLS
