/-
  C01 — fixture resolution follows pytest's shadowing order.

  Property statements and theorems only (helper lemmas live in `PLS/Lemmas`).

  The theorems quantify over an ARBITRARY list `ix` of definitions: every workspace, every
  multiset of same-named definitions and every registration order at once.
-/
import PLS.Lemmas.Resolve
import PLS.Lemmas.Bridge
namespace PLS

/-! ## the declarative side -/

/-- `d` is visible from `f` through an ancestor conftest that provides it.
    `prov c d` : file `c` provides `d` (it defines it, or imports it). -/
def ViaConftest (prov : Path → Def → Prop) (f : Path) (d : Def) : Prop :=
  ∃ dir, dir <+: dirOf f ∧ prov (conftestOf dir) d

/-- the visibility rule of the property text -/
def Visible (prov : Path → Def → Prop) (f : Path) (d : Def) : Prop :=
  d.file = f ∨ ViaConftest prov f d ∨ (d.plugin = true ∧ d.thirdParty = false) ∨ d.thirdParty = true

/-- `d` is at least as good a candidate as `e`: same file ≻ nearer conftest ≻ farther conftest ≻
    workspace plugin ≻ third party — by *path length*, not by walk order. -/
def Better (prov : Path → Def → Prop) (f : Path) (d e : Def) : Prop :=
  d.file = f ∨
  (e.file ≠ f ∧
    ((∃ dir, dir <+: dirOf f ∧ prov (conftestOf dir) d ∧
        ∀ dir', dir' <+: dirOf f → prov (conftestOf dir') e → dir'.length ≤ dir.length) ∨
     (¬ ViaConftest prov f e ∧
        ((d.plugin = true ∧ d.thirdParty = false) ∨ ¬ (e.plugin = true ∧ e.thirdParty = false)))))

/-- what the property demands of an answer for name `n` used in file `f` -/
def Correct (ix : List Def) (prov : Path → Def → Prop) (f : Path) (n : String) : Option Def → Prop
  | none => ∀ d ∈ ix, d.name = n → ¬ Visible prov f d
  | some d => d ∈ ix ∧ d.name = n ∧ Visible prov f d ∧
      (∀ e ∈ ix, e.name = n → Visible prov f e → Better prov f d e) ∧
      (d.file = f → ∀ e ∈ ix, e.name = n → e.file = f → e.line ≤ d.line)

/-- the import oracle says exactly "conftest `c` imports some definition of `n`" -/
def OracleExact (ix : List Def) (prov : Path → Def → Prop) (imp : Path → String → Bool) (n : String) : Prop :=
  ∀ c, imp c n = true ↔ ∃ d ∈ ix, d.name = n ∧ d.file ≠ c ∧ prov c d

/-- the full statement: for every index, every provided-by relation extending "defines", and an
    exact import oracle, the resolver's answer is correct. -/
def C01_statement : Prop :=
  ∀ (ix : List Def) (prov : Path → Def → Prop) (imp : Path → String → Bool) (f : Path) (n : String),
    (∀ c d, d.file = c → prov c d) → OracleExact ix prov imp n →
    Correct ix prov f n (resolve ix imp f n)

/-- `H_imp`: whenever a conftest imports the name, the definition registered FIRST under that name
    is one the conftest provides (then "first definition anywhere" cannot pick a foreign one). -/
def Himp (ix : List Def) (prov : Path → Def → Prop) (imp : Path → String → Bool) (n : String) : Prop :=
  ∀ c, imp c n = true → ∀ d, (defsOf ix n).head? = some d → prov c d

/-! ## theorems -/

private theorem find_true_eq_head (ds : List Def) : ds.find? (fun _ => true) = ds.head? := by
  cases ds <;> simp

/-- **C01 (partial: under `H_imp`).**  The resolver returns a visible definition of the name that
    is at least as good as every other visible one, the last one when it is in the same file, and
    nothing only when nothing is visible — for every index, order, file and name. -/
theorem C01_resolve_correct (ix : List Def) (prov : Path → Def → Prop) (imp : Path → String → Bool)
    (f : Path) (n : String)
    (hown : ∀ c d, d.file = c → prov c d) (hex : OracleExact ix prov imp n) (himp : Himp ix prov imp n) :
    Correct ix prov f n (resolve ix imp f n) := by
  have hc := resolve_cases ix imp f n _ rfl
  simp only at hc
  -- a conftest level on which the walk found neither a direct nor an imported definition provides nothing
  have level_empty : ∀ x, (∀ e ∈ defsOf ix n, e.file = conftestOf x → (true = false)) →
      (imp (conftestOf x) n = true → (defsOf ix n).find? (fun _ => true) = none) →
      ∀ e ∈ ix, e.name = n → ¬ prov (conftestOf x) e := by
    intro x hdirect himpx e he hen hprov
    have hmem : e ∈ defsOf ix n := mem_defsOf.mpr ⟨he, hen⟩
    by_cases hfile : e.file = conftestOf x
    · exact absurd (hdirect e hmem hfile) (by simp)
    · have : imp (conftestOf x) n = true := (hex (conftestOf x)).mpr ⟨e, he, hen, hfile, hprov⟩
      have hnone := himpx this
      rw [find_true_eq_head] at hnone
      cases hds : defsOf ix n with
      | nil => rw [hds] at hmem; simp at hmem
      | cons a as => rw [hds] at hnone; simp at hnone
  rcases hc with ⟨d, hr, hd⟩ | ⟨hsame, hc⟩
  · -- same file
    rw [hr]
    have hm := maxByLine_mem hd
    simp only [List.mem_filter, beq_iff_eq] at hm
    have hmem := mem_defsOf.mp hm.1
    refine ⟨hmem.1, hmem.2, Or.inl hm.2, ?_, ?_⟩
    · intro e _ _ _; exact Or.inl hm.2
    · intro _ e he hen hef
      exact maxByLine_ge hd e (by simp [List.mem_filter, mem_defsOf, he, hen, hef])
  · have nosame : ∀ e ∈ ix, e.name = n → e.file ≠ f := by
      intro e he hen hef
      have := maxByLine_eq_none.mp hsame
      have hmem : e ∈ (defsOf ix n).filter (fun d => d.file == f) := by
        simp [List.mem_filter, mem_defsOf, he, hen, hef]
      rw [this] at hmem; simp at hmem
    rcases hc with ⟨d, hr, hw⟩ | ⟨hw, hc⟩
    · -- conftest walk
      rw [hr]
      obtain ⟨pre, dir, post, hsplit, hm, _, hcase, hpre⟩ := walkUp_some hw
      have hmem := mem_defsOf.mp hm
      have hdirmem : dir ∈ ancestorsOfDir (dirOf f) := by rw [hsplit]; simp
      have hprovd : prov (conftestOf dir) d := by
        rcases hcase with hfile | ⟨_, hi, hfind⟩
        · exact hown _ _ hfile
        · rw [find_true_eq_head] at hfind
          exact himp _ hi d hfind
      have hvia : ViaConftest prov f d := ⟨dir, mem_ancestors.mp hdirmem, hprovd⟩
      refine ⟨hmem.1, hmem.2, Or.inr (Or.inl hvia), ?_, ?_⟩
      · intro e he hen _
        refine Or.inr ⟨nosame e he hen, Or.inl ⟨dir, mem_ancestors.mp hdirmem, hprovd, ?_⟩⟩
        intro dir' hpref hprove
        have hmem' : dir' ∈ ancestorsOfDir (dirOf f) := mem_ancestors.mpr hpref
        rw [hsplit] at hmem'
        rcases List.mem_append.mp hmem' with hin | hin
        · have := hpre dir' hin
          exact absurd hprove (level_empty dir' (fun e he hf => by simpa using this.1 e he hf) this.2 e he hen)
        · rcases List.mem_cons.mp hin with rfl | hpost
          · exact Nat.le_refl _
          · have := ancestors_sorted hsplit dir' hpost; omega
      · intro hdf; exact absurd hdf (nosame d hmem.1 hmem.2)
    · have noconf : ∀ e ∈ ix, e.name = n → ¬ ViaConftest prov f e := by
        rintro e he hen ⟨dir', hpref, hprove⟩
        have := walkUp_none hw dir' (mem_ancestors.mpr hpref)
        exact level_empty dir' (fun e he hf => by simpa using this.1 e he hf) this.2 e he hen hprove
      rcases hc with ⟨d, hr, hp⟩ | ⟨hp, hr⟩
      · -- plugin
        rw [hr]
        have hpm := List.mem_of_find?_eq_some hp
        have hpp := List.find?_some hp
        simp at hpp
        have hmem := mem_defsOf.mp hpm
        refine ⟨hmem.1, hmem.2, Or.inr (Or.inr (Or.inl hpp)), ?_, ?_⟩
        · intro e he hen _
          exact Or.inr ⟨nosame e he hen, Or.inr ⟨noconf e he hen, Or.inl hpp⟩⟩
        · intro hdf; exact absurd hdf (nosame d hmem.1 hmem.2)
      · have noplug : ∀ e ∈ ix, e.name = n → ¬ (e.plugin = true ∧ e.thirdParty = false) := by
          intro e he hen hpl
          have := List.find?_eq_none.mp hp e (mem_defsOf.mpr ⟨he, hen⟩)
          simp at this
          exact absurd hpl.2 (by simpa using this hpl.1)
        rw [hr]
        cases ht : List.find? (fun d => d.thirdParty) (defsOf ix n) with
        | some d =>
          have htm := List.mem_of_find?_eq_some ht
          have htp := List.find?_some ht
          have hmem := mem_defsOf.mp htm
          refine ⟨hmem.1, hmem.2, Or.inr (Or.inr (Or.inr htp)), ?_, ?_⟩
          · intro e he hen _
            exact Or.inr ⟨nosame e he hen, Or.inr ⟨noconf e he hen, Or.inr (noplug e he hen)⟩⟩
          · intro hdf; exact absurd hdf (nosame d hmem.1 hmem.2)
        | none =>
          intro e he hen hv
          rcases hv with h | h | h | h
          · exact nosame e he hen h
          · exact noconf e he hen h
          · exact noplug e he hen h
          · have := List.find?_eq_none.mp ht e (mem_defsOf.mpr ⟨he, hen⟩)
            simp at this; simp [this] at h

/-- **C01 (navigation = resolution of the usage under the cursor).** For every recorded usage and
    every column inside its span, go-to-definition answers with the resolution of that usage
    (all usage kinds alike: they differ only in how the span was recorded). -/
theorem C01_goto_is_resolveUsage (ix : List Def) (imp : Path → String → Bool) (us : List Usage)
    (line0 col : Nat) (w : String) (u : Usage) (h : usageAt us (line0 + 1) w col = some u) :
    gotoWith ix imp us line0 col (some w) = resolveUsage ix imp u ∧
      u ∈ us ∧ u.line = line0 + 1 ∧ u.name = w ∧ u.startChar ≤ col ∧ col < u.endChar := by
  refine ⟨by simp [gotoWith, h], List.mem_of_find?_eq_some h, ?_⟩
  have := List.find?_some h
  simp only [Bool.and_eq_true, beq_iff_eq, decide_eq_true_eq] at this
  exact ⟨this.1.1.1, this.1.1.2, this.1.2, this.2⟩

/-- **C01 (nothing outside a usage).** When no recorded usage of that name on that line contains
    the column — or no word is under the cursor — the answer is empty. -/
theorem C01_goto_outside (ix : List Def) (imp : Path → String → Bool) (us : List Usage)
    (line0 col : Nat) (w : Option String)
    (h : ∀ u ∈ us, ∀ x, w = some x → ¬ (u.line = line0 + 1 ∧ u.name = x ∧ u.startChar ≤ col ∧ col < u.endChar)) :
    gotoWith ix imp us line0 col w = none := by
  cases w with
  | none => rfl
  | some x =>
    simp only [gotoWith]
    have : usageAt us (line0 + 1) x col = none := by
      unfold usageAt
      rw [List.find?_eq_none]
      intro u hu hcond
      simp only [Bool.and_eq_true, beq_iff_eq, decide_eq_true_eq] at hcond
      exact h u hu x rfl ⟨hcond.1.1.1, hcond.1.1.2, hcond.1.2, hcond.2⟩
    rw [this]

/-! ## the full statement is false of the code as it is (E1) -/

namespace C01cx
def dB : Def :=
  { name := "foo", file := ["b", "conftest.py"], line := 3, endLine := 4, startChar := 4,
    endChar := 7, docstring := none, returnType := none, thirdParty := false, plugin := false,
    deps := [], scope := .function, yieldLine := none, autouse := false }
def dA : Def := { dB with file := ["a", "fx.py"] }
/-- `b/conftest.py` was analysed first -/
def ix : List Def := [dB, dA]
/-- `a/conftest.py` does `from .fx import *` -/
def prov (c : Path) (d : Def) : Prop := d.file = c ∨ (c = ["a", "conftest.py"] ∧ d.file = ["a", "fx.py"])
def imp (c : Path) (n : String) : Bool := c == ["a", "conftest.py"] && n == "foo"
def f : Path := ["a", "test_a.py"]
end C01cx

open C01cx in
/-- **`C01_statement` fails**: with a sibling `b/conftest.py` registered first, the usage in
    `a/test_a.py` resolves to the invisible sibling definition (replayed on the implementation as
    corpus case `corpus/C01/e1_sibling_first.case`). -/
theorem C01_statement_false : ¬ C01_statement := by
  intro h
  have hown : ∀ c d, d.file = c → prov c d := fun c d h => Or.inl h
  have hex : OracleExact ix prov imp "foo" := by
    intro c
    constructor
    · intro hc
      simp [imp] at hc
      subst hc
      exact ⟨dA, by simp [ix], rfl, by simp [dA], Or.inr ⟨rfl, rfl⟩⟩
    · rintro ⟨d, hd, _, hne, hp⟩
      rcases hp with hp | ⟨hc, _⟩
      · exact absurd hp hne
      · simp [imp, hc]
  have hres : resolve ix imp f "foo" = some dB := by
    simp [resolve, resolveF, defsOf, ix, dB, dA, f, maxByLine, ancestorsOfDir, dirOf, walkUp,
      conftestOf, imp, List.range, List.range.loop]
  have := h ix prov imp f "foo" hown hex
  rw [hres] at this
  obtain ⟨_, _, hv, _, _⟩ := this
  rcases hv with hv | ⟨dir, hpre, hp⟩ | hv | hv
  · simp [dB, f] at hv
  · rcases hp with hp | ⟨_, hp⟩
    · -- `b/conftest.py = dir/conftest.py` forces `dir = [b]`, not a prefix of `[a]`
      have : dir = ["b"] := by
        have : conftestOf ["b"] = conftestOf dir := by simpa [dB, conftestOf] using hp
        exact (conftestOf_inj this).symm
      subst this
      simp [f, dirOf] at hpre
    · simp [dB] at hp
  · simp [dB] at hv
  · simp [dB] at hv

/-- non-vacuity: the hypotheses of `C01_resolve_correct` are met by a workspace with an import
    and two same-named definitions (the E1 layout, `a/*` registered first). -/
example : Himp [C01cx.dA, C01cx.dB] C01cx.prov C01cx.imp "foo" := by
  intro c hc d hd
  simp [C01cx.imp] at hc
  simp [defsOf, C01cx.dA, C01cx.dB] at hd
  subst hd
  exact Or.inr ⟨hc, rfl⟩

/-! ## the implementation threads a memo table through the walk -/

/-- **C01 (bridge).** The state-threading walk the implementation performs answers like the pure
    cascade for the oracle "what the import test said during this walk"; hence the theorems above,
    stated for every oracle, cover it. -/
theorem C01_monadic_bridge {σ : Type} (ix : List Def) (impM : String → Path → σ → Bool × σ) (f : Path)
    (n : String) (filt : Def → Bool) (s : σ) :
    ∃ imp : Path → Bool, (resolveFM ix impM f n filt s).1 =
      resolveF ix (fun c _ => imp c) f n filt :=
  resolveFM_bridge ix impM f n filt s

end PLS
