/-
  C14 — "fixtures reachable through chains of star imports and pytest_plugins declarations
  (including import cycles) are available exactly where the importing file makes them available":
  the closure theorem for `get_imported_fixtures` (`Index.imported`).

  For every index whose memo table is coherent (empty, or filled by earlier queries on the same
  contents) and every file `f`: the set of names `imported` answers for `f` is EXACTLY the set of
  fixture names reachable from `f` through import edges (`Prov`), for every import graph — chains,
  diamonds, self imports, cycles — and the memo table stays coherent, so the answers do not depend
  on the order in which files are asked about (`C14_imported_is_closure`,
  `C14_imported_keeps_coherence`).

  This became provable with the E12 repair (`/repo` acef4ce): nested calls no longer write the memo
  table, so the whole traversal below a query reads ONE state (`nested_state`).  Explicit imports
  (`from m import a, b`) are outside the statement: the implementation judges them by name only
  (the recorded E1 findings); the hypothesis `StarOnly` says so.
-/
import PLS.Props.C12I
import PLS.Props.C14
import PLS.Lemmas.History
namespace PLS
namespace ImpC
open Index ImpT

/-! ### the specification: reachability through import edges -/

/-- every recorded import of every file with content is a star import (`pytest_plugins` entries
    are separate) -/
def StarOnly (st : Index) : Prop :=
  ∀ f v fr, st.content f = some v → v.effRec = some fr → ∀ imp ∈ fr.imports, imp.isStar = true

/-- the modules `f` pulls in -/
def succs (st : Index) (f : Path) : List Path :=
  match st.content f with
  | some v =>
    match v.effRec with
    | some fr =>
      fr.imports.filterMap (fun imp => st.resolveModule imp.modulePath f) ++
      fr.plugins.filterMap (fun m => st.resolveModule m f)
    | none => []
  | none => []

/-- the fixture names a module defines itself -/
def direct (st : Index) (t : Path) : List String := (alookup st.fileDefs t).getD []

/-- `Prov st f n`: `f` provides `n` through at least one import edge -/
inductive Prov (st : Index) : Path → String → Prop
  | here {f t n} : t ∈ succs st f → n ∈ direct st t → Prov st f n
  | there {f t n} : t ∈ succs st f → Prov st t n → Prov st f n

/-- a valid memo entry holds exactly what the file provides -/
def Coh (st : Index) : Prop :=
  ∀ f v t ver names, st.content f = some v → alookup st.impCache f = some (t, ver, names) →
    (t == v.text && ver == st.version) = true → ∀ n, n ∈ names ↔ Prov st f n

theorem mem_unionNames (a b : List String) (n : String) : n ∈ unionNames a b ↔ n ∈ a ∨ n ∈ b := by
  unfold unionNames
  rw [List.mem_eraseDups, List.mem_append]

/-! ### nested calls read one state -/

theorem ne_nil_of_mem {α} {l : List α} {a : α} (h : a ∈ l) : l ≠ [] := by
  intro he; rw [he] at h; cases h

/-- **since the E12 repair a call below the top of a traversal does not touch the memo table** -/
theorem nested_state : ∀ (fuel : Nat) (st : Index) (f : Path) (vis : List Path), vis ≠ [] →
    (imported fuel st f vis).2.2 = st := by
  intro fuel
  induction fuel with
  | zero => intro st f vis _; unfold imported; rfl
  | succ n ih =>
    intro st f vis hne
    unfold imported
    split
    · rfl
    · simp only
      have htop : vis.isEmpty = false := by
        cases vis with
        | nil => exact absurd rfl hne
        | cons a l => rfl
      cases st.content f with
      | none => rfl
      | some v =>
        simp only
        have hcomp : (imported.compute vis.isEmpty n st f (f :: vis) v).2.2 = st := by
          rw [htop, compute_eq]
          cases v.effRec with
          | none => rfl
          | some fr =>
            simp only
            -- both folds keep the state and a non-empty `visited`
            have P0 : (fun (acc : List String × List Path × Index) => acc.2.2 = st ∧ acc.2.1 ≠ [])
                (([] : List String), f :: vis, st) := ⟨rfl, by simp⟩
            have hstar : ∀ (b : List String × List Path × Index) (a : ImportRec),
                (b.2.2 = st ∧ b.2.1 ≠ []) → ((starStep (imported n) f b a).2.2 = st ∧ (starStep (imported n) f b a).2.1 ≠ []) := by
              intro b a hb
              unfold starStep
              cases b.2.2.resolveModule a.modulePath f with
              | none => exact hb
              | some target =>
                simp only
                split
                · have hs := ih b.2.2 target b.2.1 hb.2
                  have hp := imported_post n b.2.2 target b.2.1
                  refine ⟨by rw [hs]; exact hb.1, ?_⟩
                  obtain ⟨g, hg⟩ := List.exists_mem_of_ne_nil _ hb.2
                  exact ne_nil_of_mem (hp.sub g hg)
                · exact hb
            have hplug : ∀ (b : List String × List Path × Index) (a : String),
                (b.2.2 = st ∧ b.2.1 ≠ []) → ((plugStep (imported n) f b a).2.2 = st ∧ (plugStep (imported n) f b a).2.1 ≠ []) := by
              intro b a hb
              unfold plugStep
              cases b.2.2.resolveModule a f with
              | none => exact hb
              | some target =>
                simp only
                have hs := ih b.2.2 target b.2.1 hb.2
                have hp := imported_post n b.2.2 target b.2.1
                refine ⟨by rw [hs]; exact hb.1, ?_⟩
                obtain ⟨g, hg⟩ := List.exists_mem_of_ne_nil _ hb.2
                exact ne_nil_of_mem (hp.sub g hg)
            have q1 := foldl_inv (fun (acc : List String × List Path × Index) => acc.2.2 = st ∧ acc.2.1 ≠ [])
              (starStep (imported n) f) fr.imports _ P0 hstar
            have q2 := foldl_inv (fun (acc : List String × List Path × Index) => acc.2.2 = st ∧ acc.2.1 ≠ [])
              (plugStep (imported n) f) fr.plugins _ q1 hplug
            simp only [Bool.false_eq_true, if_false]
            exact q2.1
        cases alookup st.impCache f with
        | none => exact hcomp
        | some e =>
          obtain ⟨t, ver, names⟩ := e
          simp only
          split
          · rfl
          · exact hcomp

/-! ### what a finished call guarantees -/

/-- node `x` is settled with respect to the names `N` gathered and the set `V` of visited nodes:
    either everything it provides is in `N` (a memo hit), or it has been expanded — the fixtures of
    each module it pulls in are in `N` and that module is visited -/
def Settled (st : Index) (N : List String) (V : List Path) (x : Path) : Prop :=
  (∀ n, Prov st x n → n ∈ N) ∨ (∀ t ∈ succs st x, (∀ n ∈ direct st t, n ∈ N) ∧ t ∈ V)

theorem settled_mono {st : Index} {N N' : List String} {V V' : List Path} {x : Path}
    (hN : ∀ n ∈ N, n ∈ N') (hV : ∀ g ∈ V, g ∈ V') (h : Settled st N V x) : Settled st N' V' x := by
  rcases h with h | h
  · exact Or.inl (fun n hn => hN n (h n hn))
  · exact Or.inr (fun t ht => ⟨fun n hn => hN n ((h t ht).1 n hn), hV t (h t ht).2⟩)

/-- when every visited node is settled, the names gathered contain everything a visited node provides -/
theorem closed_complete {st : Index} {N : List String} {V : List Path}
    (hall : ∀ x ∈ V, Settled st N V x) : ∀ x n, Prov st x n → x ∈ V → n ∈ N := by
  intro x n hp
  induction hp with
  | here ht hn =>
    intro hx
    rcases hall _ hx with h | h
    · exact h _ (Prov.here ht hn)
    · exact (h _ ht).1 _ hn
  | there ht _ ih =>
    intro hx
    rcases hall _ hx with h | h
    · exact h _ (Prov.there ht (by assumption))
    · exact ih (h _ ht).2

structure Res (st : Index) (f : Path) (vis : List Path) (r : List String × List Path × Index) : Prop where
  state : r.2.2 = st
  sub : ∀ g ∈ vis, g ∈ r.2.1
  self : f ∈ r.2.1
  settled : ∀ x ∈ r.2.1, x ∉ vis → Settled st r.1 r.2.1 x
  sound : ∀ n ∈ r.1, Prov st f n

abbrev Acc := List String × List Path × Index

/-- the accumulator only grows -/
def Le (a b : Acc) : Prop := (∀ n ∈ a.1, n ∈ b.1) ∧ (∀ g ∈ a.2.1, g ∈ b.2.1)

theorem Le.refl (a : Acc) : Le a a := ⟨fun _ h => h, fun _ h => h⟩
theorem Le.trans {a b c : Acc} (h1 : Le a b) (h2 : Le b c) : Le a c :=
  ⟨fun n hn => h2.1 n (h1.1 n hn), fun g hg => h2.2 g (h1.2 g hg)⟩

/-- the fold invariant while `f` (already in `visited`) is being expanded -/
structure FI (st : Index) (f : Path) (vis : List Path) (acc : Acc) : Prop where
  state : acc.2.2 = st
  sub : ∀ g ∈ f :: vis, g ∈ acc.2.1
  settled : ∀ x ∈ acc.2.1, x ∉ f :: vis → Settled st acc.1 acc.2.1 x
  sound : ∀ n ∈ acc.1, Prov st f n

/-- target `t` has been dealt with -/
def DoneT (st : Index) (acc : Acc) (t : Path) : Prop := (∀ n ∈ direct st t, n ∈ acc.1) ∧ t ∈ acc.2.1

theorem doneT_mono {st : Index} {a b : Acc} {t : Path} (h : Le a b) (hd : DoneT st a t) : DoneT st b t :=
  ⟨fun n hn => h.1 n (hd.1 n hn), h.2 t hd.2⟩

theorem foldl_done {α : Type} (g : Acc → α → Acc) (P : Acc → Prop) (D : α → Acc → Prop)
    (D_mono : ∀ a b b', Le b b' → D a b → D a b') :
    ∀ (l : List α), (∀ b a, a ∈ l → P b → P (g b a) ∧ D a (g b a) ∧ Le b (g b a)) →
    ∀ b0, P b0 → P (l.foldl g b0) ∧ (∀ a ∈ l, D a (l.foldl g b0)) ∧ Le b0 (l.foldl g b0) := by
  intro l
  induction l with
  | nil =>
    intro _ b0 h0
    refine ⟨h0, ?_, Le.refl b0⟩
    intro a ha
    cases ha
  | cons a l ih =>
    intro hstep b0 h0
    simp only [List.foldl_cons]
    obtain ⟨p1, d1, l1⟩ := hstep b0 a List.mem_cons_self h0
    obtain ⟨p2, d2, l2⟩ := ih (fun b x hx hb => hstep b x (List.mem_cons_of_mem _ hx) hb) (g b0 a) p1
    refine ⟨p2, ?_, l1.trans l2⟩
    intro x hx
    rcases List.mem_cons.mp hx with rfl | hx
    · exact D_mono _ _ _ l2 d1
    · exact d2 x hx

/-- one recursive call folded into the accumulator (common to star imports and `pytest_plugins`) -/
theorem absorb (st : Index) (f : Path) (vis : List Path) (n : Nat)
    (hrec : ∀ t vis', vis' ≠ [] → mu st vis' < n → Res st t vis' (imported n st t vis'))
    (hmu : mu st (f :: vis) < n) (acc : Acc) (target : Path) (ht : target ∈ succs st f)
    (hfi : FI st f vis acc) :
    let r := imported n acc.2.2 target acc.2.1
    let acc' : Acc := (unionNames (unionNames acc.1 ((alookup acc.2.2.fileDefs target).getD [])) r.1, r.2.1, r.2.2)
    FI st f vis acc' ∧ DoneT st acc' target ∧ Le acc acc' := by
  simp only
  rw [hfi.state]
  have hne : acc.2.1 ≠ [] := ne_nil_of_mem (hfi.sub f List.mem_cons_self)
  have hmu' : mu st acc.2.1 < n :=
    Nat.lt_of_le_of_lt (mu_antitone st st acc.2.1 (f :: vis) (Same.refl st) hfi.sub) hmu
  have hr := hrec target acc.2.1 hne hmu'
  have hle : Le acc (unionNames (unionNames acc.1 ((alookup st.fileDefs target).getD [])) (imported n st target acc.2.1).1,
      (imported n st target acc.2.1).2.1, (imported n st target acc.2.1).2.2) :=
    ⟨fun x hx => (mem_unionNames _ _ _).mpr (Or.inl ((mem_unionNames _ _ _).mpr (Or.inl hx))), hr.sub⟩
  refine ⟨⟨hr.state, fun g hg => hr.sub g (hfi.sub g hg), ?_, ?_⟩, ⟨?_, hr.self⟩, hle⟩
  · intro x hx hxn
    by_cases hxa : x ∈ acc.2.1
    · exact settled_mono hle.1 hle.2 (hfi.settled x hxa hxn)
    · exact settled_mono (fun m hm => (mem_unionNames _ _ _).mpr (Or.inr hm)) (fun _ h => h) (hr.settled x hx hxa)
  · intro m hm
    rcases (mem_unionNames _ _ _).mp hm with hm | hm
    · rcases (mem_unionNames _ _ _).mp hm with hm | hm
      · exact hfi.sound m hm
      · exact Prov.here ht hm
    · exact Prov.there ht (hr.sound m hm)
  · intro m hm
    exact (mem_unionNames _ _ _).mpr (Or.inl ((mem_unionNames _ _ _).mpr (Or.inr hm)))

theorem mem_succs_star {st : Index} {f : Path} {v : Version} {fr : FileRec} (hc : st.content f = some v)
    (hp : v.effRec = some fr) {imp : ImportRec} (hi : imp ∈ fr.imports) {t : Path}
    (ht : st.resolveModule imp.modulePath f = some t) : t ∈ succs st f := by
  unfold succs
  rw [hc]; simp only [hp]
  exact List.mem_append_left _ (List.mem_filterMap.mpr ⟨imp, hi, ht⟩)

theorem mem_succs_plug {st : Index} {f : Path} {v : Version} {fr : FileRec} (hc : st.content f = some v)
    (hp : v.effRec = some fr) {m : String} (hi : m ∈ fr.plugins) {t : Path}
    (ht : st.resolveModule m f = some t) : t ∈ succs st f := by
  unfold succs
  rw [hc]; simp only [hp]
  exact List.mem_append_right _ (List.mem_filterMap.mpr ⟨m, hi, ht⟩)

/-- expanding `f`: after the two folds of `compute` every module `f` pulls in has been dealt with -/
theorem expand (st : Index) (f : Path) (vis : List Path) (n : Nat) (hstar : StarOnly st)
    (hrec : ∀ t vis', vis' ≠ [] → mu st vis' < n → Res st t vis' (imported n st t vis'))
    (hmu : mu st (f :: vis) < n) (v : Version) (fr : FileRec) (hc : st.content f = some v)
    (hp : v.effRec = some fr) :
    let s2 := fr.plugins.foldl (plugStep (imported n) f)
      (fr.imports.foldl (starStep (imported n) f) (([] : List String), f :: vis, st))
    FI st f vis s2 ∧ ∀ t ∈ succs st f, DoneT st s2 t := by
  simp only
  have h0 : FI st f vis (([] : List String), f :: vis, st) :=
    ⟨rfl, fun g hg => hg, fun x hx hxn => absurd hx hxn, fun n hn => by cases hn⟩
  -- star imports
  have hs := foldl_done (starStep (imported n) f) (FI st f vis)
    (fun (imp : ImportRec) acc => ∀ t, st.resolveModule imp.modulePath f = some t → DoneT st acc t)
    (fun a b b' hle hd t ht => doneT_mono hle (hd t ht)) fr.imports
    (by
      intro b imp hi hb
      unfold starStep
      rw [hb.state]
      cases hr : st.resolveModule imp.modulePath f with
      | none =>
        refine ⟨hb, ?_, Le.refl b⟩
        intro t ht
        cases ht
      | some target =>
        simp only [hstar f v fr hc hp imp hi, if_true]
        have ha := absorb st f vis n hrec hmu b target (mem_succs_star hc hp hi hr) hb
        simp only [hb.state] at ha
        refine ⟨ha.1, ?_, ha.2.2⟩
        intro t ht
        cases ht
        exact ha.2.1)
    _ h0
  obtain ⟨p1, d1, _⟩ := hs
  -- pytest_plugins
  have hpl := foldl_done (plugStep (imported n) f) (FI st f vis)
    (fun (m : String) acc => ∀ t, st.resolveModule m f = some t → DoneT st acc t)
    (fun a b b' hle hd t ht => doneT_mono hle (hd t ht)) fr.plugins
    (by
      intro b m hi hb
      unfold plugStep
      rw [hb.state]
      cases hr : st.resolveModule m f with
      | none =>
        refine ⟨hb, ?_, Le.refl b⟩
        intro t ht
        cases ht
      | some target =>
        simp only
        have ha := absorb st f vis n hrec hmu b target (mem_succs_plug hc hp hi hr) hb
        simp only [hb.state] at ha
        refine ⟨ha.1, ?_, ha.2.2⟩
        intro t ht
        cases ht
        exact ha.2.1)
    _ p1
  obtain ⟨p2, d2, l2⟩ := hpl
  refine ⟨p2, ?_⟩
  intro t ht
  unfold succs at ht
  rw [hc] at ht; simp only [hp] at ht
  rcases List.mem_append.mp ht with ht | ht
  · obtain ⟨imp, hi, hr⟩ := List.mem_filterMap.mp ht
    exact doneT_mono l2 (d1 imp hi t hr)
  · obtain ⟨m, hi, hr⟩ := List.mem_filterMap.mp ht
    exact d2 m hi t hr

theorem succs_nil_of_no_content {st : Index} {f : Path} (h : st.content f = none) : succs st f = [] := by
  unfold succs; rw [h]

theorem succs_nil_of_unparsed {st : Index} {f : Path} {v : Version} (h : st.content f = some v)
    (hp : v.effRec = none) : succs st f = [] := by
  unfold succs; rw [h]; simp only [hp]

/-- a leaf: `f` is marked visited and pulls nothing in -/
theorem res_leaf (st : Index) (f : Path) (vis : List Path) (hs : succs st f = []) :
    Res st f vis (([] : List String), f :: vis, st) := by
  refine ⟨rfl, fun g hg => List.mem_cons_of_mem _ hg, List.mem_cons_self, ?_, fun n hn => by cases hn⟩
  intro x hx hxn
  have : x = f := by
    rcases List.mem_cons.mp hx with h | h
    · exact h
    · exact absurd h hxn
  subst this
  exact Or.inr (fun t ht => by rw [hs] at ht; cases ht)

/-- **every call below the top of a traversal meets `Res`** (with fuel above the number of
    unvisited files, which `fuelFor` guarantees) -/
theorem nested_res (st : Index) (hstar : StarOnly st) (hcoh : Coh st) :
    ∀ (n : Nat) (f : Path) (vis : List Path), vis ≠ [] → mu st vis < n → Res st f vis (imported n st f vis) := by
  intro n
  induction n with
  | zero => intro f vis _ h; omega
  | succ n ih =>
    intro f vis hne hmu
    unfold imported
    by_cases hcont : vis.contains f = true
    · simp only [hcont, if_true]
      have hf : f ∈ vis := by simpa using hcont
      exact ⟨rfl, fun g hg => hg, hf, fun x hx hxn => absurd hx hxn, fun m hm => by cases hm⟩
    · have hcont' : vis.contains f = false := by simpa using hcont
      simp only [hcont', Bool.false_eq_true, if_false]
      have htop : vis.isEmpty = false := by
        cases vis with
        | nil => exact absurd rfl hne
        | cons a l => rfl
      cases hc : st.content f with
      | none => exact res_leaf st f vis (succs_nil_of_no_content hc)
      | some v =>
        simp only
        have hlt : mu st (f :: vis) < n := by
          have := mu_cons_lt st f vis (mem_files_of_content st f v hc) hcont'
          omega
        have hcomp : Res st f vis (imported.compute vis.isEmpty n st f (f :: vis) v) := by
          rw [htop, compute_eq]
          cases hp : v.effRec with
          | none => exact res_leaf st f vis (succs_nil_of_unparsed hc hp)
          | some fr =>
            simp only [Bool.false_eq_true, if_false]
            obtain ⟨hfi, hdone⟩ := expand st f vis n hstar ih hlt v fr hc hp
            refine ⟨hfi.state, fun g hg => hfi.sub g (List.mem_cons_of_mem _ hg), hfi.sub f List.mem_cons_self, ?_, hfi.sound⟩
            intro x hx hxn
            by_cases hxf : x = f
            · subst hxf
              exact Or.inr (fun t ht => hdone t ht)
            · apply hfi.settled x hx
              intro hmem
              rcases List.mem_cons.mp hmem with h | h
              · exact hxf h
              · exact hxn h
        cases hl : alookup st.impCache f with
        | none => exact hcomp
        | some e =>
          obtain ⟨t, ver, names⟩ := e
          simp only
          by_cases hv : (t == v.text && ver == st.version) = true
          · simp only [hv, if_true]
            have hiff := hcoh f v t ver names hc hl hv
            refine ⟨rfl, fun g hg => List.mem_cons_of_mem _ hg, List.mem_cons_self, ?_, fun m hm => (hiff m).mp hm⟩
            intro x hx hxn
            have : x = f := by
              rcases List.mem_cons.mp hx with h | h
              · exact h
              · exact absurd h hxn
            subst this
            exact Or.inl (fun m hm => (hiff m).mpr hm)
          · simp only [hv]
            exact hcomp

/-! ### the query itself -/

theorem prov_succs_ne {st : Index} {f : Path} {m : String} (h : Prov st f m) : succs st f ≠ [] := by
  cases h with
  | here ht _ => exact ne_nil_of_mem ht
  | there ht _ => exact ne_nil_of_mem ht

/-- the memo table is the only thing a query changes -/
theorem findModuleFile_memo (st : Index) (c : List (Path × (String × Nat × List String))) (parts : List String) (base : Path) :
    findModuleFile { st with impCache := c } parts base = findModuleFile st parts base := by
  induction parts generalizing base with
  | nil => simp [findModuleFile]
  | cons p ps ih =>
    cases ps with
    | nil => simp [findModuleFile]
    | cons q qs =>
      simp only [findModuleFile]
      rw [ih]
      rfl

theorem findModuleFile_memo' (st : Index) (c : List (Path × (String × Nat × List String))) (parts : List String) :
    findModuleFile { st with impCache := c } parts = findModuleFile st parts :=
  funext (findModuleFile_memo st c parts)

theorem resolveModule_memo (st : Index) (c : List (Path × (String × Nat × List String))) (m : String) (f : Path) :
    ({ st with impCache := c } : Index).resolveModule m f = st.resolveModule m f := by
  unfold resolveModule resolveRelative resolveAbsolute
  simp only [findModuleFile_memo, findModuleFile_memo']

theorem content_memo (st : Index) (c : List (Path × (String × Nat × List String))) (f : Path) :
    ({ st with impCache := c } : Index).content f = st.content f := rfl

theorem succs_memo (st : Index) (c : List (Path × (String × Nat × List String))) (f : Path) :
    succs { st with impCache := c } f = succs st f := by
  unfold succs
  rw [content_memo]
  simp only [resolveModule_memo]

theorem prov_memo (st : Index) (c : List (Path × (String × Nat × List String))) (f : Path) (m : String) :
    Prov { st with impCache := c } f m ↔ Prov st f m := by
  constructor
  · intro h
    induction h with
    | here ht hn => rw [succs_memo] at ht; exact Prov.here ht hn
    | there ht _ ih => rw [succs_memo] at ht; exact Prov.there ht ih
  · intro h
    induction h with
    | here ht hn => exact Prov.here (by rw [succs_memo]; exact ht) hn
    | there ht _ ih => exact Prov.there (by rw [succs_memo]; exact ht) ih

/-- what a top-level query answers, and the state it leaves -/
theorem top_query (st : Index) (hstar : StarOnly st) (hcoh : Coh st) (f : Path) (n : Nat)
    (hfuel : mu st [] < n + 1) :
    (∀ m, m ∈ (imported (n + 1) st f []).1 ↔ Prov st f m) ∧
    (∃ c, (imported (n + 1) st f []).2.2 = { st with impCache := c } ∧
      ∀ g e, alookup c g = some e → alookup st.impCache g = some e ∨
        (g = f ∧ ∃ v, st.content f = some v ∧ e = (v.text, st.version, (imported (n + 1) st f []).1))) := by
  unfold imported
  simp only [List.contains_nil, Bool.false_eq_true, if_false, List.isEmpty_nil]
  have keep : ∃ c, st = { st with impCache := c } ∧ ∀ g e, alookup c g = some e → alookup st.impCache g = some e ∨
      (g = f ∧ ∃ v, st.content f = some v ∧ e = (v.text, st.version, ([] : List String))) :=
    ⟨st.impCache, rfl, fun g e h => Or.inl h⟩
  cases hc : st.content f with
  | none =>
    simp only
    refine ⟨fun m => Iff.intro (fun h => nomatch h) (fun h => absurd (succs_nil_of_no_content hc) (prov_succs_ne h)), ?_⟩
    exact ⟨st.impCache, rfl, fun g e h => Or.inl h⟩
  | some v =>
    simp only
    have hlt : mu st [f] < n := by
      have := mu_cons_lt st f [] (mem_files_of_content st f v hc) rfl
      omega
    have hcomp : (∀ m, m ∈ (imported.compute true n st f [f] v).1 ↔ Prov st f m) ∧
        (∃ c, (imported.compute true n st f [f] v).2.2 = { st with impCache := c } ∧
          ∀ g e, alookup c g = some e → alookup st.impCache g = some e ∨
            (g = f ∧ ∃ v', (some v : Option Version) = some v' ∧ e = (v'.text, st.version, (imported.compute true n st f [f] v).1))) := by
      rw [compute_eq]
      cases hp : v.effRec with
      | none =>
        simp only [if_true]
        refine ⟨fun m => Iff.intro (fun h => nomatch h) (fun h => absurd (succs_nil_of_unparsed hc hp) (prov_succs_ne h)), ?_⟩
        refine ⟨ainsert st.impCache f (v.text, st.version, []), rfl, ?_⟩
        intro g e hg
        by_cases hgf : g = f
        · subst hgf
          rw [alookup_ainsert_self] at hg
          exact Or.inr ⟨rfl, v, rfl, (Option.some.inj hg).symm⟩
        · rw [alookup_ainsert_ne _ _ _ _ hgf] at hg
          exact Or.inl hg
      | some fr =>
        simp only [if_true]
        obtain ⟨hfi, hdone⟩ := expand st f [] n hstar (nested_res st hstar hcoh n) hlt v fr hc hp
        have hall : ∀ x ∈ (fr.plugins.foldl (plugStep (imported n) f)
            (fr.imports.foldl (starStep (imported n) f) (([] : List String), [f], st))).2.1,
            Settled st (fr.plugins.foldl (plugStep (imported n) f)
              (fr.imports.foldl (starStep (imported n) f) (([] : List String), [f], st))).1
              (fr.plugins.foldl (plugStep (imported n) f)
                (fr.imports.foldl (starStep (imported n) f) (([] : List String), [f], st))).2.1 x := by
          intro x hx
          by_cases hxf : x = f
          · subst hxf
            exact Or.inr (fun t ht => hdone t ht)
          · exact hfi.settled x hx (by simpa using hxf)
        refine ⟨fun m => ⟨hfi.sound m, fun h => closed_complete hall f m h (hfi.sub f List.mem_cons_self)⟩, ?_⟩
        rw [hfi.state]
        refine ⟨ainsert st.impCache f (v.text, st.version, _), rfl, ?_⟩
        intro g e hg
        by_cases hgf : g = f
        · subst hgf
          rw [alookup_ainsert_self] at hg
          exact Or.inr ⟨rfl, v, rfl, (Option.some.inj hg).symm⟩
        · rw [alookup_ainsert_ne _ _ _ _ hgf] at hg
          exact Or.inl hg
    cases hl : alookup st.impCache f with
    | none => exact hcomp
    | some e =>
      obtain ⟨t, ver, names⟩ := e
      simp only
      by_cases hv : (t == v.text && ver == st.version) = true
      · simp only [hv, if_true]
        exact ⟨fun m => hcoh f v t ver names hc hl hv m, st.impCache, rfl, fun g e h => Or.inl h⟩
      · simp only [hv]
        exact hcomp

theorem fuel_ok (st : Index) : mu st [] < (st.cache.length + st.disk.length + 1) + 1 := by
  have := mu_le_files st []
  omega

theorem fuelFor_eq (st : Index) : st.fuelFor = (st.cache.length + st.disk.length + 1) + 1 := rfl

theorem starOnly_memo (st : Index) (c : List (Path × (String × Nat × List String))) (h : StarOnly st) :
    StarOnly { st with impCache := c } := by
  intro f v fr hc hp imp hi
  exact h f v fr (by rw [content_memo] at hc; exact hc) hp imp hi

end ImpC

open ImpC ImpT in
/-- **C14 (imports: exactly the closure).** For every index whose recorded imports are star
    imports / `pytest_plugins` entries and whose memo table is coherent, and for every file `f`:
    the names `get_imported_fixtures` answers for `f` are exactly the fixture names `f` provides
    through its import edges — through chains of any length, diamonds, self imports and import
    cycles.  Nothing reachable is missing, nothing unreachable is included. -/
theorem C14_imported_is_closure (st : Index) (hstar : StarOnly st) (hcoh : Coh st) (f : Path) :
    ∀ m, m ∈ (Index.imported st.fuelFor st f []).1 ↔ Prov st f m := by
  rw [fuelFor_eq]
  exact (top_query st hstar hcoh f _ (fuel_ok st)).1

open ImpC ImpT in
/-- **C14 (… and the memo table stays coherent)**: after the query, every valid memo entry still
    holds exactly what its file provides, and nothing but the memo table has changed — so the next
    query, for whatever file, is answered with the closure again. -/
theorem C14_imported_keeps_coherence (st : Index) (hstar : StarOnly st) (hcoh : Coh st) (f : Path) :
    ∃ c, (Index.imported st.fuelFor st f []).2.2 = { st with impCache := c } ∧
      Coh { st with impCache := c } ∧ StarOnly { st with impCache := c } := by
  rw [fuelFor_eq]
  obtain ⟨hnames, c, hst, hc⟩ := top_query st hstar hcoh f _ (fuel_ok st)
  refine ⟨c, hst, ?_, starOnly_memo st c hstar⟩
  intro g v t ver names hcg hl hv m
  rw [prov_memo]
  rw [content_memo] at hcg
  rcases hc g (t, ver, names) hl with hold | ⟨rfl, v', hcf, he⟩
  · exact hcoh g v t ver names hcg hold hv m
  · have : names = (Index.imported (st.cache.length + st.disk.length + 1 + 1) st g []).1 := by
      have := congrArg (fun e => e.2.2) he
      simpa using this
    rw [this]
    exact hnames m

namespace ImpC
open Index

/-- a sequence of queries, each on the state the previous one left -/
def queries (st : Index) : List Path → List (Path × List String)
  | [] => []
  | f :: fs => (f, (imported st.fuelFor st f []).1) :: queries (imported st.fuelFor st f []).2.2 fs

end ImpC

open ImpC ImpT in
/-- **C14 (the answers do not depend on the order of the questions).** Starting from a coherent
    memo table (in particular an empty one), whatever files are asked about and in whatever order:
    every answer is the closure of its file.  (Before the E12 repair a set cut short by the
    circular-import guard was memoised, and the answers depended on which module had been asked
    about first: `corpus/C07/e12_mutual_imports.case`.) -/
theorem C14_any_query_order (fs : List Path) : ∀ (st : Index), StarOnly st → Coh st →
    ∀ p ∈ queries st fs, ∀ m, m ∈ p.2 ↔ Prov st p.1 m := by
  induction fs with
  | nil => intro st _ _ p hp; cases hp
  | cons f fs ih =>
    intro st hstar hcoh p hp m
    unfold queries at hp
    rcases List.mem_cons.mp hp with rfl | hp
    · exact C14_imported_is_closure st hstar hcoh f m
    · obtain ⟨c, hst, hcoh', hstar'⟩ := C14_imported_keeps_coherence st hstar hcoh f
      rw [hst] at hp
      have := ih _ hstar' hcoh' p hp m
      rw [prov_memo] at this
      exact this

/-- the premises are satisfiable: an index with an empty memo table is coherent -/
example (st : Index) (h : st.impCache = []) : ImpC.Coh st := by
  intro f v t ver names _ hl
  rw [h] at hl
  simp [alookup] at hl

/-! ### coherence along histories: successful analyses and queries -/

namespace ImpC
open Index

theorem scanStep_keeps (f : Path) (b : BodyScan) (st : Index) (r : NameRef) :
    (scanStep f b st r).impCache = st.impCache ∧ (scanStep f b st r).version = st.version := by
  unfold scanStep; split <;> exact ⟨rfl, rfl⟩

theorem scanFold_keeps (f : Path) (b : BodyScan) : ∀ (rs : List NameRef) (st : Index),
    (rs.foldl (scanStep f b) st).impCache = st.impCache ∧ (rs.foldl (scanStep f b) st).version = st.version := by
  intro rs
  induction rs with
  | nil => intro st; exact ⟨rfl, rfl⟩
  | cons r rs ih =>
    intro st
    simp only [List.foldl_cons]
    have h1 := scanStep_keeps f b st r
    have h2 := ih (scanStep f b st r)
    exact ⟨h2.1.trans h1.1, h2.2.trans h1.2⟩

theorem applyEvent_keeps (pfx f : Path) (st : Index) (e : Event) :
    (applyEvent pfx f st e).impCache = st.impCache ∧ st.version ≤ (applyEvent pfx f st e).version := by
  cases e with
  | defn d => exact ⟨rfl, Nat.le_succ _⟩
  | usage u => exact ⟨rfl, Nat.le_refl _⟩
  | scan b =>
    have := scanFold_keeps f b b.refs st
    exact ⟨this.1, by simp only [applyEvent]; rw [this.2]; exact Nat.le_refl _⟩
  | panic => exact ⟨rfl, Nat.le_refl _⟩

theorem events_keep (pfx f : Path) : ∀ (es : List Event) (st : Index),
    (es.foldl (applyEvent pfx f) st).impCache = st.impCache ∧ st.version ≤ (es.foldl (applyEvent pfx f) st).version := by
  intro es
  induction es with
  | nil => intro st; exact ⟨rfl, Nat.le_refl _⟩
  | cons e es ih =>
    intro st
    simp only [List.foldl_cons]
    have h1 := applyEvent_keeps pfx f st e
    have h2 := ih (applyEvent pfx f st e)
    exact ⟨h2.1.trans h1.1, Nat.le_trans h1.2 h2.2⟩

theorem cleanupDefs_keeps (st : Index) (f : Path) :
    (st.cleanupDefs f).impCache = st.impCache ∧ (st.cleanupDefs f).version = st.version := by
  unfold cleanupDefs; split <;> exact ⟨rfl, rfl⟩

theorem analyze_memo (pfx : Path) (cl : Bool) (st : Index) (f : Path) (v : Version) (fr : FileRec)
    (hv : v.parsed = some fr) :
    (analyze pfx cl st f v).1.impCache = st.impCache ∧ st.version < (analyze pfx cl st f v).1.version := by
  unfold analyze
  simp only [hv]
  have h := events_keep pfx f fr.events (preState cl st f v fr)
  have hp : (preState cl st f v fr).impCache = st.impCache ∧ (preState cl st f v fr).version = st.version + 1 := by
    unfold preState clearFile
    cases cl
    · exact ⟨rfl, rfl⟩
    · simp only [if_true]
      have := cleanupDefs_keeps { st with cache := ainsert st.cache f v, ubf := st.ubf.filter (fun u => u.file != f), usages := aerase st.usages f, undeclared := aerase st.undeclared f, modNames := aerase st.modNames f } f
      exact ⟨this.1, by show _ + 1 = _ + 1; rw [this.2]⟩
  exact ⟨h.1.trans hp.1, by have := h.2; rw [hp.2] at this; omega⟩

/-- … and so does the analysis of a text that does not parse (it bumps the version too: what other
    files get through this one is read from its current text) -/
theorem analyze_memo_any (pfx : Path) (cl : Bool) (st : Index) (f : Path) (v : Version) :
    (analyze pfx cl st f v).1.impCache = st.impCache ∧ st.version < (analyze pfx cl st f v).1.version := by
  cases hv : v.parsed with
  | some fr => exact analyze_memo pfx cl st f v fr hv
  | none =>
    unfold analyze
    simp only [hv]
    exact ⟨by trivial, Nat.lt_succ_self _⟩

/-- no memo entry is newer than the index -/
def MemoBounded (st : Index) : Prop :=
  ∀ f t ver names, alookup st.impCache f = some (t, ver, names) → ver ≤ st.version

theorem coh_of_older (st : Index)
    (h : ∀ f t ver names, alookup st.impCache f = some (t, ver, names) → ver < st.version) : Coh st := by
  intro f v t ver names _ hl hv
  have := h f t ver names hl
  simp only [Bool.and_eq_true, beq_iff_eq] at hv
  omega

end ImpC

open ImpC in
/-- **C14 / C07 (every analysis leaves the memo coherent).** Every analysis - of a text that
    parses or of one that does not - bumps the definitions version and leaves the memo table
    alone, so every entry becomes invalid: the next query recomputes, and by
    `C14_imported_is_closure` answers the closure of the NEW contents. (Before the repair an
    analysis that failed to parse kept the version: what had been memoised for the files that
    import the document was answered although the document's imports no longer counted.) -/
theorem C14_coherent_after_analysis (pfx : Path) (cl : Bool) (st : Index) (f : Path) (v : Version)
    (hb : MemoBounded st) :
    Coh (Index.analyze pfx cl st f v).1 ∧ MemoBounded (Index.analyze pfx cl st f v).1 := by
  obtain ⟨h1, h2⟩ := analyze_memo_any pfx cl st f v
  constructor
  · apply coh_of_older
    intro g t ver names hl
    rw [h1] at hl
    have := hb g t ver names hl
    omega
  · intro g t ver names hl
    rw [h1] at hl
    have := hb g t ver names hl
    omega

open ImpC ImpT in
/-- … and a query keeps the bound: the entry it writes carries the current version -/
theorem C14_query_keeps_bound (st : Index) (hstar : StarOnly st) (hcoh : Coh st) (hb : MemoBounded st) (f : Path) :
    MemoBounded (Index.imported st.fuelFor st f []).2.2 := by
  rw [fuelFor_eq]
  obtain ⟨_, c, hst, hc⟩ := top_query st hstar hcoh f _ (fuel_ok st)
  rw [hst]
  intro g t ver names hl
  rcases hc g (t, ver, names) hl with hold | ⟨_, v', _, he⟩
  · exact hb g t ver names hold
  · have : ver = st.version := by
      have := congrArg (fun e => e.2.1) he
      simpa using this
    rw [this]
    exact Nat.le_refl _

open ImpC ImpT in
/-- **C07 for the import memo (warm = cold).** A query answered with a coherent memo table returns
    the same set of names as the same query on the same index with an EMPTY memo table. -/
theorem C07_imported_warm_eq_cold (st : Index) (hstar : StarOnly st) (hcoh : Coh st) (f : Path) :
    ∀ m, m ∈ (Index.imported st.fuelFor st f []).1 ↔
      m ∈ (Index.imported st.fuelFor { st with impCache := [] } f []).1 := by
  intro m
  have hcold : Coh { st with impCache := [] } := by
    intro g v t ver names _ hl
    simp [alookup] at hl
  have h1 := C14_imported_is_closure st hstar hcoh f m
  have h2 := C14_imported_is_closure { st with impCache := [] } (starOnly_memo st [] hstar) hcold f m
  rw [prov_memo] at h2
  exact h1.trans h2.symm

end PLS
