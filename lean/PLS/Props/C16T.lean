/-
  C16, soundness of cycle detection: every cycle `compute_fixture_cycles` reports is a real
  closed chain of the dependency graph it works on (the name-level graph `cyDeps`), anchored at
  the definition that graph uses for the chain's first fixture — for EVERY set of definitions,
  every root order and every earlier `visited` state.

  (Which graph that is — first registered definition per name — is the recorded finding E4; this
  theorem is about the DFS: it never invents an edge, never reports an open path, never mislabels
  the anchor.)
-/
import PLS.Props.C12T
import PLS.Props.C16
namespace PLS
namespace DfsS
open DfsT

def Edge (ix : List Def) (a b : String) : Prop := b ∈ cyDeps ix a

def Chain (ix : List Def) : List String → Prop
  | [] => True
  | [_] => True
  | a :: b :: rest => Edge ix a b ∧ Chain ix (b :: rest)

/-- a reported path: at least two entries, first = last, consecutive entries are dependency edges -/
def ClosedChain (ix : List Def) (cp : List String) : Prop :=
  2 ≤ cp.length ∧ cp.head? = cp.getLast? ∧ Chain ix cp

theorem chain_tail {ix : List Def} {a : String} {l : List String} (h : Chain ix (a :: l)) : Chain ix l := by
  cases l with
  | nil => trivial
  | cons b r => exact h.2

theorem chain_append_one {ix : List Def} (l : List String) (c : String) (h : Chain ix l)
    (hl : ∀ x, l.getLast? = some x → Edge ix x c) : Chain ix (l ++ [c]) := by
  induction l with
  | nil => trivial
  | cons a r ih =>
    cases r with
    | nil => exact ⟨hl a rfl, trivial⟩
    | cons b r' =>
      refine ⟨h.1, ?_⟩
      apply ih h.2
      intro x hx
      apply hl x
      simpa [List.getLast?_cons_cons] using hx

theorem chain_drop {ix : List Def} (l : List String) (i : Nat) (h : Chain ix l) : Chain ix (l.drop i) := by
  induction i generalizing l with
  | zero => simpa using h
  | succ n ih =>
    cases l with
    | nil => trivial
    | cons a r => simp only [List.drop_succ_cons]; exact ih r (chain_tail h)

/-! ### `indexOf?` finds the first position -/

theorem indexOf_go_spec (l : List String) (x : String) (k : Nat) :
    (∀ i, indexOf?.go x l k = some i → k ≤ i ∧ l[i - k]? = some x) ∧
    (x ∈ l → ∃ i, indexOf?.go x l k = some i) := by
  induction l generalizing k with
  | nil =>
    constructor
    · intro i h; simp [indexOf?.go] at h
    · intro h; cases h
  | cons y ys ih =>
    constructor
    · intro i h
      unfold indexOf?.go at h
      by_cases hy : (y == x) = true
      · simp only [hy, if_true, Option.some.injEq] at h
        subst h
        have : y = x := by simpa using hy
        simp [this]
      · have hy' : (y == x) = false := by simpa using hy
        simp only [hy', Bool.false_eq_true, if_false] at h
        obtain ⟨h1, h2⟩ := (ih (k + 1)).1 i h
        refine ⟨by omega, ?_⟩
        have : i - k = (i - (k + 1)) + 1 := by omega
        rw [this, List.getElem?_cons_succ]
        exact h2
    · intro h
      unfold indexOf?.go
      by_cases hy : (y == x) = true
      · exact ⟨k, by simp [hy]⟩
      · have hy' : (y == x) = false := by simpa using hy
        simp only [hy', Bool.false_eq_true, if_false]
        rcases List.mem_cons.mp h with rfl | hm
        · simp at hy
        · exact (ih (k + 1)).2 hm

theorem head_append_ne_nil (l : List String) (x : String) (h : l ≠ []) : (l ++ [x]).head? = l.head? := by
  cases l with
  | nil => exact absurd rfl h
  | cons a r => rfl

theorem last_append_one (l : List String) (x : String) : (l ++ [x]).getLast? = some x := by
  simp

theorem indexOf_some (l : List String) (x : String) (hx : x ∈ l) :
    ∃ i, indexOf? l x = some i ∧ l[i]? = some x := by
  obtain ⟨i, hi⟩ := (indexOf_go_spec l x 0).2 hx
  have := (indexOf_go_spec l x 0).1 i hi
  exact ⟨i, hi, by simpa using this.2⟩

/-- the path reported when the dependency `dep` of `cur` is found on the recursion stack -/
theorem reported_closed (ix : List Def) (path : List String) (cur dep : String)
    (hchain : Chain ix path) (hlast : path.getLast? = some cur) (hedge : Edge ix cur dep) (hmem : dep ∈ path) :
    ClosedChain ix (path.drop ((indexOf? path dep).getD 0) ++ [dep]) ∧
    (path.drop ((indexOf? path dep).getD 0) ++ [dep]).head? = some dep := by
  obtain ⟨i, hi, hget⟩ := indexOf_some path dep hmem
  rw [hi, Option.getD_some]
  have hilt : i < path.length := by
    rcases List.getElem?_eq_some_iff.mp hget with ⟨h, _⟩; exact h
  have hne : path.drop i ≠ [] := by
    intro h
    have := congrArg List.length h
    simp at this; omega
  have hhead : (path.drop i).head? = some dep := by
    rw [List.head?_drop]; exact hget
  have hlast' : (path.drop i).getLast? = some cur := by
    rw [List.getLast?_drop]
    simp [hlast]; omega
  refine ⟨⟨?_, ?_, ?_⟩, ?_⟩
  · simp only [List.length_append, List.length_drop, List.length_singleton]; omega
  · rw [head_append_ne_nil _ _ hne, hhead, last_append_one]
  · apply chain_append_one _ _ (chain_drop path i hchain)
    intro x hx
    rw [hlast'] at hx
    cases hx
    exact hedge
  · rw [head_append_ne_nil _ _ hne, hhead]

/-! ### the stack invariant: paths are chains, frames are linked, the recursion stack lies on the top path -/

abbrev Frame := String × Nat × List String

def FrameOK (ix : List Def) (f : Frame) : Prop :=
  Chain ix f.2.2 ∧ (1 ≤ f.2.1 → f.2.2.getLast? = some f.1) ∧
  (f.2.1 = 0 → ∀ l, f.2.2.getLast? = some l → Edge ix l f.1)

def Linked : List Frame → Prop
  | [] => True
  | [_] => True
  | c :: p :: rest => (c.2.1 = 0 → c.2.2 = p.2.2) ∧ (1 ≤ c.2.1 → c.2.2 = p.2.2 ++ [c.1]) ∧ Linked (p :: rest)

structure Inv2 (ix : List Def) (k : Sk) : Prop where
  base : Inv ix k
  frames : ∀ f ∈ k.stack, FrameOK ix f
  linked : Linked k.stack
  top : ∀ f, k.stack.head? = some f → ∀ x, x ∈ k.rs → x ∈ f.2.2 ∨ (f.2.1 = 0 ∧ False)

theorem linked_tail {c : Frame} {rest : List Frame} (h : Linked (c :: rest)) : Linked rest := by
  cases rest with
  | nil => trivial
  | cons p r => exact h.2.2

theorem mem_setInsert (l : List String) (x y : String) : y ∈ setInsert l x ↔ y ∈ l ∨ y = x := by
  unfold setInsert
  by_cases h : l.contains x = true
  · simp only [h, if_true]
    have hx : x ∈ l := by simpa using h
    constructor
    · exact Or.inl
    · rintro (h1 | rfl)
      · exact h1
      · exact hx
  · have h' : l.contains x = false := by simpa using h
    simp only [h', Bool.false_eq_true, if_false, List.mem_append, List.mem_singleton]

/-- what the step needs to know about the frame being expanded -/
theorem top_facts {ix : List Def} {k : Sk} (h : Inv2 ix k) (cur : String) (idx : Nat) (path : List String)
    (rest : List Frame) (hs : k.stack = (cur, idx, path) :: rest) :
    let path' := if (idx == 0) = true then path ++ [cur] else path
    let rs' := if (idx == 0) = true then setInsert k.rs cur else k.rs
    Chain ix path' ∧ path'.getLast? = some cur ∧ (∀ x, x ∈ rs' → x ∈ path') := by
  have hf := h.frames (cur, idx, path) (by rw [hs]; exact List.mem_cons_self)
  have htop := h.top (cur, idx, path) (by rw [hs]; rfl)
  simp only
  by_cases h0 : (idx == 0) = true
  · have hz : idx = 0 := by simpa using h0
    simp only [h0, if_true]
    refine ⟨chain_append_one path cur hf.1 (hf.2.2 hz), by simp, ?_⟩
    intro x hx
    rcases (mem_setInsert k.rs cur x).mp hx with hx | rfl
    · rcases htop x hx with h1 | h1
      · exact List.mem_append_left _ h1
      · exact absurd h1.2 id
    · simp
  · have h0' : (idx == 0) = false := by simpa using h0
    have hpos : 1 ≤ idx := by
      have : idx ≠ 0 := by simpa using h0
      omega
    simp only [h0', Bool.false_eq_true, if_false]
    refine ⟨hf.1, hf.2.1 hpos, ?_⟩
    intro x hx
    rcases htop x hx with h1 | h1
    · exact h1
    · exact absurd h1.2 id

/-- **the invariant is preserved by every iteration** -/
theorem inv2_step (ix : List Def) (U : List String) (hU : ∀ n d, d ∈ cyDeps ix n → d ∈ U)
    (k : Sk) (h : Inv2 ix k) (hne : k.stack ≠ []) : Inv2 ix (skStep ix k) := by
  have hbase := (step_decreases ix U hU k h.base hne).2
  cases hs : k.stack with
  | nil => exact absurd hs hne
  | cons fr rest =>
    obtain ⟨cur, idx, path⟩ := fr
    obtain ⟨hchain, hlast, hrs⟩ := top_facts h cur idx path rest hs
    have hrestOK : ∀ f ∈ rest, FrameOK ix f := fun f hf => h.frames f (by rw [hs]; exact List.mem_cons_of_mem _ hf)
    have hlinked : Linked ((cur, idx, path) :: rest) := hs ▸ h.linked
    have hrestpos : ∀ f ∈ rest, 1 ≤ f.2.1 := fun f hf => h.base.tail_pos f (by rw [hs]; exact hf)
    -- the link between the frame pushed back (index idx+1, path') and the frame below it
    have relink : ∀ (path' : List String), path' = (if (idx == 0) = true then path ++ [cur] else path) →
        Linked ((cur, idx + 1, path') :: rest) := by
      intro path' hp
      cases rest with
      | nil => trivial
      | cons p r =>
        refine ⟨fun h0 => absurd h0 (Nat.succ_ne_zero idx), ?_, hlinked.2.2⟩
        intro _
        rw [hp]
        by_cases h0 : (idx == 0) = true
        · have hz : idx = 0 := by simpa using h0
          simp only [h0, if_true]
          have e : path = p.2.2 := hlinked.1 hz
          rw [e]
        · have h0' : (idx == 0) = false := by simpa using h0
          have hpos : 1 ≤ idx := by
            have : idx ≠ 0 := by simpa using h0
            omega
          simp only [h0', Bool.false_eq_true, if_false]
          exact hlinked.2.1 hpos
    have hstep : skStep ix k = skStep ix k := rfl
    unfold skStep at hbase ⊢
    simp only [hs] at hbase ⊢
    generalize hrsd : (if (idx == 0) = true then setInsert k.rs cur else k.rs) = rs' at hbase hrs ⊢
    generalize hpd : (if (idx == 0) = true then path ++ [cur] else path) = path' at hbase hchain hlast hrs relink ⊢
    have backOK : FrameOK ix (cur, idx + 1, path') :=
      ⟨hchain, fun _ => hlast, fun h0 => absurd h0 (Nat.succ_ne_zero idx)⟩
    by_cases hlt : idx < (cyDeps ix cur).length
    · simp only [hlt, if_true] at hbase ⊢
      have hdep_mem : (cyDeps ix cur)[idx]! ∈ cyDeps ix cur := by
        rw [getElem!_pos (cyDeps ix cur) idx hlt]; exact List.getElem_mem hlt
      generalize (cyDeps ix cur)[idx]! = dep at hbase hdep_mem ⊢
      have simple : Inv2 ix ⟨(cur, idx + 1, path') :: rest, k.visited, rs'⟩ → True := fun _ => trivial
      have mk_simple : (Inv ix ⟨(cur, idx + 1, path') :: rest, k.visited, rs'⟩) →
          Inv2 ix ⟨(cur, idx + 1, path') :: rest, k.visited, rs'⟩ := by
        intro hb
        refine ⟨hb, ?_, relink path' rfl, ?_⟩
        · intro f hf
          rcases List.mem_cons.mp hf with rfl | hf
          · exact backOK
          · exact hrestOK f hf
        · intro f hf x hx
          simp only [List.head?_cons, Option.some.injEq] at hf
          subst hf
          exact Or.inl (hrs x hx)
      by_cases hc : rs'.contains dep = true
      · simp only [hc, if_true] at hbase ⊢; exact mk_simple hbase
      · have hc' : rs'.contains dep = false := by simpa using hc
        simp only [hc', Bool.false_eq_true, if_false] at hbase ⊢
        by_cases hv : k.visited.contains dep = true
        · simp only [hv, Bool.not_true, Bool.false_eq_true, if_false] at hbase ⊢; exact mk_simple hbase
        · have hv' : k.visited.contains dep = false := by simpa using hv
          simp only [hv', Bool.not_false, if_true] at hbase ⊢
          refine ⟨hbase, ?_, ?_, ?_⟩
          · intro f hf
            rcases List.mem_cons.mp hf with rfl | hf
            · refine ⟨hchain, fun h1 => by simp at h1, ?_⟩
              intro _ l hl
              rw [hlast] at hl
              cases hl
              exact hdep_mem
            · rcases List.mem_cons.mp hf with rfl | hf
              · exact backOK
              · exact hrestOK f hf
          · exact ⟨fun _ => rfl, fun h1 => by simp at h1, relink path' rfl⟩
          · intro f hf x hx
            simp only [List.head?_cons, Option.some.injEq] at hf
            subst hf
            exact Or.inl (hrs x hx)
    · simp only [hlt, if_false] at hbase ⊢
      refine ⟨hbase, hrestOK, linked_tail hlinked, ?_⟩
      intro p hp x hx
      cases rest with
      | nil => simp at hp
      | cons p' r =>
        simp only [List.head?_cons, Option.some.injEq] at hp
        subst hp
        left
        obtain ⟨hx1, hx2⟩ := List.mem_filter.mp hx
        have hxne : x ≠ cur := by simpa using hx2
        have hxp := hrs x hx1
        -- path' is the parent's path followed by `cur`
        have hpp : path' = p'.2.2 ++ [cur] := by
          rw [← hpd]
          by_cases h0 : (idx == 0) = true
          · have hz : idx = 0 := by simpa using h0
            simp only [h0, if_true]
            have e : path = p'.2.2 := hlinked.1 hz
            rw [e]
          · have h0' : (idx == 0) = false := by simpa using h0
            have hpos : 1 ≤ idx := by
              have : idx ≠ 0 := by simpa using h0
              omega
            simp only [h0', Bool.false_eq_true, if_false]
            exact hlinked.2.1 hpos
        rw [hpp, List.mem_append] at hxp
        rcases hxp with h1 | h1
        · exact h1
        · simp at h1; exact absurd h1 hxne

/-! ### what one iteration can add to the report -/

theorem cycles_step (ix : List Def) (s : Dfs) (cur : String) (idx : Nat) (path : List String)
    (rest : List Frame) (hs : s.stack = (cur, idx, path) :: rest) :
    let path' := if (idx == 0) = true then path ++ [cur] else path
    let rs' := if (idx == 0) = true then setInsert s.recStack cur else s.recStack
    (dfsStep ix s).cycles = s.cycles ∨
    (idx < (cyDeps ix cur).length ∧ rs'.contains (cyDeps ix cur)[idx]! = true ∧
      ∃ d, cyDef ix (cyDeps ix cur)[idx]! = some d ∧
        (dfsStep ix s).cycles = s.cycles ++
          [⟨path'.drop ((indexOf? path' (cyDeps ix cur)[idx]!).getD 0) ++ [(cyDeps ix cur)[idx]!], d⟩]) := by
  unfold dfsStep
  simp only [hs]
  by_cases h0 : (idx == 0) = true
  · simp only [h0, if_true]
    by_cases hlt : idx < (cyDeps ix cur).length
    · simp only [hlt, if_true]
      by_cases hc : (setInsert s.recStack cur).contains (cyDeps ix cur)[idx]! = true
      · simp only [hc, if_true]
        split
        · exact Or.inl rfl
        · split
          · rename_i d hd
            exact Or.inr ⟨trivial, trivial, d, hd, rfl⟩
          · exact Or.inl rfl
      · have hc' : (setInsert s.recStack cur).contains (cyDeps ix cur)[idx]! = false := by simpa using hc
        simp only [hc', Bool.false_eq_true, if_false]
        left
        split <;> rfl
    · simp only [hlt, if_false]; first | exact Or.inl rfl | exact Or.inl trivial
  · have h0' : (idx == 0) = false := by simpa using h0
    simp only [h0', Bool.false_eq_true, if_false]
    by_cases hlt : idx < (cyDeps ix cur).length
    · simp only [hlt, if_true]
      by_cases hc : s.recStack.contains (cyDeps ix cur)[idx]! = true
      · simp only [hc, if_true]
        split
        · exact Or.inl rfl
        · split
          · rename_i d hd
            exact Or.inr ⟨trivial, trivial, d, hd, rfl⟩
          · exact Or.inl rfl
      · have hc' : s.recStack.contains (cyDeps ix cur)[idx]! = false := by simpa using hc
        simp only [hc', Bool.false_eq_true, if_false]
        left
        split <;> rfl
    · simp only [hlt, if_false]; first | exact Or.inl rfl | exact Or.inl trivial

/-- every reported cycle is a closed chain of dependency edges, anchored at the graph's definition
    of its first fixture -/
def CyclesSound (ix : List Def) (cs : List Cycle) : Prop :=
  ∀ c ∈ cs, ClosedChain ix c.path ∧ ∃ n, c.path.head? = some n ∧ cyDef ix n = some c.fixture

theorem sound_step (ix : List Def) (s : Dfs) (hinv : Inv2 ix (proj s)) (hc : CyclesSound ix s.cycles) :
    CyclesSound ix (dfsStep ix s).cycles := by
  cases hs : s.stack with
  | nil =>
    have : dfsStep ix s = s := by unfold dfsStep; simp [hs]
    rw [this]; exact hc
  | cons fr rest =>
    obtain ⟨cur, idx, path⟩ := fr
    obtain ⟨hchain, hlast, hrs⟩ := top_facts hinv cur idx path rest hs
    rcases cycles_step ix s cur idx path rest hs with heq | ⟨hlt, hcont, d, hd, heq⟩
    · rw [heq]; exact hc
    · rw [heq]
      intro c hcm
      rcases List.mem_append.mp hcm with hcm | hcm
      · exact hc c hcm
      · simp only [List.mem_singleton] at hcm
        subst hcm
        have hdep_mem : (cyDeps ix cur)[idx]! ∈ cyDeps ix cur := by
          rw [getElem!_pos (cyDeps ix cur) idx hlt]; exact List.getElem_mem hlt
        have hin : (cyDeps ix cur)[idx]! ∈ (if (idx == 0) = true then path ++ [cur] else path) := by
          apply hrs
          show _ ∈ (if (idx == 0) = true then setInsert s.recStack cur else s.recStack)
          simpa using hcont
        obtain ⟨hclosed, hhead⟩ := reported_closed ix _ cur _ hchain hlast hdep_mem hin
        exact ⟨hclosed, _, hhead, hd⟩

theorem sound_run (ix : List Def) : ∀ (fuel : Nat) (s : Dfs), Inv2 ix (proj s) → CyclesSound ix s.cycles →
    CyclesSound ix (dfsRun ix fuel s).cycles := by
  intro fuel
  induction fuel with
  | zero => intro s _ hc; exact hc
  | succ f ih =>
    intro s hinv hc
    rw [dfsRun_succ]
    by_cases he : s.stack.isEmpty = true
    · simp only [he, if_true]; exact hc
    · simp only [he]
      have hne : (proj s).stack ≠ [] := by
        intro hnil
        apply he
        have : s.stack = [] := hnil
        rw [this]; rfl
      have hinv' := inv2_step ix (namesOf ix) (deps_in_names ix) (proj s) hinv hne
      rw [← proj_step] at hinv'
      exact ih (dfsStep ix s) hinv' (sound_step ix s hinv hc)

theorem inv2_start (ix : List Def) (s : Dfs) (r : String) : Inv2 ix (proj (start s r)) := by
  refine ⟨inv_start ix s r, ?_, trivial, ?_⟩
  · intro f hf
    simp only [proj, start, List.mem_singleton] at hf
    subst hf
    refine ⟨trivial, fun h => by simp at h, ?_⟩
    intro _ l hl
    simp at hl
  · intro f _ x hx
    simp [proj, start] at hx

end DfsS

open DfsS DfsT in
/-- **C16 (cycle reports are sound, for every dependency graph and every root order).** Each entry
    of `compute_fixture_cycles`' result names a path that (i) has at least two entries, (ii) starts
    and ends with the same fixture name, (iii) follows a dependency edge of the graph at every step,
    and (iv) is anchored at the definition the graph uses for that first fixture.  The DFS reports
    no open path, invents no edge and mislabels no anchor. -/
theorem C16_reported_cycles_are_cycles (ix : List Def) (roots : List String) :
    ∀ c ∈ computeCycles ix roots,
      ClosedChain ix c.path ∧ ∃ n, c.path.head? = some n ∧ cyDef ix n = some c.fixture := by
  unfold computeCycles
  have key : ∀ (rs : List String) (s0 : Dfs), CyclesSound ix s0.cycles →
      CyclesSound ix (rs.foldl (fun (s : Dfs) r =>
        if s.visited.contains r then s
        else dfsRun ix (cyFuel ix) { s with stack := [(r, 0, [])], recStack := [] }) s0).cycles := by
    intro rs
    induction rs with
    | nil => intro s0 h; exact h
    | cons r rs ih =>
      intro s0 h
      simp only [List.foldl_cons]
      apply ih
      split
      · exact h
      · exact sound_run ix (cyFuel ix) (start s0 r) (inv2_start ix s0 r) h
  exact key roots {} (by intro c hc; cases hc)

end PLS
