/-
  C07 — caching, closing documents and cache eviction are invisible.

  The three memo tables of the implementation (`available_fixtures_cache`, `cycle_cache`,
  `imported_fixtures_cache`) share one pattern: a value stored together with the
  `definitions_version` it was computed at, returned as long as the version is unchanged.
  `Memo` is that pattern; the theorems say exactly when it is invisible.
-/
import PLS.Model.Index
namespace PLS

/-- a memo entry: the version key it was stored under and the stored value -/
structure Memo (α : Type) where
  ver : Nat
  val : α

/-- read through the memo: a hit returns the stored value, a miss recomputes and stores -/
def memoRead {α : Type} (m : Option (Memo α)) (ver : Nat) (compute : α) : α × Option (Memo α) :=
  match m with
  | some e => if e.ver = ver then (e.val, m) else (compute, some ⟨ver, compute⟩)
  | none => (compute, some ⟨ver, compute⟩)

/-- a memo is coherent with the data when an entry stored under the current version holds the
    value a recomputation would give -/
def Coherent {α δ : Type} (m : Option (Memo α)) (version : δ → Nat) (f : δ → α) (d : δ) : Prop :=
  ∀ e, m = some e → e.ver = version d → e.val = f d

/-- **C07 (a coherent memo is invisible).** -/
theorem C07_memo_sound {α δ : Type} (m : Option (Memo α)) (version : δ → Nat) (f : δ → α) (d : δ)
    (h : Coherent m version f d) : (memoRead m (version d) (f d)).1 = f d := by
  unfold memoRead
  cases m with
  | none => rfl
  | some e =>
    simp only
    split
    · rename_i hv; exact h e rfl hv
    · rfl

/-- reading keeps the memo coherent -/
theorem C07_memo_read_coherent {α δ : Type} (m : Option (Memo α)) (version : δ → Nat) (f : δ → α) (d : δ)
    (h : Coherent m version f d) : Coherent (memoRead m (version d) (f d)).2 version f d := by
  unfold memoRead
  cases m with
  | none => intro e he _; simp at he; rw [← he]
  | some e0 =>
    simp only
    split
    · exact h
    · intro e he _; simp at he; rw [← he]

/-- **C07 (coherence is preserved by every step that bumps the version whenever the memoised
    function's value changes)** — the discipline the caches need. -/
theorem C07_memo_coherent_step {α δ : Type} (m : Option (Memo α)) (version : δ → Nat) (f : δ → α) (d d' : δ)
    (h : Coherent m version f d)
    (hmono : ∀ e, m = some e → e.ver ≤ version d)
    (hbump : f d' ≠ f d → version d < version d') (hle : version d ≤ version d') :
    Coherent m version f d' := by
  intro e he hv
  by_cases hf : f d' = f d
  · rw [hf]
    have : e.ver = version d := by
      have h1 := hmono e he
      omega
    exact h e he this
  · have := hbump hf
    have h1 := hmono e he
    omega

/-- a whole interleaving of steps (data changes) and reads: every read returns the cold value -/
def runReads {α δ : Type} (version : δ → Nat) (f : δ → α) :
    Option (Memo α) → List δ → List α × Option (Memo α)
  | m, [] => ([], m)
  | m, d :: ds =>
    let (a, m') := memoRead m (version d) (f d)
    let (as, m'') := runReads version f m' ds
    (a :: as, m'')

/-- every consecutive pair of data states satisfies `R` -/
def Steps {δ : Type} (R : δ → δ → Prop) : δ → List δ → Prop
  | _, [] => True
  | a, b :: rest => R a b ∧ Steps R b rest

/-- **C07 (warm = cold for every interleaving of edits and queries)**, under the bump discipline:
    the answers read through the memo along any sequence of data states equal the recomputed ones. -/
theorem C07_warm_eq_cold {α δ : Type} (version : δ → Nat) (f : δ → α) (ds : List δ) (m : Option (Memo α)) (d0 : δ)
    (hcoh : Coherent m version f d0) (hmono : ∀ e, m = some e → e.ver ≤ version d0)
    (hchain : Steps (fun a b => version a ≤ version b ∧ (f b ≠ f a → version a < version b)) d0 ds) :
    (runReads version f m ds).1 = ds.map f := by
  induction ds generalizing m d0 with
  | nil => rfl
  | cons d rest ih =>
    simp only [runReads, List.map_cons]
    have hc : _ ∧ _ := hchain
    have hcoh' : Coherent m version f d := C07_memo_coherent_step m version f d0 d hcoh hmono hc.1.2 hc.1.1
    have hread := C07_memo_sound m version f d hcoh'
    have hcoh'' := C07_memo_read_coherent m version f d hcoh'
    have hmono' : ∀ e, (memoRead m (version d) (f d)).2 = some e → e.ver ≤ version d := by
      intro e he
      unfold memoRead at he
      cases m with
      | none => simp at he; rw [← he]; exact Nat.le_refl _
      | some e0 =>
        simp only at he
        split at he
        · simp at he; rw [← he]
          have := hmono e0 rfl
          exact Nat.le_trans this hc.1.1
        · simp at he; rw [← he]; exact Nat.le_refl _
    have := ih (memoRead m (version d) (f d)).2 d hcoh'' hmono' hc.2
    rw [hread]
    congr 1

/-- **the discipline is necessary (E3 before the repair).** If some step changes the memoised
    value without bumping the version, a warm read returns the stale value. -/
theorem C07_removal_without_bump_breaks :
    ∃ (version : Nat → Nat) (f : Nat → Nat) (m : Option (Memo Nat)),
      Coherent m version f 0 ∧ (memoRead m (version 1) (f 1)).1 ≠ f 1 :=
  ⟨fun _ => 7, fun d => d, some ⟨7, 0⟩, by intro e he _; simp at he; rw [← he], by simp [memoRead]⟩

open Index in
/-- the available-fixtures memo is an instance of the pattern: a hit returns the stored list -/
theorem C07_available_hit (st : Index) (f : Path) (l : List Def)
    (h : alookup st.availCache f = some (st.version, l)) : (st.availableSt f).1 = l := by
  unfold availableSt
  simp [h]

open Index in
/-- **C07 (closing a document never touches the index maps)**: only cached text and the two
    per-file memo entries go away. (What it does to *answers* through `file_cache` membership is
    E11, a recorded finding.) -/
theorem C07_close_keeps_index (st : Index) (f : Path) :
    (st.closeFile f).defs = st.defs ∧ (st.closeFile f).usages = st.usages ∧
    (st.closeFile f).ubf = st.ubf ∧ (st.closeFile f).fileDefs = st.fileDefs ∧
    (st.closeFile f).version = st.version := by
  simp [closeFile]

open Index in
/-- **C07 (pressure-driven eviction never touches the index maps either).**
    `evict_cache_if_needed` removes, for whichever files it picks, exactly the entries
    `cleanup_file_cache` removes; so for ANY evicted set the definitions, usages, reverse indexes
    and the version are unchanged. (Answers can still change through `file_cache` membership of a
    conftest — the same finding E11 as for closing.) -/
theorem C07_evict_keeps_index (st : Index) (evicted : List Path) :
    (evicted.foldl closeFile st).defs = st.defs ∧ (evicted.foldl closeFile st).usages = st.usages ∧
    (evicted.foldl closeFile st).ubf = st.ubf ∧ (evicted.foldl closeFile st).fileDefs = st.fileDefs ∧
    (evicted.foldl closeFile st).version = st.version := by
  induction evicted generalizing st with
  | nil => exact ⟨rfl, rfl, rfl, rfl, rfl⟩
  | cons f fs ih =>
    simp only [List.foldl_cons]
    obtain ⟨h1, h2, h3, h4, h5⟩ := ih (st.closeFile f)
    obtain ⟨g1, g2, g3, g4, g5⟩ := C07_close_keeps_index st f
    exact ⟨h1.trans g1, h2.trans g2, h3.trans g3, h4.trans g4, h5.trans g5⟩

end PLS
