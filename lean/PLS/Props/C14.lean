/-
  C14 — imported and plugin fixtures are discovered transitively and classified.
-/
import PLS.Model.Venv
import PLS.Lemmas.History
namespace PLS
open Index

/-- **C14 (classification).** A recorded definition is third-party iff its path mentions
    `site-packages` or it lies in an editable install outside the workspace; it is a plugin
    fixture iff its file was reached through a pytest11 entry point (or propagated from one). -/
theorem C14_classification (pfx : Path) (st : Index) (f : Path) (d : Def) :
    (stampDef pfx st f d).thirdParty = (inSitePackages pfx st f || st.editableThirdParty f) ∧
    (stampDef pfx st f d).plugin = st.pluginFiles.contains f := ⟨rfl, rfl⟩

/-- an editable install whose source lies inside the workspace (or that contains the workspace)
    is not third-party -/
theorem C14_editable_in_workspace (st : Index) (f : Path) (ws : Path) (root sp : Path) (raw : String)
    (hws : st.workspaceRoot = some ws)
    (hfirst : st.editable.find? (fun e => pathStartsWith f e.1) = some (root, sp, raw))
    (hin : pathStartsWith root ws = true ∨ pathStartsWith ws root = true) :
    st.editableThirdParty f = false := by
  unfold editableThirdParty
  rw [hfirst]
  simp only [hws]
  rcases hin with h | h <;> simp [h]

/-- … and one outside it is -/
theorem C14_editable_outside_workspace (st : Index) (f : Path) (ws : Path) (root sp : Path) (raw : String)
    (hws : st.workspaceRoot = some ws)
    (hfirst : st.editable.find? (fun e => pathStartsWith f e.1) = some (root, sp, raw))
    (h1 : pathStartsWith root ws = false) (h2 : pathStartsWith ws root = false) :
    st.editableThirdParty f = true := by
  unfold editableThirdParty
  rw [hfirst]
  simp [hws, h1, h2]

/-- **C14 (entry-point module paths cannot escape the base directory)**: a module path with an
    empty segment, a `..` or a NUL byte in a segment resolves to nothing. -/
theorem C14_entry_point_no_traversal (st : Index) (base : Path) (module : String)
    (h : entryPointParts module = none) : st.resolveEntryPoint base module = none := by
  unfold resolveEntryPoint
  rw [h]

theorem C14_traversal_examples :
    entryPointParts "..evil" = none ∧ entryPointParts "a..b" = none ∧ entryPointParts "" = none ∧
    entryPointParts "pkg.mod:attr" = some ["pkg", "mod"] := by decide

set_option maxRecDepth 8000 in
/-- **C14 (only the `[pytest11]` section counts)**; other sections, comments and malformed lines
    are ignored, surrounding whitespace is stripped. -/
theorem C14_pytest11_section_only :
    parsePytest11 "[console_scripts]\ntool = pkg.cli:main\n\n[pytest11]\n# c\nfoo = pytest_foo.plugin\nbroken line\n bar=pytest_bar \n[other]\nx = y\n".toList
      = [("foo", "pytest_foo.plugin"), ("bar", "pytest_bar")] ∧
    parsePytest11 "[console_scripts]\nfoo = bar\n".toList = [] ∧
    parsePytest11 "".toList = [] := by decide

/-- package names of metadata directories: the version starts at the first `-` followed by a digit;
    `-`, `.` become `_`, case is folded (the lower-casing function is a parameter) -/
theorem C14_package_name_examples :
    packageNameOfDistInfo id "my-package-1.0.0.dist-info" = some ("my-package", "my_package") ∧
    packageNameOfDistInfo id "pkg.egg-info" = some ("pkg", "pkg") ∧
    packageNameOfDistInfo id "name.with.dots-2.dist-info" = some ("name.with.dots", "name_with_dots") ∧
    packageNameOfDistInfo id "not-metadata" = none := by decide

/-- **C14 (`.pth` matching)**: a stem belongs to a package iff it IS one of the candidate names or
    a candidate followed by `-<digit>…` — a longer name sharing the prefix does not match. -/
theorem C14_pth_stem_rule :
    pthStemMatches "__editable__.my_pkg-0.1".toList (pthCandidates "my-pkg" "my_pkg") = true ∧
    pthStemMatches "_my_pkg".toList (pthCandidates "my-pkg" "my_pkg") = true ∧
    pthStemMatches "my_pkg_extra".toList (pthCandidates "my-pkg" "my_pkg") = false ∧
    pthStemMatches "__editable__.my_pkg_extra-0.1".toList (pthCandidates "my-pkg" "my_pkg") = false ∧
    pthLines "# c\nimport sys\n\n/src/../escape\n/abs/src\n".toList = ["/abs/src".toList] := by decide

/-- **C14 (what `scan_plugin_directory` analyses)**: Python files at most three levels below the
    directory whose name does not start with `test_`. -/
theorem C14_plugin_dir_files (st : Index) (dir p : Path) (h : p ∈ st.pluginDirFiles dir) :
    pathStartsWith p dir = true ∧ p.length - dir.length ≤ 3 ∧
    ∃ n, p.getLast? = some n ∧ n.endsWith ".py" = true ∧ n.startsWith "test_" = false := by
  unfold pluginDirFiles at h
  simp only [List.mem_filter, Bool.and_eq_true, decide_eq_true_eq] at h
  obtain ⟨_, ⟨⟨⟨h1, _⟩, h3⟩, h4⟩⟩ := h
  refine ⟨h1, h3, ?_⟩
  cases hl : p.getLast? with
  | none => simp [hl] at h4
  | some n =>
    simp only [hl, Bool.and_eq_true, Bool.not_eq_true'] at h4
    exact ⟨n, rfl, h4.1.1, h4.1.2⟩

theorem importStep_no_mark (acc : ScanAcc) (t : Path) :
    (importStep false acc t).st = acc.st ∧ (importStep false acc t).re = acc.re ∧
    (importStep false acc t).processed = acc.processed := by
  simp [importStep]

/-- an unmarked step never touches the plugin marks; a marking step adds exactly the target -/
theorem importStep_marks (mark : Bool) (acc : ScanAcc) (t : Path) :
    (importStep mark acc t).st.pluginFiles =
      if mark && !acc.st.pluginFiles.contains t then acc.st.pluginFiles ++ [t] else acc.st.pluginFiles := by
  unfold importStep
  simp only
  split <;> rfl

/-- a file is walked again exactly when the step that marks it as a plugin file finds it already
    processed (the repair of the visiting-order dependence): otherwise `processed` is untouched -/
theorem importStep_rewalk (mark : Bool) (acc : ScanAcc) (t : Path) :
    (importStep mark acc t).processed =
      if mark && !acc.st.pluginFiles.contains t && acc.processed.contains t
      then acc.processed.filter (fun g => g != t) else acc.processed := by
  unfold importStep
  simp only

/-- **C14 (plugin status propagates along star imports and `pytest_plugins` only, and only from
    files that are plugin files themselves)**: scanning the imports of a file that is not a
    plugin file marks nothing — whatever it imports, however. -/
theorem C14_plugin_mark_propagation (f : Path) (acc : ScanAcc) (hnot : acc.st.pluginFiles.contains f = false) :
    (importScanFile f acc).st = acc.st ∧ (importScanFile f acc).processed = acc.processed := by
  unfold importScanFile
  cases hc : acc.st.content f with
  | none => exact ⟨rfl, rfl⟩
  | some v =>
    cases hp : v.parsed with
    | none =>
      cases v
      simp only at hp
      subst hp
      exact ⟨rfl, rfl⟩
    | some fr =>
      cases v
      simp only at hp
      subst hp
      simp only [hnot, Bool.false_and]
      have hfold1 : ∀ (imps : List ImportRec) (a : ScanAcc),
          (imps.foldl (fun acc imp =>
            match acc.st.resolveModule imp.modulePath f with
            | some t => importStep false acc t
            | none => acc) a).st = a.st ∧
          (imps.foldl (fun acc imp =>
            match acc.st.resolveModule imp.modulePath f with
            | some t => importStep false acc t
            | none => acc) a).processed = a.processed := by
        intro imps
        induction imps with
        | nil => intro a; exact ⟨rfl, rfl⟩
        | cons i is ih =>
          intro a
          simp only [List.foldl_cons]
          obtain ⟨h1, h2⟩ := ih (match a.st.resolveModule i.modulePath f with
            | some t => importStep false a t
            | none => a)
          rw [h1, h2]
          cases a.st.resolveModule i.modulePath f with
          | none => exact ⟨rfl, rfl⟩
          | some t => exact ⟨(importStep_no_mark a t).1, (importStep_no_mark a t).2.2⟩
      have hfold2 : ∀ (ms : List String) (a : ScanAcc),
          (ms.foldl (fun acc m =>
            match acc.st.resolveModule m f with
            | some t => importStep false acc t
            | none => acc) a).st = a.st ∧
          (ms.foldl (fun acc m =>
            match acc.st.resolveModule m f with
            | some t => importStep false acc t
            | none => acc) a).processed = a.processed := by
        intro ms
        induction ms with
        | nil => intro a; exact ⟨rfl, rfl⟩
        | cons i is ih =>
          intro a
          simp only [List.foldl_cons]
          obtain ⟨h1, h2⟩ := ih (match a.st.resolveModule i f with
            | some t => importStep false a t
            | none => a)
          rw [h1, h2]
          cases a.st.resolveModule i f with
          | none => exact ⟨rfl, rfl⟩
          | some t => exact ⟨(importStep_no_mark a t).1, (importStep_no_mark a t).2.2⟩
      obtain ⟨a1, a2⟩ := hfold1 fr.imports acc
      obtain ⟨b1, b2⟩ := hfold2 fr.plugins (fr.imports.foldl (fun acc imp =>
            match acc.st.resolveModule imp.modulePath f with
            | some t => importStep false acc t
            | none => acc) acc)
      exact ⟨b1.trans a1, b2.trans a2⟩

end PLS
