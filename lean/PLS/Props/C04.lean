/-
  C04 — find-references is the exact inverse of go-to-definition.
-/
import PLS.Lemmas.Order
namespace PLS

/-- **C04 (inverse).** A usage is listed under `D` iff it is recorded in the reverse index and
    resolving it lands on `D` — the very function navigation uses (`C01_goto_is_resolveUsage`). -/
theorem C04_inverse (ix : List Def) (imp : Path → String → Bool) (ubf : List Usage) (D : Def) (u : Usage) :
    u ∈ refsFor ix imp ubf D ↔ u ∈ ubf ∧ resolveUsage ix imp u = some D := by
  unfold refsFor
  simp only [List.mem_filter, beq_iff_eq]
  constructor
  · rintro ⟨⟨hu, _⟩, hr⟩; exact ⟨hu, hr⟩
  · rintro ⟨hu, hr⟩
    exact ⟨⟨hu, (resolveUsage_mem hr).2.symm⟩, hr⟩

/-- **C04 (unresolved usages are listed nowhere).** -/
theorem C04_unresolved (ix : List Def) (imp : Path → String → Bool) (ubf : List Usage) (u : Usage)
    (h : resolveUsage ix imp u = none) : ∀ D, u ∉ refsFor ix imp ubf D := by
  intro D hm
  have := ((C04_inverse ix imp ubf D u).mp hm).2
  rw [h] at this
  cases this

/-- **C04 (a usage is listed under at most one definition).** -/
theorem C04_functional (ix : List Def) (imp : Path → String → Bool) (ubf : List Usage) (u : Usage)
    (D D' : Def) (h : u ∈ refsFor ix imp ubf D) (h' : u ∈ refsFor ix imp ubf D') : D = D' := by
  have a := ((C04_inverse ix imp ubf D u).mp h).2
  have b := ((C04_inverse ix imp ubf D' u).mp h').2
  rw [a] at b
  exact Option.some.inj b

/-- **C04 (no usage listed twice)** — provided the reverse index holds each usage once. -/
theorem C04_nodup (ix : List Def) (imp : Path → String → Bool) (ubf : List Usage) (D : Def)
    (h : ubf.Nodup) : (refsFor ix imp ubf D).Nodup := by
  unfold refsFor
  exact (h.filter _).filter _

/-- **C04 (the CLI counter of `(file, name)` counts exactly the usages resolving into that file
    under that name)** — the code-lens count is `(refsFor …).length` by definition of the handler. -/
theorem C04_cli_count (ix : List Def) (imp : Path → String → Bool) (us : List Usage) (file : Path) (n : String) :
    cliCount ix imp us file n =
      (us.filter (fun u => match resolveUsage ix imp u with
        | some d => d.file == file && u.name == n
        | none => false)).length := rfl

/-- when `(file, name)` identifies one definition `D`, the CLI counter is the number of
    references of `D` (over the same usage list). -/
theorem C04_cli_count_eq_refs (ix : List Def) (imp : Path → String → Bool) (us : List Usage) (D : Def)
    (huniq : ∀ e ∈ ix, e.name = D.name → e.file = D.file → e = D) :
    cliCount ix imp us D.file D.name = (refsFor ix imp us D).length := by
  unfold cliCount refsFor
  rw [List.filter_filter]
  congr 1
  apply List.filter_congr
  intro u _
  cases hr : resolveUsage ix imp u with
  | none => simp
  | some d =>
    have hm := resolveUsage_mem hr
    by_cases hd : d = D
    · subst hd
      simp [hm.2]
    · have h1 : (d.file == D.file && u.name == D.name) = false := by
        rw [Bool.eq_false_iff]
        intro hc
        simp only [Bool.and_eq_true, beq_iff_eq] at hc
        exact hd (huniq d hm.1 (hm.2.trans hc.2) hc.1)
      have h2 : (some d == some D) = false := by
        rw [Bool.eq_false_iff]
        intro hc
        exact hd (by simpa using hc)
      simp [h1, h2]

/-- **C04 (a recorded usage is found from its own position, wherever it stands in the file's list).** The position
    lookup searches the WHOLE usage list of the file: if some recorded usage covers the cursor (its line, its name under
    the cursor, its columns), a usage covering the cursor is returned — no assumption that the list is in source order
    (the analyzer records a function's `usefixtures` names before its `parametrize` names, whatever their lines). -/
theorem C04_usage_found_anywhere (us : List Usage) (line : Nat) (word : String) (col : Nat) (u : Usage)
    (hu : u ∈ us) (hl : u.line = line) (hn : u.name = word) (hs : u.startChar ≤ col) (he : col < u.endChar) :
    ∃ u', usageAt us line word col = some u' ∧ u' ∈ us ∧ u'.line = line ∧ u'.name = word ∧
      u'.startChar ≤ col ∧ col < u'.endChar := by
  unfold usageAt
  have hp : (fun u : Usage => u.line == line && u.name == word && decide (u.startChar ≤ col) && decide (col < u.endChar)) u = true := by
    simp [hl, hn, hs, he]
  cases hf : us.find? (fun u => u.line == line && u.name == word && decide (u.startChar ≤ col) && decide (col < u.endChar)) with
  | none =>
    have := List.find?_eq_none.mp hf u hu
    simp [hl, hn, hs, he] at this
  | some u' =>
    have hm := List.mem_of_find?_eq_some hf
    have hq := List.find?_some hf
    simp only [Bool.and_eq_true, beq_iff_eq, decide_eq_true_eq] at hq
    exact ⟨u', rfl, hm, hq.1.1.1, hq.1.1.2, hq.1.2, hq.2⟩

/-- … and the answer does not depend on the order of the list when the covering usage is unique -/
theorem C04_usage_lookup_order_independent (us us' : List Usage) (line : Nat) (word : String) (col : Nat) (u : Usage)
    (hperm : us.Perm us') (hu : u ∈ us) (hl : u.line = line) (hn : u.name = word) (hs : u.startChar ≤ col) (he : col < u.endChar)
    (huniq : ∀ v ∈ us, v.line = line → v.name = word → v.startChar ≤ col → col < v.endChar → v = u) :
    usageAt us line word col = some u ∧ usageAt us' line word col = some u := by
  obtain ⟨a, ha, ham, h1, h2, h3, h4⟩ := C04_usage_found_anywhere us line word col u hu hl hn hs he
  obtain ⟨b, hb, hbm, g1, g2, g3, g4⟩ := C04_usage_found_anywhere us' line word col u (hperm.mem_iff.mp hu) hl hn hs he
  rw [ha, hb, huniq a ham h1 h2 h3 h4, huniq b (hperm.mem_iff.mpr hbm) g1 g2 g3 g4]
  exact ⟨rfl, rfl⟩

end PLS
