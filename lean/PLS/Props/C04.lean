/-
  C04 — find-references is the exact inverse of go-to-definition.
-/
import PLS.Lemmas.Order
namespace PLS

/-- **C04 (inverse).** A usage is listed under `D` iff it is recorded in the reverse index and
    resolving it lands on `D` — the very function navigation uses (`C01_goto_is_resolveUsage`). -/
theorem C04_inverse (ix : List Def) (imp : Path → String → Bool) (ubf : List Usage) (D : Def) (u : Usage) :
    u ∈ refsFor ix imp ubf D ↔ u ∈ ubf ∧ resolveUsage ix imp u = some D := by
  unfold refsFor
  simp only [List.mem_filter, beq_iff_eq]
  constructor
  · rintro ⟨⟨hu, _⟩, hr⟩; exact ⟨hu, hr⟩
  · rintro ⟨hu, hr⟩
    exact ⟨⟨hu, (resolveUsage_mem hr).2.symm⟩, hr⟩

/-- **C04 (unresolved usages are listed nowhere).** -/
theorem C04_unresolved (ix : List Def) (imp : Path → String → Bool) (ubf : List Usage) (u : Usage)
    (h : resolveUsage ix imp u = none) : ∀ D, u ∉ refsFor ix imp ubf D := by
  intro D hm
  have := ((C04_inverse ix imp ubf D u).mp hm).2
  rw [h] at this
  cases this

/-- **C04 (a usage is listed under at most one definition).** -/
theorem C04_functional (ix : List Def) (imp : Path → String → Bool) (ubf : List Usage) (u : Usage)
    (D D' : Def) (h : u ∈ refsFor ix imp ubf D) (h' : u ∈ refsFor ix imp ubf D') : D = D' := by
  have a := ((C04_inverse ix imp ubf D u).mp h).2
  have b := ((C04_inverse ix imp ubf D' u).mp h').2
  rw [a] at b
  exact Option.some.inj b

/-- **C04 (no usage listed twice)** — provided the reverse index holds each usage once. -/
theorem C04_nodup (ix : List Def) (imp : Path → String → Bool) (ubf : List Usage) (D : Def)
    (h : ubf.Nodup) : (refsFor ix imp ubf D).Nodup := by
  unfold refsFor
  exact (h.filter _).filter _

/-- **C04 (the CLI counter of `(file, name)` counts exactly the usages resolving into that file
    under that name)** — the code-lens count is `(refsFor …).length` by definition of the handler. -/
theorem C04_cli_count (ix : List Def) (imp : Path → String → Bool) (us : List Usage) (file : Path) (n : String) :
    cliCount ix imp us file n =
      (us.filter (fun u => match resolveUsage ix imp u with
        | some d => d.file == file && u.name == n
        | none => false)).length := rfl

/-- when `(file, name)` identifies one definition `D`, the CLI counter is the number of
    references of `D` (over the same usage list). -/
theorem C04_cli_count_eq_refs (ix : List Def) (imp : Path → String → Bool) (us : List Usage) (D : Def)
    (huniq : ∀ e ∈ ix, e.name = D.name → e.file = D.file → e = D) :
    cliCount ix imp us D.file D.name = (refsFor ix imp us D).length := by
  unfold cliCount refsFor
  rw [List.filter_filter]
  congr 1
  apply List.filter_congr
  intro u _
  cases hr : resolveUsage ix imp u with
  | none => simp
  | some d =>
    have hm := resolveUsage_mem hr
    by_cases hd : d = D
    · subst hd
      simp [hm.2]
    · have h1 : (d.file == D.file && u.name == D.name) = false := by
        rw [Bool.eq_false_iff]
        intro hc
        simp only [Bool.and_eq_true, beq_iff_eq] at hc
        exact hd (huniq d hm.1 (hm.2.trans hc.2) hc.1)
      have h2 : (some d == some D) = false := by
        rw [Bool.eq_false_iff]
        intro hc
        exact hd (by simpa using hc)
      simp [h1, h2]

end PLS
