/-
  C15 / C04 — a fixture name found inside a string literal is found as a WHOLE WORD: neither the character before the
  reported span nor the one after it is a word character (letters, digits and `_`).  So in `"db_user, db"` the usage of
  `db` is the last word, never the prefix of `db_user`.
-/
import PLS.Props.C15
namespace PLS

/-- the character that precedes the match: the last one of what was passed over, else the one handed in -/
def lastOr (prev : Option Char) (pre : Chars) : Option Char :=
  match pre.getLast? with
  | some c => some c
  | none => prev

theorem lastOr_cons (prev : Option Char) (c : Char) (pre : Chars) :
    lastOr prev (c :: pre) = lastOr (some c) pre := by
  unfold lastOr
  cases pre with
  | nil => simp
  | cons d ds =>
    have h : (d :: ds).getLast? = some ((d :: ds).getLast (by simp)) := List.getLast?_eq_some_getLast (by simp)
    simp only [List.getLast?_cons_cons, h]

/-- **whole word**: what `wordOccAux` reports is preceded and followed by non-word characters -/
theorem wordOccAux_whole_word (name : Chars) : ∀ (seg : Chars) (prev : Option Char) (skip off : Nat),
    wordOccAux name prev skip seg = some off →
    ∃ pre post, seg = pre ++ name ++ post ∧ blen pre = off ∧ post.head?.any isWordChar = false ∧
      (lastOr prev pre).any isWordChar = false := by
  intro seg
  induction seg with
  | nil => intro prev skip off h; simp [wordOccAux] at h
  | cons c cs ih =>
    intro prev skip off h
    cases skip with
    | succ k =>
      simp only [wordOccAux, Option.map_eq_some_iff] at h
      obtain ⟨o, ho, rfl⟩ := h
      obtain ⟨pre, post, hs, hb, ha, hp⟩ := ih (some c) k o ho
      exact ⟨c :: pre, post, by rw [hs]; rfl, by simp only [blen, hb]; omega, ha, by rw [lastOr_cons]; exact hp⟩
    | zero =>
      simp only [wordOccAux] at h
      split at h
      · rename_i hpre
        split at h
        · simp only [Option.map_eq_some_iff] at h
          obtain ⟨o, ho, rfl⟩ := h
          obtain ⟨pre, post, hs, hb, ha, hp⟩ := ih (some c) _ o ho
          exact ⟨c :: pre, post, by rw [hs]; rfl, by simp only [blen, hb]; omega, ha, by rw [lastOr_cons]; exact hp⟩
        · rename_i hrej
          have : off = 0 := by simpa using h.symm
          subst this
          obtain ⟨t, ht⟩ := List.isPrefixOf_iff_prefix.mp hpre
          simp only [Bool.or_eq_true, not_or, Bool.not_eq_true] at hrej
          refine ⟨[], t, by simp [ht], rfl, ?_, ?_⟩
          · have h2 := hrej.2
            rw [← ht, List.drop_left] at h2
            exact h2
          · simpa [lastOr] using hrej.1
      · simp only [Option.map_eq_some_iff] at h
        obtain ⟨o, ho, rfl⟩ := h
        obtain ⟨pre, post, hs, hb, ha, hp⟩ := ih (some c) 0 o ho
        exact ⟨c :: pre, post, by rw [hs]; rfl, by simp only [blen, hb]; omega, ha, by rw [lastOr_cons]; exact hp⟩

/-- **C15 / C04 (names that are parts of one another).** From the start of a segment, the reported occurrence of a name
    is delimited on both sides: by the segment's ends or by characters that are not letters, digits or `_`. -/
theorem C15_string_name_is_whole_word (name seg : Chars) (off : Nat)
    (h : wordOccAux name none 0 seg = some off) :
    ∃ pre post, seg = pre ++ name ++ post ∧ blen pre = off ∧
      post.head?.any isWordChar = false ∧ pre.getLast?.any isWordChar = false := by
  obtain ⟨pre, post, hs, hb, ha, hp⟩ := wordOccAux_whole_word name seg none 0 off h
  refine ⟨pre, post, hs, hb, ha, ?_⟩
  unfold lastOr at hp
  cases hl : pre.getLast? with
  | none => rfl
  | some c => rw [hl] at hp; exact hp

/-- `_` is a word character: in `"db_user,db"` the name `db` is the LAST word (offset 9, after the opening quote), and in
    `"user_db, db"` likewise (offset 10) -/
example : isWordChar '_' = true ∧
    wordOccAux "db".toList none 0 "\"db_user,db\"".toList = some 9 ∧
    wordOccAux "db".toList none 0 "\"user_db, db\"".toList = some 10 ∧
    wordOccAux "db".toList none 0 "\"a_db_b\", \"db\"".toList = some 11 := by decide

end PLS
