/-
  C02 — a self-named parameter resolves outward; the cursor decides which fixture.
-/
import PLS.Lemmas.Order
import PLS.Props.C01
namespace PLS

/-- the answer the property demands for the parameter of an overriding fixture `D`:
    the C01-correct answer in the workspace with `D` removed. -/
def OutwardCorrect (ix : List Def) (prov : Path → Def → Prop) (D : Def) (r : Option Def) : Prop :=
  Correct (ix.filter (· != D)) prov D.file D.name r

/-- **C02 (parameter side).**  A usage of `D`'s own name inside `D`'s lines (anywhere in its
    signature, wrapped or not) resolves over the index without `D`, and never to `D` itself — for
    every index, order and placement. -/
theorem C02_param (ix : List Def) (imp : Path → String → Bool) (D : Def) (u : Usage)
    (hline : ownDefAt ix u.file u.line u.name = some D) :
    resolveUsage ix imp u = resolve (ix.filter (· != D)) imp u.file u.name ∧
      resolveUsage ix imp u ≠ some D := by
  have h1 : resolveUsage ix imp u = resolve (ix.filter (· != D)) imp u.file u.name := by
    unfold resolveUsage
    rw [hline]
    simp only [resolveExcl]
    exact resolveF_filter ix imp u.file u.name _
  refine ⟨h1, ?_⟩
  intro h
  rw [h1] at h
  have := (resolve_mem h).1
  simp at this

/-- **C02 (outward answer is the shadowing-order answer).** Under the C01 hypotheses for the index
    without `D`, the parameter resolves to what pytest's order selects once `D` is set aside. -/
theorem C02_outward_correct (ix : List Def) (prov : Path → Def → Prop) (imp : Path → String → Bool)
    (D : Def) (u : Usage)
    (hline : ownDefAt ix u.file u.line u.name = some D) (hname : D.name = u.name) (hfile : D.file = u.file)
    (hown : ∀ c d, d.file = c → prov c d)
    (hex : OracleExact (ix.filter (· != D)) prov imp D.name)
    (himp : Himp (ix.filter (· != D)) prov imp D.name) :
    OutwardCorrect ix prov D (resolveUsage ix imp u) := by
  unfold OutwardCorrect
  rw [(C02_param ix imp D u hline).1, ← hname, ← hfile]
  exact C01_resolve_correct _ prov imp D.file D.name hown hex himp

/-- **C02 (chains).** Along any override chain `D₀, D₁, …` in which each link's parameter usage
    `uᵢ` sits inside `Dᵢ`'s lines, every `uᵢ` resolves over the index without `Dᵢ` and never to `Dᵢ`
    — chains of any length and placement. -/
theorem C02_chain (ix : List Def) (imp : Path → String → Bool) (chain : List (Def × Usage))
    (h : ∀ p ∈ chain, ownDefAt ix p.2.file p.2.line p.2.name = some p.1) :
    ∀ p ∈ chain, resolveUsage ix imp p.2 = resolve (ix.filter (· != p.1)) imp p.2.file p.2.name ∧
      resolveUsage ix imp p.2 ≠ some p.1 := by
  intro p hp
  exact C02_param ix imp p.1 p.2 (h p hp)

/-- **C02 (name side).** With the cursor on the function name of `D` (no usage span under it),
    the fixture at the position is `D`'s own name: references and navigation from the name concern
    the overriding fixture. -/
theorem C02_name (ix : List Def) (us : List Usage) (f : Path) (line0 col : Nat) (D : Def)
    (hD : D ∈ ix) (hf : D.file = f) (hl : D.line = line0 + 1)
    (hno : ∀ u ∈ us, ¬ (u.line = line0 + 1 ∧ u.startChar ≤ col ∧ col < u.endChar)) :
    fixtureAtWith ix us f line0 col (some D.name) = some D.name := by
  unfold fixtureAtWith
  have : us.find? (fun u => u.line == line0 + 1 && u.startChar ≤ col && col < u.endChar) = none := by
    rw [List.find?_eq_none]
    intro u hu hc
    simp only [Bool.and_eq_true, beq_iff_eq, decide_eq_true_eq] at hc
    exact hno u hu ⟨hc.1.1, hc.1.2, hc.2⟩
  rw [this]
  simp only
  have : ix.any (fun d => d.file == f && d.line == line0 + 1 && d.name == D.name) = true := by
    rw [List.any_eq_true]
    exact ⟨D, hD, by simp [hf, hl]⟩
  simp [this]

/-- **C02 (a usage span under the cursor wins).** Inside the parameter's span the fixture at the
    position is the parameter's name (the same word — but it is routed to the outward definition). -/
theorem C02_param_position (ix : List Def) (us : List Usage) (f : Path) (line0 col : Nat) (w : Option String)
    (u : Usage) (h : us.find? (fun u => u.line == line0 + 1 && u.startChar ≤ col && col < u.endChar) = some u) :
    fixtureAtWith ix us f line0 col w = some u.name := by
  simp [fixtureAtWith, h]

/-- **C02 (wrapped signatures are covered).** A parameter named like its fixture `D` on ANY line
    from `D`'s `def` line to its last line — `def foo(\n    foo,\n):` — is found as `D`'s own
    request, whatever else the file defines: it resolves outward and never to a definition that
    spans that line under that name.  (Before the E8 repair only a parameter on the `def` line
    itself was recognised; `corpus/C02/e8_multiline.case`.) -/
theorem C02_multiline_excluded (ix : List Def) (imp : Path → String → Bool) (D : Def) (u : Usage)
    (hD : D ∈ ix) (hname : D.name = u.name) (hfile : D.file = u.file)
    (hlo : D.line ≤ u.line) (hhi : u.line ≤ D.endLine) :
    ∃ D', ownDefAt ix u.file u.line u.name = some D' ∧
      D'.name = u.name ∧ D'.file = u.file ∧ D'.line ≤ u.line ∧ u.line ≤ D'.endLine ∧
      resolveUsage ix imp u ≠ some D' := by
  have hmem : D ∈ defsOf ix u.name := mem_defsOf.mpr ⟨hD, hname⟩
  have hp : (fun d : Def => d.file == u.file && decide (d.line ≤ u.line) && decide (u.line ≤ d.endLine)) D = true := by
    simp [hfile, hlo, hhi]
  cases hf : ownDefAt ix u.file u.line u.name with
  | none =>
    unfold ownDefAt at hf
    have := List.find?_eq_none.mp hf D hmem
    simp [hfile, hlo, hhi] at this
  | some D' =>
    have hsome := hf
    unfold ownDefAt at hf
    have hm := mem_defsOf.mp (List.mem_of_find?_eq_some hf)
    have hprop := List.find?_some hf
    simp only [Bool.and_eq_true, beq_iff_eq, decide_eq_true_eq] at hprop
    exact ⟨D', rfl, hm.2, hprop.1.1, hprop.1.2, hprop.2, (C02_param ix imp D' u hsome).2⟩

/-- outside every same-named fixture's lines a usage resolves like any other -/
theorem C02_plain_usage (ix : List Def) (imp : Path → String → Bool) (u : Usage)
    (h : ownDefAt ix u.file u.line u.name = none) :
    resolveUsage ix imp u = resolve ix imp u.file u.name := by
  simp [resolveUsage, h]

end PLS
