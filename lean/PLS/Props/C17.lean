/-
  C17 — undeclared-fixture warnings are precise and their quick fix works.
-/
import PLS.Model.Completion
import PLS.Lemmas.History
namespace PLS
open Index

theorem alookup_nil {β} (f : Path) : alookup ([] : List (Path × β)) f = none := rfl

theorem alookup_cons {β} (p : Path × β) (ps : List (Path × β)) (f : Path) :
    alookup (p :: ps) f = if p.1 == f then some p.2 else alookup ps f := by
  unfold alookup
  rw [List.find?_cons]
  cases (p.1 == f) <;> rfl

theorem alookup_mapAt {β} (l : List (Path × β)) (f : Path) (g : β → β) :
    alookup (l.map (fun p => if p.1 == f then (p.1, g p.2) else p)) f = (alookup l f).map g := by
  induction l with
  | nil => rfl
  | cons p ps ih =>
    rw [List.map_cons, alookup_cons, alookup_cons]
    by_cases hp : (p.1 == f) = true
    · simp [hp]
    · have hp' : (p.1 == f) = false := by simpa using hp
      simp only [hp', Bool.false_eq_true, if_false]
      exact ih

theorem pushUndeclared_lookup (l : List (Path × List Undeclared)) (f : Path) (u : Undeclared) :
    (alookup (pushUndeclared l f u) f).getD [] = (alookup l f).getD [] ++ [u] := by
  unfold pushUndeclared
  cases hl : alookup l f with
  | none =>
    simp only [Option.getD_none, List.nil_append]
    rw [alookup_append, hl]
    simp [alookup]
  | some us =>
    simp only [Option.getD_some]
    rw [alookup_mapAt l f (fun _ => us ++ [u]), hl]
    rfl

/-- what one body scan adds to the file's findings: exactly the references that are not
    declared, not a local in scope, and name an available fixture — each at its own span -/
def scanFindings (f : Path) (b : BodyScan) (avail : String → Bool) : List Undeclared :=
  (b.refs.filter (fun r => b.candidate r && avail r.name)).map (fun r =>
    Undeclared.mk r.name f r.line r.startChar r.endChar b.fnName b.fnLine)

theorem scan_fold_undeclared (f : Path) (b : BodyScan) (refs : List NameRef) (st : Index) :
    (alookup (refs.foldl (scanStep f b) st).undeclared f).getD [] =
      (alookup st.undeclared f).getD [] ++
        (refs.filter (fun r => b.candidate r && st.isAvail f r.name)).map (fun r =>
          Undeclared.mk r.name f r.line r.startChar r.endChar b.fnName b.fnLine) := by
  induction refs generalizing st with
  | nil => simp
  | cons r rs ih =>
    simp only [List.foldl_cons]
    rw [ih]
    have hdefs : (scanStep f b st r).defs = st.defs := (scanStep_fields f b st r).1
    have havail : ∀ n, (scanStep f b st r).isAvail f n = st.isAvail f n := by
      intro n; simp [Index.isAvail, hdefs]
    simp only [havail]
    unfold scanStep
    by_cases hc : (b.candidate r && st.isAvail f r.name) = true
    · simp only [hc, if_true, List.filter_cons, List.map_cons]
      rw [pushUndeclared_lookup]
      simp
    · simp only [hc, List.filter_cons]
      simp

/-- **C17 (exactly the plain uses are flagged, each at its own position).**  After the body scan
    of a function, the findings added for the file are `scanFindings`: one per visited `Name`
    reference that is (i) not a declared parameter, (ii) not a local variable bound on an earlier
    line, nor a module-level / imported name, (iii) the name of a fixture available to the file —
    with the reference's own line and columns. -/
theorem C17_scan_exact (pfx f : Path) (b : BodyScan) (st : Index) :
    (alookup (applyEvent pfx f st (.scan b)).undeclared f).getD [] =
      (alookup st.undeclared f).getD [] ++ scanFindings f b (st.isAvail f) := by
  simp only [applyEvent, scanFindings]
  exact scan_fold_undeclared f b b.refs st

/-- **C17 (never).** Every finding is about an undeclared, unshadowed name of an available fixture. -/
theorem C17_never (f : Path) (b : BodyScan) (avail : String → Bool) (u : Undeclared)
    (h : u ∈ scanFindings f b avail) :
    u.name ∉ b.declared ∧ avail u.name = true ∧
    (∀ dl, lookupFirst b.locals u.name = some dl → ¬ dl < u.line) ∧
    ∃ r ∈ b.refs, u.name = r.name ∧ u.line = r.line ∧ u.startChar = r.startChar ∧ u.endChar = r.endChar := by
  unfold scanFindings at h
  rw [List.mem_map] at h
  obtain ⟨r, hr, rfl⟩ := h
  simp only [List.mem_filter, Bool.and_eq_true] at hr
  obtain ⟨hmem, hcand, hav⟩ := hr
  unfold BodyScan.candidate at hcand
  simp only [Bool.and_eq_true, Bool.not_eq_true', List.contains_eq_mem, decide_eq_false_iff_not] at hcand
  refine ⟨hcand.1, hav, ?_, r, hmem, rfl, rfl, rfl, rfl⟩
  intro dl hdl hlt
  have := hcand.2
  rw [hdl] at this
  simp [hlt] at this

/-- **C17 (always).** Every visited reference meeting the three conditions is flagged. -/
theorem C17_always (f : Path) (b : BodyScan) (avail : String → Bool) (r : NameRef)
    (hr : r ∈ b.refs) (hd : r.name ∉ b.declared) (hav : avail r.name = true)
    (hloc : ∀ dl, lookupFirst b.locals r.name = some dl → ¬ dl < r.line) :
    Undeclared.mk r.name f r.line r.startChar r.endChar b.fnName b.fnLine ∈ scanFindings f b avail := by
  unfold scanFindings
  rw [List.mem_map]
  refine ⟨r, ?_, rfl⟩
  simp only [List.mem_filter, Bool.and_eq_true]
  refine ⟨hr, ?_, hav⟩
  unfold BodyScan.candidate
  simp only [Bool.and_eq_true, Bool.not_eq_true', List.contains_eq_mem, decide_eq_false_iff_not]
  refine ⟨hd, ?_⟩
  cases hl : lookupFirst b.locals r.name with
  | none => rfl
  | some dl => simp [hloc dl hl]

/-- a module-level or imported name is never flagged (it is bound "at line 0") -/
theorem C17_module_names_never (f : Path) (b : BodyScan) (avail : String → Bool) (n : String)
    (hn : lookupFirst b.locals n = some 0) (hpos : ∀ r ∈ b.refs, 0 < r.line) :
    ∀ u ∈ scanFindings f b avail, u.name ≠ n := by
  intro u hu hname
  obtain ⟨_, _, hloc, r, hr, _, hrl, _, _⟩ := C17_never f b avail u hu
  subst hname
  have h1 := hloc 0 hn
  have h2 := hpos r hr
  omega

theorem minLine_le : ∀ (xs : List Nat) (acc : Option Nat) (m : Nat), minLine acc xs = some m →
    (∀ a, acc = some a → m ≤ a) ∧ (∀ x ∈ xs, m ≤ x) := by
  intro xs
  induction xs with
  | nil =>
    intro acc m h
    simp only [minLine] at h
    constructor
    · intro a ha
      rw [h] at ha
      cases ha
      exact Nat.le_refl _
    · intro x hx
      cases hx
  | cons x xs ih =>
    intro acc m h
    cases acc with
    | none =>
      simp only [minLine] at h
      obtain ⟨h1, h2⟩ := ih (some x) m h
      constructor
      · intro a ha; cases ha
      intro y hy
      rcases List.mem_cons.mp hy with rfl | hy
      · exact h1 _ rfl
      · exact h2 y hy
    | some a =>
      simp only [minLine] at h
      obtain ⟨h1, h2⟩ := ih (some (min a x)) m h
      have := h1 _ rfl
      constructor
      · intro b hb; cases hb; omega
      intro y hy
      rcases List.mem_cons.mp hy with rfl | hy
      · omega
      · exact h2 y hy

theorem minLine_some_of_ne_nil : ∀ (xs : List Nat) (acc : Option Nat), (xs ≠ [] ∨ acc ≠ none) →
    ∃ m, minLine acc xs = some m := by
  intro xs
  induction xs with
  | nil =>
    intro acc h
    cases acc with
    | none => rcases h with h | h <;> exact absurd rfl h
    | some a => exact ⟨a, rfl⟩
  | cons x xs ih =>
    intro acc _
    cases acc with
    | none => simp only [minLine]; exact ih (some x) (Or.inr (by simp))
    | some a => simp only [minLine]; exact ih (some (min a x)) (Or.inr (by simp))

/-- **C17 (a local variable bound on an earlier line is never flagged)** — whatever else binds the
    name again further down: the FIRST binding counts (since the repair of `collect_local_variables`;
    before, `HashMap::insert` kept the last binding and uses between two bindings were flagged). -/
theorem C17_bound_earlier_never (f : Path) (b : BodyScan) (avail : String → Bool) (n : String) (dl : Nat)
    (hb : (n, dl) ∈ b.locals) :
    ∀ u ∈ scanFindings f b avail, u.name = n → ¬ dl < u.line := by
  intro u hu hname hlt
  obtain ⟨_, _, hloc, _⟩ := C17_never f b avail u hu
  subst hname
  have hmem : dl ∈ (b.locals.filter (fun p => p.1 == u.name)).map (·.2) :=
    List.mem_map.mpr ⟨(u.name, dl), List.mem_filter.mpr ⟨hb, by simp⟩, rfl⟩
  have hne : (b.locals.filter (fun p => p.1 == u.name)).map (·.2) ≠ [] := by
    intro he; rw [he] at hmem; cases hmem
  obtain ⟨m, hm⟩ := minLine_some_of_ne_nil _ none (Or.inl hne)
  have hle := (minLine_le _ none m hm).2 dl hmem
  have := hloc m hm
  omega

/-- the former behaviour, as a fact about lists: the last binding of `x` is line 10, the first 3 -/
example : lookupFirst [("x", 3), ("x", 10)] "x" = some 3 := by decide

/-- which expression forms yield references (the "plain uses" of the statement): call target,
    positional AND keyword arguments, attribute base, operands, subscript value and index,
    collection elements, awaited and yielded values, and the parts of the forms that only combine
    sub-expressions (`group`: boolean operators, conditional expressions, set displays, starred
    items, slices, f-strings) - every child of every modelled form; what the bridge leaves as
    `other` (lambdas, comprehensions, assignment expressions: forms that bind names) is not entered -/
theorem C17_visited_forms (n : String) (r r2 : Range) (e : Expr) :
    refsOfExpr (.call (.name n r) [] [] [] r2) = [⟨n, r.line, r.col, r.endCol⟩] ∧
    refsOfExpr (.call e [.name n r] [] [] r2) = refsOfExpr e ++ [⟨n, r.line, r.col, r.endCol⟩] ∧
    refsOfExpr (.attribute (.name n r) "a" r2) = [⟨n, r.line, r.col, r.endCol⟩] ∧
    refsOfExpr (.subscript (.name n r) e r2) = ⟨n, r.line, r.col, r.endCol⟩ :: refsOfExpr e ∧
    refsOfExpr (.list [.name n r] r2) = [⟨n, r.line, r.col, r.endCol⟩] ∧
    refsOfExpr (.call e [] [some "k"] [.name n r] r2) = refsOfExpr e ++ [⟨n, r.line, r.col, r.endCol⟩] ∧
    refsOfExpr (.group [e, .name n r] r2) = refsOfExpr e ++ [⟨n, r.line, r.col, r.endCol⟩] ∧
    refsOfExpr (.yield [.name n r] r2) = [⟨n, r.line, r.col, r.endCol⟩] ∧
    refsOfExpr (.other r2) = [] := by
  simp [refsOfExpr, refsOfExprs]

/-- before the repair a name under a keyword argument was not a reference -/
example (n : String) (r r2 : Range) (e : Expr) :
    refsOfExpr (.call e [] [some "k"] [.name n r] r2) ≠ refsOfExpr e := by
  simp [refsOfExpr, refsOfExprs]

/-- **C17 (parameters).** No parameter of a test function is ever flagged in its body — positional, keyword-only,
    with or without a default value (a defaulted parameter is never a fixture REQUEST, but it is a parameter of the
    enclosing function all the same), and neither are `self` and `request`. -/
theorem C17_test_parameters_never (f : Path) (modNames : List String) (name : String) (args : Args)
    (body : List Stmt) (r : Range) (avail : String → Bool) (b : BodyScan)
    (hb : Event.scan b ∈ testEvents f modNames name args body r) :
    ∀ u ∈ scanFindings f b avail, u.name ≠ "self" ∧ u.name ≠ "request" ∧ ∀ a ∈ args.all, u.name ≠ a.name := by
  intro u hu
  obtain ⟨hnd, _⟩ := C17_never f b avail u hu
  unfold testEvents at hb
  split at hb
  · rw [List.mem_append] at hb
    rcases hb with hb | hb
    · rw [List.mem_map] at hb
      obtain ⟨a, _, ha⟩ := hb
      simp [argUsage] at ha
    · simp only [List.mem_singleton, Event.scan.injEq] at hb
      subst hb
      simp only [List.mem_append, List.mem_cons, List.mem_map, not_or] at hnd
      refine ⟨hnd.1.1, hnd.1.2.1, ?_⟩
      intro a ha h; exact hnd.2 ⟨a, ha, h.symm⟩
  · simp at hb

/-- the same for a fixture function, whose own name is not flagged either -/
theorem C17_fixture_parameters_never (f : Path) (lines : List Chars) (modNames : List String) (name : String)
    (deco : Expr) (args : Args) (returns : Option Expr) (body : List Stmt) (r : Range) (doc : Option String)
    (avail : String → Bool) (b : BodyScan)
    (hb : Event.scan b ∈ fixtureEvents f lines modNames name deco args returns body r doc) :
    ∀ u ∈ scanFindings f b avail, u.name ≠ name ∧ ∀ a ∈ args.all, u.name ≠ a.name := by
  intro u hu
  obtain ⟨hnd, _⟩ := C17_never f b avail u hu
  unfold fixtureEvents at hb
  simp only [List.mem_append, List.mem_singleton, List.mem_map, Event.scan.injEq, reduceCtorEq, false_or] at hb
  rcases hb with hb | hb
  · obtain ⟨a, _, ha⟩ := hb
    simp [argUsage] at ha
  · subst hb
    simp only [List.mem_append, List.mem_cons, List.mem_map, not_or] at hnd
    refine ⟨hnd.1.2.2.1, ?_⟩
    intro a ha h; exact hnd.2 ⟨a, ha, h.symm⟩

/-- non-vacuity: a test with a defaulted parameter used in its body, a fixture of that name being available -/
example : scanFindings ["t.py"]
    ⟨"test_a", 1, ["self", "request"] ++ ["retries"], [], [⟨"retries", 2, 4, 11⟩, ⟨"other", 3, 4, 9⟩]⟩ (fun _ => true)
    = [⟨"other", ["t.py"], 3, 4, 9, "test_a", 1⟩] := by decide

/-- **C17 (only parameters declare).** Whatever decorators a function carries — `@pytest.mark.usefixtures("x")` included —
    the names its body scan treats as declared are `self`, `request`, its parameters and, for a fixture, its own name:
    a fixture requested through a mark is still an undeclared name in the body. -/
theorem C17_declared_is_parameters (f : Path) (lines : List Chars) (modNames : List String) (name : String)
    (decos : List Expr) (args : Args) (returns : Option Expr) (body : List Stmt) (r : Range) (b : BodyScan)
    (hb : Event.scan b ∈ visitFunction f lines modNames name decos args returns body r) :
    b.declared = ["self", "request"] ++ args.all.map (·.name) ∨
    b.declared = ["self", "request", name] ++ args.all.map (·.name) := by
  unfold visitFunction at hb
  have hmarks : ∀ (l : List (String × Range)), Event.scan b ∉ l.map (strUsage f lines) := by
    intro l h
    obtain ⟨p, _, hp⟩ := List.mem_map.mp h
    simp [strUsage] at hp
  have hnot : Event.scan b ∉ decos.flatMap (fun d => (usefixturesNames d).map (strUsage f lines)) ++
      decos.flatMap (fun d => (parametrizeIndirect d).map (strUsage f lines)) := by
    intro h
    rw [List.mem_append] at h
    rcases h with h | h <;>
    · obtain ⟨d, _, hd⟩ := List.mem_flatMap.mp h
      exact hmarks _ hd
  cases hfd : decos.find? isFixtureDecorator with
  | none =>
    simp only [hfd, List.mem_append] at hb
    rcases hb with hb | hb
    · exact absurd (List.mem_append.mpr hb) hnot
    · left
      unfold testEvents at hb
      split at hb
      · rw [List.mem_append] at hb
        rcases hb with hb | hb
        · obtain ⟨a, _, ha⟩ := List.mem_map.mp hb
          simp [argUsage] at ha
        · simp only [List.mem_singleton, Event.scan.injEq] at hb
          subst hb; rfl
      · simp at hb
  | some deco =>
    simp only [hfd, List.mem_append] at hb
    rcases hb with hb | hb
    · exact absurd (List.mem_append.mpr hb) hnot
    · right
      unfold fixtureEvents at hb
      simp only [List.mem_append, List.mem_singleton, List.mem_map, Event.scan.injEq, reduceCtorEq, false_or] at hb
      rcases hb with hb | hb
      · obtain ⟨a, _, ha⟩ := hb
        simp [argUsage] at ha
      · subst hb; rfl

/-- the module-level names of a body are those of its parts, whatever the order of the parts -/
theorem moduleLevelNames_append (a b : List Stmt) :
    moduleLevelNames (a ++ b) = moduleLevelNames a ++ moduleLevelNames b := by
  induction a with
  | nil => rfl
  | cons s ss ih => simp [moduleLevelNames, ih, List.append_assoc]

/-- **C17 / C19 (a module-level name counts wherever it is bound).** The names a function's body scan treats as
    module-level are computed from the WHOLE module before any function is visited: a name bound below the function
    (a helper `def`, a class, an assignment, an import placed after it) is among them exactly as one bound above it. -/
theorem C17_module_names_position_independent (above below : List Stmt) (n : String) :
    n ∈ moduleLevelNames (above ++ below) ↔ n ∈ moduleLevelNames (below ++ above) := by
  simp [moduleLevelNames_append, or_comm]

/-- the analysis hands every function of the module that one list -/
theorem C17_module_names_are_whole_module (stdlib : List String) (f : Path) (text : Chars) (body : List Stmt) :
    (analyzeModule stdlib f text body).modNames = moduleLevelNames body ∧
    (analyzeModule stdlib f text body).events =
      cutAtPanic (visitStmts f (linesOf text) (moduleLevelNames body) body) := ⟨rfl, rfl⟩

end PLS
