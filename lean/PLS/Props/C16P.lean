/-
  C16 / C15 — what is PUBLISHED for a document (handler level, `Model/Lsp.lean: hDiagnostics`).

  One scope-mismatch warning per (fixture, narrower dependency) pair the detector finds in the file — none is
  merged with another on the same fixture — and one cycle report per detected cycle anchored on a definition
  OF THAT FILE, placed on that definition's name.
-/
import PLS.Props.C16C
import PLS.Props.C19
namespace PLS
open Index

theorem filter_none {α} (l : List α) : l.filter (fun _ => false) = [] := by
  induction l with
  | nil => rfl
  | cons a l ih => simp

/-- **C16 (one warning per narrower dependency).** With the code enabled, the scope-mismatch diagnostics published
    for a file are, in order, exactly the images of the (fixture, dependency) pairs `mismatchesIn` reports for it:
    as many diagnostics as pairs, several on one fixture when several of its dependencies are narrower. -/
theorem C16_published_mismatches (st : Index) (dis : List String) (f : Path) (cy : List Cycle)
    (res : Def → String → Option Def) (h : "scope-mismatch" ∉ dis) :
    (st.hDiagnostics dis f cy res).filter (fun d => d.code == "scope-mismatch") =
      (mismatchesIn st.defs res ((alookup st.fileDefs f).getD []) f).map (fun m =>
        { code := "scope-mismatch",
          loc := spanLoc f (toLsp m.1.line) m.1.startChar m.1.endChar,
          message := m.1.scope.asStr ++ "-scoped fixture '" ++ m.1.name ++ "' depends on " ++
            m.2.scope.asStr ++ "-scoped fixture '" ++ m.2.name ++ "'" }) := by
  unfold hDiagnostics
  have hs : dis.contains "scope-mismatch" = false := by simpa using h
  simp only [List.filter_append, hs]
  by_cases h1 : "undeclared-fixture" ∈ dis <;>
    by_cases h2 : "circular-dependency" ∈ dis <;>
    simp [h1, h2, List.filter_map, Function.comp_def, filter_all, filter_none]

/-- corollary: as many warnings as pairs -/
theorem C16_published_mismatch_count (st : Index) (dis : List String) (f : Path) (cy : List Cycle)
    (res : Def → String → Option Def) (h : "scope-mismatch" ∉ dis) :
    ((st.hDiagnostics dis f cy res).filter (fun d => d.code == "scope-mismatch")).length =
      (mismatchesIn st.defs res ((alookup st.fileDefs f).getD []) f).length := by
  rw [C16_published_mismatches st dis f cy res h, List.length_map]

/-- **C15 / C16 (a cycle report sits on a definition of the document it is published for).** Every
    circular-dependency diagnostic published for `f` comes from a detected cycle whose anchor definition lives in
    `f`, and its range is that definition's name. -/
theorem C16_published_cycle_in_file (st : Index) (dis : List String) (f : Path) (cy : List Cycle)
    (res : Def → String → Option Def) (d : Diag)
    (hd : d ∈ st.hDiagnostics dis f cy res) (hc : d.code = "circular-dependency") :
    ∃ c ∈ cy, c.fixture.file = f ∧
      d.loc = spanLoc f (toLsp c.fixture.line) c.fixture.startChar c.fixture.endChar := by
  unfold hDiagnostics at hd
  simp only [List.mem_append] at hd
  rcases hd with (hd | hd) | hd
  · split at hd
    · cases hd
    · obtain ⟨u, _, rfl⟩ := List.mem_map.mp hd
      simp at hc
  · split at hd
    · cases hd
    · obtain ⟨c, hcm, rfl⟩ := List.mem_map.mp hd
      rw [List.mem_filter] at hcm
      exact ⟨c, hcm.1, by simpa using hcm.2, rfl⟩
  · split at hd
    · cases hd
    · obtain ⟨u, _, rfl⟩ := List.mem_map.mp hd
      simp at hc

end PLS
