/-
  C11 — no input or request sequence crashes or wedges the server.

  In the model every repository function that slices, indexes or subtracts returns an `Option`
  whose `none` is "the Rust code panics here".  The theorems say when that cannot happen.
-/
import PLS.Model.Lsp
import PLS.Props.C15
namespace PLS

/-- **C11 (`parameter_has_annotation` is total)**: any line number and any column — past the
    line, inside a multi-byte character, stale — give an answer (E16 repaired: `str::get`). -/
theorem C11_annotation_total (lines : List Chars) (line endChar : Nat) :
    parameterHasAnnotation lines line endChar = true ∨ parameterHasAnnotation lines line endChar = false := by
  cases parameterHasAnnotation lines line endChar <;> simp

/-- regression witness of E16: the stale column inside `é` now answers `false` -/
theorem C11_annotation_e16 : parameterHasAnnotation ["def test_p(x, multé".toList] 1 19 = false := by
  decide

/-- a column off a character boundary never reports an annotation -/
theorem C11_annotation_off_boundary (lines : List Chars) (line endChar : Nat) (lt : Chars)
    (hl : lines[line - 1]? = some lt) (hb : bsliceFrom lt endChar = none) :
    parameterHasAnnotation lines line endChar = false := by
  simp [parameterHasAnnotation, hl, hb]

/-- regression witness of E7: continuation lines indented with U+3000 are dedented by stripping -/
theorem C11_docstring_e7 : formatDocstring "x\n  a\n　b".toList = "x\na\nb".toList := by
  decide

/-- **C11 (`format_docstring` never slices off a character boundary)**: every continuation line
    is either cut at a boundary found by `bsliceFrom` or stripped of its leading whitespace. -/
theorem C11_dedent_total (m : Nat) (l : Chars) :
    dedentLine m l = [] ∨ dedentLine m l = trimStart l ∨ bsliceFrom l m = some (dedentLine m l) := by
  unfold dedentLine
  split
  · exact Or.inl rfl
  · split
    · cases hb : bsliceFrom l m with
      | none => exact Or.inr (Or.inl rfl)
      | some r => exact Or.inr (Or.inr rfl)
    · exact Or.inr (Or.inl rfl)

mutual
  /-- **C11 (analysis never aborts)**: no statement of any module makes the analyzer emit the
      panic event — docstrings of any shape included. -/
  theorem C11_stmt_never_panics (f : Path) (lines : List Chars) (mn : List String) :
      (s : Stmt) → Event.panic ∉ visitStmt f lines mn s
    | .funcDef _ name decos args ret body r => by
      simp only [visitStmt, visitFunction]
      intro h
      cases hfx : decos.find? isFixtureDecorator with
      | none =>
        simp only [hfx] at h
        simp [testEvents, strUsage, argUsage] at h
      | some deco =>
        simp only [hfx] at h
        simp [testEvents, fixtureEvents, strUsage, argUsage] at h
    | .classDef _ decos body _ => by
      simp only [visitStmt]
      intro h
      rcases List.mem_append.mp h with h | h
      · simp [strUsage] at h
      · exact C11_analysis_never_panics f lines mn body h
    | .assign ts v r => by
      simp only [visitStmt]
      intro h
      rcases List.mem_append.mp h with h | h
      · unfold visitAssignFixture at h
        split at h
        · split at h
          · simp at h
          · simp at h
        · simp at h
      · split at h
        · simp [strUsage] at h
        · simp at h
    | .annAssign t v _ => by
      simp only [visitStmt]
      intro h
      split at h
      · cases v with
        | none => simp at h
        | some v => simp [strUsage] at h
      · simp at h
    | .import_ _ _ => by simp [visitStmt]
    | .importFrom _ _ _ _ => by simp [visitStmt]
    | .expr _ _ => by simp [visitStmt]
    | .if_ _ _ _ _ => by simp [visitStmt]
    | .for_ _ _ _ _ _ _ => by simp [visitStmt]
    | .while_ _ _ _ _ => by simp [visitStmt]
    | .with_ _ _ _ _ _ => by simp [visitStmt]
    | .try_ _ _ _ _ _ => by simp [visitStmt]
    | .return_ _ _ => by simp [visitStmt]
    | .assert_ _ _ _ => by simp [visitStmt]
    | .augAssign _ _ _ => by simp [visitStmt]
    | .other _ => by simp [visitStmt]
  theorem C11_analysis_never_panics (f : Path) (lines : List Chars) (mn : List String) :
      (ss : List Stmt) → Event.panic ∉ visitStmts f lines mn ss
    | [] => by simp [visitStmts]
    | s :: ss => by
      simp only [visitStmts]
      intro h
      rcases List.mem_append.mp h with h | h
      · exact C11_stmt_never_panics f lines mn s h
      · exact C11_analysis_never_panics f lines mn ss h
end

/-- positions outside the document, on stale lines or at `u32::MAX` are answered with "nothing":
    the word under the cursor is total -/
theorem C11_word_total (line : Chars) (col : Nat) (h : line.length ≤ col) : wordAt line col = none := by
  unfold wordAt
  have : line[col]? = none := by simp [h]
  rw [this]

/-- a cursor beyond the last line yields no answer from go-to-definition, references, … -/
theorem C11_goto_beyond_text (st : Index) (f : Path) (line0 col : Nat)
    (h : st.lineText f line0 = none) : (st.goto f line0 col).1 = none := by
  unfold Index.goto
  simp [h]

theorem C11_fixtureAt_beyond_text (st : Index) (f : Path) (line0 col : Nat)
    (h : st.lineText f line0 = none) : st.fixtureAt f line0 col = none := by
  unfold Index.fixtureAt
  simp [h]

/-- an unparsable text never changes anything but the cached text: a broken file cannot damage
    what the others contributed (restated from C06 for the scan-isolation clause) -/
theorem C11_invalid_file_isolated (pfx : Path) (cl : Bool) (st : Index) (f : Path) (v : Version)
    (h : v.parsed = none) :
    (Index.analyze pfx cl st f v).1.defs = st.defs ∧ (Index.analyze pfx cl st f v).1.usages = st.usages ∧
    (Index.analyze pfx cl st f v).2 = false := by
  unfold Index.analyze
  simp [h]

end PLS
