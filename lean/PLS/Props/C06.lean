/-
  C06 — index state depends on current contents only, not on edit history.
-/
import PLS.Lemmas.History
namespace PLS
open Index

/-- **C06 (an unparsable version changes nothing but the cached text and the memo version).** The
    fixtures and usages of the last valid version stay in effect - and so do its imports: the
    cached entry carries the record of the last version that parsed (`Index.carry`); the
    version-keyed memos are invalidated. -/
theorem C06_invalid_keeps (pfx : Path) (cl : Bool) (st : Index) (f : Path) (v : Version)
    (h : v.parsed = none) :
    analyze pfx cl st f v =
      ({ st with cache := ainsert st.cache f (carry st f v), epoch := st.epoch + 1, version := st.version + 1 }, false) := by
  unfold analyze
  simp [h]

/-- **C06 (the imports of the last valid version stay in effect, E19 repaired).** After an edit
    that does not parse, the record the file's imports are read from is the one they were read
    from before the edit - whether that was the previous text's own or one carried already. -/
theorem C06_invalid_keeps_imports (pfx : Path) (cl : Bool) (st : Index) (f : Path) (v old : Version) (fr : FileRec)
    (h : v.parsed = none) (hc : alookup st.cache f = some old) (hr : old.effRec = some fr) :
    ((analyze pfx cl st f v).1.content f).bind Version.effRec = some fr := by
  rw [C06_invalid_keeps pfx cl st f v h]
  simp only [content, alookup_ainsert_self, Option.bind_some, carry, Version.effRec, h, hc]
  simp only [Version.effRec] at hr
  rw [hr]

/-- … and for a document that is sent unparsable the first time (nothing cached for it), the file
    as it is on disk stands in -/
theorem C06_invalid_first_uses_disk (pfx : Path) (cl : Bool) (st : Index) (f : Path) (v : Version)
    (h : v.parsed = none) (hc : alookup st.cache f = none) :
    ((analyze pfx cl st f v).1.content f).bind Version.effRec = (alookup st.disk f).bind (fun d => d.parsed) := by
  rw [C06_invalid_keeps pfx cl st f v h]
  simp only [content, alookup_ainsert_self, Option.bind_some, carry, Version.effRec, h, hc, Option.bind_none]

theorem analyze_eq (pfx : Path) (cl : Bool) (st : Index) (f : Path) (v : Version) (fr : FileRec)
    (hv : v.parsed = some fr) :
    (analyze pfx cl st f v).1 = fr.events.foldl (applyEvent pfx f) (preState cl st f v fr) := by
  unfold analyze
  simp [hv]

theorem clearFile_tracked (st : Index) (f : Path) (v : Version) (h : DefsTracked st) :
    DefsTracked (clearFile st f v) := h

theorem preState_defs_cleanup (st : Index) (f : Path) (v : Version) (fr : FileRec) (h : DefsTracked st) :
    (preState true st f v fr).defs = st.defs.filter (fun d => d.file != f) := by
  unfold preState
  simp only [if_true]
  exact cleanupDefs_defs _ f (clearFile_tracked st f v h)

theorem cleanupDefs_env (st : Index) (f : Path) : sameEnv (st.cleanupDefs f) st := by
  unfold cleanupDefs
  split <;> simp [sameEnv]

theorem preState_env (cl : Bool) (st : Index) (f : Path) (v : Version) (fr : FileRec) :
    sameEnv (preState cl st f v fr) st := by
  unfold preState
  cases cl
  · simp [sameEnv, clearFile]
  · simp only [if_true]
    have := cleanupDefs_env (clearFile st f v) f
    exact ⟨this.1, this.2.1, this.2.2⟩

/-- **C06 (one re-analysis replaces exactly the file's slice of `definitions`).** Whatever the
    history that led to `st`, after a valid version of `f` is analysed the definitions are: those
    of the other files, untouched and in their order, followed by the new version's, in order. -/
theorem C06_defs_after_analyze (pfx : Path) (st : Index) (f : Path) (v : Version) (fr : FileRec)
    (hv : v.parsed = some fr) (hinv : DefsTracked st) :
    (analyze pfx true st f v).1.defs =
      st.defs.filter (fun d => d.file != f) ++ (eventDefs fr.events).map (stampDef pfx st f) := by
  rw [analyze_eq pfx true st f v fr hv, foldl_defs, preState_defs_cleanup st f v fr hinv]
  congr 1
  apply List.map_congr_left
  intro d _
  exact stampDef_env (preState_env true st f v fr) f d

/-- **C06 (… and of the reverse usage index).** -/
theorem C06_usages_after_analyze (pfx : Path) (cl : Bool) (st : Index) (f : Path) (v : Version) (fr : FileRec)
    (hv : v.parsed = some fr) :
    (analyze pfx cl st f v).1.ubf = st.ubf.filter (fun u => u.file != f) ++ eventUsages fr.events := by
  rw [analyze_eq pfx cl st f v fr hv, foldl_ubf]
  congr 1
  unfold preState
  cases cl
  · simp [clearFile]
  · simp only [if_true]
    unfold cleanupDefs
    split <;> simp [clearFile]

/-- **C06 (the bookkeeping invariant holds in every reachable state).** If every definition is
    tracked in the reverse index of its file, it still is after any analysis (valid or not) whose
    recorded definitions carry the analysed file's path. -/
theorem C06_inv_preserved (pfx : Path) (st : Index) (f : Path) (v : Version)
    (hinv : DefsTracked st) (hfor : ∀ fr, v.parsed = some fr → EventsFor f fr.events) :
    DefsTracked (analyze pfx true st f v).1 := by
  cases hv : v.parsed with
  | none =>
    rw [C06_invalid_keeps pfx true st f v hv]
    exact hinv
  | some fr =>
    intro d hd
    rw [C06_defs_after_analyze pfx st f v fr hv hinv] at hd
    rw [analyze_eq pfx true st f v fr hv]
    rcases List.mem_append.mp hd with hd | hd
    · -- a definition of another file: its entry is untouched
      simp only [List.mem_filter] at hd
      have hne : d.file ≠ f := by simpa using hd.2
      obtain ⟨names, hn, hm⟩ := hinv d hd.1
      refine ⟨names, ?_, hm⟩
      rw [foldl_fileDefs_ne pfx f d.file fr.events _ hne]
      -- preState only erased the entry of `f`
      unfold preState
      simp only [if_true]
      unfold cleanupDefs
      split
      · simpa [clearFile] using hn
      · simp only
        rw [alookup_aerase_ne _ f d.file hne]
        simpa [clearFile] using hn
    · -- a new definition: recorded for `f`
      rw [List.mem_map] at hd
      obtain ⟨d0, hd0, rfl⟩ := hd
      have hfile : d0.file = f := hfor fr hv d0 hd0
      have := foldl_fileDefs_has pfx f fr.events (preState true st f v fr) d0 hd0
      simpa [stampDef, hfile] using this

/-- a history: files and versions in the order they were sent -/
abbrev History := List (Path × Version)

def runHistory (pfx : Path) (st : Index) (h : History) : Index :=
  h.foldl (fun st p => (analyze pfx true st p.1 p.2).1) st

/-- what the definitions are after a history, computed from the history alone: each valid
    version replaces its file's slice; invalid versions contribute nothing. -/
def histDefs (pfx : Path) (env : Index) : List Def → History → List Def
  | acc, [] => acc
  | acc, (f, v) :: rest =>
    match v.parsed with
    | none => histDefs pfx env acc rest
    | some fr =>
      histDefs pfx env (acc.filter (fun d => d.file != f) ++ (eventDefs fr.events).map (stampDef pfx env f)) rest

theorem runHistory_env (pfx : Path) (st : Index) (h : History) : sameEnv (runHistory pfx st h) st := by
  induction h generalizing st with
  | nil => simp [runHistory, sameEnv]
  | cons p rest ih =>
    simp only [runHistory, List.foldl_cons]
    refine sameEnv_trans (ih _) ?_
    cases hv : p.2.parsed with
    | none => rw [C06_invalid_keeps pfx true st p.1 p.2 hv]; simp [sameEnv]
    | some fr =>
      rw [analyze_eq pfx true st p.1 p.2 fr hv]
      exact sameEnv_trans (foldl_env pfx p.1 fr.events _) (preState_env true st p.1 p.2 fr)

/-- **C06 (history independence of `definitions`).** After ANY history of open/change
    notifications, the definitions are a function of the history's valid versions only — each
    file contributes the definitions of its latest valid version, superseded versions contribute
    nothing, nothing is duplicated. -/
theorem C06_history_defs (pfx : Path) (st : Index) (h : History) (hinv : DefsTracked st)
    (hfor : ∀ p ∈ h, ∀ fr, p.2.parsed = some fr → EventsFor p.1 fr.events) :
    (runHistory pfx st h).defs = histDefs pfx st st.defs h ∧ DefsTracked (runHistory pfx st h) := by
  induction h generalizing st with
  | nil => exact ⟨rfl, hinv⟩
  | cons p rest ih =>
    have hfor' : ∀ q ∈ rest, ∀ fr, q.2.parsed = some fr → EventsFor q.1 fr.events :=
      fun q hq => hfor q (List.mem_cons_of_mem _ hq)
    have hinv' := C06_inv_preserved pfx st p.1 p.2 hinv (hfor p (by simp))
    have := ih (analyze pfx true st p.1 p.2).1 hinv' hfor'
    simp only [runHistory, List.foldl_cons] at this ⊢
    refine ⟨?_, this.2⟩
    rw [this.1]
    obtain ⟨f, v⟩ := p
    simp only [histDefs]
    cases hv : v.parsed with
    | none =>
      rw [C06_invalid_keeps pfx true st f v hv]
      simp only
      -- same environment, same accumulator
      exact histDefs_env pfx (by simp [sameEnv]) _ rest
    | some fr =>
      simp only
      rw [C06_defs_after_analyze pfx st f v fr hv hinv]
      -- `histDefs` only reads the environment part of the state
      have henv : sameEnv (analyze pfx true st f v).1 st := by
        rw [analyze_eq pfx true st f v fr hv]
        exact sameEnv_trans (foldl_env pfx f fr.events _) (preState_env true st f v fr)
      exact histDefs_env pfx henv _ rest
where
  histDefs_env (pfx : Path) {a b : Index} (h : sameEnv a b) (acc : List Def) (rest : History) :
      histDefs pfx a acc rest = histDefs pfx b acc rest := by
    induction rest generalizing acc with
    | nil => rfl
    | cons p rest ih =>
      obtain ⟨f, v⟩ := p
      simp only [histDefs]
      cases v.parsed with
      | none => exact ih acc
      | some fr =>
        simp only
        have : (eventDefs fr.events).map (stampDef pfx a f) = (eventDefs fr.events).map (stampDef pfx b f) :=
          List.map_congr_left (fun d _ => stampDef_env h f d)
        rw [this]
        exact ih _

/-- **C06 / C04 (mirror).** After any analysis the reverse usage index restricted to the analysed
    file is exactly the list of usages recorded for it: `usages` and `usage_by_fixture` never
    drift apart. -/
theorem C06_mirror (pfx : Path) (cl : Bool) (st : Index) (f : Path) (v : Version) (fr : FileRec)
    (hv : v.parsed = some fr) (hfile : ∀ u ∈ eventUsages fr.events, u.file = f) :
    (analyze pfx cl st f v).1.ubf.filter (fun u => u.file == f) = eventUsages fr.events := by
  rw [C06_usages_after_analyze pfx cl st f v fr hv, List.filter_append]
  have h1 : (st.ubf.filter (fun u => u.file != f)).filter (fun u => u.file == f) = [] := by
    rw [List.filter_filter, List.filter_eq_nil_iff]
    intro u _
    by_cases h : u.file = f <;> simp [h]
  have h2 : (eventUsages fr.events).filter (fun u => u.file == f) = eventUsages fr.events := by
    rw [List.filter_eq_self]
    intro u hu
    simp [hfile u hu]
  rw [h1, h2, List.nil_append]

end PLS
