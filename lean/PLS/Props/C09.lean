/-
  C09 — concurrent analysis of different files is isolated.

  Model: `PLS.Model.Conc` (one DashMap call per step, any number of threads, ANY schedule).
  The hypotheses of the theorems are exactly what the correspondence check establishes of the
  implementation's recorded operation programs: every thread works for a different file, and its
  program on a shared map has the shape `program olds news` (every `get_mut+retain` on a key is
  followed, before anything else of that thread on the map, by the conditional `remove_if` of the
  same key; then only `entry().push`).
-/
import PLS.Lemmas.Conc
namespace PLS.Conc

/-- **C09 (any schedule).** For threads of pairwise different files whose programs have the
    shape of the code, after ANY complete schedule: (1) no per-name vector is left empty
    ("dangling"); (2) what each file owns under every name is what its own analysis alone
    leaves there — nothing of it lost or duplicated by the others; (3) files not being analysed
    are untouched.  The right-hand sides do not mention the schedule. -/
theorem C09_any_schedule (s0 : Sys) (hnd : (s0.ts.map (·.file)).Nodup)
    (hwf : ∀ t ∈ s0.ts, WFProg t.prog) (hne : ∀ k, s0.m k ≠ some [])
    (sched : List Nat) (hdone : ∀ t ∈ (run s0 sched).ts, t.prog = []) :
    (∀ k, (run s0 sched).m k ≠ some []) ∧
    (∀ (i : Nat) (t0 : Thread), s0.ts[i]? = some t0 → ∀ k,
        projF t0.file (ents (run s0 sched).m k) =
          lrun t0.file (fun k => projF t0.file (ents s0.m k)) t0.prog k) ∧
    (∀ G, (∀ t ∈ s0.ts, t.file ≠ G) → ∀ k,
        projF G (ents (run s0 sched).m k) = projF G (ents s0.m k)) :=
  conc_final s0 hnd hwf hne sched hdone

/-! ### sequential executions exist and are complete -/

def progLen (s : Sys) (j : Nat) : Nat := ((s.ts[j]?).map (·.prog.length)).getD 0

theorem stepSys_len (s : Sys) (i j : Nat) :
    progLen (stepSys s i) j = if j = i then progLen s i - 1 else progLen s j := by
  unfold stepSys
  cases hti : s.ts[i]? with
  | none =>
    by_cases h : j = i
    · subst h; simp [progLen, hti]
    · simp [h]
  | some t =>
    simp only
    cases hp : t.prog with
    | nil =>
      simp only
      by_cases h : j = i
      · subst h; simp [progLen, hti, hp]
      · simp [h]
    | cons ins rest =>
      simp only
      have hi : i < s.ts.length := (List.getElem?_eq_some_iff.mp hti).1
      by_cases h : j = i
      · subst h
        simp [progLen, hti, hp, List.getElem?_set_self hi]
      · simp only [h, if_false, progLen]
        rw [List.getElem?_set_ne (Ne.symm h)]

theorem stepSys_length (s : Sys) (i : Nat) : (stepSys s i).ts.length = s.ts.length := by
  unfold stepSys
  cases s.ts[i]? with
  | none => rfl
  | some t =>
    simp only
    split <;> simp

theorem run_length (s : Sys) (sched : List Nat) : (run s sched).ts.length = s.ts.length := by
  induction sched generalizing s with
  | nil => rfl
  | cons i r ih => simp only [run, List.foldl_cons] at *; rw [ih, stepSys_length]

theorem run_append (s : Sys) (a b : List Nat) : run s (a ++ b) = run (run s a) b := by
  simp [run, List.foldl_append]

theorem run_replicate_len (s : Sys) (n i j : Nat) :
    progLen (run s (List.replicate n i)) j = if j = i then progLen s i - n else progLen s j := by
  induction n generalizing s with
  | zero =>
    by_cases h : j = i
    · subst h; simp [run]
    · simp [run, h]
  | succ n ih =>
    simp only [List.replicate_succ, run, List.foldl_cons]
    have := ih (stepSys s i)
    simp only [run] at this
    rw [this, stepSys_len, stepSys_len]
    by_cases h : j = i
    · simp [h]; omega
    · simp [h]

/-- the schedule "thread after thread, each to completion, in this order" -/
def seqOf (s0 : Sys) (order : List Nat) : List Nat :=
  order.flatMap (fun i => List.replicate (progLen s0 i) i)

theorem run_blocks_len (c : Nat → Nat) (order : List Nat) (s : Sys)
    (hc : ∀ i ∈ order, progLen s i ≤ c i) :
    (∀ j, progLen (run s (order.flatMap (fun i => List.replicate (c i) i))) j ≤ progLen s j) ∧
    (∀ j ∈ order, progLen (run s (order.flatMap (fun i => List.replicate (c i) i))) j = 0) := by
  induction order generalizing s with
  | nil => simp [run]
  | cons i r ih =>
    simp only [List.flatMap_cons, run_append]
    have hstep : ∀ j, progLen (run s (List.replicate (c i) i)) j ≤ progLen s j := by
      intro j; rw [run_replicate_len]
      by_cases h : j = i
      · subst h; simp
      · simp [h]
    have hc' : ∀ i' ∈ r, progLen (run s (List.replicate (c i) i)) i' ≤ c i' := by
      intro i' hi'
      exact Nat.le_trans (hstep i') (hc i' (List.mem_cons_of_mem _ hi'))
    obtain ⟨h1, h2⟩ := ih (run s (List.replicate (c i) i)) hc'
    refine ⟨fun j => Nat.le_trans (h1 j) (hstep j), ?_⟩
    intro j hj
    rcases List.mem_cons.mp hj with rfl | hj
    · have := h1 j
      rw [run_replicate_len] at this
      have hcj := hc j List.mem_cons_self
      simp at this
      omega
    · exact h2 j hj

/-- a sequential schedule over an order that mentions every thread is complete -/
theorem C09_sequential_complete (s0 : Sys) (order : List Nat)
    (hall : ∀ i, i < s0.ts.length → i ∈ order) :
    ∀ t ∈ (run s0 (seqOf s0 order)).ts, t.prog = [] := by
  intro t ht
  obtain ⟨j, hj⟩ := List.mem_iff_getElem?.mp ht
  have hjl : j < (run s0 (seqOf s0 order)).ts.length := (List.getElem?_eq_some_iff.mp hj).1
  rw [run_length] at hjl
  have := (run_blocks_len (progLen s0) order s0 (fun _ _ => Nat.le_refl _)).2 j (hall j hjl)
  have hj' : (run s0 (order.flatMap (fun i => List.replicate (progLen s0 i) i))).ts[j]? = some t := hj
  have e : progLen (run s0 (order.flatMap (fun i => List.replicate (progLen s0 i) i))) j = t.prog.length := by
    show ((Option.map (fun (x : Thread) => x.prog.length) _).getD 0) = _
    rw [hj']; rfl
  rw [e] at this
  exact List.eq_nil_of_length_eq_zero this

/-- equal per-file projections for every file mean equal multisets -/
theorem perm_of_proj {l1 l2 : List Ent} (h : ∀ G, projF G l1 = projF G l2) : l1.Perm l2 := by
  rw [List.perm_iff_count]
  intro a
  have h1 : ∀ l : List Ent, List.count a l = List.count a (projF a.file l) := by
    intro l
    unfold projF
    rw [List.count_filter]
    simp
  rw [h1 l1, h1 l2, h a.file]

/-- **C09 (the statement).** Whatever the interleaving, the resulting maps are those of the
    sequential execution in ANY order `order` of the same per-file analyses: per name the same
    multiset of entries, each file's own entries in the same relative order, and no empty vector. -/
theorem C09_equals_sequential (s0 : Sys) (hnd : (s0.ts.map (·.file)).Nodup)
    (hwf : ∀ t ∈ s0.ts, WFProg t.prog) (hne : ∀ k, s0.m k ≠ some [])
    (sched : List Nat) (hdone : ∀ t ∈ (run s0 sched).ts, t.prog = [])
    (order : List Nat) (hall : ∀ i, i < s0.ts.length → i ∈ order) :
    (∀ G k, projF G (ents (run s0 sched).m k) = projF G (ents (run s0 (seqOf s0 order)).m k)) ∧
    (∀ k, (ents (run s0 sched).m k).Perm (ents (run s0 (seqOf s0 order)).m k)) ∧
    (∀ k, (run s0 sched).m k ≠ some []) := by
  have A := conc_final s0 hnd hwf hne sched hdone
  have B := conc_final s0 hnd hwf hne (seqOf s0 order) (C09_sequential_complete s0 order hall)
  have hproj : ∀ G k, projF G (ents (run s0 sched).m k) = projF G (ents (run s0 (seqOf s0 order)).m k) := by
    intro G k
    by_cases hG : ∃ t ∈ s0.ts, t.file = G
    · obtain ⟨t, ht, rfl⟩ := hG
      obtain ⟨i, hi⟩ := List.mem_iff_getElem?.mp ht
      rw [A.2.1 i t hi k, B.2.1 i t hi k]
    · have hG' : ∀ t ∈ s0.ts, t.file ≠ G := fun t ht e => hG ⟨t, ht, e⟩
      rw [A.2.2 G hG' k, B.2.2 G hG' k]
  exact ⟨hproj, fun k => perm_of_proj (fun G => hproj G k), A.1⟩

/-! ### why `remove_if(…is_empty)` and not `remove` -/

/-- the window: file 0 empties `foo`, file 1 registers a `foo`, file 0 removes the key -/
def lossSys (last : Key → XInstr) : XSys :=
  { m := fun k => if k = "foo" then some [⟨0, 1⟩] else none,
    ts := [ { file := 0, flag := false, prog := [.base (.retain "foo"), last "foo"] },
            { file := 1, flag := false, prog := [.base (.push "foo" 7)] } ] }

/-- **C09 (the guard is necessary).** With an unconditional `remove` in step 3 the schedule
    0,1,0 loses file 1's new definition; with the conditional removal of the code it survives. -/
theorem C09_plain_remove_loses :
    (runX (lossSys XInstr.remove) [0, 1, 0]).m "foo" = none ∧
    (runX (lossSys (fun k => .base (.condRemove k))) [0, 1, 0]).m "foo" = some [⟨1, 7⟩] := by
  constructor <;> decide

/-! ### non-vacuity: a system meeting the hypotheses, with shared names and a last-definition removal -/

def demoSys : Sys :=
  { m := fun k => if k = "foo" then some [⟨0, 1⟩] else if k = "bar" then some [⟨0, 2⟩, ⟨1, 3⟩] else none,
    ts := [ { file := 0, flag := false, prog := program ["foo", "bar"] [("bar", 5)] },
            { file := 1, flag := false, prog := program ["bar"] [("foo", 7), ("bar", 8)] } ] }

example : (demoSys.ts.map (·.file)).Nodup ∧ (∀ t ∈ demoSys.ts, WFProg t.prog) ∧ (∀ k, demoSys.m k ≠ some []) := by
  refine ⟨by decide, ?_, ?_⟩
  · intro t ht
    simp only [demoSys, List.mem_cons, List.not_mem_nil, or_false] at ht
    rcases ht with rfl | rfl
    · exact Or.inl ⟨_, _, rfl⟩
    · exact Or.inl ⟨_, _, rfl⟩
  · intro k
    simp only [demoSys]
    split
    · simp
    · split <;> simp

end PLS.Conc
