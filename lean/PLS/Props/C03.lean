/-
  C03 — what the index records for a file is what the file says.

  Theorems over the mini-AST (`Model/Py.lean`): the concrete-syntax step is CPython's parser
  (trusted) plus the correspondence run.
-/
import PLS.Lemmas.Analyze
namespace PLS

/-- **C03 (nothing else produces an entry).** Statements other than function definitions, class
    definitions and (annotated) assignments contribute nothing — whatever they contain: helpers'
    bodies, `if` blocks, loops, `with`, `try`, imports, expression statements. -/
theorem C03_nothing_else (f : Path) (lines : List Chars) (mn : List String) :
    (∀ ns r, visitStmt f lines mn (.import_ ns r) = []) ∧
    (∀ m l ns r, visitStmt f lines mn (.importFrom m l ns r) = []) ∧
    (∀ e r, visitStmt f lines mn (.expr e r) = []) ∧
    (∀ t b o r, visitStmt f lines mn (.if_ t b o r) = []) ∧
    (∀ a t i b o r, visitStmt f lines mn (.for_ a t i b o r) = []) ∧
    (∀ t b o r, visitStmt f lines mn (.while_ t b o r) = []) ∧
    (∀ a c v b r, visitStmt f lines mn (.with_ a c v b r) = []) ∧
    (∀ b h o fb r, visitStmt f lines mn (.try_ b h o fb r) = []) ∧
    (∀ v r, visitStmt f lines mn (.return_ v r) = []) ∧
    (∀ t m r, visitStmt f lines mn (.assert_ t m r) = []) ∧
    (∀ t v r, visitStmt f lines mn (.augAssign t v r) = []) ∧
    (∀ r, visitStmt f lines mn (.other r) = []) := by
  refine ⟨?_, ?_, ?_, ?_, ?_, ?_, ?_, ?_, ?_, ?_, ?_, ?_⟩ <;> intros <;> simp [visitStmt]

theorem eventDefs_testEvents (f : Path) (mn : List String) (name : String) (args : Args) (body : List Stmt)
    (r : Range) : eventDefs (testEvents f mn name args body r) = [] := by
  unfold testEvents
  split <;> simp [eventDefs_append, eventDefs_argUsages, eventDefs]

theorem eventDefs_fixtureEvents (f : Path) (lines : List Chars) (mn : List String) (name : String) (deco : Expr)
    (args : Args) (ret : Option Expr) (body : List Stmt) (r : Range) (doc : Option String) :
    eventDefs (fixtureEvents f lines mn name deco args ret body r doc) =
      [fixtureDef f lines name deco args ret body r doc] := by
  unfold fixtureEvents
  simp [eventDefs_append, eventDefs_argUsages, eventDefs]

theorem eventDefs_marks (f : Path) (decos : List Expr) :
    eventDefs (decos.flatMap (fun d => (usefixturesNames d).map (strUsage f lines)) ++
      decos.flatMap (fun d => (parametrizeIndirect d).map (strUsage f lines))) = [] := by
  simp [eventDefs_append, eventDefs_flatMap_strUsages]

/-- the definitions a function statement contributes, in closed form -/
theorem eventDefs_visitFunction (f : Path) (lines : List Chars) (mn : List String) (name : String)
    (decos : List Expr) (args : Args) (ret : Option Expr) (body : List Stmt) (r : Range) :
    eventDefs (visitFunction f lines mn name decos args ret body r) =
      match decos.find? isFixtureDecorator with
      | none => []
      | some deco => [fixtureDef f lines name deco args ret body r (docstringOf body)] := by
  unfold visitFunction
  cases decos.find? isFixtureDecorator with
  | none => simp [eventDefs_append, eventDefs_flatMap_strUsages, eventDefs_testEvents]
  | some deco => simp [eventDefs_append, eventDefs_flatMap_strUsages, eventDefs_testEvents, eventDefs_fixtureEvents]

/-- a function that is neither a fixture nor named `test_*` records only mark usages -/
theorem C03_plain_function (f : Path) (lines : List Chars) (mn : List String) (name : String)
    (decos : List Expr) (args : Args) (ret : Option Expr) (body : List Stmt) (r : Range)
    (hfx : decos.find? isFixtureDecorator = none) :
    eventDefs (visitFunction f lines mn name decos args ret body r) = [] := by
  rw [eventDefs_visitFunction, hfx]

/-- **C03 (a function is recorded as a fixture iff one of its decorators is a fixture decorator)**
    — and then exactly once. -/
theorem C03_fixture_iff (f : Path) (lines : List Chars) (mn : List String) (name : String)
    (decos : List Expr) (args : Args) (ret : Option Expr) (body : List Stmt) (r : Range) :
    ((∃ d ∈ decos, isFixtureDecorator d = true) →
      (eventDefs (visitFunction f lines mn name decos args ret body r)).length = 1) ∧
    ((¬ ∃ d ∈ decos, isFixtureDecorator d = true) →
      eventDefs (visitFunction f lines mn name decos args ret body r) = []) := by
  rw [eventDefs_visitFunction]
  cases hfx : decos.find? isFixtureDecorator with
  | none =>
    refine ⟨?_, fun _ => rfl⟩
    rintro ⟨d, hd, hp⟩
    have := List.find?_eq_none.mp hfx d hd
    simp [hp] at this
  | some deco =>
    have hmem := List.mem_of_find?_eq_some hfx
    have hp := List.find?_some hfx
    exact ⟨fun _ => rfl, fun h => absurd ⟨deco, hmem, hp⟩ h⟩

/-- **C03 (the span recorded for a parameter is the parameter's name).** -/
theorem C03_param_usage_span (f : Path) (a : Arg) :
    match argUsage f a with
    | .usage u => u.name = a.name ∧ u.file = f ∧ u.line = a.line ∧ u.startChar = a.col ∧
        u.endChar = a.col + a.name.utf8ByteSize
    | _ => False := by
  simp [argUsage]

theorem isSome_orElse (a b : Option Nat) : (a.orElse (fun _ => b)).isSome = (a.isSome || b.isSome) := by
  cases a <;> simp [Option.orElse]

mutual
  /-- per statement: `contains_yield` and `find_yield_in_stmt` agree -/
  theorem C03_contains_yield_stmt_iff : (s : Stmt) → containsYieldStmt s = (yieldInStmt s).isSome
    | .expr e _ => by cases e <;> simp [containsYieldStmt, yieldInStmt, yieldInExpr]
    | .if_ _ b o _ => by
      simp only [containsYieldStmt, yieldInStmt, isSome_orElse]
      rw [C03_contains_yield_iff b, C03_contains_yield_iff o]
    | .for_ _ _ _ b o _ => by
      simp only [containsYieldStmt, yieldInStmt, isSome_orElse]
      rw [C03_contains_yield_iff b, C03_contains_yield_iff o]
    | .while_ _ b o _ => by
      simp only [containsYieldStmt, yieldInStmt, isSome_orElse]
      rw [C03_contains_yield_iff b, C03_contains_yield_iff o]
    | .with_ _ _ _ b _ => by
      simp only [containsYieldStmt, yieldInStmt]
      exact C03_contains_yield_iff b
    | .try_ b h o f _ => by
      simp only [containsYieldStmt, yieldInStmt, isSome_orElse]
      rw [C03_contains_yield_iff b, C03_contains_yield_iff h, C03_contains_yield_iff o, C03_contains_yield_iff f]
      simp [Bool.or_assoc]
    | .funcDef .. => by simp [containsYieldStmt, yieldInStmt]
    | .classDef .. => by simp [containsYieldStmt, yieldInStmt]
    | .assign .. => by simp [containsYieldStmt, yieldInStmt]
    | .annAssign .. => by simp [containsYieldStmt, yieldInStmt]
    | .augAssign .. => by simp [containsYieldStmt, yieldInStmt]
    | .import_ .. => by simp [containsYieldStmt, yieldInStmt]
    | .importFrom .. => by simp [containsYieldStmt, yieldInStmt]
    | .return_ .. => by simp [containsYieldStmt, yieldInStmt]
    | .assert_ .. => by simp [containsYieldStmt, yieldInStmt]
    | .other .. => by simp [containsYieldStmt, yieldInStmt]
  /-- **C03 (generator status: the two yield visitors agree).** `contains_yield` (which decides
      whether `Generator[T, …]` / `Iterator[T]` is unwrapped to the yielded type) says "generator"
      exactly when `find_yield_line` (which gives the yield line) finds a yield — for every body:
      nested `if` / `for` / `while` / `with` / `try`, their `async` forms and `except` handlers.
      Before the repair `contains_yield` skipped `async with`, `async for` and handler bodies, so
      such a fixture had a yield line but its return type was not unwrapped
      (`corpus/C03/async_with_yield.case`). -/
  theorem C03_contains_yield_iff : (body : List Stmt) → containsYield body = (yieldLine body).isSome
    | [] => by simp [containsYield, yieldLine]
    | s :: ss => by
      simp only [containsYield, yieldLine, isSome_orElse]
      rw [C03_contains_yield_stmt_iff s, C03_contains_yield_iff ss]
end

/-- the former witness of the disagreement: a yield inside `async with` -/
example : containsYield [.with_ true [] [] [.expr (.yield [] ⟨3, 8, 3, 15⟩) ⟨3, 8, 3, 15⟩] ⟨2, 4, 3, 15⟩] = true ∧
    (yieldLine [.with_ true [] [] [.expr (.yield [] ⟨3, 8, 3, 15⟩) ⟨3, 8, 3, 15⟩] ⟨2, 4, 3, 15⟩]).isSome = true := by
  simp [containsYield, containsYieldStmt, yieldLine, yieldInStmt, yieldInExpr, Option.orElse]

/-- **C03 (dependencies are the named parameters WITHOUT a default value, except `self` and
    `request`, in order; the record carries the file, the `def` line and the end line).** -/
theorem C03_deps (f : Path) (lines : List Chars) (mn : List String) (name : String)
    (decos : List Expr) (args : Args) (ret : Option Expr) (body : List Stmt) (r : Range) (d : Def)
    (h : d ∈ eventDefs (visitFunction f lines mn name decos args ret body r)) :
    d.deps = ((args.all.filter (fun a => !a.hasDefault)).map (·.name)).filter (fun a => a != "self" && a != "request") ∧
    d.file = f ∧ d.line = r.line ∧ d.endLine = r.endLine ∧
    d.yieldLine = yieldLine body ∧ d.returnType = returnTypeOf ret body := by
  rw [eventDefs_visitFunction] at h
  cases hfx : decos.find? isFixtureDecorator with
  | none => simp [hfx] at h
  | some deco =>
    simp [hfx] at h
    subst h
    simp [fixtureDef]

/-- **C03 (test functions request every parameter without a default value but `self`).** -/
theorem C03_test_usages (f : Path) (mn : List String) (name : String) (args : Args) (body : List Stmt) (r : Range)
    (ht : name.startsWith "test_" = true) :
    eventUsages (testEvents f mn name args body r) =
      eventUsages ((args.all.filter (fun a => a.name != "self" && !a.hasDefault)).map (argUsage f)) := by
  unfold testEvents
  simp [ht, eventUsages_append, eventUsages]

theorem eventDefs_map_defn (l : List Def) : eventDefs (l.map Event.defn) = l := by
  induction l with
  | nil => rfl
  | cons d ds ih => simp [eventDefs, ih]

theorem assignTargetDef_file (f : Path) (r : Range) (t : Expr) (d : Def)
    (h : assignTargetDef f r t = some d) : d.file = f := by
  cases t <;> simp [assignTargetDef] at h
  subst h; rfl

theorem visitAssignFixture_file (f : Path) (ts : List Expr) (v : Expr) (r : Range) :
    ∀ d ∈ eventDefs (visitAssignFixture f ts v r), d.file = f := by
  unfold visitAssignFixture
  split
  · split
    · intro d hd
      rw [eventDefs_map_defn, List.mem_filterMap] at hd
      obtain ⟨t, _, ht⟩ := hd
      exact assignTargetDef_file f r t d ht
    · simp [eventDefs]
  · simp [eventDefs]

mutual
  /-- **C03 (every recorded definition carries the analysed file's path)** — the hypothesis
      `EventsFor` of the C06 theorems holds for everything the analyzer produces. -/
  theorem C03_stmt_events_for_file (f : Path) (lines : List Chars) (mn : List String) :
      (s : Stmt) → ∀ d ∈ eventDefs (visitStmt f lines mn s), d.file = f
    | .assign ts v r => by
      intro d hd
      simp only [visitStmt, eventDefs_append] at hd
      rcases List.mem_append.mp hd with hd | hd
      · exact visitAssignFixture_file f ts v r d hd
      · split at hd
        · rw [eventDefs_strUsages] at hd; cases hd
        · simp [eventDefs] at hd
    | .annAssign t v _ => by
      intro d hd
      simp only [visitStmt] at hd
      split at hd
      · cases v with
        | none => simp [eventDefs] at hd
        | some v => simp only at hd; rw [eventDefs_strUsages] at hd; cases hd
      · simp [eventDefs] at hd
    | .classDef _ decos body _ => by
      intro d hd
      simp only [visitStmt, eventDefs_append, eventDefs_flatMap_strUsages, List.nil_append] at hd
      exact C03_events_for_file f lines mn body d hd
    | .funcDef _ name decos args ret body r => by
      intro d hd
      simp only [visitStmt] at hd
      exact (C03_deps f lines mn name decos args ret body r d hd).2.1
    | .import_ _ _ => by simp [visitStmt, eventDefs]
    | .importFrom _ _ _ _ => by simp [visitStmt, eventDefs]
    | .expr _ _ => by simp [visitStmt, eventDefs]
    | .if_ _ _ _ _ => by simp [visitStmt, eventDefs]
    | .for_ _ _ _ _ _ _ => by simp [visitStmt, eventDefs]
    | .while_ _ _ _ _ => by simp [visitStmt, eventDefs]
    | .with_ _ _ _ _ _ => by simp [visitStmt, eventDefs]
    | .try_ _ _ _ _ _ => by simp [visitStmt, eventDefs]
    | .return_ _ _ => by simp [visitStmt, eventDefs]
    | .assert_ _ _ _ => by simp [visitStmt, eventDefs]
    | .augAssign _ _ _ => by simp [visitStmt, eventDefs]
    | .other _ => by simp [visitStmt, eventDefs]
  theorem C03_events_for_file (f : Path) (lines : List Chars) (mn : List String) :
      (ss : List Stmt) → ∀ d ∈ eventDefs (visitStmts f lines mn ss), d.file = f
    | [] => by simp [visitStmts, eventDefs]
    | s :: ss => by
      intro d hd
      simp only [visitStmts, eventDefs_append] at hd
      rcases List.mem_append.mp hd with hd | hd
      · exact C03_stmt_events_for_file f lines mn s d hd
      · exact C03_events_for_file f lines mn ss d hd
end

theorem eventDefs_cutAtPanic_sub (es : List Event) : ∀ d ∈ eventDefs (cutAtPanic es), d ∈ eventDefs es := by
  induction es with
  | nil => simp [cutAtPanic]
  | cons e rest ih =>
    intro d hd
    cases e with
    | panic => simp [cutAtPanic, eventDefs] at hd
    | defn d' =>
      simp only [cutAtPanic, eventDefs, List.mem_cons] at hd ⊢
      rcases hd with rfl | hd
      · exact Or.inl rfl
      · exact Or.inr (ih d hd)
    | usage u => simp only [cutAtPanic, eventDefs] at hd ⊢; exact ih d hd
    | scan b => simp only [cutAtPanic, eventDefs] at hd ⊢; exact ih d hd

/-- the analyzer's output satisfies the `EventsFor` hypothesis of the C06 history theorems -/
theorem C03_analyzeModule_events_for (stdlib : List String) (f : Path) (text : Chars) (body : List Stmt) :
    EventsFor f (analyzeModule stdlib f text body).events := by
  intro d hd
  exact C03_events_for_file f (linesOf text) (moduleLevelNames body) body d
    (eventDefs_cutAtPanic_sub _ d hd)

end PLS
