/-
  C13 — discovery covers exactly pytest's files, wherever the workspace lives.
-/
import PLS.Model.Scan
namespace PLS

/-- **C13 (the ignored-directory table covers the statement's classes)** — VCS, virtualenv, cache
    and build directories as extracted from `scanner.rs` on this run, plus the `*.egg-info` rule
    and the three file-name patterns. -/
theorem C13_tables :
    (∀ n ∈ [".git", ".hg", ".svn", ".venv", "venv", "env", ".env", "__pycache__", ".pytest_cache",
            ".mypy_cache", ".ruff_cache", ".tox", ".nox", "build", "dist", ".eggs"], n ∈ Generated.skipDirs) ∧
    Generated.skipSuffixes = [".egg-info"] ∧
    Generated.testFilePatterns = ["conftest.py", "test_", ".py", "_test.py"] := by
  refine ⟨?_, rfl, rfl⟩
  intro n hn
  simp only [List.mem_cons, List.not_mem_nil, or_false] at hn
  rcases hn with rfl | rfl | rfl | rfl | rfl | rfl | rfl | rfl | rfl | rfl | rfl | rfl | rfl | rfl | rfl | rfl <;>
    simp [Generated.skipDirs]

/-- **C13 (a directory is ignored by its exact name, or as `*.egg-info` — nothing else).** In particular a name that
    only STARTS like an ignored one (`environments`, `venv311`, `builds`) is an ordinary directory. -/
theorem C13_skip_iff (n : String) :
    shouldSkipDir n = true ↔ (n ∈ Generated.skipDirs ∨ n.endsWith ".egg-info" = true) := by
  simp [shouldSkipDir, Generated.skipSuffixes]

example : "environments" ∉ Generated.skipDirs ∧ "venv311" ∉ Generated.skipDirs ∧ "builds" ∉ Generated.skipDirs ∧
    ".venv-3.12" ∉ Generated.skipDirs ∧ "env_py310" ∉ Generated.skipDirs ∧
    "venv" ∈ Generated.skipDirs ∧ "env" ∈ Generated.skipDirs := by decide

/-- the file-name test is exactly the three documented patterns -/
theorem C13_name_patterns (n : String) :
    isTestFileName n = true ↔ (n = "conftest.py" ∨ (n.startsWith "test_" = true ∧ n.endsWith ".py" = true) ∨
      n.endsWith "_test.py" = true) := by
  simp [isTestFileName, or_assoc]

/-- **C13 (what is discovered).** A file below the root is analysed by the scan iff its name
    matches, no directory below the root on its path is ignored, it is not excluded — and its own
    name is not an ignored name (a file called `build` is no Python file anyway). -/
theorem C13_discovered_iff (pfx : Path) (excluded : Path → Bool) (f : Path) :
    discovered pfx excluded f = true ↔
      (specDiscovered excluded f = true ∧ ¬ (∃ n, f.getLast? = some n ∧ shouldSkipDir n = true)) := by
  unfold discovered specDiscovered
  cases h : f.getLast? with
  | none => simp
  | some n =>
    simp only [Bool.and_eq_true, Bool.not_eq_true', Option.some.injEq, exists_eq_left']
    constructor
    · rintro ⟨⟨⟨h1, h2⟩, h3⟩, h4⟩
      exact ⟨⟨⟨h1, h3⟩, h4⟩, by simp [h2]⟩
    · rintro ⟨⟨⟨h1, h3⟩, h4⟩, h2⟩
      exact ⟨⟨⟨h1, by simpa using h2⟩, h3⟩, h4⟩

/-- **C13 (relocation).** The outcome, relative to the root, does not depend on where the
    workspace lives — ancestors named like ignored directories or containing `site-packages`
    included (E10 repaired). -/
theorem C13_relocation (p p' : Path) (excluded : Path → Bool) (f : Path) :
    discovered p excluded f = discovered p' excluded f := rfl

/-- an ignored directory name anywhere below the root hides everything under it -/
theorem C13_skip_below_root (pfx : Path) (excluded : Path → Bool) (pre : Path) (d : String) (rest : Path)
    (hd : shouldSkipDir d = true) (hr : rest ≠ []) :
    discovered pfx excluded (pre ++ d :: rest) = false := by
  unfold discovered
  have : ((pre ++ d :: rest).dropLast).any shouldSkipDir = true := by
    rw [List.any_eq_true]
    refine ⟨d, ?_, hd⟩
    have : (pre ++ d :: rest).dropLast = pre ++ d :: rest.dropLast := by
      rw [List.dropLast_append_of_ne_nil (by simp)]
      cases rest with
      | nil => exact absurd rfl hr
      | cons x xs => simp [List.dropLast]
    rw [this]; simp
  rw [this]
  simp

/-- the files the analysis phase of the scan runs on -/
def scannedFiles (pfx : Path) (excluded : Path → Bool) (disk : List (Path × Version)) : List (Path × Version) :=
  disk.filter (fun p => discovered pfx excluded p.1 && Index.readable p.2)

open Index in
/-- the analysis phase is a fold of `analyze_file_fresh` over exactly those files -/
theorem C13_phase2_is_fold (pfx : Path) (excluded : Path → Bool) (st : Index) :
    scanPhase2 pfx excluded st =
      (scannedFiles pfx excluded st.disk).foldl (fun st p => (analyze pfx false st p.1 p.2).1) st := rfl

/-- **C13 (fault isolation).** Unreadable / non-UTF-8 files are skipped and nothing else changes:
    the scan analyses the same files, in the same order, as on the tree without them. -/
theorem C13_unreadable_isolated (pfx : Path) (excluded : Path → Bool) (disk : List (Path × Version)) :
    scannedFiles pfx excluded disk = scannedFiles pfx excluded (disk.filter (fun p => Index.readable p.2)) := by
  unfold scannedFiles
  rw [List.filter_filter]
  apply List.filter_congr
  intro p _
  cases Index.readable p.2 <;> simp

/-- **C13 (third-party classification of workspace files does not depend on the location).** For a
    file below the workspace root, "lives in site-packages" is judged on the root-relative part of
    its path: wherever the workspace is moved (also under a directory called `site-packages`), the
    verdict is the same — a virtualenv inside the project still counts.  (Before the repair the test
    was a substring search over the absolute path.) -/
theorem C13_site_packages_relocation (pfx pfx' : Path) (st : Index) (ws f : Path)
    (hws : st.workspaceRoot = some ws) (hf : pathStartsWith f ws = true) :
    Index.inSitePackages pfx st f = Index.inSitePackages pfx' st f ∧
    Index.inSitePackages pfx st f = (f.drop ws.length).any (· == "site-packages") := by
  unfold Index.inSitePackages
  simp [hws, hf]

end PLS
