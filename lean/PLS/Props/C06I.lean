/-
  C06 — an edit that does not parse leaves what every file provides through its imports as it was
  (the repaired E19, at the level of the import closure).

  `analyze` of an unparsable text keeps the recorded fixtures, puts the text into the cache together
  with the record of the last version that parsed (`Index.carry`) and bumps the version.  Here:
  the import graph (`ImpC.succs`) and the provided names (`ImpC.Prov`) are the same before and
  after, for every file; hence, by the closure theorem, so is every answer of
  `get_imported_fixtures`.
-/
import PLS.Props.C14P
import PLS.Props.C06
namespace PLS
namespace BrokenEdit
open Index ImpC ScanC

theorem ahas_ainsert_present {β} (l : List (Path × β)) (k x : Path) (v : β) (hk : ahas l k = true) :
    ahas (ainsert l k v) x = ahas l x := by
  by_cases hx : x = k
  · subst hx; rw [ahas_ainsert_self, hk]
  · exact ahas_ainsert_ne l k x v hx

/-- the state after the unparsable analysis -/
def after (st : Index) (f : Path) (v : Version) : Index :=
  { st with cache := ainsert st.cache f (carry st f v), epoch := st.epoch + 1, version := st.version + 1 }

theorem after_fs (st : Index) (f : Path) (v : Version) (hk : ahas st.cache f = true) : SameFS st (after st f v) :=
  ⟨rfl, rfl, rfl, rfl, fun x => by
    show (ahas st.disk x || ahas (ainsert st.cache f (carry st f v)) x) = _
    rw [ahas_ainsert_present _ _ _ _ hk]⟩

theorem after_effRec (st : Index) (f : Path) (v old : Version) (fr : FileRec)
    (h : v.parsed = none) (hc : alookup st.cache f = some old) (hr : old.effRec = some fr) (g : Path) :
    ((after st f v).content g).bind Version.effRec = (st.content g).bind Version.effRec := by
  unfold after content
  by_cases hg : g = f
  · subst hg
    simp only [alookup_ainsert_self, Option.bind_some, carry, Version.effRec, h, hc]
    simp only [Version.effRec] at hr
    rw [hr]
  · simp only [alookup_ainsert_ne _ _ _ _ hg]

theorem succs_eq (st : Index) (f : Path) (v old : Version) (fr : FileRec)
    (h : v.parsed = none) (hc : alookup st.cache f = some old) (hr : old.effRec = some fr) (g : Path) :
    succs (after st f v) g = succs st g := by
  have hk : ahas st.cache f = true := ahas_of_alookup _ _ _ hc
  have hres : (after st f v).resolveModule = st.resolveModule := by
    funext m x; exact resolveModule_same (after_fs st f v hk) m x
  have he := after_effRec st f v old fr h hc hr g
  unfold succs
  rw [hres]
  cases h1 : (after st f v).content g with
  | none =>
    rw [h1] at he
    cases h2 : st.content g with
    | none => rfl
    | some w =>
      rw [h2] at he
      simp only [Option.bind_none, Option.bind_some] at he
      simp only [← he]
  | some w' =>
    rw [h1] at he
    cases h2 : st.content g with
    | none =>
      rw [h2] at he
      simp only [Option.bind_none, Option.bind_some] at he
      simp only [he]
    | some w =>
      rw [h2] at he
      simp only [Option.bind_some] at he
      simp only [he]

theorem direct_eq (st : Index) (f : Path) (v : Version) (t : Path) : direct (after st f v) t = direct st t := rfl

theorem prov_iff (st : Index) (f : Path) (v old : Version) (fr : FileRec)
    (h : v.parsed = none) (hc : alookup st.cache f = some old) (hr : old.effRec = some fr) (g : Path) (n : String) :
    Prov (after st f v) g n ↔ Prov st g n := by
  constructor
  · intro hp
    induction hp with
    | here ht hn => exact Prov.here (by rw [← succs_eq st f v old fr h hc hr]; exact ht) (by rw [← direct_eq st f v]; exact hn)
    | there ht _ ih => exact Prov.there (by rw [← succs_eq st f v old fr h hc hr]; exact ht) ih
  · intro hp
    induction hp with
    | here ht hn => exact Prov.here (by rw [succs_eq st f v old fr h hc hr]; exact ht) (by rw [direct_eq st f v]; exact hn)
    | there ht _ ih => exact Prov.there (by rw [succs_eq st f v old fr h hc hr]; exact ht) ih

end BrokenEdit

open BrokenEdit ImpC in
/-- **C06 (an edit that does not parse changes nothing any file provides).** If `f` was cached with
    an effective record (its own, or one carried), then after the analysis of a text of `f` that
    does not parse every file provides through its imports exactly what it provided before. -/
theorem C06_broken_edit_keeps_provides (pfx : Path) (cl : Bool) (st : Index) (f : Path) (v old : Version) (fr : FileRec)
    (h : v.parsed = none) (hc : alookup st.cache f = some old) (hr : old.effRec = some fr) (g : Path) (n : String) :
    Prov (Index.analyze pfx cl st f v).1 g n ↔ Prov st g n := by
  rw [C06_invalid_keeps pfx cl st f v h]
  exact prov_iff st f v old fr h hc hr g n

open BrokenEdit ImpC in
/-- **C06 / C14 (… and nothing `get_imported_fixtures` answers).** On an index whose imports are star
    imports / `pytest_plugins` entries, with a coherent memo table: after the analysis of a text
    of `f` that does not parse, the names answered for EVERY file are the names answered before -
    the behaviour the E19 repair restored, for every import graph. -/
theorem C06_broken_edit_keeps_imported (pfx : Path) (cl : Bool) (st : Index) (f : Path) (v old : Version) (fr : FileRec)
    (hstar : StarOnly st) (hcoh : Coh st) (hb : MemoBounded st)
    (h : v.parsed = none) (hc : alookup st.cache f = some old) (hr : old.effRec = some fr) (g : Path) (m : String) :
    m ∈ (Index.imported (Index.analyze pfx cl st f v).1.fuelFor (Index.analyze pfx cl st f v).1 g []).1 ↔
    m ∈ (Index.imported st.fuelFor st g []).1 := by
  have hstar' : StarOnly (Index.analyze pfx cl st f v).1 := by
    rw [C06_invalid_keeps pfx cl st f v h]
    intro x w fr' hcx hwx imp hi
    have he := after_effRec st f v old fr h hc hr x
    have hcx' : (after st f v).content x = some w := hcx
    rw [hcx'] at he
    simp only [Option.bind_some] at he
    cases h2 : st.content x with
    | none => rw [h2] at he; rw [hwx] at he; cases he
    | some w0 =>
      rw [h2] at he
      simp only [Option.bind_some] at he
      exact hstar x w0 fr' h2 (by rw [← he]; exact hwx) imp hi
  have hcoh' := (C14_coherent_after_analysis pfx cl st f v hb).1
  rw [C14_imported_is_closure _ hstar' hcoh' g m, C14_imported_is_closure st hstar hcoh g m]
  exact C06_broken_edit_keeps_provides pfx cl st f v old fr h hc hr g m

end PLS
