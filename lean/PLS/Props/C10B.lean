/-
  C10, bridge between the two models.

  `PLS.Model.Conc10` (one DashMap call per step, any interleaving) talks about an abstract state
  `definitions : name → entries tagged by file`, `file_definitions : file → names`.
  `PLS.Model.Index` (whole analyses, sequential) is the model the other properties use.  This file
  relates them: the abstraction `absSt` of an `Index` state, the fact that the op-level quiescence
  invariant `Tr` of the abstraction IS the bookkeeping invariant `DefsTracked` of C06, and the
  corollary that closes C10's last sentence on the `Index` model: after ANY interleaving of scan
  visits and notifications (whose abstract state is tracked, by `C10_tracked_quiescent`), one
  further `analyze` of `f` leaves exactly that version's definitions for `f`.
-/
import PLS.Props.C10
import PLS.Props.C06
namespace PLS
namespace Bridge10
open Conc10

/-- the abstract state of an index, for an encoding of file paths as numbers -/
def absSt (enc : Path → Nat) (st : Index) : St :=
  { d := fun k =>
      let l := (st.defs.filter (fun d => d.name == k)).map (fun d => (⟨enc d.file, d.line⟩ : Ent))
      if l.isEmpty then none else some l,
    fd := fun n => (st.fileDefs.find? (fun p => enc p.1 == n)).map (·.2) }

theorem mem_ents_abs (enc : Path → Nat) (st : Index) (d : Def) (hd : d ∈ st.defs) :
    (⟨enc d.file, d.line⟩ : Ent) ∈ ents (absSt enc st).d d.name := by
  unfold ents absSt
  simp only
  have hmem : (⟨enc d.file, d.line⟩ : Ent) ∈
      (st.defs.filter (fun x => x.name == d.name)).map (fun x => (⟨enc x.file, x.line⟩ : Ent)) :=
    List.mem_map.mpr ⟨d, List.mem_filter.mpr ⟨hd, by simp⟩, rfl⟩
  split
  · rename_i hemp
    rw [List.isEmpty_iff] at hemp
    rw [hemp] at hmem; cases hmem
  · simpa using hmem

/-- **the op-level invariant is C06's bookkeeping invariant** -/
theorem tracked_of_Tr (enc : Path → Nat) (hinj : ∀ a b, enc a = enc b → a = b) (st : Index)
    (h : Tr (absSt enc st)) : DefsTracked st := by
  intro d hd
  have hk := h d.name ⟨enc d.file, d.line⟩ (mem_ents_abs enc st d hd)
  simp only [names, absSt] at hk
  cases hf : st.fileDefs.find? (fun p => enc p.1 == enc d.file) with
  | none => rw [hf] at hk; simp at hk
  | some p =>
    rw [hf] at hk
    simp only [Option.map_some, Option.getD_some] at hk
    refine ⟨p.2, ?_, hk⟩
    unfold alookup
    have hsame : (fun (q : Path × List String) => q.1 == d.file) = (fun q => enc q.1 == enc d.file) := by
      funext q
      by_cases hq : q.1 = d.file
      · rw [hq]; simp
      · have hne : enc q.1 ≠ enc d.file := fun e => hq (hinj _ _ e)
        have h1 : (q.1 == d.file) = false := by simpa using hq
        have h2 : (enc q.1 == enc d.file) = false := by simpa using hne
        rw [h1, h2]
    rw [hsame, hf]
    rfl

/-- **C10 on the `Index` model.** If the abstract state of the index is tracked — which
    `C10_tracked_quiescent` proves of every state that scan visits and notifications can leave
    behind under any schedule — then one further notification for `f` with a valid version leaves
    in `definitions`: every other file's entries untouched and in order, followed by exactly that
    version's definitions. -/
theorem C10_one_more_change_on_index (enc : Path → Nat) (hinj : ∀ a b, enc a = enc b → a = b)
    (pfx : Path) (st : Index) (f : Path) (v : Version) (fr : FileRec) (hv : v.parsed = some fr)
    (h : Tr (absSt enc st)) :
    (Index.analyze pfx true st f v).1.defs =
      st.defs.filter (fun d => d.file != f) ++ (eventDefs fr.events).map (stampDef pfx st f) :=
  C06_defs_after_analyze pfx st f v fr hv (tracked_of_Tr enc hinj st h)

end Bridge10
end PLS
