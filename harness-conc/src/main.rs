//! plsvc — concurrency harness (C09, C10, C12).
//!
//! Runs the real `FixtureDatabase` on worker threads under the cooperative scheduler of the
//! instrumented dashmap (`vendor/dashmap/src/verif.rs`): one worker runs at a time and stops
//! before every blocking shard-lock acquisition; the schedule is an input.  Also records, for
//! single operations, the map-operation program and the lock nestings they perform.
//!
//! Input (file given as argv[2] of `plsvc run <file>`), one directive per line:
//!   scenario <name>
//!   text <tid> <hex>
//!   disk <rel> <tid>                      write a file below the workspace root
//!   setup <op…>                           sequential operations before the concurrent part
//!   thread <n> <op…> [; <op…>]*           operations of worker n (n >= 1)
//!   after <op…>                           sequential operations after the concurrent part
//!   run seq <n,n,…>                       workers one after the other in this order
//!   run script <n:k,n:k,…>                worker n runs until it has passed k interesting yield
//!                                         points, then the next segment; leftovers run in id order
//!   run rand <seed> <permille>            at every interesting yield point switch with this probability
//!   probe <op…>                           one operation alone on a traced thread: op program + lock nestings
//!   end
//! ops: analyze <rel> <tid> | fresh <rel> <tid> | close <rel> | goto <rel> <line> <col> | refs <name> |
//!      avail <rel> | cycles | cyclesin <rel> | mismatch <rel> | unused | imported <rel> | undeclared <rel> |
//!      ctx <rel> <line> <col> | scan | defat <rel> <line> <name>
use dashmap::verif::{self, Ev};
use pytest_language_server::FixtureDatabase;
use std::collections::{BTreeMap, BTreeSet, HashMap};
use std::io::{BufRead, Write};
use std::path::{Path, PathBuf};
use std::sync::Arc;

fn unhex(s: &str) -> Vec<u8> {
    if s == "-" {
        return vec![];
    }
    (0..s.len() / 2).map(|i| u8::from_str_radix(&s[2 * i..2 * i + 2], 16).unwrap_or(b'?')).collect()
}

#[derive(Clone, Debug)]
struct Op(Vec<String>);

#[derive(Default, Clone)]
struct Scenario {
    name: String,
    texts: HashMap<String, String>,
    disk: Vec<(String, String)>,
    setup: Vec<Op>,
    threads: BTreeMap<u32, Vec<Op>>,
    after: Vec<Op>,
}

struct World {
    root: PathBuf,
    db: Arc<FixtureDatabase>,
    /// lock address -> map name
    lock_map: HashMap<usize, &'static str>,
    /// map id (first shard lock) -> name
    map_name: HashMap<usize, &'static str>,
}

const INTERESTING: &[&str] = &["definitions", "usage_by_fixture", "file_definitions", "usages", "undeclared", "imports", "file_cache"];

macro_rules! reg {
    ($w:expr, $db:expr, $($f:ident => $n:expr),*) => {
        $( for l in $db.$f.verif_lock_addrs() { $w.lock_map.insert(l, $n); }
           $w.map_name.insert($db.$f.verif_map_id(), $n); )*
    };
}

impl World {
    fn new(root: &Path) -> World {
        let db = Arc::new(FixtureDatabase::new());
        let mut w = World { root: root.to_path_buf(), db: db.clone(), lock_map: HashMap::new(), map_name: HashMap::new() };
        reg!(w, db,
            definitions => "definitions", file_definitions => "file_definitions", usages => "usages",
            usage_by_fixture => "usage_by_fixture", file_cache => "file_cache",
            undeclared_fixtures => "undeclared", imports => "imports",
            canonical_path_cache => "canonical_path_cache", line_index_cache => "line_index_cache",
            ast_cache => "ast_cache", cycle_cache => "cycle_cache",
            available_fixtures_cache => "available_fixtures_cache",
            imported_fixtures_cache => "imported_fixtures_cache", plugin_fixture_files => "plugin_fixture_files");
        w
    }
    fn abs(&self, rel: &str) -> PathBuf {
        if rel == "." { self.root.clone() } else { self.root.join(rel) }
    }
    fn rel(&self, p: &Path) -> String {
        match p.strip_prefix(&self.root) {
            Ok(r) => r.to_string_lossy().to_string(),
            Err(_) => format!("!{}", p.to_string_lossy()),
        }
    }
}

fn exec(w: &World, sc: &Scenario, op: &Op) -> String {
    let t: Vec<&str> = op.0.iter().map(|s| s.as_str()).collect();
    let db = &w.db;
    let txt = |tid: &str| sc.texts.get(tid).cloned().unwrap_or_default();
    match t[0] {
        "analyze" => { db.analyze_file(w.abs(t[1]), &txt(t[2])); "ok".into() }
        "fresh" => { db.verif_analyze_file_fresh(w.abs(t[1]), &txt(t[2])); "ok".into() }
        "close" => { db.cleanup_file_cache(&w.abs(t[1])); "ok".into() }
        "goto" => format!("{:?}", db.find_fixture_definition(&w.abs(t[1]), t[2].parse().unwrap(), t[3].parse().unwrap()).map(|d| (w.rel(&d.file_path), d.line))),
        "refs" => format!("{}", db.find_fixture_references(t[1]).len()),
        "defat" => match db.get_definition_at_line(&w.abs(t[1]), t[2].parse().unwrap(), t[3]) {
            Some(d) => format!("{}", db.find_references_for_definition(&d).len()),
            None => "none".into(),
        },
        "avail" => format!("{}", db.get_available_fixtures(&w.abs(t[1])).len()),
        "cycles" => format!("{}", db.detect_fixture_cycles().len()),
        "cyclesin" => format!("{}", db.detect_fixture_cycles_in_file(&w.abs(t[1])).len()),
        "mismatch" => format!("{}", db.detect_scope_mismatches_in_file(&w.abs(t[1])).len()),
        "unused" => format!("{}", db.get_unused_fixtures().len()),
        "imported" => { let mut v = std::collections::HashSet::new(); format!("{}", db.get_imported_fixtures(&w.abs(t[1]), &mut v).len()) }
        "undeclared" => format!("{}", db.get_undeclared_fixtures(&w.abs(t[1])).len()),
        "ctx" => format!("{}", db.get_completion_context(&w.abs(t[1]), t[2].parse().unwrap(), t[3].parse().unwrap()).is_some()),
        "scan" => { db.scan_workspace(&w.root); "ok".into() }
        _ => format!("BADOP {}", t[0]),
    }
}

/// the index in a canonical, order-preserving rendering: per key the vector as it stands
fn dump(w: &World) -> String {
    let db = &w.db;
    let mut defs: Vec<String> = vec![];
    for e in db.definitions.iter() {
        let v: Vec<String> = e.value().iter().map(|d| format!("{}:{}:{}", w.rel(&d.file_path), d.line, d.name)).collect();
        defs.push(format!("{}=[{}]", e.key(), v.join(",")));
    }
    defs.sort();
    let mut fd: Vec<String> = vec![];
    for e in db.file_definitions.iter() {
        let mut n: Vec<String> = e.value().iter().cloned().collect();
        n.sort();
        fd.push(format!("{}=[{}]", w.rel(e.key()), n.join(",")));
    }
    fd.sort();
    let mut us: Vec<String> = vec![];
    for e in db.usages.iter() {
        let v: Vec<String> = e.value().iter().map(|u| format!("{}:{}:{}:{}", w.rel(&u.file_path), u.line, u.start_char, u.name)).collect();
        us.push(format!("{}=[{}]", w.rel(e.key()), v.join(",")));
    }
    us.sort();
    let mut ubf: Vec<String> = vec![];
    for e in db.usage_by_fixture.iter() {
        let v: Vec<String> = e.value().iter().map(|(p, u)| format!("{}:{}:{}:{}", w.rel(p), u.line, u.start_char, u.name)).collect();
        ubf.push(format!("{}=[{}]", e.key(), v.join(",")));
    }
    ubf.sort();
    let mut ud: Vec<String> = vec![];
    for e in db.undeclared_fixtures.iter() {
        let v: Vec<String> = e.value().iter().map(|u| format!("{}:{}:{}", u.line, u.start_char, u.name)).collect();
        ud.push(format!("{}=[{}]", w.rel(e.key()), v.join(",")));
    }
    ud.sort();
    let mut im: Vec<String> = vec![];
    for e in db.imports.iter() {
        let mut n: Vec<String> = e.value().iter().cloned().collect();
        n.sort();
        im.push(format!("{}=[{}]", w.rel(e.key()), n.join(",")));
    }
    im.sort();
    let mut fc: Vec<String> = db.file_cache.iter().map(|e| {
        use std::hash::{Hash, Hasher};
        let mut h = std::collections::hash_map::DefaultHasher::new();
        e.value().hash(&mut h);
        format!("{}#{:x}", w.rel(e.key()), h.finish() & 0xffffff)
    }).collect();
    fc.sort();
    format!("defs={{{}}} fdefs={{{}}} usages={{{}}} ubf={{{}}} undeclared={{{}}} imports={{{}}} cache={{{}}}",
        defs.join(";"), fd.join(";"), us.join(";"), ubf.join(";"), ud.join(";"), im.join(";"), fc.join(";"))
}

fn build_world(base: &Path, sc: &Scenario) -> World {
    let root = base.join(&sc.name).join("ws");
    let w = World::new(&root);
    for op in &sc.setup {
        exec(&w, sc, op);
    }
    w
}

fn write_disk(base: &Path, sc: &Scenario) {
    let root = base.join(&sc.name).join("ws");
    let _ = std::fs::remove_dir_all(base.join(&sc.name));
    std::fs::create_dir_all(&root).unwrap();
    for (rel, tid) in &sc.disk {
        let p = root.join(rel);
        if let Some(d) = p.parent() {
            std::fs::create_dir_all(d).unwrap();
        }
        std::fs::write(&p, sc.texts.get(tid).cloned().unwrap_or_default()).unwrap();
    }
}

enum Policy {
    Seq(Vec<u32>),
    Script(Vec<(u32, usize)>),
    Rand(u64, u64),
}

struct Lcg(u64);
impl Lcg {
    fn next(&mut self) -> u64 {
        self.0 = self.0.wrapping_mul(6364136223846793005).wrapping_add(1442695040888963407);
        self.0 >> 33
    }
}

/// run the workers under the given policy; returns (status, schedule at interesting points, per-worker interesting counts)
fn controlled(w: &World, sc: &Scenario, policy: Policy) -> (String, Vec<u32>, BTreeMap<u32, usize>, Vec<String>, Vec<Ev>) {
    let tids: Vec<u32> = sc.threads.keys().copied().collect();
    let names = key_names(w, sc, None);
    verif::start_trace();
    verif::sched_reset(&tids);
    let mut handles = vec![];
    for (&tid, ops) in &sc.threads {
        let db = w.db.clone();
        let wl = World { root: w.root.clone(), db, lock_map: HashMap::new(), map_name: HashMap::new() };
        let scc = sc.clone();
        let ops = ops.clone();
        handles.push(std::thread::spawn(move || {
            verif::thread_begin(tid);
            let r = std::panic::catch_unwind(std::panic::AssertUnwindSafe(|| {
                for op in &ops {
                    exec(&wl, &scc, op);
                }
            }));
            verif::thread_end();
            r.is_ok()
        }));
    }
    let mut sched: Vec<u32> = vec![];
    let mut counts: BTreeMap<u32, usize> = tids.iter().map(|t| (*t, 0)).collect();
    let mut status = "ok".to_string();
    let mut cur: Option<u32> = None;
    let mut seg = 0usize;
    let mut rng = Lcg(match &policy { Policy::Rand(s, _) => *s ^ 0x9e3779b97f4a7c15, _ => 1 });
    loop {
        let parked = match verif::controller_wait(20000) {
            Some(p) => p,
            None => { status = "timeout".into(); break; }
        };
        if parked.is_empty() {
            break;
        }
        let able: Vec<u32> = parked.iter().filter(|p| p.grantable).map(|p| p.tid).collect();
        if able.is_empty() {
            let desc: Vec<String> = parked.iter().map(|p| {
                let (l, wr) = p.want.unwrap_or((0, false));
                let hs: Vec<String> = verif::holds_of(p.tid).iter().map(|(hl, hw)| format!("{}:{}{}", w.lock_map.get(hl).copied().unwrap_or("?"), if *hw { "W" } else { "R" }, if *hl == l { "(same-shard)" } else { "" })).collect();
                format!("t{}:wants:{}:{}:holding:{}", p.tid, w.lock_map.get(&l).copied().unwrap_or("?"), if wr { "W" } else { "R" }, if hs.is_empty() { "-".to_string() } else { hs.join("+") })
            }).collect();
            status = format!("deadlock[{}]", desc.join(","));
            break;
        }
        let interesting = |t: u32| -> bool {
            parked.iter().find(|p| p.tid == t).map(|p| match p.want {
                None => true,
                Some((l, _)) => w.lock_map.get(&l).map(|n| INTERESTING.contains(n)).unwrap_or(false),
            }).unwrap_or(false)
        };
        // the worker that was running stays unless it is at an interesting point (or cannot continue)
        let stay = cur.filter(|c| able.contains(c) && !interesting(*c));
        let pick = if let Some(c) = stay { c } else {
            if let Some(c) = cur { if parked.iter().any(|p| p.tid == c) { *counts.get_mut(&c).unwrap() += 1; } }
            match &policy {
                Policy::Seq(order) => *order.iter().find(|t| able.contains(t)).unwrap_or(&able[0]),
                Policy::Script(segs) => {
                    while seg < segs.len() {
                        let (t, k) = segs[seg];
                        let alive = parked.iter().any(|p| p.tid == t);
                        if !alive || counts[&t] >= k { seg += 1; } else { break; }
                    }
                    let want = if seg < segs.len() { Some(segs[seg].0) } else { None };
                    match want {
                        Some(t) if able.contains(&t) => t,
                        _ => able[0],
                    }
                }
                Policy::Rand(_, pm) => {
                    let keep = cur.filter(|c| able.contains(c));
                    match keep {
                        Some(c) if rng.next() % 1000 >= *pm => c,
                        _ => able[(rng.next() % able.len() as u64) as usize],
                    }
                }
            }
        };
        if sched.last() != Some(&pick) || interesting(pick) {
            sched.push(pick);
        }
        cur = Some(pick);
        verif::grant(pick);
    }
    if status == "ok" { verif::sched_off(); } else { verif::abandon(); }
    if status == "ok" {
        for h in handles {
            if !h.join().unwrap_or(false) {
                status = "panic".into();
            }
        }
    }
    // on deadlock / timeout the workers stay parked for ever; they are leaked on purpose
    let log = verif::stop_trace();
    let ops = op_list(w, &names, &log, true);
    (status, sched, counts, ops, log)
}

fn ident_tokens(sc: &Scenario) -> BTreeSet<String> {
    let mut out = BTreeSet::new();
    for t in sc.texts.values() {
        let mut cur = String::new();
        for ch in t.chars() {
            if ch.is_alphanumeric() || ch == '_' { cur.push(ch); } else if !cur.is_empty() { out.insert(std::mem::take(&mut cur)); }
        }
        if !cur.is_empty() { out.insert(cur); }
    }
    out
}

/// (map id, key hash) -> readable key, for every identifier of the scenario's texts and every path
fn key_names(w: &World, sc: &Scenario, extra: Option<&Op>) -> HashMap<(usize, u64), String> {
    let mut names: HashMap<(usize, u64), String> = HashMap::new();
    let toks = ident_tokens(sc);
    for t in &toks {
        names.insert((w.db.definitions.verif_map_id(), w.db.definitions.verif_key_hash(t.as_str())), t.clone());
        names.insert((w.db.usage_by_fixture.verif_map_id(), w.db.usage_by_fixture.verif_key_hash(t.as_str())), t.clone());
    }
    let mut paths: Vec<PathBuf> = sc.disk.iter().map(|(r, _)| w.abs(r)).collect();
    for o in sc.setup.iter().chain(sc.after.iter()).chain(sc.threads.values().flatten()).chain(extra.into_iter()) {
        if o.0.len() > 1 && (o.0[0] == "analyze" || o.0[0] == "fresh") { paths.push(w.abs(&o.0[1])); }
    }
    macro_rules! pk { ($($f:ident),*) => { $( for p in &paths { names.insert((w.db.$f.verif_map_id(), w.db.$f.verif_key_hash(p)), w.rel(p)); } )* } }
    pk!(file_definitions, usages, undeclared_fixtures, imports, file_cache);
    names
}

/// the recorded map operations on the interesting maps, in global order
fn op_list(w: &World, names: &HashMap<(usize, u64), String>, log: &[Ev], with_tid: bool) -> Vec<String> {
    let mut prog = vec![];
    for e in log {
        if let Ev::Op { tid, map, name, hash } = e {
            let m = w.map_name.get(map).copied().unwrap_or("?");
            if INTERESTING.contains(&m) {
                let k = if *hash == 0 && (*name == "iter" || *name == "iter_mut" || *name == "retain" || *name == "len") { "*".to_string() }
                        else { names.get(&(*map, *hash)).cloned().unwrap_or_else(|| "?".into()) };
                if with_tid { prog.push(format!("{}:{}.{}({})", tid, m, name, k)); } else { prog.push(format!("{}.{}({})", m, name, k)); }
            }
        }
    }
    prog
}

/// one operation alone, on a worker under the scheduler (so that a request the worker's own guards
/// block is reported as a deadlock instead of hanging): its map-operation program and lock nestings
fn probe(w: &World, sc: &Scenario, op: &Op) -> String {
    let names = key_names(w, sc, Some(op));
    let mut one = sc.clone();
    one.threads = BTreeMap::new();
    one.threads.insert(77, vec![op.clone()]);
    let (status, _sched, _counts, _ops, log) = controlled(w, &one, Policy::Seq(vec![77]));
    let ok = status == "ok";
    let prog = op_list(w, &names, &log, false);
    let mut nest: BTreeSet<String> = BTreeSet::new();
    let mut nlock = 0usize;
    for e in &log {
        if let Ev::Want { lock, write, holds, .. } = e {
            nlock += 1;
            if !holds.is_empty() {
                let hs: BTreeSet<String> = holds.iter().map(|(l, wr)| format!("{}:{}", w.lock_map.get(l).copied().unwrap_or("?"), if *wr { "W" } else { "R" })).collect();
                let same = holds.iter().any(|(l, _)| l == lock);
                nest.insert(format!("{}>{}:{}{}", hs.into_iter().collect::<Vec<_>>().join("+"),
                    w.lock_map.get(lock).copied().unwrap_or("?"), if *write { "W" } else { "R" }, if same { "!same-shard" } else { "" }));
            }
        }
    }
    let _ = ok;
    format!("status={} locks={} prog=[{}] nest=[{}]", status, nlock, prog.join(" "), nest.into_iter().collect::<Vec<_>>().join(" "))
}

fn main() {
    let args: Vec<String> = std::env::args().collect();
    if args.len() < 3 || args[1] != "run" {
        eprintln!("usage: plsvc run <file>");
        std::process::exit(2);
    }
    let base = PathBuf::from(format!("/dev/shm/plsvc-{}", std::process::id()));
    let f = std::io::BufReader::new(std::fs::File::open(&args[2]).expect("open"));
    let out = std::io::stdout();
    let mut sc = Scenario::default();
    let mut disk_written = false;
    let mut n = 0usize;
    let parse_ops = |toks: &[&str]| -> Vec<Op> {
        toks.split(|t| *t == ";").filter(|s| !s.is_empty()).map(|s| Op(s.iter().map(|x| x.to_string()).collect())).collect()
    };
    for line in f.lines() {
        let line = line.unwrap();
        let t: Vec<&str> = line.split_whitespace().collect();
        if t.is_empty() || t[0].starts_with('#') { continue; }
        match t[0] {
            "scenario" => { sc = Scenario::default(); sc.name = t[1].to_string(); disk_written = false; }
            "text" => { sc.texts.insert(t[1].to_string(), String::from_utf8_lossy(&unhex(t.get(2).copied().unwrap_or("-"))).to_string()); }
            "disk" => sc.disk.push((t[1].to_string(), t[2].to_string())),
            "setup" => sc.setup.extend(parse_ops(&t[1..])),
            "thread" => { let id: u32 = t[1].parse().unwrap(); sc.threads.entry(id).or_default().extend(parse_ops(&t[2..])); }
            "after" => sc.after.extend(parse_ops(&t[1..])),
            "run" | "probe" => {
                if !disk_written { write_disk(&base, &sc); disk_written = true; }
                n += 1;
                let w = build_world(&base, &sc);
                let res = if t[0] == "probe" {
                    probe(&w, &sc, &Op(t[1..].iter().map(|x| x.to_string()).collect()))
                } else {
                    let policy = match t[1] {
                        "pre" => Policy::Seq(vec![]),
                        "seq" => Policy::Seq(t[2].split(',').map(|x| x.parse().unwrap()).collect()),
                        "script" => Policy::Script(t[2].split(',').filter(|x| !x.is_empty()).map(|x| { let (a, b) = x.split_once(':').unwrap(); (a.parse().unwrap(), b.parse().unwrap()) }).collect()),
                        _ => Policy::Rand(t[2].parse().unwrap(), t.get(3).map(|x| x.parse().unwrap()).unwrap_or(300)),
                    };
                    let (status, sched, counts, ops, _log) = if t[1] == "pre" { ("ok".to_string(), vec![], BTreeMap::new(), vec![], vec![]) } else { controlled(&w, &sc, policy) };
                    let ops: Vec<String> = ops.into_iter().filter(|o| !o.contains(".len(")).collect();
                    let d1 = if status == "ok" { dump(&w) } else { "-".into() };
                    let d2 = if status == "ok" && !sc.after.is_empty() {
                        for op in &sc.after { exec(&w, &sc, op); }
                        dump(&w)
                    } else { "-".into() };
                    format!("status={} sched={} steps={} ops=[{}] dump={} after={}", status,
                        sched.iter().map(|x| x.to_string()).collect::<Vec<_>>().join(""),
                        counts.iter().map(|(k, v)| format!("{}:{}", k, v)).collect::<Vec<_>>().join(","), ops.join(" "), d1, d2)
                };
                let mut o = out.lock();
                writeln!(o, "R {} {} {} :: {}", sc.name, n, t[1..].join(" "), res).unwrap();
                o.flush().unwrap();
            }
            "end" => { let _ = std::fs::remove_dir_all(base.join(&sc.name)); }
            _ => {}
        }
    }
    let _ = std::fs::remove_dir_all(&base);
}
