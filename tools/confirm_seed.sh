#!/bin/sh
# confirm_seed.sh <name> <worktree> <outdir>
# Independently confirm a seeded change in a scratch worktree: (1) demo passes without the patch,
# (2) with the patch: builds, demo FAILS, the existing suite passes unedited. Writes confirm.log.
name="$1"; wt="$2"; out="$3"
export CARGO_NET_OFFLINE=true
cd "$wt" || exit 2
git checkout -q -- . ; rm -f tests/seeded_demo.rs
log="$out/confirm.log"; : > "$log"
cp "$out/seeded_demo.rs" tests/seeded_demo.rs
echo "== demo on original" >> "$log"
cargo test --offline --test seeded_demo >> "$log" 2>&1; r0=$?
git apply "$out/patch.diff" || { echo "patch does not apply" >> "$log"; exit 3; }
echo "== demo with patch" >> "$log"
cargo test --offline --test seeded_demo >> "$log" 2>&1; r1=$?
rm -f tests/seeded_demo.rs
echo "== suite with patch" >> "$log"
cargo test --workspace --no-fail-fast --offline >> "$log" 2>&1; r2=$?
git checkout -q -- . 
echo "RESULT name=$name demo_on_original_rc=$r0 demo_with_patch_rc=$r1 suite_with_patch_rc=$r2" | tee -a "$log"
