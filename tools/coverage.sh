#!/bin/sh
# Maintenance tool (not a registered check): which lines of the repository's library and providers do the
# quick checks execute?  Builds coverage-instrumented copies of the harness and the server with the nightly
# toolchain into .build/target-cov, runs every quick check against them, and prints per-file line coverage
# plus the uncovered regions of the modelled files.  Evidence files are restored afterwards.
set -e
cd /verif
NB=$HOME/.rustup/toolchains/nightly-x86_64-unknown-linux-gnu/lib/rustlib/x86_64-unknown-linux-gnu/bin
export CARGO_NET_OFFLINE=true
T=/verif/.build/target-cov
mkdir -p .build/cov-build
export LLVM_PROFILE_FILE=/verif/.build/cov-build/b-%p-%m.profraw   # build scripts and proc macros are instrumented too: keep their profiles out of /repo
(cd harness && RUSTFLAGS="-C instrument-coverage" CARGO_TARGET_DIR=$T cargo +nightly build --offline 2>&1 | tail -1)
RUSTFLAGS="-C instrument-coverage" CARGO_TARGET_DIR=$T cargo +nightly build --offline --bin pytest-language-server --manifest-path /repo/Cargo.toml 2>&1 | tail -1
rm -rf .build/cov .build/cov-build; mkdir -p .build/cov
export PLSV_BIN_OVERRIDE=$T/debug/plsv PLSV_SERVER_OVERRIDE=$T/debug/pytest-language-server
export LLVM_PROFILE_FILE=/verif/.build/cov/p-%p-%m.profraw
for p in ${@:-C01 C02 C03 C04 C05 C06 C07 C08 C11 C13 C14 C15 C16 C17 C18 C19 C20}; do ./check $p quick > /dev/null 2>&1 || echo "$p rc=$?"; done
git checkout -- evidence
$NB/llvm-profdata merge -sparse .build/cov/*.profraw -o .build/cov/all.profdata
$NB/llvm-cov report --instr-profile .build/cov/all.profdata $T/debug/plsv -object $T/debug/pytest-language-server /repo/src 2>/dev/null | grep -v "^-" | awk '{print $1, $(NF-3), $(NF-2), $(NF-1)}' | column -t
