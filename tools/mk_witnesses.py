#!/usr/bin/env python3
"""Writes the corpus witnesses of the known findings (one minimal input per finding).

The files are committed; this script only documents how they were produced and lets them be
regenerated.  Each `.case` file replays with `./check <Cxx> quick --replay <file>` (implementation,
model and spec answers side by side); `.lsp.txt` witnesses describe a stdio session (the handlers
exist only in the server binary)."""
import os, sys
HERE = os.path.dirname(os.path.abspath(__file__))
sys.path.insert(0, HERE)
from plsv import core

FX = "import pytest\n\n@pytest.fixture\ndef {0}({1}):\n    return 1\n"


def write(prop, name, comment, files, ops, queries, order=None, pre=()):
    c = core.Cases()
    c.case(name, {})
    for line in pre:
        c.raw(line)
    tid = {}
    for i, (p, t) in enumerate(files.items()):
        tid[p] = "t%d" % i
        c.text(tid[p], t)
        c.raw("disk %s %s" % (p, tid[p]))
    extra = {}
    for op in ops:
        if op[0] == "text":          # ("text", id, content): a further version of a document
            extra[op[1]] = op[2]; c.text(op[1], op[2]); continue
        c.op(*[tid.get(x, x) if j == 2 and op[0] in ("analyze", "fresh") and x in tid else x for j, x in enumerate(op)])
    for q in queries:
        c.q(*q)
    d = os.path.join(core.VERIF, "corpus", prop)
    os.makedirs(d, exist_ok=True)
    path = os.path.join(d, name + ".case")
    with open(path, "w") as f:
        f.write("".join("# %s\n" % l for l in comment.split("\n")) + c.replay_text(name))
    print("wrote", path)


def analyze_all(files, order=None):
    return [("analyze", p, p) for p in (order or files)]


def main():
    # ---- C02 E1b (outward resolution through an aliased import) / C14 E1 (copy of the C01 witness)
    files = {"conftest.py": FX.format("foo", ""), "a/fx.py": FX.format("foo", ""), "a/conftest.py": "from .fx import foo as foo_alias\n",
             "a/test_a.py": "import pytest\n\n@pytest.fixture\ndef foo(foo):\n    return foo\n"}
    write("C02", "e1b_alias_outward", "E1b for the self-named parameter: a/test_a.py overrides `foo` and requests the outer `foo`; a/conftest.py imports\n`foo` under an alias, which the import test looks up under the alias",
          files, analyze_all(files, ["a/fx.py", "conftest.py", "a/conftest.py", "a/test_a.py"]), [("goto", "a/test_a.py", "3", "8"), ("goto", "a/test_a.py", "3", "4")])
    import shutil
    os.makedirs(os.path.join(core.VERIF, "corpus", "C14"), exist_ok=True)
    shutil.copy(os.path.join(core.VERIF, "corpus", "C01", "e1_sibling_first.case"), os.path.join(core.VERIF, "corpus", "C14", "e1_sibling_first.case"))
    # ---- C16 / C08
    files = {"conftest.py": FX.format("foo", ""), "a/conftest.py": FX.format("foo", "foo"), "a/test_a.py": "def test_a(foo):\n    pass\n"}
    write("C16", "e4_override_cycle", "E4: a/conftest.py overrides `foo` and requests the parent's `foo` (legal in pytest); when the override is registered first\nthe name-level graph has the self loop foo -> foo and a circular dependency is reported (registered second: nothing)",
          files, analyze_all(files, ["a/conftest.py", "conftest.py", "a/test_a.py"]), [("cycles",), ("cyclesin", "a/conftest.py"), ("cyclesin", "conftest.py")])
    files = {"b/conftest.py": "import pytest\n\n@pytest.fixture\ndef dep():\n    return 1\n",
             "conftest.py": "import pytest\n\n@pytest.fixture(scope=\"session\")\ndef dep():\n    return 1\n\n@pytest.fixture(scope=\"session\")\ndef user(dep):\n    return dep\n"}
    write("C16", "e14_scope_first", "E14: `user` (session) depends on `dep`; from conftest.py `dep` is the session-scoped one of the same file,\nbut the scope check looks at the first registered definition of the NAME — the function-scoped `dep` of the\nsibling b/conftest.py, invisible from here — and reports a scope mismatch",
          files, analyze_all(files), [("mismatch", "conftest.py"), ("resolve", "conftest.py", "dep")])
    files = {"conftest.py": "import pytest\n\n@pytest.fixture\ndef a(b):\n    return 1\n\n@pytest.fixture\ndef b(a):\n    return 1\n"}
    write("C16", "root_order", "root order: the cycle a -> b -> a is reported once, as `a>b>a` or as `b>a>b` (anchored at a or at b)\ndepending on the HashMap iteration order of the roots — two processes can disagree",
          files, analyze_all(files), [("cycles",), ("cyclesin", "conftest.py")])
    # ---- C06 E19
    files = {"fx.py": FX.format("foo", ""), "conftest.py": "from .fx import *\n", "test_a.py": "def test_a(foo):\n    pass\n"}
    write("C06", "e19_broken_conftest", "E19: while conftest.py is syntactically invalid its star import stops counting:\n`foo` disappears from the fixtures available to test_a.py although the last valid content still imports it",
          files, analyze_all(files) + [("text", "broken", "from .fx import *\ndef broken(:\n"), ("analyze", "conftest.py", "broken")],
          [("avail", "test_a.py"), ("goto", "test_a.py", "0", "11")])
    # ---- C07 E11 / E12
    files = {"fx.py": FX.format("foo", ""), "conftest.py": "from .fx import *\n", "test_a.py": "def test_a(foo):\n    pass\n"}
    write("C07", "e11_close_conftest", "E11: opening and closing the unmodified conftest.py removes it from file_cache; its imports are then\nread as empty and `foo` is no longer offered for test_a.py",
          files, analyze_all(files) + [("close", "conftest.py")], [("avail", "test_a.py")])
    files = {"m1.py": "from .m2 import *\n" + FX.format("f1", ""), "m2.py": "from .m1 import *\n" + FX.format("f2", ""), "conftest.py": "from .m1 import *\n"}
    write("C07", "e12_mutual_imports", "E12: m1 and m2 star-import each other; the set answered for m2 depends on whether m1 was asked first\n(a set truncated by the `visited` guard is memoised)",
          files, analyze_all(files), [("imported", "m1.py"), ("imported", "m2.py"), ("imported", "conftest.py")])
    # ---- C03
    files = {"conftest.py": FX.format("foo", ""), "test_a.py": "def test_a(foo=1):\n    pass\n"}
    write("C03", "default_param", "a parameter with a default value is never a fixture request in pytest; it is recorded as a usage of `foo`",
          files, analyze_all(files), [("usages", "test_a.py"), ("refsname", "foo")])
    files = {"conftest.py": "import pytest\nfrom typing import AsyncGenerator\n\n@pytest.fixture\ndef res():\n    x = yield 1\n\n"
                            "@pytest.fixture\nasync def conn() -> AsyncGenerator[int, None]:\n    async with open_it() as r:\n        yield r\n"}
    write("C03", "async_with_yield", "`res` yields through `x = yield 1`: neither visitor looks inside an assignment, no yield line is recorded;\n`conn` yields inside `async with`: find_yield_line sees it, contains_yield does not, so the declared\nAsyncGenerator[int, None] is not unwrapped to `int`",
          files, analyze_all(files), [("defs", "conftest.py")])
    # ---- C15
    files = {"conftest.py": FX.format("foo", ""), "test_a.py": "def test_\u00e9(\u00e9=1, foo=None): pass\n\ndef test_b(\u00e4, foo):\n    pass\n"}
    write("C15", "e13_non_ascii", "E13: columns are UTF-8 byte offsets: after `\u00e4` (2 bytes, 1 UTF-16 unit) the span of `foo` on line 3 is one too far right",
          files, analyze_all(files), [("usages", "test_a.py"), ("goto", "test_a.py", "2", "14"), ("goto", "test_a.py", "2", "15")])
    files = {"conftest.py": FX.format("foo", ""), "test_a.py": "import pytest\n\n@pytest.mark.usefixtures(r\"foo\")\ndef test_a():\n    pass\n\n@pytest.mark.usefixtures(\"\"\"foo\"\"\")\ndef test_b():\n    pass\n"}
    write("C15", "e13b_string_forms", "E13b: the span of a usefixtures string is `start + 1 .. start + 1 + len(name)`: wrong for r\"foo\" and \"\"\"foo\"\"\"",
          files, analyze_all(files), [("usages", "test_a.py")])
    files = {"conftest.py": FX.format("foo", "") + "\n@pytest.fixture\ndef bar():\n    return 2\n",
             "test_a.py": "import pytest\n\n@pytest.mark.parametrize(\"foo,bar\", [(1, 2)], indirect=True)\ndef test_a(foo, bar):\n    pass\n"}
    write("C15", "indirect_span", "indirect=True with two argnames in one string: both usages get the span of the whole string",
          files, analyze_all(files), [("usages", "test_a.py")])
    files = {"conftest.py": FX.format("foo", ""), "test_a.py": "import pytest\n\n@pytest.mark.usefixtures(\"\"\"\nfoo\"\"\")\ndef test_a():\n    pass\n"}
    write("C15", "multiline_string", "a usefixtures string literal continuing on the next line: the end column comes from the first line's arithmetic",
          files, analyze_all(files), [("usages", "test_a.py")])
    files = {"conftest.py": "import pytest\n\n@pytest.fixture\ndef \\\n    foo():\n    return 1\n\n@pytest.fixture\ndef\te():\n    return 2\n"}
    write("C15", "def_search", "the name span of a definition is found by text search on the `def` line: with the name on a continuation line\n(`def \\` + newline + `foo():`) the span 0-3 covers the keyword `def`; with a tab after `def` the search for `e`\nlands on the `e` of `def`",
          files, analyze_all(files), [("defs", "conftest.py")])
    # ---- C18
    files = {"conftest.py": FX.format("foo", ""), "test_a.py": "import pytest\n\n@pytest.mark.parametrize(\"x\", [1, 2])\ndef test_a(x):\n    pass\n"}
    write("C18", "e18_parametrize", "E18: fixture names are offered on the line of a parametrize decorator that has no `indirect`",
          files, analyze_all(files), [("ctx", "test_a.py", "2", "30")])
    files = {"conftest.py": FX.format("foo", ""), "test_a.py": "import pytest\n\ndef helper():\n    @pytest.fixture\n    def inner():\n        return 1\n    return inner\n\nx = 1\n"}
    write("C18", "nested_fixture_def", "a valid document: the AST path finds no context on line 6 (a fixture nested in a plain function is not visited),\nthe text fallback then scans upwards, meets `@pytest.fixture` / `def inner` and offers completions",
          files, analyze_all(files), [("ctx", "test_a.py", "5", "8"), ("ctx", "test_a.py", "8", "0")])
    # ---- C17
    files = {"conftest.py": FX.format("foo", ""), "test_a.py": "def test_a():\n    foo = 1\n    print(foo)\n    foo = 2\n"}
    write("C17", "rebound_later", "`foo` is bound on line 2 and again on line 4: only the LAST binding line is remembered, so the use on line 3\nis treated as not yet bound and flagged",
          files, analyze_all(files), [("undeclared", "test_a.py")])
    files = {"conftest.py": FX.format("foo", ""), "test_a.py": "def test_a():\n    f(x=foo)\n    g(*foo)\n    y = foo if 1 else 2\n    z = 1 and foo\n"}
    write("C17", "forms_not_visited", "uses of the undeclared fixture `foo` under a keyword argument, a starred argument, a conditional expression and a\nboolean operator are not visited: no warning",
          files, analyze_all(files), [("undeclared", "test_a.py")])
    # ---- C13
    files = {"conftest.py": FX.format("foo", ""), "test_a.py": "def test_a(foo):\n    pass\n"}
    write("C13", "under_site_packages", "the workspace lives under a directory whose name contains `site-packages`: every fixture of the project is\nclassified third-party",
          files, [("scan",)], [("defs", "conftest.py")], pre=["prefix opt/my-site-packages-mirror/q"])
    # ---- stdio-only witnesses
    d = os.path.join(core.VERIF, "corpus")
    open(os.path.join(d, "C15", "e17_one_liner.lsp.txt"), "w").write(
        "E17 (stdio): document conftest.py =\n\nimport pytest\n\n@pytest.fixture\ndef foo(): return 1\n\n"
        "textDocument/documentSymbol -> the symbol `foo` has range 3:0-3:0 (a point) and selectionRange 3:4-3:7: the selection is\n"
        "outside the range (the protocol requires containment); same for every callHierarchy item.\n"
        "Reproduced by ./check C15 quick (stdio part), which compares with the Lean handler model hDocumentSymbols.\n")
    open(os.path.join(d, "C17", "e15_return_annotation.lsp.txt"), "w").write(
        "E15 (stdio): document test_a.py =\n\ndef test_a(x=(1, 2)) -> None:\n    foo()\n\n(conftest.py defines fixture foo)\n"
        "textDocument/codeAction for the undeclared-fixture diagnostic on line 1: the edit inserts `, foo` at the position found by\n"
        "searching the signature text for `)`: after the default value's own parenthesis the result is not valid Python.\n"
        "Reproduced by ./check C17 quick (quick-fix round trip over stdio, re-parsed with CPython).\n")
    print("stdio witnesses written")


main()
