#!/usr/bin/env python3
"""manifest_add.py <Cxx> <technique> <text> [<note-suffix>] — add or replace a check entry."""
import json, sys
pid, tech, text = sys.argv[1], sys.argv[2], sys.argv[3]
extra = sys.argv[4] if len(sys.argv) > 4 else ""
m = json.load(open('/verif/MANIFEST.json'))
note = ("trusted: Lean kernel + propext/Classical.choice/Quot.sound; hand-written model PLS.Model.* (fidelity checked by the "
        "differential correspondence on the generated inputs only); CPython ast bridge; harness, driver and differ. " + extra)
e = {"property_id": pid, "quick_cmd": f"./check {pid} quick", "thorough_cmd": f"./check {pid} thorough",
     "evidence_file": f"evidence/{pid}.json", "replay_cmd_template": f"./check {pid} quick --replay {{path}}",
     "engine": "lean-model", "level_claimed": {"category": "proof", "text": text, "design_ref": f"DESIGN.md §6 {pid}"},
     "level_note": note, "technique": tech}
m['checks'] = [c for c in m['checks'] if c['property_id'] != pid] + [e]
m['checks'].sort(key=lambda c: c['property_id'])
for en in m['engines']:
    en['serves_properties'] = sorted({c['property_id'] for c in m['checks']})
json.dump(m, open('/verif/MANIFEST.json', 'w'), indent=1, ensure_ascii=False)
print("ok", pid)
