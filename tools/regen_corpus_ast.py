#!/usr/bin/env python3
"""Re-derive the `ast` lines of corpus case files from their `text` lines (run after a change of
the CPython bridge tools/pyast.py).  Usage: regen_corpus_ast.py [files…] (default: corpus/*/*.case)"""
import binascii, glob, os, sys
HERE = os.path.dirname(os.path.abspath(__file__))
sys.path.insert(0, HERE)
from pyast import to_sexp

def regen(path):
    out, texts, changed = [], {}, 0
    for line in open(path, encoding="utf-8").read().split("\n"):
        t = line.split(" ", 2)
        if t[0] == "text" and len(t) == 3:
            try:
                texts[t[1]] = binascii.unhexlify(t[2]).decode("utf-8", "surrogatepass")
            except Exception:
                pass
        if t[0] == "ast" and len(t) == 3 and t[1] in texts:
            new = "ast %s %s" % (t[1], to_sexp(texts[t[1]]))
            if new != line:
                changed += 1
            line = new
        out.append(line)
    if changed:
        open(path, "w", encoding="utf-8").write("\n".join(out))
    return changed

if __name__ == "__main__":
    files = sys.argv[1:] or sorted(glob.glob(os.path.join(os.path.dirname(HERE), "corpus", "*", "*.case")))
    for f in files:
        n = regen(f)
        if n:
            print("%s: %d ast lines re-derived" % (f, n))
