#!/bin/sh
# seedtest.sh <seed-dir-name> <prop> [<prop>...] : apply a seeded change to /repo, run the quick checks, undo it.
seed="$1"; shift
cd /verif
git -C /repo diff --quiet || { echo "/repo has local changes; refusing"; exit 2; }
git -C /repo apply "/verif/seeded/$seed/patch.diff" || exit 3
if grep -q "negative control" "/verif/seeded/$seed/meta.json" 2>/dev/null; then echo "NOTE seed=$seed is a negative control: the checks must stay silent"; fi
for p in "$@"; do
  out=$(./check "$p" quick 2>&1); rc=$?
  v=$(echo "$out" | grep -c '^VIOLATION')
  echo "SEEDTEST seed=$seed check=$p rc=$rc violation_lines=$v :: $(echo "$out" | grep '^#' | head -1 | cut -c1-220)"
done
git -C /repo checkout -- .
# the evidence files written while the seed was applied describe the mutant, not the tree: restore them
git -C /verif checkout -- evidence 2>/dev/null
