"""Handler-level correspondence: the real server binary over stdio vs the Lean handler model.

A StdioCase is a workspace on disk plus a script of notifications and requests.  The same script is
(a) played to the server through tools/plsv/lsp.py and (b) written as case lines for the model
driver (`op scan`, `op analyze`, `q h_*`).  Both sides are canonicalised to the same one-line
renderings (see Driver/Main.lean `runH`)."""
import os, re, shutil, binascii
from . import core, lsp
from .pybuild import hx


def hexs(s):
    return hx(s) if s else "-"


def loc_str(c, uri, rng):
    f = c.rel(uri)
    s, e = rng["start"], rng["end"]
    if s["line"] == e["line"]:
        return f"{f}:{s['line']}:{s['character']}-{e['character']}"
    return f"{f}:{s['line']}:{s['character']}-{e['line']}:{e['character']}"


def listed(xs):
    return "[" + " ".join(xs) + "]" if xs else "[]"


def srt(xs):
    return listed(sorted(xs))


class StdioCase:
    def __init__(self, name, files, disabled=None, pyproject=None, scan_first=False):
        self.name = name
        # scan_first=False: the workspace is still empty when the server starts (its background scan
        # finds nothing); the files are written afterwards and every one of them is opened by the
        # script, so the registration order is the order of the didOpen notifications and nothing
        # depends on the scan's schedule
        self.scan_first = scan_first
        self.files = dict(files)          # rel path -> text (on disk before the server starts)
        self.steps = []
        self.disabled = disabled or []    # diagnostic codes the config disables (model side)
        self.pyproject = pyproject
        self.exclude = []                 # compilable exclude globs of the configuration (model side)
        self.meta = {}

    def open(self, path, text=None):
        self.steps.append(("open", path, self.files[path] if text is None else text))

    def change(self, path, text):
        self.steps.append(("change", path, text))

    def close(self, path):
        self.steps.append(("close", path))

    def req(self, kind, *args):
        self.steps.append(("req", kind) + tuple(args))


def ask(c, kind, args):
    """one request -> canonical string"""
    if kind in ("definition", "impl", "hover", "prepare", "references"):
        p, l, ch = args[0], int(args[1]), int(args[2])
        pos = c.pos(p, l, ch)
        if kind == "definition":
            r = c.request("textDocument/definition", pos)
            return "none" if not r else loc_str(c, r["uri"], r["range"])
        if kind == "impl":
            r = c.request("textDocument/implementation", pos)
            return "none" if not r else loc_str(c, r["uri"], r["range"])
        if kind == "hover":
            r = c.request("textDocument/hover", pos)
            return "none" if not r else hexs(r["contents"]["value"])
        if kind == "prepare":
            r = c.request("textDocument/prepareCallHierarchy", pos)
            if not r:
                return "none"
            i = r[0]
            return f"{i['name']}|{loc_str(c, i['uri'], i['range'])}|{loc_str(c, i['uri'], i['selectionRange'])}|{hexs(i.get('detail') or '')}"
        if kind == "references":
            r = c.request("textDocument/references", dict(pos, context={"includeDeclaration": True}))
            return "none" if r is None else srt([loc_str(c, x["uri"], x["range"]) for x in r])
    if kind == "symbols":
        r = c.request("textDocument/documentSymbol", {"textDocument": {"uri": c.uri(args[0])}})
        if not r:
            return "none"
        u = c.uri(args[0])
        out = []
        for s in r:
            rg, sel = s["range"], s["selectionRange"]
            out.append(f"{rg['start']['line']}|{s['name']}|{rg['start']['line']}:{rg['start']['character']}-{rg['end']['line']}:{rg['end']['character']}"
                       f"|{sel['start']['line']}:{sel['start']['character']}-{sel['end']['character']}|{hexs(s['detail']) if s.get('detail') is not None else 'none'}")
        return srt(out)
    if kind == "lens":
        r = c.request("textDocument/codeLens", {"textDocument": {"uri": c.uri(args[0])}})
        if not r:
            return "none"
        out = []
        for l in r:
            n = int(re.match(r"(\d+) usage", l["command"]["title"]).group(1))
            out.append(f"{l['range']['start']['line']}:{n}:{l['command']['arguments'][2]}")
        return srt(out)
    if kind in ("incoming", "outgoing"):
        p, name = args[0], args[1]
        item = {"name": name, "kind": 12, "uri": c.uri(p),
                "range": {"start": {"line": 0, "character": 0}, "end": {"line": 0, "character": 0}},
                "selectionRange": {"start": {"line": 0, "character": 0}, "end": {"line": 0, "character": 0}}}
        if kind == "incoming":
            r = c.request("callHierarchy/incomingCalls", {"item": item})
            if r is None:
                return "none"
            return srt([f"{x['from']['name']}|{loc_str(c, x['from']['uri'], x['from']['range'])}" for x in r])
        r = c.request("callHierarchy/outgoingCalls", {"item": item})
        if r is None:
            return "none"
        out = []
        for x in r:
            t = x["to"]
            fr = x["fromRanges"][0]
            out.append(f"{t['name']}|{loc_str(c, t['uri'], t['range'])}|{loc_str(c, t['uri'], t['selectionRange'])}|{hexs(t.get('detail') or '')}|{loc_str(c, c.uri(p), fr)}")
        return listed(out)
    if kind == "hints":
        p, l0, l1 = args[0], int(args[1]), int(args[2])
        r = c.request("textDocument/inlayHint", {"textDocument": {"uri": c.uri(p)},
                                                "range": {"start": {"line": l0, "character": 0}, "end": {"line": l1, "character": 0}}})
        if r is None:
            return "none"
        return listed([f"{h['position']['line']}:{h['position']['character']}:{hexs(h['label'])}" for h in r])
    if kind == "completion":
        p, l, ch = args[0], int(args[1]), int(args[2])
        params = c.pos(p, l, ch)
        if len(args) > 3 and args[3] == "comma":
            params["context"] = {"triggerKind": 2, "triggerCharacter": ","}
        r = c.request("textDocument/completion", params)
        if r is None:
            return "none"
        items = r.get("items", []) if isinstance(r, dict) else r
        out = []
        for i in items:
            ed = "-"
            if i.get("additionalTextEdits"):
                e = i["additionalTextEdits"][0]
                ed = f"{e['range']['start']['line']}:{e['range']['start']['character']}:{hexs(e['newText'])}"
            doc = i.get("documentation")
            doc = doc.get("value", "") if isinstance(doc, dict) else (doc or "")
            out.append(f"{i['label']}|{i.get('sortText')}|{hexs(i.get('detail') or '')}|{hexs(i.get('insertText') or '')}|{i.get('kind')}|{ed}|{hexs(doc)}")
        return listed(out)
    if kind == "action":
        p, l, ch = args[0], int(args[1]), int(args[2])
        diag = {"range": {"start": {"line": l, "character": ch}, "end": {"line": l, "character": ch + 1}},
                "code": "undeclared-fixture", "source": "pytest-lsp", "message": "m", "severity": 2}
        r = c.request("textDocument/codeAction", {"textDocument": {"uri": c.uri(p)}, "range": diag["range"],
                                                 "context": {"diagnostics": [diag]}})
        if not r:
            return "none"
        a = r[0]
        ch_ = a["edit"]["changes"]
        ed = list(ch_.values())[0][0]
        return f"{hexs(a['title'])}|{ed['range']['start']['line']}:{ed['range']['start']['character']}|{hexs(ed['newText'])}"
    if kind == "wsym":
        q = binascii.unhexlify(args[0]).decode() if args[0] != "-" else ""
        r = c.request("workspace/symbol", {"query": q})
        if not r:
            return "none"
        return srt([f"{s['name']}|{s.get('containerName')}|{loc_str(c, s['location']['uri'], s['location']['range'])}" for s in r])
    raise ValueError(kind)


def diag_str(ds):
    out = []
    for d in ds:
        r = d["range"]
        out.append(f"{d['code']}|{r['start']['line']}:{r['start']['character']}-{r['end']['character']}|{hexs(d['message'])}")
    return srt(out)


def play(case, base, timeout=15.0, binary=None, env=None):
    """run the script on the real server; returns list of canonical answers (one per open/change/req)"""
    root = os.path.join(base, case.name, "ws")
    shutil.rmtree(os.path.join(base, case.name), ignore_errors=True)
    os.makedirs(root)
    def write_files():
        for p, t in case.files.items():
            full = os.path.join(root, p)
            os.makedirs(os.path.dirname(full), exist_ok=True)
            with open(full, "wb") as f:
                f.write(t.encode("utf-8") if isinstance(t, str) else t)
    if case.pyproject is not None:
        with open(os.path.join(root, "pyproject.toml"), "wb") as f:
            f.write(case.pyproject.encode("utf-8") if isinstance(case.pyproject, str) else case.pyproject)
    if case.scan_first:
        write_files()
    answers = []
    c = None
    try:
        c = lsp.Client(binary or core.SERVER_BIN, root, timeout=timeout, env=env)
        if not case.scan_first:
            write_files()
        dead = None
        for st in case.steps:
            if dead:
                if st[0] in ("open", "change", "req"):
                    answers.append(dead)
                continue
            try:
                if st[0] == "open":
                    answers.append(diag_str(c.open(st[1], st[2])))
                elif st[0] == "change":
                    answers.append(diag_str(c.change(st[1], st[2])))
                elif st[0] == "close":
                    c.close(st[1])
                else:
                    answers.append(ask(c, st[1], st[2:]))
            except lsp.NoPublish as e:
                # nothing was published for this notification; the server may still be fine. What
                # counts is what the client last received for the document
                answers.append("NO-PUBLISH " + diag_str(c.diagnostics.get(c.uri(st[1]), [])))
                case.meta["no_publish"] = str(e)
                c.diag_timeout = 1.5
            except lsp.ServerDied as e:
                dead = "DIED"
                answers.append("DIED")
                case.meta["death"] = str(e)
            except lsp.Timeout as e:
                dead = "HUNG"
                answers.append("HUNG")
                case.meta["hang"] = str(e)
    except (lsp.ServerDied, lsp.Timeout) as e:
        answers.append("DIED-AT-START " + str(e))
    finally:
        if c is not None:
            c.shutdown()
        shutil.rmtree(os.path.join(base, case.name), ignore_errors=True)
    return answers


def to_model_lines(case, cases, extra=None):
    """append the case to a core.Cases object; returns the (case, idx) keys aligned with play()'s answers"""
    cases.case(case.name, case.meta)
    keys = []
    n = 0
    def declare(t):
        nonlocal n
        tid = "v%d" % n; n += 1
        cases.text(tid, t)
        return tid
    for p, t in case.files.items():
        cases.raw("disk %s %s" % (p, declare(t)))
    if case.scan_first:
        cases.op("scan", *[hx(g) for g in case.exclude])
    dis = ",".join("x" + hx(c) for c in case.disabled) if case.disabled else "-"
    for st in case.steps:
        if st[0] in ("open", "change"):
            cases.op("analyze", st[1], declare(st[2]))
            keys.append((case.name, cases.q("h_diag", st[1], dis)))
        elif st[0] == "close":
            cases.op("close", st[1])
        else:
            keys.append((case.name, cases.q("h_" + st[1], *st[2:])))
    # library-level queries on the final state of the case (model side only: spec lines / hypothesis flags)
    for q in (extra or []):
        cases.q(*q)
    return keys


def run_all(run, stdio_cases, tag="stdio", workers=1, extra=None):
    """-> list of (case, step_index, step, impl_answer, model_answer)"""
    base = "/dev/shm/plsv-lsp-%d" % os.getpid()
    cases = core.Cases()
    run.last_cases = cases
    keymap = {}
    for sc in stdio_cases:
        keymap[sc.name] = to_model_lines(sc, cases, (extra or {}).get(sc.name))
    path = os.path.join(core.BUILD, f"{run.prop}-{tag}-{os.getpid()}.case")
    cases.write(path)
    rc, out, dt = core.run_model(path)
    os.remove(path)
    ma, sp = core.parse_answers(out)
    results = []
    played = {}
    if workers > 1:
        from concurrent.futures import ThreadPoolExecutor
        with ThreadPoolExecutor(max_workers=workers) as ex:
            for sc, impl in zip(stdio_cases, ex.map(lambda c: play(c, base), stdio_cases)):
                played[sc.name] = impl
    for sc in stdio_cases:
        impl = played[sc.name] if sc.name in played else play(sc, base)
        keys = keymap[sc.name]
        answering = [s for s in sc.steps if s[0] in ("open", "change", "req")]
        for i, k in enumerate(keys):
            a = impl[i] if i < len(impl) else "MISSING"
            results.append((sc, i, answering[i], a, ma.get(k, "MISSING-MODEL"), k))
    shutil.rmtree(base, ignore_errors=True)
    run.stats["stdio_cases"] = run.stats.get("stdio_cases", 0) + len(stdio_cases)
    return results, cases, sp


def agree(a, m):
    if m == "PANIC" and a in ("DIED",):
        return True
    if a.startswith("NO-PUBLISH "):
        a = a[len("NO-PUBLISH "):]
    return core.agree(a, m)
