"""C09 — concurrent analysis of different files is isolated."""
import itertools, os
from .. import core, conc
from .common import Run

PROP = "C09"
MODULE = "PLS.Props.C09"
THEOREMS = ["PLS.Conc.C09_any_schedule", "PLS.Conc.C09_sequential_complete", "PLS.Conc.C09_equals_sequential",
            "PLS.Conc.C09_plain_remove_loses", "PLS.Conc.perm_of_proj"]
RULE = ("the real FixtureDatabase on 2-3 worker threads under the cooperative scheduler of the instrumented dashmap "
        "(one worker runs at a time and stops before every blocking shard-lock acquisition; PLSV_SHARDS=2 so keys "
        "collide). Scenarios: re-analysis of already indexed files, scan-like fresh analyses, an edit beside a scan "
        "visit, and the targeted 'last definition of a name removed while another file adds one'; files share the names "
        "foo/bar/baz as definitions, parameters, usefixtures marks and body references. Schedules: every sequential "
        "order, every schedule with one preemption, all (quick: a sample of) schedules with two preemptions, random "
        "schedules. Per run: (1) no deadlock / panic; (2) final index (definitions, file_definitions, usages, "
        "usage_by_fixture, imports, file_cache) equals that of some sequential order — exactly, or up to the order of "
        "different files' entries under one name; (3) the recorded operation sequence replayed on the Lean op-level model "
        "(PLS.Model.Conc) gives the same per-name vectors; (4) each worker's operation program has the shape the theorems "
        "assume (WFProg). Non-trivial = run whose schedule interleaves operations of two workers on the same name; "
        "distinct by (scenario, schedule)")

NAMES = ["foo", "bar", "baz"]


def gen_version(rng, allow_empty=True):
    k = rng.choice([0, 1, 1, 2, 2, 3]) if allow_empty else rng.choice([1, 2, 3])
    defs = [rng.choice(NAMES) for _ in range(k)]
    L = ["import pytest", ""]
    for i, n in enumerate(defs):
        deps = [d for d in NAMES if d != n and rng.random() < 0.3]
        L += ["@pytest.fixture", "def %s(%s):" % (n, ", ".join(deps)), "    return %d" % i, ""]
    nt = rng.choice([0, 1, 1, 2])
    for j in range(nt):
        params = [n for n in NAMES if rng.random() < 0.5]
        body = [n for n in NAMES if n not in params and rng.random() < 0.3]
        if rng.random() < 0.25:
            L.append('@pytest.mark.usefixtures("%s")' % rng.choice(NAMES))
        L.append("def test_%d(%s):" % (j, ", ".join(params)))
        L += ["    %s" % b for b in body] or ["    pass"]
        L.append("")
    return "\n".join(L) + "\n"


FIX = "import pytest\n\n@pytest.fixture\ndef %s():\n    return 1\n"


def gen_scenario(rng, i):
    sc = conc.Scenario("s%d" % i)
    kind = ["lastdef", "reanalyze", "scan", "editscan", "reanalyze3", "reanalyze", "scan3", "lastdef2", "window", "then-reanalyze"][i % 10]
    files = ["test_a.py", "test_b.py", "conftest.py"]
    sc.meta["kind"] = kind
    if kind == "lastdef":
        # A holds the only definition of foo and drops it; B gains one
        a1, a2 = FIX % "foo", "import pytest\n\ndef test_a(foo):\n    pass\n"
        b1, b2 = "def test_b(foo):\n    pass\n", FIX % "foo" + "\ndef test_b(foo):\n    pass\n"
        for f, t in (("test_a.py", a1), ("test_b.py", b1)):
            sc.disk.append((f, sc.text(t))); sc.setup.append(["analyze", f, sc.text(t)])
        sc.threads = {1: [["analyze", "test_a.py", sc.text(a2)]], 2: [["analyze", "test_b.py", sc.text(b2)]]}
    elif kind == "window":
        # the provider of `baz` is re-analysed (its definition is removed and registered again) while a
        # test module whose body uses `baz` without declaring it is analysed
        c1, c2 = FIX % "baz", FIX % "baz" + "\n@pytest.fixture\ndef extra():\n    return 2\n"
        t1, t2 = "def test_b():\n    pass\n", "def test_b():\n    baz\n"
        for f, t in (("conftest.py", c1), ("test_b.py", t1)):
            sc.disk.append((f, sc.text(t))); sc.setup.append(["analyze", f, sc.text(t)])
        sc.threads = {1: [["analyze", "conftest.py", sc.text(c2)]], 2: [["analyze", "test_b.py", sc.text(t2)]]}
    elif kind == "then-reanalyze":
        # two scan workers visit files that use the same fixtures several times (their entries in the per-name lists
        # may interleave); afterwards one of the files is edited: the OTHER file's usages must all still be there
        a1 = "def test_a1(foo, bar):\n    pass\n\ndef test_a2(foo):\n    pass\n\ndef test_a3(bar, foo):\n    pass\n"
        b1 = "def test_b1(foo):\n    pass\n\ndef test_b2(bar, foo):\n    pass\n\ndef test_b3(foo):\n    pass\n"
        a2 = "def test_a1(foo):\n    pass\n"
        c1 = FIX % "foo" + "\n@pytest.fixture\ndef bar():\n    return 2\n"
        for f, t in (("conftest.py", c1), ("test_a.py", a1), ("test_b.py", b1)):
            sc.disk.append((f, sc.text(t)))
        sc.setup.append(["analyze", "conftest.py", sc.text(c1)])
        sc.threads = {1: [["fresh", "test_a.py", sc.text(a1)]], 2: [["fresh", "test_b.py", sc.text(b1)]]}
        sc.after = [["analyze", "test_a.py", sc.text(a2)]]
    elif kind == "lastdef2":
        # the same window on the usage index: A's only usage of bar goes away while B starts using bar
        a1, a2 = "def test_a(bar):\n    pass\n", "def test_a():\n    pass\n"
        b1, b2 = "def test_b():\n    pass\n", "def test_b(bar):\n    pass\n"
        c1 = FIX % "bar"
        for f, t in (("conftest.py", c1), ("test_a.py", a1), ("test_b.py", b1)):
            sc.disk.append((f, sc.text(t))); sc.setup.append(["analyze", f, sc.text(t)])
        sc.threads = {1: [["analyze", "test_a.py", sc.text(a2)]], 2: [["analyze", "test_b.py", sc.text(b2)]]}
    else:
        n = 3 if kind.endswith("3") else 2
        fs = files[:n] if rng.random() < 0.6 else [files[2]] + files[:n - 1]
        v1 = {f: gen_version(rng) for f in fs}
        v2 = {f: gen_version(rng) for f in fs}
        for f in fs:
            sc.disk.append((f, sc.text(v1[f])))
        if kind.startswith("reanalyze"):
            for f in fs:
                sc.setup.append(["analyze", f, sc.text(v1[f])])
            sc.threads = {j + 1: [["analyze", f, sc.text(v2[f])]] for j, f in enumerate(fs)}
        elif kind.startswith("scan"):
            sc.threads = {j + 1: [["fresh", f, sc.text(v1[f])]] for j, f in enumerate(fs)}
        else:  # editscan: the scan visits fs[0] while the editor changes fs[1], which the scan has already seen
            sc.setup.append(["fresh", fs[1], sc.text(v1[fs[1]])])
            sc.threads = {1: [["fresh", fs[0], sc.text(v1[fs[0]])]], 2: [["analyze", fs[1], sc.text(v2[fs[1]])]]}
    return sc


def schedules(rng, steps, tier, nthreads):
    """steps: {tid: interesting yield points}; -> list of run directives"""
    tids = sorted(steps)
    out = []
    for a, b in itertools.permutations(tids, 2):
        for i in range(0, steps[a] + 1):
            out.append("run script %d:%d,%d:9999" % (a, i, b))
    two = []
    for a, b in itertools.permutations(tids, 2):
        for i in range(0, steps[a] + 1):
            for j in range(1, steps[b] + 1):
                two.append("run script %d:%d,%d:%d,%d:9999" % (a, i, b, j, a))
    cap = 250 if tier == "quick" else 2000
    if len(two) > cap:
        two = rng.sample(two, cap)
    out += two
    nr = 60 if tier == "quick" else 500
    for _ in range(nr):
        out.append("run rand %d %d" % (rng.randrange(1 << 30), rng.choice([150, 300, 500, 800])))
    if tier != "quick":
        three = []
        for a, b in itertools.permutations(tids, 2):
            for _ in range(300):
                i, j, k = rng.randrange(steps[a] + 1), rng.randrange(1, steps[b] + 1), rng.randrange(1, steps[a] + 1)
                three.append("run script %d:%d,%d:%d,%d:%d,%d:9999" % (a, i, b, j, a, i + k, b))
        out += three
    return out


def editor_before_scan_part(r):
    """(fixed, sequential) the editor analyses ONE module of an import chain before the workspace scan runs: everything
    the other files define and use is indexed all the same - the index after `editor, then scan` holds exactly the
    entries of the other files that `scan` alone produces (and the model's)"""
    v = r.verdict
    chain = {"conftest.py": "from lib_a import *\n", "lib_a.py": "from lib_b import *\n" + FIX % "fa",
             "lib_b.py": 'pytest_plugins = ["lib_c"]\n' + FIX % "shared" + "\n@pytest.fixture\ndef fb(shared):\n    return 2\n",
             "lib_c.py": FIX % "fc", "test_use.py": FIX % "shared" + "\ndef test_use(fa, fb, fc, shared):\n    pass\n"}
    cases = core.Cases()
    names = []
    for j, opened in enumerate([None, "lib_a.py", "lib_b.py", "conftest.py"]):
        name = "es%d" % j
        names.append((name, opened))
        cases.case(name, {"opened_before_scan": opened})
        for k, (p, t) in enumerate(sorted(chain.items())):
            cases.text("f%d" % k, t); cases.raw("disk %s f%d" % (p, k))
        if opened:
            cases.op("analyze", opened, "f%d" % sorted(chain).index(opened))
        cases.op("scan")
        for p in sorted(chain):
            cases.q("defs", p); cases.q("usages", p)
        cases.q("avail", "test_use.py"); cases.q("resolve", "test_use.py", "fb"); cases.q("resolve", "test_use.py", "fc")
    ia, ma, sp = r.run_cases(cases, tag="edscan")
    r.correspond(cases, ia, ma)
    ref = names[0][0]
    nq = max(k[1] for k in cases.queries if k[0] == ref)
    n = 0
    for (name, opened) in names[1:]:
        off = 1        # the extra `analyze` op shifts the indices of this case by one
        for idx in range(1, nq + 1):
            q = cases.queries.get((ref, idx))
            if q is None or q[0] != "q":
                continue
            n += 1
            a, b = ia.get((ref, idx)), ia.get((name, idx + off))
            if a != b:
                msg = (f"{' '.join(q)}: after `scan` alone the answer is {a}; with {opened} analysed by the editor before the scan "
                       f"it is {b} — entries of other files are lost (or invented)")
                v.violation(f"{name}-{idx}", msg, f"# {msg}\n" + cases.replay_text(ref) + cases.replay_text(name)); break
    r.stats["editor_before_scan_answers_compared"] = n


def run(tier, seed):
    r = Run(PROP, MODULE, THEOREMS, tier, seed)
    if not r.prepare():
        return r.finish(RULE)
    ok, log = conc.build()
    if not ok:
        r.broken.append("cargo build of the concurrency harness (instrumented dashmap) failed: " + log[-400:])
        return r.finish(RULE)
    v = r.verdict
    nsc = 10 if tier == "quick" else 60
    scs = [gen_scenario(r.rng, i) for i in range(nsc)]
    # pass 1: sequential orders, the state before, and the operation program of every worker alone
    for sc in scs:
        tids = sorted(sc.threads)
        sc.runs = ["run pre"] + ["run seq " + ",".join(map(str, p)) for p in itertools.permutations(tids)]
        for t in tids:
            for op in sc.threads[t]:
                sc.runs.append("probe " + " ".join(op))
    res1, rc, dt = conc.run_scenarios(scs, tag="c09a")
    if rc != 0:
        r.broken.append("concurrency harness exited with status %s in the sequential pass" % rc)
    seqinfo = {}
    for sc in scs:
        rows = res1.get(sc.name, [])
        pre = next((d for (dr, d) in rows if dr == "pre"), None)
        seqs = [(dr, d) for (dr, d) in rows if dr.startswith("seq")]
        probes = [(dr, d) for (dr, d) in rows if dr.startswith("analyze") or dr.startswith("fresh")]
        if pre is None or not seqs:
            r.broken.append("no sequential reference for scenario %s" % sc.name); continue
        steps = {}
        for dr, d in seqs:
            for kv in d.get("steps", "").split(","):
                if ":" in kv:
                    t, n = kv.split(":")
                    steps[int(t)] = max(steps.get(int(t), 0), int(n))
        seqinfo[sc.name] = (pre, seqs, steps)
        # (4) program shape
        for dr, d in probes:
            for mp in ("definitions", "usage_by_fixture"):
                why = conc.wf_shape(d.get("prog", []), mp)
                if why:
                    sc.meta.setdefault("shape", []).append("%s on %s: %s" % (dr, mp, why))
        sc.runs = schedules(r.rng, steps, tier, len(sc.threads))
        if len(r.samples) < 2:
            r.samples.append({"scenario": sc.name, "kind": sc.meta["kind"], "threads": {str(k): [" ".join(o[:2]) for o in ops] for k, ops in sc.threads.items()},
                              "program_of_worker_1": (probes[0][1].get("prog") if probes else None), "steps": steps})
    live = [sc for sc in scs if sc.name in seqinfo]
    res2, rc, dt2 = conc.run_scenarios(live, tag="c09b")
    if rc != 0:
        r.broken.append("concurrency harness exited with status %s in the schedule exploration" % rc)
    if tier != "quick":
        # the same random schedules once more with 16 shards per map (other key placements, finer yield points)
        keep = {sc.name: sc.runs for sc in live}
        for sc in live:
            sc.runs = [x for x in sc.runs if x.startswith("run rand")][:200]
        res3, rc3, dt3 = conc.run_scenarios(live, shards=16, tag="c09c")
        for sc in live:
            sc.runs = keep[sc.name]
            res2.setdefault(sc.name, []).extend(("16sh " + dr, d) for (dr, d) in res3.get(sc.name, []))
        if rc3 != 0:
            r.broken.append("concurrency harness exited with status %s in the 16-shard pass" % rc3)
        dt2 += dt3
    r.stats["impl_s"] = round(dt + dt2, 2)
    # pass 3: replay on the Lean model
    cases = core.Cases(); r.last_cases = cases
    replay_keys = {}
    nruns = norder = 0
    kinds = {}
    shape_reported = False
    for sc in live:
        pre, seqs, steps = seqinfo[sc.name]
        predump = conc.parse_dump(pre["dump"])
        seq_strict = {d["dump"] for (_, d) in seqs}
        secs = ("defs", "fdefs", "usages", "ubf", "imports", "cache")
        seq_canon = [conc.canon(d["dump"], secs) for (_, d) in seqs]
        seq_und = [conc.canon(d["dump"], ("undeclared",)) for (_, d) in seqs]
        fileset = sorted({op[1] for ops in sc.threads.values() for op in ops} | {f for f, _ in sc.disk})
        files = {f: i for i, f in enumerate(fileset)}
        thread_file = {t: ops[0][1] for t, ops in sc.threads.items()}
        cases.case(sc.name, sc.meta)
        for (dr, d) in res2.get(sc.name, []) + seqs:
            nruns += 1
            kinds[sc.meta["kind"]] = kinds.get(sc.meta["kind"], 0) + 1
            where = f"scenario {sc.name} ({sc.meta['kind']}), schedule `{dr}`"
            rdir = dr[5:] if dr.startswith("16sh ") else dr
            st = d.get("status", "?")
            if st != "ok":
                msg = f"{where}: {st} — the workers did not all complete"
                v.violation(f"{sc.name}-{nruns}", msg, f"# {msg}\n" + sc.replay_text("run " + rdir)); continue
            ops = d.get("ops", [])
            # non-trivial: two workers touch the same name of a shared map, interleaved
            seen = {}
            for o in ops:
                m = conc.OPRE.match(o)
                if m and m.group(2) in ("definitions", "usage_by_fixture"):
                    seen.setdefault((m.group(2), m.group(4)), []).append(int(m.group(1)))
            if any(len(set(ts)) > 1 and ts != sorted(ts) and ts != sorted(ts, reverse=True) for ts in seen.values()):
                r.nontrivial.add((sc.name, dr))
            # (2) some sequential order
            if d["dump"] not in seq_strict:
                c = conc.canon(d["dump"], secs)
                und = conc.canon(d["dump"], ("undeclared",))
                if c in seq_canon:
                    if d["dump"].split(" undeclared=")[0] != "" and any(c == sc_ for sc_ in seq_canon):
                        norder += 1
                    if und not in seq_und:
                        kf = r.known_by_hyp.get("undeclared-partial-visibility")
                        if kf:
                            v.known(kf["id"], kf["summary"])
                        else:
                            msg = (f"{where}: the undeclared-fixture findings {und['undeclared']} are those of no sequential order "
                                   f"({[u['undeclared'] for u in seq_und]}) although the index itself is")
                            v.violation(f"{sc.name}-{nruns}-undeclared", msg, f"# {msg}\n" + sc.replay_text("run " + rdir))
                else:
                    diff = []
                    for s_ in secs:
                        if all(c.get(s_) != q.get(s_) for q in seq_canon):
                            diff.append(f"{s_}: {c.get(s_)} vs sequential {[q.get(s_) for q in seq_canon]}")
                    msg = (f"{where}: the resulting index is that of no sequential order of the same analyses — "
                           + ("; ".join(diff) if diff else "the combination of maps matches no single order")[:900])
                    v.violation(f"{sc.name}-{nruns}", msg, f"# {msg}\n# operations: {' '.join(ops)}\n" + sc.replay_text("run " + rdir))
            # (2b) … and after the sequential operations that follow the concurrent part
            if sc.after and d.get("after") not in (None, "-"):
                ca = conc.canon(d["after"], secs)
                seq_after = [conc.canon(q["after"], secs) for (_, q) in seqs if q.get("after") not in (None, "-")]
                if seq_after and ca not in seq_after:
                    diff = [f"{s_}: {ca.get(s_)} vs sequential {[q.get(s_) for q in seq_after]}" for s_ in secs
                            if all(ca.get(s_) != q.get(s_) for q in seq_after)]
                    msg = (f"{where}: after the edit that follows ({' '.join(sc.after[0][:2])}) the index is that of no sequential order "
                           f"of the same analyses — " + "; ".join(diff)[:900])
                    v.violation(f"{sc.name}-{nruns}-after", msg, f"# {msg}\n# operations: {' '.join(ops)}\n" + sc.replay_text("run " + rdir))
            # (3) Lean replay
            final = conc.parse_dump(d["dump"])
            for mp, sec in (("definitions", "defs"), ("usage_by_fixture", "ubf")):
                line = conc.model_line(predump, ops, mp, files, thread_file)
                if line is None:
                    if not shape_reported:
                        r.broken.append(f"{where}: operation sequence on {mp} cannot be expressed in the model's instruction set: {' '.join(o for o in ops if mp in o)[:300]}")
                        shape_reported = True
                    continue
                idx = cases.q("conc", line)
                replay_keys[(sc.name, idx)] = (conc.files_per_key(final, sec, files), where, mp, sc, dr)
        if sc.meta.get("shape") and not shape_reported:
            r.broken.append(f"scenario {sc.name}: worker program violates the shape the theorems assume (WFProg): " + "; ".join(sc.meta["shape"])[:400])
            shape_reported = True
    path = os.path.join(core.BUILD, f"{PROP}-model-{os.getpid()}.case")
    cases.write(path)
    rcm, out, dtm = core.run_model(path)
    os.remove(path)
    ma, _ = core.parse_answers(out)
    r.stats["model_s"] = round(dtm, 2)
    for k, (want, where, mp, sc, dr) in replay_keys.items():
        r.corr_checked += 1
        got = conc.parse_model_answer(ma.get(k, "INCOMPLETE"))
        if got != want:
            r.corr_bad.append((k, ["conc", mp, where], str(want), str(got)))
    editor_before_scan_part(r)
    r.evaluations = nruns
    r.stats["runs_by_scenario_kind"] = kinds
    r.stats["runs_equal_to_a_sequential_order_only_up_to_cross_file_order"] = norder
    r.stats["shards"] = 2
    return r.finish(RULE, extra_cov={"traces_validated_against_impl": r.corr_checked}, assumptions=[
        "yield points are the blocking shard-lock acquisitions of DashMap; code between two of them runs atomically in the exploration (it touches no other shared state than the three std Mutexes, which no analysed path holds across a map call)",
        "the theorems' hypothesis WFProg is checked on the recorded single-worker programs of the generated scenarios, not proved of the Rust source"])


def replay(path):
    sc_lines = open(path).read()
    p = os.path.join(core.BUILD, "replay-%d.conc" % os.getpid())
    open(p, "w").write(sc_lines)
    conc.build()
    import subprocess
    env = dict(os.environ, PLSV_SHARDS=os.environ.get("PLSV_SHARDS", "2"), RUST_BACKTRACE="0")   # `16sh` runs: PLSV_SHARDS=16 ./check … --replay
    out = subprocess.run([conc.PLSVC_BIN, "run", p], stdout=subprocess.PIPE, env=env).stdout.decode()
    os.remove(p)
    print(out)
    return 0
