"""C04 — find-references is the exact inverse of go-to-definition."""
from .. import core, wsgen
from .common import Run, split_spec, corpus_cases, generic_replay, parse_list

PROP = "C04"
MODULE = "PLS.Props.C04H"     # imports PLS.Props.C04
THEOREMS = ["PLS.C04_inverse", "PLS.C04_unresolved", "PLS.C04_functional", "PLS.C04_nodup",
            "PLS.C04_cli_count", "PLS.C04_cli_count_eq_refs",
            "PLS.C04_lens_counts", "PLS.C04_incoming_calls", "PLS.C04_references",
            "PLS.C04_usage_found_anywhere", "PLS.C04_usage_lookup_order_independent"]
RULE = ("generated workspaces (as C01) plus edit histories over them; for EVERY (definition, usage) pair of the final "
        "index: usage listed under the definition <=> go-to-definition at the usage's first column lands on it; no "
        "duplicates; usages resolving to nothing listed nowhere. Pure cross-feature comparison of the implementation's "
        "own answers, plus model correspondence. Handler level: the real server over stdio on generated workspaces, "
        "every code lens, references (with declaration) and incomingCalls answer compared with the Lean handler model, "
        "and per definition: lens count = references minus the declaration = incoming calls. Non-trivial = at least two same-named definitions and three usages")


def usage_pos(u):
    parts = u.rsplit(":", 3)
    s, e = parts[2].split("-")
    return parts[0], int(parts[1]), int(s), int(e), parts[3]


def cross_check(run, cases, ia, ma, sp):
    v = run.verdict
    by_case = {}
    for k in cases.queries:
        by_case.setdefault(k[0], []).append(k)
    pairs = 0
    for cname, keys in by_case.items():
        goto = {}      # (file, line0, col) -> answer
        refs = {}      # def_short -> (list, key)
        usages = []
        for k in keys:
            q = cases.queries[k]
            if q[1] == "goto":
                goto[(q[2], int(q[3]), int(q[4]))] = ia.get(k)
            elif q[1] == "refs":
                a = ia.get(k, "nodef")
                if a != "nodef":
                    refs[k] = parse_list(a)
            elif q[1] == "usages":
                usages += parse_list(ia.get(k, "[]"))
        # which definition does each refs query describe? -> defat answers
        defkey = {}
        for k in keys:
            q = cases.queries[k]
            if q[1] == "defat":
                defkey[(q[2], q[3], q[4])] = ia.get(k)
        for k, lst in refs.items():
            q = cases.queries[k]
            D = defkey.get((q[2], q[3], q[4]))
            if D is None or D == "none":
                continue
            flags = split_spec(sp.get(k, "-"))[1]
            same = core.agree(ia.get(k, ""), ma.get(k, ""))
            def report(msg, hyp=None):
                e = run.known_by_hyp.get(hyp) if hyp else None
                if same and e and hyp in flags:
                    v.known(e["id"], e["summary"]); return
                v.violation(f"{cname}-{k[1]}", f"case {cname}: {msg}", f"# {msg}\n# query #{k[1]}: {' '.join(q)}\n" + cases.replay_text(cname))
            if len(set(lst)) != len(lst):
                report(f"references of {D} list a usage twice: {lst}", "dup-usage-recorded")
            for u in set(usages) | set(lst):
                f, line, s, e, name = usage_pos(u)
                g = goto.get((f, line - 1, s))
                if g is None:
                    continue
                pairs += 1
                listed = u in lst
                lands = (g == D)
                if listed != lands:
                    report(f"usage {u}: listed under {D} = {listed}, but go-to-definition on it answers {g}")
    run.stats["definition_usage_pairs_checked"] = run.stats.get("definition_usage_pairs_checked", 0) + pairs


def emit(cases, ws):
    wsgen.emit_queries(cases, ws, probes=("goto",), extra=False)
    for p, pf in ws.files.items():
        cases.q("usages", p)
        for (n, ln) in pf.defs:
            cases.q("defat", p, ln, n)
            cases.q("refs", p, ln, n)


def run(tier, seed):
    r = Run(PROP, MODULE, THEOREMS, tier, seed, need_server=True)
    if not r.prepare():
        return r.finish(RULE)
    n = 120 if tier == "quick" else 2000
    cases = core.Cases(); r.last_cases = cases
    corpus_cases(cases, PROP)
    # (fixed) names that are underscore-delimited parts of one another inside ONE string literal (`"user_db, db"`): each
    # usage sits on its own whole word - `_` is a word character - and is listed under the definition navigation lands on
    from ..pybuild import PyFile as _PF
    ws = wsgen.WS()
    c0 = _PF()
    for nm in ("db", "user_db", "db_user", "db2"):
        c0.fixture(nm)
    ws.add("conftest.py", c0)
    t0 = _PF()
    t0.add('@pytest.mark.parametrize("user_db, db", [(1, 2)], indirect=True)', hot=True)
    t0.add("def test_a(user_db, db):", hot=True); t0.add("    pass"); t0.add("")
    t0.add('@pytest.mark.parametrize("db_user,db", [(1, 2)], indirect=True)', hot=True)
    t0.add("def test_b(db_user, db):", hot=True); t0.add("    pass"); t0.add("")
    t0.add('@pytest.mark.usefixtures("db2", "db")', hot=True)
    t0.add("def test_c():"); t0.add("    pass"); t0.add("")
    t0.add('@pytest.mark.parametrize("db2, user_db, db", [(1, 2, 3)], indirect=["db", "user_db"])', hot=True)
    t0.add("def test_d(db2, user_db, db):", hot=True); t0.add("    pass")
    # an indirect parametrize mark ABOVE a usefixtures mark: the analyzer records the usefixtures names of a function
    # first, so the file's usage list is not in line order - every usage is found from its own position all the same
    t0.add(""); t0.add('@pytest.mark.parametrize("db2", [1], indirect=True)', hot=True)
    t0.add('@pytest.mark.usefixtures("db")', hot=True)
    t0.add("def test_e(db2):", hot=True); t0.add("    pass")
    ws.add("test_words.py", t0)
    ws.order = list(ws.files); ws.meta = {"fixed": "names that are parts of one another in one literal"}
    cases.case("wwords", ws.meta)
    wsgen.emit_setup(cases, ws)
    emit(cases, ws)
    cases.q("dump")
    for i in range(n):
        ws = wsgen.gen_workspace(r.rng)
        if r.rng.random() < 0.1:
            # a fixture whose function is named like a test (Flask's `test_client`)
            from ..pybuild import PyFile
            pf = PyFile(); pf.fixture("test_client", params=("foo",)); ws.add("test_named.py", pf); ws.order.append("test_named.py")
        name = "w%d" % i
        cases.case(name, ws.meta)
        tids = wsgen.emit_setup(cases, ws)
        # an edit history: re-analyse some files (same text) and in another order
        for p in r.rng.sample(ws.order, min(3, len(ws.order))):
            cases.op("analyze", p, tids[p])
        # the scan visiting a file the editor has already opened (analyze_file_fresh after analyze_file): only
        # files without definitions, where the scan's visit leaves nothing behind on the unchanged tree (C10-E9
        # is about definitions)
        nodefs = [p for p in ws.order if not getattr(ws.files[p], "defs", [1]) and p in tids]
        if nodefs and r.rng.random() < 0.5:
            p = r.rng.choice(nodefs)
            cases.op("fresh", p, tids[p])
            ws.meta["fresh_after_open"] = p
        emit(cases, ws)
        cases.q("dump")
        ndefs = sum(len(pf.defs) for pf in ws.files.values())
        if ndefs >= 2:
            r.nontrivial.add((tuple(sorted(ws.meta["modes"].items())), ws.meta["nsame"], tuple(ws.meta["kinds"]), ws.meta.get("sibling")))
        if i < 2:
            r.samples.append({"case": name, "meta": {k: str(v) for k, v in ws.meta.items()}, "order": ws.order})
    ia, ma, sp = r.run_cases(cases)
    r.evaluations = len(ia)
    r.correspond(cases, ia, ma)
    cross_check(r, cases, ia, ma, sp)
    from .. import wire
    wire.c04_wire(r, tier)
    return r.finish(RULE)


def replay(path):
    return generic_replay(PROP, MODULE, THEOREMS, path)
