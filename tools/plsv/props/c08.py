"""C08 — answers do not depend on scan order, thread schedule or process run."""
import itertools, os
from .. import core, wsgen
from .common import Run, split_spec, all_flags, corpus_cases, generic_replay, parse_list

PROP = "C08"
MODULE = "PLS.Props.C14P"      # imports PLS.Props.C08
THEOREMS = ["PLS.C08_resolve_perm", "PLS.C08_ownDefAt_perm", "PLS.C08_same_file_last", "PLS.C08_statement_false",
            "PLS.C08_plugin_files_order_independent", "PLS.C14_plugin_files_are_the_closure", "PLS.ScanC.importScan_closed"]
RULE = ("each generated workspace (colliding fixture names by construction) is indexed under several permutations of "
        "the per-file analysis order, with analyze_file and with the scan's no-cleanup path; the full answer "
        "battery (go-to-definition at every column of usage-bearing lines, references per definition, available "
        "fixtures, resolve per name, cycles, scope mismatches, unused list, recorded definitions) is compared across "
        "orders on the implementation and against the model; workspaces with an in-workspace editable plugin whose "
        "modules are reached by several import routes are scanned (real scan_workspace) several times on fresh "
        "indexes and every answer compared between the scans and with the model. Non-trivial = at least two same-named definitions; "
        "distinct by workspace signature")


def battery(cases, ws):
    wsgen.emit_queries(cases, ws, probes=("goto",), every_col=False)
    cases.q("cycles"); cases.q("unused")
    for p in ws.files:
        cases.q("mismatch", p); cases.q("defs", p)


def sched_part(r, tier):
    """`any number of worker threads`: scan workers visiting different files that define and use the same names, under
    the cooperative scheduler of the concurrency harness (every interleaving of their DashMap calls is a schedule,
    as in C09): the index a schedule leaves must be the index of some order of the same visits"""
    import itertools
    from .. import conc
    from . import c09
    v = r.verdict
    ok, log = conc.build()
    if not ok:
        r.broken.append("cargo build of the concurrency harness (instrumented dashmap) failed: " + log[-400:]); return
    scs = []
    for i in range(3 if tier == "quick" else 18):
        sc = conc.Scenario("sw%d" % i)
        fs = ["conftest.py", "test_a.py", "test_b.py"][: (3 if i % 3 == 2 else 2)]
        sc.meta["kind"] = "scan%d" % len(fs)
        for j, f in enumerate(fs):
            t = c09.FIX % "foo" + ("\ndef test_%d(foo, bar):\n    pass\n" % j) if i % 2 == 0 else c09.gen_version(r.rng, allow_empty=False)
            sc.disk.append((f, sc.text(t)))
            sc.threads[j + 1] = [["fresh", f, sc.text(t)]]
        tids = sorted(sc.threads)
        sc.runs = ["run pre"] + ["run seq " + ",".join(map(str, p)) for p in itertools.permutations(tids)]
        scs.append(sc)
    res1, rc, dt = conc.run_scenarios(scs, tag="c08a")
    if rc != 0:
        r.broken.append("concurrency harness exited with status %s in the sequential pass" % rc)
    info = {}
    for sc in scs:
        rows = res1.get(sc.name, [])
        seqs = [(dr, d) for (dr, d) in rows if dr.startswith("seq")]
        steps = {}
        for dr, d in seqs:
            for kv in d.get("steps", "").split(","):
                if ":" in kv:
                    t, n = kv.split(":"); steps[int(t)] = max(steps.get(int(t), 0), int(n))
        if not seqs:
            r.broken.append("no sequential reference for scenario %s" % sc.name); continue
        info[sc.name] = seqs
        sc.runs = c09.schedules(r.rng, steps, tier, len(sc.threads))
    live = [sc for sc in scs if sc.name in info]
    res2, rc, dt2 = conc.run_scenarios(live, tag="c08b")
    if rc != 0:
        r.broken.append("concurrency harness exited with status %s in the schedule exploration" % rc)
    secs = ("defs", "fdefs", "usages", "ubf")
    nruns = 0
    for sc in live:
        seq_canon = [conc.canon(d["dump"], secs) for (_, d) in info[sc.name]]
        for (dr, d) in res2.get(sc.name, []):
            nruns += 1
            where = f"scan workers {sorted(sc.threads)} of scenario {sc.name} ({sc.meta['kind']}), schedule `{dr}`"
            if d.get("status", "?") != "ok":
                msg = f"{where}: {d.get('status')} — the workers did not all complete"
                v.violation(f"{sc.name}-{nruns}", msg, f"# {msg}\n" + sc.replay_text("run " + dr)); continue
            c = conc.canon(d["dump"], secs)
            if c in seq_canon:
                continue
            diff = [f"{s_}: {c.get(s_)} vs {[q.get(s_) for q in seq_canon]}" for s_ in secs if all(c.get(s_) != q.get(s_) for q in seq_canon)]
            msg = f"{where}: the scan leaves an index that no order of the same visits produces — " + "; ".join(diff)[:800]
            v.violation(f"{sc.name}-{nruns}", msg, f"# {msg}\n# operations: {' '.join(d.get('ops', []))}\n" + sc.replay_text("run " + dr))
    r.stats["scan_worker_schedules_explored"] = nruns


FXT = "import pytest\n\n@pytest.fixture\ndef {0}():\n    return 1\n"


def gen_rescan_workspace(rng):
    """a workspace whose classification work happens in the SCAN itself: an in-workspace plugin installed editable
    (pytest11 entry point), whose entry module reaches further modules over one to three hops (star import or
    pytest_plugins), while conftest.py files elsewhere import some of those modules too - so that the scan meets one
    module by several routes, in whatever order its work lists happen to iterate"""
    files = {}
    sp = "%s/lib/python3.12/site-packages" % rng.choice([".venv", "venv"])
    src = rng.choice(["src", "plugins_src"])
    mod = "myplug"
    depth = rng.choice([1, 2, 2, 3])
    chain = ["plugin"] + ["lvl%d" % k for k in range(1, depth + 1)]
    files["%s/%s/__init__.py" % (src, mod)] = ""
    for k, m in enumerate(chain):
        head = ""
        if k + 1 < len(chain):
            head = rng.choice(["from .%s import *\n" % chain[k + 1], "from %s.%s import *\n" % (mod, chain[k + 1]),
                               'pytest_plugins = ["%s.%s"]\n' % (mod, chain[k + 1])])
        files["%s/%s/%s.py" % (src, mod, m)] = head + FXT.format("fx_" + m)
    files[sp + "/%s-0.1.0.dist-info/entry_points.txt" % mod] = "[pytest11]\n%s = %s.plugin\n" % (mod, mod)
    files[sp + "/%s-0.1.0.dist-info/direct_url.json" % mod] = '{"url": "file://@BASE@/ws/%s", "dir_info": {"editable": true}}' % src
    files[sp + "/__editable__.%s-0.1.0.pth" % mod] = "@BASE@/ws/%s\n" % src
    tests = []
    dirs = ["tests/unit", "tests/integration", "tests/unit/deep", "tests"]
    rng.shuffle(dirs)
    nconf = rng.choice([1, 1, 2])
    for k, d in enumerate(dirs[:3]):
        if k < nconf:
            tgt = rng.choice(chain[1:])
            files[d + "/conftest.py"] = rng.choice(["from %s.%s import *\n" % (mod, tgt), 'pytest_plugins = ["%s.%s"]\n' % (mod, tgt)])
        t = d + "/test_%d.py" % k
        files[t] = "def test_%d(%s):\n    pass\n" % (k, ", ".join("fx_" + m for m in chain))
        tests.append(t)
    return files, tests, chain


def rescan_corpus():
    """(fixed 2bbe7de) the workspace on which two scans first disagreed: the plugin's modules are all indexed by the
    workspace walk, the import scan visits them in hash order, and a module walked before its importer marked it
    never passed plugin status on (fx_lvl3 was a plugin fixture in some scans only)"""
    sp = "venv/lib/python3.12/site-packages"
    files = {
        "plugins_src/myplug/__init__.py": "",
        "plugins_src/myplug/plugin.py": 'pytest_plugins = ["myplug.lvl1"]\n' + FXT.format("fx_plugin"),
        "plugins_src/myplug/lvl1.py": "from .lvl2 import *\n" + FXT.format("fx_lvl1"),
        "plugins_src/myplug/lvl2.py": 'pytest_plugins = ["myplug.lvl3"]\n' + FXT.format("fx_lvl2"),
        "plugins_src/myplug/lvl3.py": "from .lvl4 import *\n" + FXT.format("fx_lvl3"),
        "plugins_src/myplug/lvl4.py": 'pytest_plugins = ["myplug.lvl5"]\n' + FXT.format("fx_lvl4"),
        "plugins_src/myplug/lvl5.py": FXT.format("fx_lvl5"),
        "tests/conftest.py": 'pytest_plugins = ["myplug.lvl1"]\n',
        "tests/unit/deep/conftest.py": "from myplug.lvl2 import *\nfrom myplug.lvl4 import *\n",
        sp + "/__editable__.myplug-0.1.0.pth": "@BASE@/ws/plugins_src\n",
        sp + "/myplug-0.1.0.dist-info/direct_url.json": '{"url": "file://@BASE@/ws/plugins_src", "dir_info": {"editable": true}}',
        sp + "/myplug-0.1.0.dist-info/entry_points.txt": "[pytest11]\nmyplug = myplug.plugin\n",
    }
    chain = ["plugin", "lvl1", "lvl2", "lvl3", "lvl4", "lvl5"]
    tests = ["tests/test_1.py", "tests/unit/deep/test_0.py", "tests/unit/test_2.py"]
    for k, t in enumerate(tests):
        files[t] = "def test_%d(%s):\n    pass\n" % (k, ", ".join("fx_" + m for m in chain))
    return files, tests, chain


def rescan_installed():
    """(fixed) five installed distributions whose pytest11 plugins all define the SAME fixture name, next to a test that
    requests it: which one answers is the recorded finding (the first registered), but it is the same one every time
    the unchanged tree is scanned - the site-packages directory is read in the same order each time"""
    sp = ".venv/lib/python3.12/site-packages"
    files = {"tests/test_0.py": "def test_0(shared_fx, own_a, own_e):\n    pass\n"}
    chain = ["shared_fx"]
    for d in "abcde":
        files[sp + "/plug_%s/__init__.py" % d] = ""
        files[sp + "/plug_%s/plugin.py" % d] = FXT.format("shared_fx") + "\n@pytest.fixture\ndef own_%s(shared_fx):\n    return 2\n" % d
        files[sp + "/plug_%s-1.0.dist-info/entry_points.txt" % d] = "[pytest11]\nplug_%s = plug_%s.plugin\n" % (d, d)
    return files, ["tests/test_0.py"], chain


def rescan_part(r, tier):
    """`scanning the same workspace again … in a new process`: the real scan_workspace on the same files, several
    times over (each on a fresh index; the scan's hash sets iterate differently every time): every answer must be
    the same each time, and the model's"""
    v = r.verdict
    cases = core.Cases()
    groups = []
    nws = 6 if tier == "quick" else 40
    reps = 8 if tier == "quick" else 12
    for i in range(nws):
        files, tests, chain = rescan_corpus() if i == 0 else rescan_installed() if i == 1 else gen_rescan_workspace(r.rng)
        names = []
        for j in range(reps):
            name = "rs%dx%d" % (i, j)
            cases.case(name, {"kind": "rescan"})
            for k, (p, t) in enumerate(sorted(files.items())):
                if p.endswith(".py"):
                    cases.text("f%d" % k, t)
                else:
                    cases.text("f%d" % k, t, with_ast=False)
                cases.raw("disk %s f%d" % (p, k))
            cases.op("scan")
            cases.q("dump")
            for p in sorted(files):
                if p.endswith(".py"):
                    cases.q("defs", p)
            for t in tests:
                cases.q("avail", t)
                for m in chain:
                    cases.q("resolve", t, m if m == "shared_fx" else "fx_" + m)
            cases.q("unused")
            names.append(name)
        groups.append((names, files))
        if i < 1:
            r.samples.append({"rescan_workspace": {k: v_ for k, v_ in files.items()}})
    ia, ma, sp = r.run_cases(cases, tag="rescan")
    r.evaluations += len(ia)
    r.correspond(cases, ia, ma)
    ncmp = 0
    for (names, files) in groups:
        ref = names[0]
        nq = max(k[1] for k in cases.queries if k[0] == ref)
        for idx in range(1, nq + 1):
            q = cases.queries.get((ref, idx))
            if q is None or q[0] != "q":
                continue
            ncmp += 1
            answers = {nm: ia.get((nm, idx)) for nm in names}
            if len(set(answers.values())) <= 1:
                continue
            other = [nm for nm in names if answers[nm] != answers[ref]][0]
            msg = (f"{' '.join(q)} after scanning the same workspace: scan {ref} answers {answers[ref]} but scan {other} "
                   f"answers {answers[other]}")
            v.violation(f"{ref}-{idx}", msg, f"# {msg}\n# query #{idx}\n" + cases.replay_text(ref) + cases.replay_text(other))
    r.stats["rescan_answers_compared"] = ncmp


def run(tier, seed):
    r = Run(PROP, MODULE, THEOREMS, tier, seed, need_server=True)
    if not r.prepare():
        return r.finish(RULE)
    n = 60 if tier == "quick" else 800
    norders = 4 if tier == "quick" else 8
    cases = core.Cases(); r.last_cases = cases
    corpus_cases(cases, PROP)
    groups = []
    for i in range(n):
        ws = wsgen.gen_workspace(r.rng)
        names = []
        base = list(ws.files.keys())
        orders = [list(ws.order), list(reversed(ws.order))]
        while len(orders) < norders:
            o = list(base); r.rng.shuffle(o); orders.append(o)
        for j, o in enumerate(orders):
            name = "w%do%d" % (i, j)
            cases.case(name, dict(ws.meta, order=o))
            wsgen.emit_setup(cases, ws, order=o, fresh=(j % 2 == 1))
            battery(cases, ws)
            names.append(name)
        groups.append(names)
        ndefs = sum(1 for pf in ws.files.values() for (nm, _) in pf.defs if nm == "foo")
        if ndefs >= 2:
            r.nontrivial.add((tuple(sorted(ws.meta["modes"].items())), ws.meta["nsame"], ws.meta.get("sibling"), ws.meta["thirdparty"], ws.meta.get("plugin")))
        if i < 2:
            r.samples.append({"workspace": i, "meta": {k: str(v) for k, v in ws.meta.items()}, "orders": orders[:3]})
    ia, ma, sp = r.run_cases(cases)
    r.evaluations = len(ia)
    r.correspond(cases, ia, ma)
    v = r.verdict
    ndiff = 0
    for names in groups:
        ref = names[0]
        nq = max(k[1] for k in cases.queries if k[0] == ref)
        for idx in range(1, nq + 1):
            q = cases.queries.get((ref, idx))
            if q is None or q[0] != "q":
                continue
            answers = {nm: ia.get((nm, idx)) for nm in names}
            if len(set(answers.values())) <= 1:
                continue
            ndiff += 1
            flags = set()
            same = True
            for nm in names:
                flags |= all_flags(sp.get((nm, idx), "-"))
                same = same and core.agree(ia.get((nm, idx), ""), ma.get((nm, idx), ""))
            if q[1] in ("cycles", "cyclesin"):
                # membership in the model's set of possible answers is the correspondence; a difference
                # between runs is explained by the hash-ordered DFS roots / name-level graph
                pass
            hit = [r.known_by_hyp[h] for h in sorted(flags) if h in r.known_by_hyp]
            if same and hit:
                v.known(hit[0]["id"], hit[0]["summary"]); continue
            a0 = names[0]; other = [nm for nm in names if answers[nm] != answers[a0]][0]
            msg = (f"{' '.join(q)}: order {cases.meta[a0]['order']} answers {answers[a0]} but order "
                   f"{cases.meta[other]['order']} answers {answers[other]} (failed hypotheses: {sorted(flags) or 'none'})")
            v.violation(f"{a0}-{idx}", msg, f"# {msg}\n# query #{idx}\n" + cases.replay_text(a0) + cases.replay_text(other))
    r.stats["order_dependent_answers"] = ndiff
    rescan_part(r, tier)
    sched_part(r, tier)
    threads_part(r, tier)
    return r.finish(RULE)


def threads_part(r, tier):
    """`with any number of worker threads`: the built binary's reports (`fixtures list`, `fixtures unused` as JSON) on
    fixed trees, with RAYON_NUM_THREADS in {1, 2, 3, 8, 16}, several runs each: byte-identical. The trees are the ones
    where the scan's parallel phase has something to share: ONE real conftest.py collected under many names (symlinks
    in ten sibling packages), many files defining the same names, a deep chain of overriding conftest files"""
    import shutil
    from .c20 import run_cli
    v = r.verdict
    base = "/dev/shm/plsv-c08t-%d" % os.getpid()
    shutil.rmtree(base, ignore_errors=True)
    trees = {}
    # (1) one real file under many names
    t1 = os.path.join(base, "links", "ws")
    os.makedirs(os.path.join(t1, "shared"))
    with open(os.path.join(t1, "shared", "conftest.py"), "w") as f:
        f.write(FXT.format("shared_fx") + "\n@pytest.fixture\ndef other_fx(shared_fx):\n    return 2\n")
    for k in range(10):
        d = os.path.join(t1, "pkg%d" % k)
        os.makedirs(d)
        os.symlink(os.path.join("..", "shared", "conftest.py"), os.path.join(d, "conftest.py"))
        with open(os.path.join(d, "test_p%d.py" % k), "w") as f:
            f.write("def test_p(shared_fx%s):\n    pass\n" % (", other_fx" if k % 3 == 0 else ""))
    trees["one conftest.py symlinked into ten packages"] = t1
    # (2) many files defining the same names + a chain of overrides
    t2 = os.path.join(base, "same", "ws")
    d = t2
    for k in range(8):
        os.makedirs(d, exist_ok=True)
        with open(os.path.join(d, "conftest.py"), "w") as f:
            f.write(FXT.format("foo") if k == 0 else "import pytest\n\n@pytest.fixture\ndef foo(foo):\n    return foo\n")
        with open(os.path.join(d, "test_l%d.py" % k), "w") as f:
            f.write(FXT.format("bar") + "\ndef test_l(foo, bar):\n    pass\n")
        d = os.path.join(d, "l%d" % k)
    trees["eight nested overriding conftest files, eight same-named local fixtures"] = t2
    n = 0
    for desc, root in trees.items():
        ref = None
        for threads in ("1", "2", "3", "8", "16", "1", "8", "4", "16", "3", "8", "2", "16"):
            outs = []
            for args in (["fixtures", "list", root], ["fixtures", "unused", root, "--format", "json"]):
                rc, out, err = run_cli(args, {"RAYON_NUM_THREADS": threads})
                outs.append((rc, out))
                n += 1
            if ref is None:
                ref = (threads, outs)
            elif outs != ref[1]:
                which = 0 if outs[0] != ref[1][0] else 1
                msg = (f"the CLI's {'fixtures list' if which == 0 else 'fixtures unused --format json'} on the tree `{desc}` differs between "
                       f"RAYON_NUM_THREADS={ref[0]} and RAYON_NUM_THREADS={threads}")
                v.violation("threads-" + os.path.basename(os.path.dirname(root)), msg,
                            f"# {msg}\n# tree: {root} (rebuilt by the check)\n# --- with {ref[0]} ---\n"
                            + "".join("# | %s\n" % l for l in ref[1][which][1].split("\n"))
                            + f"# --- with {threads} ---\n" + "".join("# | %s\n" % l for l in outs[which][1].split("\n")))
                break
    shutil.rmtree(base, ignore_errors=True)
    r.stats["cli_runs_compared_across_thread_counts"] = n


def replay(path):
    return generic_replay(PROP, MODULE, THEOREMS, path)
