"""C18 — completion offers exactly the usable fixtures, only where they can be requested."""
import ast
from .. import core, proggen, wsgen, stdio
from .common import Run, corpus_cases, generic_replay, parse_list, all_flags

PROP = "C18"
MODULE = "PLS.Props.C18"
THEOREMS = ["PLS.C18_priority_table", "PLS.C18_sort_classes", "PLS.C18_excluded_iff", "PLS.C18_labels_nodup",
            "PLS.C18_func_context", "PLS.C18_parametrize_iff_indirect", "PLS.C18_valid_uses_ast",
            "PLS.C18_offered_in_function", "PLS.C18_test_not_self_excluded", "PLS.C18_fixture_self_excluded"]
RULE = ("(A) every cursor line of generated documents (module level, decorators, multi-line signatures, bodies, nested "
        "classes, non-test functions) and of the incomplete 'while typing' forms: get_completion_context compared with "
        "the Lean model (AST path + text fallback) and, for valid documents, with an oracle computed from CPython's AST "
        "(inside a test/fixture function's lines, or a usefixtures / indirect-parametrize decorator, or a pytestmark "
        "usefixtures call); (B) the real server over stdio on generated workspaces: the completion items (labels, "
        "sortText, detail, insertText, additionalTextEdits) at every line compared with the Lean handler model; labels "
        "unique; offered set = available - declared - self - narrower scope by theorem. Non-trivial = document with a "
        "decorator context or a multi-line signature; distinct by text")


def is_mark(d, name):
    if isinstance(d, ast.Call):
        d = d.func
    if not (isinstance(d, ast.Attribute) and d.attr == name):
        return False
    v = d.value
    if isinstance(v, ast.Name):
        return v.id == "mark"
    return isinstance(v, ast.Attribute) and v.attr == "mark" and isinstance(v.value, ast.Name) and v.value.id == "pytest"


def is_fixture_deco(d):
    if isinstance(d, ast.Call):
        d = d.func
    if isinstance(d, ast.Name):
        return d.id == "fixture"
    return isinstance(d, ast.Attribute) and isinstance(d.value, ast.Name) and d.attr == "fixture" and d.value.id in ("pytest", "pytest_asyncio")


def oracle_lines(text):
    """-> (lines where a completion context is due, lines of NON-indirect parametrize decorators) or None"""
    try:
        mod = ast.parse(text)
    except (SyntaxError, ValueError):
        return None
    due, nonind = set(), set()
    def uf_calls(v):
        if isinstance(v, ast.Call) and is_mark(v, "usefixtures"):
            return [v]
        if isinstance(v, (ast.List, ast.Tuple)):
            return [c for e in v.elts for c in uf_calls(e)]
        return []
    def visit(stmts):
        for s in stmts:
            if isinstance(s, (ast.FunctionDef, ast.AsyncFunctionDef, ast.ClassDef)):
                for d in s.decorator_list:
                    rng_ = range(d.lineno, (d.end_lineno or d.lineno) + 1)
                    if is_mark(d, "usefixtures"):
                        due.update(rng_)
                    elif is_mark(d, "parametrize"):
                        ind = isinstance(d, ast.Call) and any(k.arg == "indirect" and not (isinstance(k.value, ast.Constant) and k.value.value is False) for k in d.keywords)
                        (due if ind else nonind).update(rng_)
            if isinstance(s, (ast.FunctionDef, ast.AsyncFunctionDef)):
                if s.name.startswith("test_") or any(is_fixture_deco(d) for d in s.decorator_list):
                    due.update(range(s.lineno, (s.end_lineno or s.lineno) + 1))
            elif isinstance(s, ast.ClassDef):
                visit(s.body)
            elif isinstance(s, (ast.Assign, ast.AnnAssign)):
                tg = s.targets if isinstance(s, ast.Assign) else [s.target]
                if any(isinstance(t, ast.Name) and t.id == "pytestmark" for t in tg) and s.value is not None:
                    for c in uf_calls(s.value):
                        due.update(range(c.lineno, (c.end_lineno or c.lineno) + 1))
    visit(mod.body)
    return due, nonind


def run(tier, seed):
    r = Run(PROP, MODULE, THEOREMS, tier, seed, need_server=True)
    if not r.prepare():
        return r.finish(RULE)
    n = 250 if tier == "quick" else 4000
    cases = core.Cases(); r.last_cases = cases
    corpus_cases(cases, PROP)
    v = r.verdict
    docs = []
    for i in range(n):
        valid = (i % 3 != 2)
        t = proggen.gen_program(r.rng).text() if valid else proggen.typing_form(r.rng)
        name = "c%d" % i
        docs.append((name, t))
        cases.case(name, {})
        cases.text("t", t); cases.raw("disk test_c.py t"); cases.op("analyze", "test_c.py", "t")
        nl = t.count("\n") + 2
        for l in range(nl):
            cases.q("ctx", "test_c.py", l, 0)
        for l in range(1, nl, 3):
            cases.q("insert", "test_c.py", l)
        if "usefixtures(\n" in t or "(\n" in t:
            r.nontrivial.add(t)
    # (A2) what completion offers from: the per-file view, entry by entry against resolution, on workspaces with
    # workspace plugins and installed (site-packages) fixtures of the same names — precedence decides which entry a
    # name gets, hence its sort class and whether the scope filter lets it through
    for i in range(40 if tier == "quick" else 600):
        # every sixth workspace is the shape on which the two trailing passes decide: no conftest on the path defines
        # the name, a workspace plugin and an installed plugin both do, and the workspace plugin is re-analysed (it
        # then stands BEHIND the installed one in the per-name list)
        fixed = (i % 6 == 0)
        ws = (wsgen.gen_workspace(r.rng, force={0: "absent", 1: "absent", 2: "absent", 3: "absent"}, want_plugin=True, want_third=1)
              if fixed else wsgen.gen_workspace(r.rng))
        name = "v%d" % i
        cases.case(name, ws.meta)
        wsgen.emit_setup(cases, ws)
        # a re-analysis of a plugin module changes the order of the per-name list (site-packages may come first then)
        for p in ws.plugin:
            if (fixed and p == "plug/plugmod.py" or r.rng.random() < 0.5) and p in ws.files:
                cases.op("analyze", p, "t%d" % list(ws.files).index(p))
        for p in ws.files:
            cases.q("avail", p)
            for nm in wsgen.NAMES:
                cases.q("resolve", p, nm)
    r.samples = [{"text": d[1]} for d in docs[:2]]
    ia, ma, sp = r.run_cases(cases)
    r.evaluations = len(ia)
    bad = r.correspond(cases, ia, ma)
    e18 = next((x for x in r.known if x["id"] == "C18-E18-non-indirect-parametrize"), None)
    nor = 0
    for (name, t) in docs:
        o = oracle_lines(t)
        if o is None:
            continue
        due, nonind = o
        same = not any(k[0] == name for k in bad)
        for k in [k for k in cases.queries if k[0] == name and cases.queries[k][1] == "ctx"]:
            l1 = int(cases.queries[k][3]) + 1
            got = ia.get(k) not in (None, "none")
            nor += 1
            if got == (l1 in due):
                continue
            if got and l1 in nonind and ia.get(k) == "parametrize":
                if e18 and same:
                    v.known(e18["id"], e18["summary"]); continue
            fb = r.known_by_hyp.get("text-fallback-on-valid")
            if got and fb and same and "text-fallback-on-valid" in all_flags(sp.get(k, "")):
                v.known(fb["id"], fb["summary"]); continue
            msg = (f"case {name}: line {l1}: completion context is {ia.get(k)!r} but the cursor is "
                   f"{'inside' if l1 in due else 'outside'} a test/fixture function or fixture-name argument list")
            v.violation(f"{name}-{k[1]}", msg, f"# {msg}\n# query #{k[1]}\n" + cases.replay_text(name))
    r.stats["lines_compared_with_cpython_oracle"] = nor
    from . import c05
    c05.cross(r, cases, ia, ma, sp)
    # (B) handler level
    nws = 12 if tier == "quick" else 150
    scs = []
    for i in range(nws):
        ws = wsgen.gen_workspace(r.rng)
        ws.files = {p: pf for p, pf in ws.files.items() if "site-packages" not in p and not p.startswith("plug/")}
        files = {p: pf.text() for p, pf in ws.files.items()}
        files["zz/test_prog.py"] = proggen.gen_program(r.rng).text()
        sc = stdio.StdioCase("s%d" % i, files)
        order = list(files); r.rng.shuffle(order)
        for p in order:
            sc.open(p)
        for p, t in files.items():
            nl = t.count("\n") + 1
            for l in range(nl):
                sc.req("completion", p, l, 0)
                if l % 4 == 0:
                    sc.req("completion", p, l, 4, "comma")
        scs.append(sc)
    # import chains (C14's generator: helper modules shared by nested conftests, star / explicit / pytest_plugins,
    # cycles): the offered set must be the visible fixtures whatever file was asked about first
    from . import c14
    for i in range(6 if tier == "quick" else 60):
        files, mods, tests = c14.gen_imports(r.rng)
        for t in tests:
            files[t] = "def test_it():\n    pass\n"
        sc = stdio.StdioCase("i%d" % i, files)
        order = list(files); r.rng.shuffle(order)
        for p in order:
            sc.open(p)
        asked = list(tests); r.rng.shuffle(asked)
        for p in asked:
            sc.req("completion", p, 0, 0)
            sc.req("completion", p, 1, 0)
        scs.append(sc)
    # a fixture whose name is also the name of a TEST function (fixed): only a fixture is withheld from its own
    # suggestions - the test of that name may request the fixture like any other
    FX2 = "import pytest\n\n@pytest.fixture\ndef test_user():\n    return 1\n\n@pytest.fixture\ndef plain():\n    return 2\n"
    files = {"conftest.py": FX2,
             "test_same.py": "def test_user():\n    pass\n\ndef test_other():\n    pass\n",
             "sub/conftest.py": "import pytest\n\n@pytest.fixture\ndef plain(plain):\n    return plain\n\n@pytest.fixture\ndef test_user():\n    return 3\n",
             "sub/test_same.py": "class TestK:\n    def test_user(self):\n        pass\n"}
    sc = stdio.StdioCase("samename", files)
    for p in files:
        sc.open(p)
    for p, t in files.items():
        for l in range(t.count("\n") + 1):
            sc.req("completion", p, l, 0)
            if l % 4 == 0:
                sc.req("completion", p, l, 4, "comma")
    scs.append(sc)
    # (fixed) completion INSIDE an installed plugin module the editor opened: its own fixtures are same-file items
    # (class 0) before the project's conftest fixtures (class 1), whatever flags they carry for other files
    sp = ".venv/lib/python3.12/site-packages/tp/"
    files = {"conftest.py": "import pytest\n\n@pytest.fixture\ndef shared():\n    return 0\n",
             sp + "__init__.py": "",
             sp + "plugin.py": "import pytest\n\n@pytest.fixture\ndef tp_a():\n    return 1\n\n@pytest.fixture\ndef tp_b():\n    return 2\n\ndef test_in_plugin():\n    pass\n",
             "test_proj.py": "def test_p():\n    pass\n"}
    sc = stdio.StdioCase("ownplugin", files)
    for p in ("conftest.py", sp + "plugin.py", "test_proj.py"):
        sc.open(p)
    for p in (sp + "plugin.py", "test_proj.py"):
        for l in range(files[p].count("\n") + 1):
            sc.req("completion", p, l, 0)
    scs.append(sc)
    res, mcases, msp = stdio.run_all(r, scs)
    nitems = 0
    for (sc, i, step, a, m, k) in res:
        r.corr_checked += 1
        if not stdio.agree(a, m):
            r.corr_bad.append((k, list(step[:5]), a, m))
            # the label set (and its ordering class) is exactly what the property constrains: the model's
            # set is available − declared − self − narrower scope (C18_excluded_iff, C18_sort_classes)
            if step[0] == "req" and step[1] == "completion" and not m.startswith("ANYOF"):
                li = sorted(x.split("|")[0] + "/" + (x.split("|")[1] or "")[:1] for x in parse_list(a)) if a not in ("none", "[]") else []
                lm = sorted(x.split("|")[0] + "/" + (x.split("|")[1] or "")[:1] for x in parse_list(m)) if m not in ("none", "[]") else []
                if li != lm:
                    extra = [x for x in li if x not in lm]; missing = [x for x in lm if x not in li]
                    msg = (f"stdio case {sc.name}: completion at {step[2]}:{step[3]}:{step[4]} offers {li}; the usable fixtures there "
                           f"(available − declared − self − narrower scope, with their ordering class) are {lm}: "
                           f"unexpected {extra}, missing {missing}")
                    v.violation(f"{sc.name}-{i}-set", msg, f"# {msg}\n" + mcases.replay_text(sc.name))
        if step[0] == "req" and a not in ("none", "[]"):
            labels = [x.split("|")[0] for x in parse_list(a)]
            nitems += len(labels)
            if len(set(labels)) != len(labels):
                msg = f"stdio case {sc.name}: completion at {step[2]}:{step[3]} offers a name twice: {labels}"
                v.violation(f"{sc.name}-{i}", msg, f"# {msg}\n" + mcases.replay_text(sc.name))
    r.stats["completion_items_over_stdio"] = nitems
    return r.finish(RULE)


def replay(path):
    return generic_replay(PROP, MODULE, THEOREMS, path)
