"""C14 — imported and plugin fixtures are discovered transitively and classified."""
from .. import core
from ..pybuild import hx
from .common import check_imported, Run, corpus_cases, generic_replay, check_spec, parse_list, split_spec
from .c03 import parse_def

PROP = "C14"
MODULE = "PLS.Props.C14M"     # imports PLS.Props.C14P (C14I, C14)
THEOREMS = ["PLS.C14_classification", "PLS.C14_editable_in_workspace", "PLS.C14_editable_outside_workspace",
            "PLS.C14_entry_point_no_traversal", "PLS.C14_traversal_examples", "PLS.C14_pytest11_section_only",
            "PLS.C14_package_name_examples", "PLS.C14_pth_stem_rule", "PLS.C14_plugin_dir_files",
            "PLS.C14_plugin_mark_propagation", "PLS.C14_imported_is_closure", "PLS.C14_imported_keeps_coherence",
            "PLS.C14_any_query_order", "PLS.C07_imported_warm_eq_cold", "PLS.C14_coherent_after_analysis", "PLS.C14_query_keeps_bound",
            "PLS.ImpC.nested_state", "PLS.ImpC.nested_res", "PLS.ImpC.top_query",
            "PLS.C14_plugin_files_are_the_closure", "PLS.C08_plugin_files_order_independent", "PLS.ScanC.importStep_inv",
            "PLS.ScanC.importScanFile_inv", "PLS.ScanC.analyzeAll_same",
            "PLS.C14_module_before_package", "PLS.C14_package_when_no_module", "PLS.C14_dotted_path_through_directories"]
RULE = ("(A) random import graphs over fixture modules (depth <= 4, fan-out <= 3, relative levels 1-3, absolute "
        "imports, packages via __init__.py, star / explicit / aliased imports, pytest_plugins incl. "
        "last-assignment-wins, cycles and self-imports) indexed by the real scan; resolve / available fixtures from "
        "files at every level compared with the Lean model and the Spec.Provides closure. (B) synthetic virtualenvs "
        "(.venv / venv / env; dist-info and egg-info entry points with comments, other sections, module:attr targets; "
        "module vs package targets; pytest's _pytest package; editable installs inside / outside the workspace with "
        "the .pth naming variants; plugin modules that pull others in by star import or pytest_plugins): which "
        "fixtures are found and how they are classified (third-party / workspace plugin) compared with the model "
        "and with an oracle of the property. Non-trivial = graph with a chain of length >= 2 or a venv with an "
        "editable install; distinct by edge set / venv layout")

FX = "import pytest\n\n@pytest.fixture\ndef {0}():\n    return 1\n"


def gen_imports(rng):
    """-> files, list of (file, fixture) definitions, tests"""
    files = {}
    dirs = ["", "pkg", "pkg/sub", "pkg/sub/deep", "other"]
    mods = []
    n = rng.choice([2, 3, 4, 5])
    for i in range(n):
        d = rng.choice(dirs[:4])
        kind = rng.choice(["module", "module", "package"])
        name = "fixmod%d" % i
        stdlike = rng.random() < 0.25
        if stdlike:
            # a project-local module that happens to be called like a standard-library one
            name = rng.choice(["http", "email", "types", "json", "logging", "time", "random", "string"]) + ("" if i == 0 else "")
            if any(m["name"] == name for m in mods):
                name = "fixmod%d" % i; stdlike = False
        path = (d + "/" if d else "") + (name + ".py" if kind == "module" else name + "/__init__.py")
        mods.append({"name": name, "dir": d, "path": path, "fixture": "f%d" % i, "body": [FX.format("f%d" % i)], "stdlike": stdlike})
    def ref(frm_dir, m, style):
        """import statement for module m from a file in frm_dir"""
        fd = [x for x in frm_dir.split("/") if x]
        md = [x for x in m["dir"].split("/") if x]
        if m.get("stdlike"):
            style = "rel"        # `from http import *` is the standard library, `from .http import *` is not
        if style == "abs" or not (fd[:len(md)] == md):
            # absolute: found by the upward search when m.dir is an ancestor-or-self of frm_dir
            if m.get("stdlike"):
                return None
            return ("abs", m["name"]) if fd[:len(md)] == md else None
        up = len(fd) - len(md)
        return ("rel", "." * (up + 1) + m["name"])
    # edges between modules (chains, cycles)
    for i, m in enumerate(mods):
        for _ in range(rng.choice([0, 0, 1, 2])):
            t = rng.choice(mods)
            r = ref(m["dir"], t, rng.choice(["rel", "abs"]))
            if r is None:
                continue
            form = rng.choice(["star", "star", "explicit", "plugins"])
            if form == "star":
                m["body"].append("from %s import *\n" % r[1])
            elif form == "explicit":
                m["body"].append("from %s import %s\n" % (r[1], t["fixture"]))
            elif r[0] == "abs":
                m["body"].append(rng.choice(['pytest_plugins = ["%s"]\n', 'pytest_plugins = ("%s",)\n', 'pytest_plugins: list = ["%s"]\n',
                                            'pytest_plugins = "%s"\n', 'pytest_plugins = ["%s"]\npytest_plugins: list\n']) % r[1])
    # two modules that star-import each other (a set cut short by the circular-import guard must never be taken
    # for a module's complete set, whichever of them is asked about first)
    if len(mods) >= 2 and rng.random() < 0.35:
        a, b = rng.sample(mods, 2)
        ra, rb = ref(a["dir"], b, "rel") or ref(a["dir"], b, "abs"), ref(b["dir"], a, "rel") or ref(b["dir"], a, "abs")
        if ra is not None and rb is not None:
            a["body"].append("from %s import *\n" % ra[1])
            b["body"].append("from %s import *\n" % rb[1])
    # conftests import some modules
    confs = {}
    for d in dirs[:4]:
        if rng.random() < 0.7:
            lines = ["import pytest\n"]
            for _ in range(rng.choice([1, 1, 2])):
                t = rng.choice(mods)
                r = ref(d, t, rng.choice(["rel", "abs"]))
                if r is None:
                    continue
                form = rng.choice(["star", "explicit", "alias", "plugins", "plugins2"])
                if form == "star": lines.append("from %s import *\n" % r[1])
                elif form == "explicit": lines.append("from %s import %s\n" % (r[1], t["fixture"]))
                elif form == "alias": lines.append("from %s import %s as renamed_%s\n" % (r[1], t["fixture"], t["fixture"]))
                elif r[0] == "abs":
                    if form == "plugins2":
                        lines.append('pytest_plugins = ["nonexistent_mod"]\n')   # overwritten below: last assignment wins
                    lines.append(rng.choice(['pytest_plugins = ["%s"]\n', 'pytest_plugins = ("%s", "no_such_mod")\n',
                                             'pytest_plugins: tuple = ("%s",)\n', 'pytest_plugins = "%s"\n']) % r[1])
            confs[(d + "/" if d else "") + "conftest.py"] = "".join(lines)
    # one helper module shared by the conftests of several nested directories, itself pulling another module in
    # that nothing else refers to: what each conftest provides must not depend on which of them was expanded first
    if rng.random() < 0.4:
        base = {"name": "basemod", "dir": "", "path": "basemod.py", "fixture": "fbase", "body": [FX.format("fbase")], "stdlike": False}
        shared = {"name": "sharedmod", "dir": "", "path": "sharedmod.py", "fixture": "fshared",
                  "body": [FX.format("fshared"), "from .basemod import *\n"], "stdlike": False}
        mods += [base, shared]
        for d in rng.sample(dirs[:4], rng.choice([2, 3])):
            key = (d + "/" if d else "") + "conftest.py"
            confs[key] = confs.get(key, "import pytest\n") + "from %s import *\n" % ref(d, shared, "rel")[1]
    for m in mods:
        files[m["path"]] = "".join(m["body"])
    files.update(confs)
    for m in mods:
        if m["path"].endswith("__init__.py") and rng.random() < 0.5:
            pd = m["path"][:-len("__init__.py")]
            files[pd + "conftest.py"] = "from . import %s\n" % m["fixture"]
            files[pd + "test_inpkg.py"] = "def test_p(%s):\n    pass\n" % m["fixture"]
    tests = []
    for d in dirs:
        p = (d + "/" if d else "") + "test_here.py"
        files[p] = "def test_it(%s):\n    pass\n" % ", ".join(m["fixture"] for m in mods)
        tests.append(p)
    return files, mods, tests


VENVS = [".venv", "venv", "env"]


def gen_venv(rng):
    """-> files (incl. non-Python metadata), expectations [(fixture, klass)] klass in third/plugin/absent"""
    files, expect = {}, []
    v = rng.choice(VENVS)
    sp = "%s/lib/python3.11/site-packages" % v
    if rng.random() < 0.2:
        sp = "%s/Lib/site-packages" % v
    def entry_points(pairs, style):
        pre = rng.choice(["", "[console_scripts]\ntool = pkg.cli:main\n\n", "# generated\n"])
        body = "[pytest11]\n" + "".join(("%s = %s\n" if style != "tight" else "%s=%s\n") % p for p in pairs)
        post = rng.choice(["", "\n[other]\nx = y\n", "# end\n"])
        return pre + body + post
    # pytest's own fixtures
    if rng.random() < 0.6:
        files[sp + "/_pytest/fixtures_builtin.py"] = FX.format("tmp_thing")
        files[sp + "/_pytest/test_internal.py"] = FX.format("never_scanned")
        files[sp + "/_pytest/a/b/c/too_deep.py"] = FX.format("too_deep")
        expect += [("tmp_thing", "third"), ("never_scanned", "absent"), ("too_deep", "absent")]
    # installed plugins
    for i in range(rng.choice([1, 2, 3])):
        kind = rng.choice(["module", "submodule", "package", "attr", "egg", "no-section", "traversal"])
        name = "pytest_p%d" % i
        meta = sp + "/%s-1.%d.%s" % (name.replace("_", "-") if rng.random() < 0.5 else name, i, "egg-info" if kind == "egg" else "dist-info")
        fx = "plug_fx%d" % i
        if kind == "module":
            files[sp + "/%s.py" % name] = FX.format(fx)
            files[meta + "/entry_points.txt"] = entry_points([(name, name)], rng.choice(["spaced", "tight"]))
            expect.append((fx, "third"))
        elif kind in ("submodule", "attr", "egg"):
            files[sp + "/%s/__init__.py" % name] = ""
            extra = ""
            if rng.random() < 0.5:
                extra = rng.choice(["from .helpers import *\n", 'pytest_plugins = ["%s.helpers"]\n' % name, "from .helpers import helper_fx%d\n" % i])
                files[sp + "/%s/helpers.py" % name] = FX.format("helper_fx%d" % i)
                expect.append(("helper_fx%d" % i, "third"))
            files[sp + "/%s/plugin.py" % name] = extra + FX.format(fx)
            tgt = "%s.plugin" % name + (":hook" if kind == "attr" else "")
            files[meta + "/entry_points.txt"] = entry_points([(name, tgt)], "spaced")
            expect.append((fx, "third"))
        elif kind == "package":
            files[sp + "/%s/__init__.py" % name] = FX.format(fx)
            files[sp + "/%s/more.py" % name] = FX.format(fx + "_more")
            files[meta + "/entry_points.txt"] = entry_points([(name, name)], "spaced")
            expect += [(fx, "third"), (fx + "_more", "third")]
        elif kind == "no-section":
            files[sp + "/%s.py" % name] = FX.format(fx)
            files[meta + "/entry_points.txt"] = "[console_scripts]\n%s = %s\n" % (name, name)
            expect.append((fx, "absent"))
        else:
            files[sp + "/%s.py" % name] = FX.format(fx)
            files[meta + "/entry_points.txt"] = "[pytest11]\n%s = ..%s\nbad = a..b\n" % (name, name)
            expect.append((fx, "absent"))
    # editable installs
    for i in range(rng.choice([0, 1, 1, 2])):
        where = rng.choice(["external", "workspace"])
        pkg = rng.choice(["my-pkg%d" % i, "my_pkg%d" % i, "My.Pkg%d" % i])
        norm = pkg.replace("-", "_").replace(".", "_").lower()
        modname = norm
        src = "@EXT/src%d" % i if where == "external" else "plugins_src%d" % i
        srcabs = "@BASE@/ext/src%d" % i if where == "external" else "@BASE@/ws/plugins_src%d" % i
        fx = "edit_fx%d" % i
        files["%s/%s/__init__.py" % (src, modname)] = ""
        # the entry module may pull further modules in, over one or two hops (star import / pytest_plugins)
        chain = rng.choice([0, 0, 1, 2, 2])
        head = ""
        hops = []
        for h in range(chain):
            this = "plugin" if h == 0 else "level%d" % h
            nxt = "level%d" % (h + 1)
            stmt = rng.choice(["from .%s import *\n" % nxt, 'pytest_plugins = ["%s.%s"]\n' % (modname, nxt)])
            hops.append((this, nxt, stmt))
        for (this, nxt, stmt) in hops:
            if this == "plugin":
                head = stmt
            else:
                files["%s/%s/%s.py" % (src, modname, this)] = stmt + FX.format("%s_%s" % (fx, this))
        if hops:
            last = hops[-1][1]
            files["%s/%s/%s.py" % (src, modname, last)] = FX.format("%s_%s" % (fx, last))
        shared = ""
        if where == "workspace" and rng.random() < 0.5:
            # the plugin re-exports the fixtures of a conftest.py of its own package: that file is indexed by
            # the workspace walk first and must be re-analysed as plugin code afterwards
            files["%s/%s/conftest.py" % (src, modname)] = FX.format("%s_shared" % fx)
            shared = "from .conftest import *\n"
        files["%s/%s/plugin.py" % (src, modname)] = shared + head + FX.format(fx)
        meta = sp + "/%s-0.1.dist-info" % pkg
        dj = rng.choice(['{"url": "file:///x", "dir_info": {"editable": true}}', '{"dir_info": {"editable": false}, "url": "u"}',
                         '{"url": "file:///x"}', '{"url": ', '{"dir_info": {"editable": true}, "url": "file:///y"}'])
        files[meta + "/direct_url.json"] = dj
        files[meta + "/entry_points.txt"] = "[pytest11]\n%s = %s.plugin\n" % (norm, modname)
        pth = rng.choice(["__editable__.%s-0.1.pth" % norm, "_%s.pth" % norm, "%s.pth" % norm, "__editable__.%s-0.1.pth" % pkg, "unrelated.pth"])
        content = rng.choice(["%s\n", "# comment\nimport sys\n%s\n", "\n%s\n", "%s/../escape\n%s\n"]).replace("%s", srcabs)
        files[sp + "/" + pth] = content
        editable = '"editable": true' in dj and not dj.endswith(": ")
        matched = pth != "unrelated.pth" and not (pth.startswith("__editable__.%s-0.1" % pkg) and pkg != norm and False)
        found = editable and pth != "unrelated.pth"
        klass = ("third" if where == "external" else "plugin") if found else "absent"
        expect.append((fx, klass))
        if shared:
            # found or not, the conftest is a workspace file; it is plugin code only when the plugin is loaded
            expect.append(("%s_shared" % fx, "plugin" if found else "workspace"))
        for (this, nxt, stmt) in hops:
            # everything the entry module pulls in, however many hops away, is plugin code too
            expect.append(("%s_%s" % (fx, nxt), klass))
        if len(hops) >= 2 and found and rng.random() < 0.6:
            # a conftest.py elsewhere imports modules from the middle of the chain as well: the import scan then
            # meets them by two routes, in whatever order its work lists iterate - they stay plugin code
            files["suite%d/conftest.py" % i] = "".join(
                rng.choice(["from %s.%s import *\n", 'pytest_plugins = ["%s.%s"]\n']) % (modname, nxt) for (_, nxt, _) in hops)
            files["suite%d/test_s.py" % i] = "def test_s(%s_%s):\n    pass\n" % (fx, hops[-1][1])
    return files, expect, v


def run(tier, seed):
    r = Run(PROP, MODULE, THEOREMS, tier, seed)
    if not r.prepare():
        return r.finish(RULE)
    v = r.verdict
    n = 60 if tier == "quick" else 900
    cases = core.Cases(); r.last_cases = cases
    corpus_cases(cases, PROP)
    venv_cases = []

    def emit_venv(name, files, expect, ask="test_ws.py"):
        cases.case(name, {"kind": "venv"})
        for k, (p, t) in enumerate(sorted(files.items())):
            if p.endswith(".py"):
                cases.text("f%d" % k, t)
            else:
                cases.text("f%d" % k, t, with_ast=False)
            cases.raw("disk %s f%d" % (p, k))
        cases.op("scan")
        cases.q("dump")
        for p in sorted(files):
            if p.endswith(".py"):
                cases.q("defs", p)
        cases.q("avail", ask)
        cases.q("unused")
        venv_cases.append((name, files, expect))

    # (fixed 2bbe7de, d747ded) a plugin whose inner modules are also imported by conftest.py files: the import scan meets them
    # by several routes in hash order - scanned several times over, every module of the chain is plugin code each time
    from . import c08
    for rep in range(4 if tier == "quick" else 12):
        files, tests, chain = c08.rescan_corpus()
        emit_venv("vc%d" % rep, files, [("fx_" + m, "plugin") for m in chain], ask=tests[0])
    # two editable installs side by side: the project itself (inside the workspace) and a library outside it - each is
    # classified by where ITS source lives
    sp = "venv/lib/python3.12/site-packages"
    two = {
        "conftest.py": FX.format("project_fx"),
        "test_ws.py": "def test_w(inner_fx, outer_fx):\n    pass\n",
        "plugins_in/inner_pkg/__init__.py": "", "plugins_in/inner_pkg/plugin.py": FX.format("inner_fx"),
        "@EXT/outer_src/outer_pkg/__init__.py": "", "@EXT/outer_src/outer_pkg/plugin.py": FX.format("outer_fx"),
        sp + "/inner_pkg-0.1.dist-info/entry_points.txt": "[pytest11]\ninner = inner_pkg.plugin\n",
        sp + "/inner_pkg-0.1.dist-info/direct_url.json": '{"url": "file:///x", "dir_info": {"editable": true}}',
        sp + "/__editable__.inner_pkg-0.1.pth": "@BASE@/ws/plugins_in\n",
        sp + "/outer_pkg-0.1.dist-info/entry_points.txt": "[pytest11]\nouter = outer_pkg.plugin\n",
        sp + "/outer_pkg-0.1.dist-info/direct_url.json": '{"url": "file:///y", "dir_info": {"editable": true}}',
        sp + "/__editable__.outer_pkg-0.1.pth": "@BASE@/ext/outer_src\n",
    }
    emit_venv("vtwo", two, [("inner_fx", "plugin"), ("outer_fx", "third")])
    # an explicit import of a name from a module that only RE-EXPORTS it (`from ..sharedmod import fbase`, where sharedmod
    # star-imports basemod): the name is imported all the same (fixed graph, runs first)
    fixed_imports = {
        "basemod.py": FX.format("fbase"),
        "sharedmod.py": "from .basemod import *\n",
        "pkg/__init__.py": "",
        "pkg/conftest.py": "import pytest\nfrom ..sharedmod import fbase\n",
        "pkg/test_here.py": "def test_it(fbase):\n    pass\n",
        "other/test_here.py": "def test_it(fbase):\n    pass\n",
    }
    cases.case("gfix", {"kind": "imports"})
    for k, (p, t) in enumerate(sorted(fixed_imports.items())):
        cases.text("f%d" % k, t); cases.raw("disk %s f%d" % (p, k))
    cases.op("scan")
    cases.q("dump")
    for t in ("pkg/test_here.py", "other/test_here.py"):
        cases.q("avail", t); cases.q("resolve", t, "fbase")
    for p in ("pkg/conftest.py", "sharedmod.py"):
        cases.q("imported", p)
    # (fixed) a dotted module path THROUGH a directory without `__init__.py` (a namespace package): `fixtures.db` is
    # `fixtures/db.py` all the same, by pytest_plugins, star import and explicit import
    ns = {
        "fixtures/db.py": FX.format("fdb"),
        "fixtures/deep/cache.py": FX.format("fcache"),
        "conftest.py": 'pytest_plugins = ["fixtures.db"]\n',
        "sub/conftest.py": "from fixtures.deep.cache import *\n",
        "other/conftest.py": "import pytest\nfrom fixtures.db import fdb\n",
        "test_ns.py": "def test_it(fdb):\n    pass\n",
        "sub/test_ns.py": "def test_it(fdb, fcache):\n    pass\n",
        "other/test_ns.py": "def test_it(fdb):\n    pass\n",
    }
    cases.case("gns", {"kind": "imports"})
    for k, (p, t) in enumerate(sorted(ns.items())):
        cases.text("f%d" % k, t); cases.raw("disk %s f%d" % (p, k))
    cases.op("scan")
    cases.q("dump")
    for t in ("test_ns.py", "sub/test_ns.py", "other/test_ns.py"):
        cases.q("avail", t); cases.q("resolve", t, "fdb"); cases.q("resolve", t, "fcache")
    for p in ("conftest.py", "sub/conftest.py", "other/conftest.py"):
        cases.q("imported", p)
    for i in range(n):
        rng = r.rng
        if i % 2 == 0:
            files, mods, tests = gen_imports(rng)
            name = "g%d" % i
            cases.case(name, {"kind": "imports"})
            for k, (p, t) in enumerate(sorted(files.items())):
                cases.text("f%d" % k, t); cases.raw("disk %s f%d" % (p, k))
            importing = [m["path"] for m in mods if len(m["body"]) > 1]
            if rng.random() < 0.35 or (i % 8 == 0 and importing):
                # some fixture modules are open in the editor (indexed, same text as on disk) before the scan starts:
                # the scan meets them as import targets that are cached already - what THEY import is found all the same
                # (every fourth graph: a module that itself imports another one is among them)
                keys = sorted(files)
                early = rng.sample([m["path"] for m in mods], min(len(mods), rng.choice([1, 2])))
                if i % 8 == 0 and importing and not set(early) & set(importing):
                    early.append(importing[0])
                for pth in early:
                    cases.op("analyze", pth, "f%d" % keys.index(pth))
                r.stats["opened_before_scan"] = r.stats.get("opened_before_scan", 0) + len(early)
            cases.op("scan")
            cases.q("dump")
            # the order in which files are asked about is part of the history (memo tables): innermost first as
            # often as outermost first
            tests = list(tests); rng.shuffle(tests)
            for t in tests:
                cases.q("avail", t)
                for m in mods:
                    cases.q("resolve", t, m["fixture"])
            for p in files:
                if p.endswith("conftest.py") or any(m["path"] == p for m in mods):
                    cases.q("imported", p)
            if sum(len(m["body"]) for m in mods) > len(mods) + 1:
                r.nontrivial.add(tuple(sorted((m["path"], tuple(m["body"][1:])) for m in mods)))
            if i < 2:
                r.samples.append({"case": name, "files": files})
        else:
            files, expect, vname = gen_venv(rng)
            files["conftest.py"] = FX.format("project_fx")
            installed = sorted({p.split("site-packages/")[1].split("/")[0].replace(".py", "") for p in files
                                if "site-packages/pytest_p" in p and "-info" not in p})
            # only modules that are discovered anyway (an import would legitimately pull an otherwise unlisted one in)
            absent = {fx_ for (fx_, k_) in expect if k_ == "absent"}
            installed = [m_ for m_ in installed if "plug_fx" + m_.replace("pytest_p", "") not in absent]
            if installed and r.rng.random() < 0.5:
                files["conftest.py"] += r.rng.choice(['pytest_plugins = ["%s"]\n', "from %s import *\n"]) % r.rng.choice(installed)
            files["test_ws.py"] = "def test_w(%s):\n    pass\n" % ", ".join(e[0] for e in expect[:4] or [("project_fx", "")])
            name = "v%d" % i
            emit_venv(name, files, expect)
            if any(e[0].startswith("edit_fx") for e in expect):
                r.nontrivial.add(tuple(sorted(files)))
            if i < 3:
                r.samples.append({"case": name, "files": {k: v_ for k, v_ in files.items() if not k.endswith(".py")}, "expect": expect})
    ia, ma, sp = r.run_cases(cases)
    r.evaluations = len(ia)
    r.correspond(cases, ia, ma)
    check_spec(r, cases, ia, ma, sp, kinds=("resolve",))
    check_imported(r, cases, ia, ma, sp)
    # venv oracle
    nexp = 0
    for (name, files, expect) in venv_cases:
        found = {}
        for k in [k for k in cases.queries if k[0] == name and cases.queries[k][1] == "defs"]:
            for rec in parse_list(ia.get(k, "[]")):
                f = rec.split("|")
                found.setdefault(f[0], []).append((f[12] == "1", f[13] == "1", f[1]))
        uk = [k for k in cases.queries if k[0] == name and cases.queries[k][1] == "unused"][0]
        unused = {x.rsplit(":", 1)[1] for x in parse_list(ia.get(uk, "[]"))}
        for (fx, klass) in expect:
            nexp += 1
            got = found.get(fx, [])
            if klass == "absent":
                if got:
                    msg = f"venv case {name}: fixture {fx} should not be discovered (test file / too deep / no pytest11 entry / rejected module path / not an editable install) but is: {got}"
                    v.violation(name, msg, f"# {msg}\n" + cases.replay_text(name))
                continue
            if not got:
                msg = f"venv case {name}: plugin fixture {fx} ({klass}) is not discovered"
                v.violation(name, msg, f"# {msg}\n" + cases.replay_text(name)); continue
            tp, pl, path = got[0]
            if klass == "workspace":
                if tp or pl:
                    msg = f"venv case {name}: fixture {fx} from {path} is a plain workspace fixture (its plugin is not loaded) but is classified third_party={tp} plugin={pl}"
                    v.violation(name, msg, f"# {msg}\n" + cases.replay_text(name))
                continue
            want_tp = (klass == "third")
            if tp != want_tp or (not want_tp and not pl):
                msg = f"venv case {name}: fixture {fx} from {path} is classified third_party={tp} plugin={pl}, expected {'third-party' if want_tp else 'workspace plugin'} (plugin=True)"
                v.violation(name, msg, f"# {msg}\n" + cases.replay_text(name))
            if want_tp and fx in unused:
                msg = f"venv case {name}: third-party fixture {fx} is listed as an unused PROJECT fixture"
                v.violation(name, msg, f"# {msg}\n" + cases.replay_text(name))
    r.stats["venv_expectations_checked"] = nexp
    return r.finish(RULE)


def replay(path):
    return generic_replay(PROP, MODULE, THEOREMS, path)
