"""The verdict procedure shared by all properties (DESIGN §4)."""
import os, sys, time, json, random, glob
from .. import core


class Run:
    def __init__(self, prop, module, theorems, tier, seed, need_server=False):
        self.prop, self.module, self.theorems = prop, module, theorems
        self.tier, self.seed = tier, seed
        self.t0 = time.time()
        self.verdict = core.Verdict(prop)
        self.rng = random.Random(seed * 1000003 + int(prop[1:]))
        self.known = core.load_known(prop)
        self.known_by_hyp = {}
        for e in self.known:
            for h in e.get("hypotheses", []):
                self.known_by_hyp.setdefault(h, e)
        self.obligations = len(theorems)
        self.discharged = 0
        self.axioms = {}
        self.broken = []          # descriptions of broken obligations / ties
        self.stats = {}
        self.samples = []
        self.evaluations = 0
        self.nontrivial = set()
        self.corr_checked = 0
        self.corr_bad = []        # (key, query, impl, model)
        self.need_server = need_server
        self.build = None
        self.abort_at = None      # ((case, idx), status) of the operation during which the harness process died

    # ---- step 1/2: obligations and translator
    def prepare(self):
        b = core.prepare(self.module, need_server=self.need_server)
        self.build = b
        if not b["translator"]:
            self.broken.append("translator: " + b.get("translator_log", "")[-300:])
        if not b["lean_build"]:
            self.broken.append("lake build %s failed: %s" % (self.module, last_error(b["lean_log"])))
        if b["forbidden"]:
            self.broken.append("forbidden tokens in proofs: " + "; ".join(b["forbidden"][:5]))
        if not b["cargo"]:
            self.broken.append("cargo build of the harness against the current tree failed: " + b["cargo_log"][-400:])
        if self.need_server and not b["server"]:
            self.broken.append("cargo build of the server binary failed: " + b.get("server_log", "")[-400:])
        if b["lean_build"]:
            ok, per, log = core.audit(self.prop, self.module, self.theorems)
            self.axioms = per
            good = 0
            for t in self.theorems:
                ks = [k for k in per if k == t or k.endswith("." + t)]
                if ks and all(set(per[k]) <= core.ALLOWED_AXIOMS for k in ks):
                    good += 1
            self.discharged = good
            if not ok:
                self.broken.append("axiom audit failed: " + log[-300:])
            if self.tier == "thorough":
                # independent re-check of the compiled module (and everything it imports) by leanchecker
                rc, out = core.sh(["lake", "env", "leanchecker", self.module], cwd=core.LEAN, timeout=3000)
                self.stats["leanchecker"] = "ok" if rc == 0 else "FAILED"
                if rc != 0:
                    self.broken.append("leanchecker rejects %s: %s" % (self.module, out[-300:]))
        return b["cargo"] and b["driver_build"]

    # ---- step 3: correspondence
    def run_cases(self, cases, tag="cases"):
        path = os.path.join(core.BUILD, f"{self.prop}-{tag}-{os.getpid()}.case")
        cases.write(path)
        rc, out, dt = core.run_impl(path)
        ia, _ = core.parse_answers(out)
        # the scan's schedule is an input of the model: pass the observed per-name order on
        hints = {k: "hint scanorder " + a[len("ok order="):] for k, a in ia.items() if a.startswith("ok order=")}
        # … and so is the set of files the pressure-driven eviction dropped (hash order)
        hints.update({k: "hint evicted " + a[len("ok evicted="):] for k, a in ia.items() if a.startswith("ok evicted=")})
        if hints:
            cases.write(path, hints)
        rc2, out2, dt2 = core.run_model(path)
        os.remove(path)
        ma, sp = core.parse_answers(out2)
        if rc == -99:
            # the watchdog fired: the first operation without an answer did not terminate
            done = set(ia.keys())
            missing = sorted((k for k in cases.queries if k not in done), key=lambda k: cases.pos.get(k, 1 << 60) if k in cases.pos else 1 << 60)
            order = [k for k in cases.queries if k not in done]
            first = order[0] if order else None
            if first is not None:
                q = cases.queries[first]
                msg = f"operation does not terminate: {' '.join(q)} (case {first[0]} #{first[1]}) — no answer within the watchdog interval"
                self.verdict.violation(f"{first[0]}-{first[1]}-hang", msg, f"# {msg}\n" + cases.replay_text(first[0]))
            self.broken.append("harness killed by the watchdog (an operation did not terminate)")
        elif rc != 0:
            self.broken.append(f"harness exited with status {rc} (abort inside the implementation?)")
            order = [k for k in cases.queries if k not in ia]
            if order:
                self.abort_at = (order[0], rc)
        if rc2 != 0:
            self.broken.append(f"model driver exited with status {rc2}")
        self.stats.setdefault("impl_s", 0); self.stats["impl_s"] += round(dt, 2)
        self.stats.setdefault("model_s", 0); self.stats["model_s"] += round(dt2, 2)
        return ia, ma, sp

    def divergent_cases(self, cases, ia):
        """cases containing a text that CPython and rustpython judge differently (valid / invalid):
        the model is fed CPython's verdict, so these are parser divergence, not model disagreement"""
        div = set()
        for k, a in ia.items():
            if a.startswith("ok parsed="):
                q = cases.queries.get(k)
                if not q or len(q) < 4:
                    continue
                tid = q[3]
                cp = cases.ast_valid.get((k[0], tid))
                if cp is not None and cp != (a.strip().endswith("1")):
                    div.add(k[0])
        self.stats["parser_divergent_cases"] = self.stats.get("parser_divergent_cases", 0) + len(div)
        return div

    def correspond(self, cases, ia, ma, keys=None):
        """impl = model on every answer; returns set of disagreeing keys"""
        bad = set()
        div = self.divergent_cases(cases, ia)
        for k in (keys if keys is not None else cases.queries.keys()):
            if k[0] in div:
                continue
            self.corr_checked += 1
            a, m = ia.get(k), ma.get(k)
            if a is None or m is None or not core.agree(a, m):
                bad.add(k)
                self.corr_bad.append((k, cases.queries[k], a, m))
        return bad

    # ---- step 5/6
    def finish(self, rule, extra_cov=None, assumptions=None):
        v = self.verdict
        # correspondence or obligations broken without a failing input
        if not v.violations:
            if self.corr_bad:
                k, q, a, m = self.corr_bad[0]
                msg = (f"correspondence broken: implementation and model disagree on {len(self.corr_bad)} answers; "
                       f"first: case {k[0]} #{k[1]} {' '.join(map(str, q))} impl={a!r} model={m!r}; the property's oracle found no failing input")
                v.violation("correspondence", msg, self._corr_replay(k, q, a, m), has_input=False)
            elif self.broken:
                msg = "proof obligation / tie no longer checks: " + self.broken[0]
                v.violation("obligation", msg, "# " + "\n# ".join(self.broken) + "\n", has_input=False)
        wall = time.time() - self.t0
        cov = {
            "obligations": self.obligations,
            "discharged": self.discharged,
            "checker_cmd": f"cd lean && lake build {self.module} && lake env lean .build/audit_{self.prop}.lean  (#print axioms; forbidden-token grep)",
            "trusted_base": core.TRUSTED_BASE,
            "theorems": self.theorems,
            "axioms": self.axioms,
            "broken": self.broken,
            "evaluations": self.evaluations,
            "distinct_nontrivial": len(self.nontrivial),
            "rule": rule,
            "samples": self.samples[:6],
            "correspondence_answers_compared": self.corr_checked,
            "correspondence_disagreements": len(self.corr_bad),
            "correspondence_first_disagreements": [{"case": str(k[0]), "query": " ".join(map(str, q))[:200], "impl": str(a)[:400], "model": str(m)[:400]}
                                                   for (k, q, a, m) in self.corr_bad[:3]],
            "known_findings_replayed": sorted(v.known_hit.keys()),
            "distribution": self.stats,
        }
        if extra_cov:
            cov.update(extra_cov)
        core.write_evidence(self.prop, self.tier, self.seed, cov, wall, len(v.violations), assumptions)
        return v.finish()

    def _corr_replay(self, k, q, a, m):
        c = self.last_cases
        return (f"# correspondence that no longer checks: impl vs model on query #{k[1]} `{' '.join(map(str, q))}`\n"
                f"# impl : {a}\n# model: {m}\n" + (c.replay_text(k[0]) if c else ""))


def last_error(log):
    lines = [l for l in log.splitlines() if "error" in l.lower()]
    return (lines[0] if lines else log[-200:])[:300]


def parse_list(s):
    s = s.strip()
    if s in ("[]", "none", ""):
        return []
    return s.strip("[]").split()


def all_flags(s):
    """every FLAGS=… group of a spec line (per-name groups included)"""
    import re
    out = set()
    for m in re.finditer(r"FLAGS=([A-Za-z0-9,\-]+)", s or ""):
        out |= set(m.group(1).split(","))
    return out


def split_spec(s):
    """'[a b] FLAGS=x,y' -> (['a','b'], {'x','y'})"""
    flags = set()
    if " FLAGS=" in s:
        s, f = s.split(" FLAGS=", 1)
        flags = set(f.strip().split(","))
    elif s.startswith("FLAGS="):
        flags = set(s[6:].strip().split(",")); s = "[]"
    return parse_list(s), flags


def check_spec(run, cases, ia, ma, sp, kinds=("goto", "resolve")):
    """impl answer must be one of the spec-acceptable definitions"""
    v = run.verdict
    nfail = 0
    for k, s in sp.items():
        q = cases.queries[k]
        if q[1] not in kinds:
            continue
        a = ia.get(k)
        if a is None:
            continue
        acc, flags = split_spec(s)
        ok = (a == "none" and not acc) or (a in acc)
        if ok:
            continue
        nfail += 1
        same = core.agree(a, ma.get(k, ""))
        explained = [run.known_by_hyp[h] for h in flags if h in run.known_by_hyp]
        if same and explained:
            e = explained[0]
            v.known(e["id"], e["summary"])
            continue
        msg = (f"{' '.join(q)} in case {k[0]}: implementation answers {a}, the property allows {acc or 'nothing'}"
               f" (model answers {ma.get(k)}; failed hypotheses: {sorted(flags) or 'none'})")
        rep = (f"# {msg}\n# failing query is #{k[1]}: {' '.join(q)}\n" + cases.replay_text(k[0]))
        v.violation(f"{k[0]}-{k[1]}", msg, rep)
    run.stats["spec_failures_explained_or_not"] = run.stats.get("spec_failures_explained_or_not", 0) + nfail



def check_imported(run, cases, ia, ma, sp):
    """`imported p` must be the names p provides through its import edges (closure over star imports and
    pytest_plugins, cycles included) — compared where no explicit import is involved (those are judged by name only:
    the recorded E1 findings)"""
    v = run.verdict
    n = 0
    for k, s in sp.items():
        q = cases.queries[k]
        if q[1] != "imported":
            continue
        a = ia.get(k)
        if a is None or a.startswith("PANIC"):
            continue
        want, flags = split_spec(s)
        if flags & {"explicit-import", "alias", "unparsable-conftest"}:
            continue
        n += 1
        got = sorted(parse_list(a))
        if got == sorted(want):
            continue
        msg = (f"{' '.join(q)} in case {k[0]}: the implementation says {q[2]} provides {got} through its imports; following its "
               f"star imports and pytest_plugins (cycles included) it provides {sorted(want)} (model answers {ma.get(k)}; "
               f"failed hypotheses: {sorted(flags) or 'none'})")
        v.violation(f"{k[0]}-{k[1]}-imported", msg, f"# {msg}\n# failing query is #{k[1]}\n" + cases.replay_text(k[0]),
                    weak=not core.agree(a, ma.get(k, "")))
    run.stats["imported_sets_compared_with_closure"] = run.stats.get("imported_sets_compared_with_closure", 0) + n


def corpus_cases(cases, prop):
    """minimised past failures and the witnesses of known findings run first"""
    import glob, os
    for p in sorted(glob.glob(os.path.join(core.VERIF, "corpus", prop, "*.case"))):
        load_case_file(cases, p)


def load_case_file(cases, path):
    for line in open(path, encoding="utf-8"):
        line = line.rstrip("\n")
        if not line or line.startswith("#"):
            continue
        t = line.split()
        if t[0] == "case":
            cases.case(t[1], {"corpus": path})
        elif t[0] == "op":
            cases.op(*t[1:])
        elif t[0] == "q":
            cases.q(*t[1:])
        else:
            cases.raw(line)


def generic_replay(prop, module, theorems, path):
    r = Run(prop, module, theorems, "quick", 0)
    r.prepare()
    cases = core.Cases()
    load_case_file(cases, path)
    ia, ma, sp = r.run_cases(cases)
    for k in sorted(cases.queries):
        print(k[0], k[1], " ".join(cases.queries[k]))
        print("   impl :", ia.get(k)); print("   model:", ma.get(k))
        if k in sp: print("   spec :", sp[k])
    return 0
