"""C17 — undeclared-fixture warnings are precise and their quick fix works."""
import ast, os, shutil
from .. import core, lsp, stdio
from .common import Run, corpus_cases, generic_replay, parse_list

PROP = "C17"
MODULE = "PLS.Props.C17"
THEOREMS = ["PLS.C17_scan_exact", "PLS.C17_never", "PLS.C17_always", "PLS.C17_module_names_never",
            "PLS.C17_bound_earlier_never", "PLS.C17_visited_forms",
            "PLS.C17_test_parameters_never", "PLS.C17_fixture_parameters_never",
            "PLS.C17_declared_is_parameters", "PLS.C17_module_names_position_independent",
            "PLS.C17_module_names_are_whole_module"]
RULE = ("product of function shapes (no/one/many parameters, defaults, annotations, return annotation, multi-line "
        "signatures with and without trailing comma, methods, async, decorators, a following function) and body forms "
        "(26: call target/argument, attribute base, operands, subscripts, collection elements, return/assert/if/for/"
        "with/while, keyword argument, comprehension, lambda, f-string, conditional, boolean operand, try body, await; "
        "local binding before/after/re-bound, loop and with targets, module-level and imported names, parameters) over "
        "a workspace with visible, invisible and third-party fixtures. (A) findings compared with the Lean model and "
        "with an oracle computed from CPython's AST; (B) over stdio: the quick fix and the body-completion parameter "
        "edit are applied to the text, the result is parsed with CPython (same function gains the parameter, nothing "
        "else changes), re-sent, and the warning must be gone. Non-trivial = case with at least one finding; "
        "distinct by (shape, body form)")

CONFTEST = "import pytest\n\n@pytest.fixture\ndef alpha():\n    return 1\n\n@pytest.fixture\ndef beta():\n    return 2\n"
SIBLING = "import pytest\n\n@pytest.fixture\ndef gamma():\n    return 3\n"
THIRD = "import pytest\n\n@pytest.fixture\ndef delta():\n    return 4\n"

# body statements using {N}
BODIES = [
    ("call-target", ["{N}()"]), ("call-arg", ["print({N})"]), ("attr-base", ["{N}.attr"]), ("operand", ["y = {N} + 1"]),
    ("unary", ["y = not {N}"]), ("compare", ["assert {N} == 1"]), ("subscript-value", ["y = {N}[0]"]),
    ("subscript-index", ["y = d[{N}]"]), ("list-elt", ["y = [{N}, 1]"]), ("tuple-elt", ["y = ({N}, 1)"]),
    ("dict-value", ["y = {{1: {N}}}"]), ("return", ["return {N}"]), ("if-test", ["if {N}:", "    pass"]),
    ("for-iter", ["for i in {N}:", "    pass"]), ("with-ctx", ["with {N} as c:", "    pass"]), ("while-test", ["while {N}:", "    break"]),
    ("assert-msg", ["assert True, {N}"]), ("nested-call", ["print(str({N}.x))"]),
    # arguments by keyword, starred arguments, operands of boolean operators and conditional expressions, set
    # elements, slice bounds, yielded values (visited since the repair of the expression forms)
    ("kwarg", ["print(k={N})"]), ("conditional", ["y = {N} if True else 1"]), ("conditional-test", ["y = 1 if {N} else 2"]),
    ("boolop", ["assert True and {N}"]), ("starred", ["print(*{N})"]), ("set-elt", ["y = {{{N}, 1}}"]),
    ("slice-bound", ["y = d[{N}:]"]), ("yield-value", ["yield {N}"]), ("kwargs-spread", ["print(**{N})"]),
    # forms outside the statement's list of "plain uses" (probed, reported as findings when missed)
    ("comprehension", ["y = [x for x in {N}]"]), ("lambda", ["y = lambda: {N}"]),
    ("fstring", ['y = f"{{{N}}}"']),
    ("try-body", ["try:", "    {N}()", "except Exception:", "    pass"]),
]
PLAIN = {b[0] for b in BODIES[:27]}
# local binding situations for the name
BINDINGS = ["none", "none", "none", "param", "assigned-before", "assigned-after", "rebound-later", "for-target-before",
            "with-target-before", "module-level", "imported", "annassign-before", "augassign-before",
            "module-level-below", "imported-below", "helper-def-below", "class-below",
            "unpack-before", "nested-unpack-before", "for-nested-before", "with-nested-before", "list-unpack-before",
            "module-level+rebound-below", "imported+rebound-below", "module-level+with-below",
            "attr-store-before", "item-store-before",
            # a parameter with a default value (never a fixture request) is a parameter of the function all the same
            "param-default", "param-kwonly-default"]
SHAPES = ["noparams", "one", "many", "default", "annotated", "return-ann", "multiline", "multiline-trailing", "method",
          "async", "decorated", "one-line-body", "fixture", "spaces"]


def build(rng, shape, body, binding, name):
    """-> (text, function name, expected parameter list before the fix)"""
    L = ["import pytest"]
    if binding in ("imported", "imported+rebound-below"):
        L.append(f"from os import path as {name}")
    if binding in ("module-level", "module-level+rebound-below", "module-level+with-below"):
        L.append(f"{name} = 42")
    L.append("")
    ind = ""
    fn = "test_it"
    params = []
    deco = []
    if shape == "method":
        L.append("class TestK:"); ind = "    "; params = ["self"]
    if shape == "decorated":
        deco = ["@pytest.mark.skip"]
    if shape in ("marked-uf", "marked-uf-fixture"):
        # requested through a mark, not as a parameter: the name is still undeclared in the body
        deco = [f'@pytest.mark.usefixtures("{name}")']
        if shape == "marked-uf-fixture":
            deco.append("@pytest.fixture"); fn = "my_fixture"
    if shape == "fixture":
        deco = ["@pytest.fixture"]; fn = "my_fixture"
    if shape in ("one", "method", "async", "decorated", "one-line-body", "fixture", "spaces", "marked-uf", "marked-uf-fixture"):
        params += ["beta"] if name != "beta" else ["alpha"]
    if shape in ("many", "multiline", "multiline-trailing"):
        params += ["beta" if name != "beta" else "alpha", "tmp_x", "other"]
    if shape == "default":
        params += ["flag=1"]
    if shape == "annotated":
        params += ['beta: "T"' if name != "beta" else 'alpha: int']
    if binding == "param":
        params.append(name)
    if binding == "param-default":
        params.append(f"{name}=3")
    if binding == "param-kwonly-default":
        params += ["*", f"{name}=0.1"]
    for d in deco:
        L.append(ind + d)
    kw = "async def" if shape == "async" else "def"
    ret = " -> None" if shape == "return-ann" else ""
    if shape == "multiline":
        L.append(f"{ind}{kw} {fn}("); L += [f"{ind}    {p}," for p in params[:-1]] + [f"{ind}    {params[-1]}"]; L.append(f"{ind}){ret}:")
    elif shape == "multiline-trailing":
        L.append(f"{ind}{kw} {fn}("); L += [f"{ind}    {p}," for p in params]; L.append(f"{ind}){ret}:")
    elif shape == "spaces":
        L.append(f"{ind}{kw} {fn} ( {', '.join(params)} ){ret} :")
    elif shape == "one-line-body":
        L.append(f"{ind}{kw} {fn}({', '.join(params)}){ret}: x = 0")
    else:
        L.append(f"{ind}{kw} {fn}({', '.join(params)}){ret}:")
    b = ind + "    "
    pre, post = [], []
    if binding == "assigned-before": pre = [f"{name} = 1"]
    if binding == "assigned-after": post = [f"{name} = 1"]
    # a module-level / imported name that the body binds again further down is still that name where it is used
    if binding in ("module-level+rebound-below", "imported+rebound-below"): post = [f"{name} = 1"]
    if binding == "module-level+with-below": post = [f"with open('x') as {name}:", "    pass"]
    if binding == "rebound-later": pre = [f"{name} = 1"]; post = [f"{name} = 2"]
    if binding == "for-target-before": pre = [f"for {name} in range(2):", "    pass"]
    if binding == "with-target-before": pre = [f"with open('x') as {name}:", "    pass"]
    if binding == "annassign-before": pre = [f"{name}: int = 1"]
    if binding == "unpack-before": pre = [f"a0, {name} = 1, 2"]
    if binding == "nested-unpack-before": pre = [f"(a0, ({name}, c0)), r0 = (1, (2, 3)), 4"]
    if binding == "for-nested-before": pre = [f"for i0, ({name}, v0) in [(1, (2, 3))]:", "    pass"]
    if binding == "with-nested-before": pre = [f"with open('x') as (h0, ({name}, z0)):", "    pass"]
    if binding == "list-unpack-before": pre = [f"[a0, [{name}, c0]] = [1, [2, 3]]"]
    if binding == "augassign-before": pre = ["z = 0", f"{name} = 0", f"{name} += 1"]
    # storing to an attribute or an item of the name binds nothing: the name is still the (undeclared) fixture
    if binding == "attr-store-before": pre = [f"{name}.attr = 1"]
    if binding == "item-store-before": pre = [f"{name}['k'] = 1"]
    stm = [s.replace("{N}", name) if "{{" not in s else s.format(N=name) for s in body[1]]
    if body[0] == "await" and shape != "async":
        stm = [f"print({name})"]
    for s in pre + ["d = {}"] + stm + post:
        L.append(b + s)
    L.append("")
    L.append(f"{ind}def test_following(beta):" if ind else "def test_following(beta):")
    L.append(b + "pass")
    L.append("")
    # module-level names bound BELOW the functions are module-level names all the same
    if binding == "module-level-below": L += [f"{name} = 42", ""]
    if binding == "imported-below": L += [f"import json as {name}", ""]
    if binding == "helper-def-below": L += [f"def {name}():", "    return 1", ""]
    if binding == "class-below": L += [f"class {name}:", "    pass", ""]
    return "\n".join(L) + "\n", fn


class Uses(ast.NodeVisitor):
    """Name loads in the 'plain use' positions of ordinary statements of ONE function's own body"""
    def __init__(self):
        self.plain = []      # (name, line, col, endcol)
        self.other = []
    def collect(self, fn):
        for s in fn.body:
            self.stmt(s)
    def stmt(self, s):
        if isinstance(s, ast.Expr): self.expr(s.value)
        elif isinstance(s, (ast.Assign, ast.AugAssign)): self.expr(s.value)
        elif isinstance(s, ast.Return) and s.value is not None: self.expr(s.value)
        elif isinstance(s, ast.If): self.expr(s.test); [self.stmt(x) for x in s.body + s.orelse]
        elif isinstance(s, ast.While): self.expr(s.test); [self.stmt(x) for x in s.body]
        elif isinstance(s, (ast.For, ast.AsyncFor)): self.expr(s.iter); [self.stmt(x) for x in s.body]
        elif isinstance(s, (ast.With, ast.AsyncWith)):
            for i in s.items: self.expr(i.context_expr)
            [self.stmt(x) for x in s.body]
        elif isinstance(s, ast.Assert):
            self.expr(s.test)
            if s.msg is not None: self.expr(s.msg)
        elif isinstance(s, ast.Try):
            for x in s.body: self.other_stmt(x)
    def other_stmt(self, s):
        for n in ast.walk(s):
            if isinstance(n, ast.Name) and isinstance(n.ctx, ast.Load):
                self.other.append((n.id, n.lineno, n.col_offset, n.end_col_offset))
    def expr(self, e):
        if isinstance(e, ast.Name):
            if isinstance(e.ctx, ast.Load): self.plain.append((e.id, e.lineno, e.col_offset, e.end_col_offset))
        elif isinstance(e, ast.Call):
            self.expr(e.func); [self.expr(a) for a in e.args]
            for k in e.keywords: self.expr(k.value)
        elif isinstance(e, ast.Attribute): self.expr(e.value)
        elif isinstance(e, ast.BinOp): self.expr(e.left); self.expr(e.right)
        elif isinstance(e, ast.UnaryOp): self.expr(e.operand)
        elif isinstance(e, ast.Compare): self.expr(e.left); [self.expr(c) for c in e.comparators]
        elif isinstance(e, ast.Subscript): self.expr(e.value); self.expr(e.slice)
        elif isinstance(e, (ast.List, ast.Tuple)): [self.expr(x) for x in e.elts]
        elif isinstance(e, ast.Dict):
            [self.expr(k) for k in e.keys if k is not None]; [self.expr(x) for x in e.values]
        elif isinstance(e, ast.Await): self.expr(e.value)
        # operands of boolean operators and conditional expressions, set elements, starred items, slice bounds,
        # yielded values: none of these forms binds a name
        elif isinstance(e, ast.BoolOp): [self.expr(x) for x in e.values]
        elif isinstance(e, ast.IfExp): self.expr(e.test); self.expr(e.body); self.expr(e.orelse)
        elif isinstance(e, ast.Set): [self.expr(x) for x in e.elts]
        elif isinstance(e, ast.Starred): self.expr(e.value)
        elif isinstance(e, ast.Slice): [self.expr(x) for x in (e.lower, e.upper, e.step) if x is not None]
        elif isinstance(e, ast.Yield):
            if e.value is not None: self.expr(e.value)
        elif isinstance(e, ast.YieldFrom): self.expr(e.value)
        else: self.oexpr(e)      # lambdas, comprehensions, assignment expressions (they bind names), f-strings
    def oexpr(self, e):
        for n in ast.walk(e):
            if isinstance(n, ast.Name) and isinstance(n.ctx, ast.Load):
                self.other.append((n.id, n.lineno, n.col_offset, n.end_col_offset))


def bound_lines(fn):
    """name -> sorted lines where the function's own body binds it"""
    out = {}
    def tg(t, line):
        if isinstance(t, ast.Name): out.setdefault(t.id, []).append(line)
        elif isinstance(t, (ast.Tuple, ast.List)): [tg(x, line) for x in t.elts]
    def walk(stmts):
        for s in stmts:
            if isinstance(s, ast.Assign): [tg(t, s.lineno) for t in s.targets]
            elif isinstance(s, (ast.AnnAssign, ast.AugAssign)): tg(s.target, s.lineno)
            elif isinstance(s, (ast.For, ast.AsyncFor)): tg(s.target, s.lineno); walk(s.body)
            elif isinstance(s, (ast.With, ast.AsyncWith)):
                for i in s.items:
                    if i.optional_vars is not None: tg(i.optional_vars, s.lineno)
                walk(s.body)
            elif isinstance(s, ast.If): walk(s.body); walk(s.orelse)
            elif isinstance(s, ast.While): walk(s.body)
            elif isinstance(s, ast.Try): walk(s.body); walk(s.orelse); walk(s.finalbody)
    walk(fn.body)
    return out


def module_names(mod):
    out = set()
    for s in mod.body:
        if isinstance(s, (ast.Import, ast.ImportFrom)):
            out |= {(a.asname or a.name) for a in s.names}
        elif isinstance(s, ast.Assign):
            for t in s.targets:
                if isinstance(t, ast.Name): out.add(t.id)
        elif isinstance(s, ast.ClassDef): out.add(s.name)
        elif isinstance(s, (ast.FunctionDef, ast.AsyncFunctionDef)): out.add(s.name)
    return out


def find_fn(mod, name):
    for n in ast.walk(mod):
        if isinstance(n, (ast.FunctionDef, ast.AsyncFunctionDef)) and n.name == name:
            return n
    return None


def param_names(fn):
    a = fn.args
    return [x.arg for x in a.posonlyargs + a.args + a.kwonlyargs]


def apply_edit(text, line0, char, new_text):
    lines = text.split("\n")
    if line0 >= len(lines):
        return None
    b = lines[line0].encode("utf-8")
    if char > len(b):
        return None
    lines[line0] = (b[:char] + new_text.encode("utf-8") + b[char:]).decode("utf-8", "replace")
    return "\n".join(lines)


def run(tier, seed):
    r = Run(PROP, MODULE, THEOREMS, tier, seed, need_server=True)
    if not r.prepare():
        return r.finish(RULE)
    v = r.verdict
    n = 400 if tier == "quick" else 6000
    cases = core.Cases(); r.last_cases = cases
    corpus_cases(cases, PROP)
    items = []
    # fixed combinations first (no random draw): every binding situation once with a plain use of a visible fixture name
    fixed = [("fixture" if j % 4 == 3 else "one", BODIES[0], bnd, "alpha") for j, bnd in enumerate(sorted(set(BINDINGS)))]
    # … and a test / a fixture that requests the name through `@pytest.mark.usefixtures` while using it in the body
    fixed += [("marked-uf", BODIES[0], "none", "alpha"), ("marked-uf", BODIES[1], "none", "beta"),
              ("marked-uf-fixture", BODIES[0], "none", "alpha"), ("marked-uf", BODIES[3], "assigned-before", "alpha")]
    for i in range(n):
        rng = r.rng
        if i < len(fixed):
            shape, body, binding, name = fixed[i]
        else:
            shape, body, binding = rng.choice(SHAPES), rng.choice(BODIES), rng.choice(BINDINGS)
            name = rng.choice(["alpha", "alpha", "beta", "gamma", "delta", "nofixture"])
        text, fn = build(rng, shape, body, binding, name)
        cname = "u%d" % i
        items.append((cname, text, fn, name, shape, body[0], binding))
        cases.case(cname, {"shape": shape, "body": body[0], "binding": binding, "name": name})
        cases.text("c", CONFTEST); cases.raw("disk conftest.py c")
        cases.text("s", SIBLING); cases.raw("disk sib/conftest.py s")
        cases.text("tp", THIRD); cases.raw("disk vv/lib/site-packages/tp/plugin.py tp")
        cases.text("t", text); cases.raw("disk pkg/test_u.py t")
        for p, tid in (("conftest.py", "c"), ("sib/conftest.py", "s"), ("vv/lib/site-packages/tp/plugin.py", "tp")):
            cases.op("analyze", p, tid)
        # an earlier version of the SAME LENGTH whose line breaks sit elsewhere (a blank line moved to the top):
        # the findings are positions in the final text, nothing of the earlier layout may survive
        ls = text.split("\n")
        blanks = [j for j in range(2, len(ls) - 1) if ls[j] == "" and not ls[j + 1].startswith((" ", "\t"))]
        if blanks and rng.random() < 0.4:
            j = rng.choice(blanks)
            prev = "\n".join([""] + ls[:j] + ls[j + 1:])
            if len(prev) == len(text):
                cases.text("tprev", prev)
                cases.op("analyze", "pkg/test_u.py", "tprev")
        cases.op("analyze", "pkg/test_u.py", "t")
        cases.q("undeclared", "pkg/test_u.py")
        for nm in ("alpha", "beta", "gamma", "delta", "nofixture"):
            cases.q("resolve", "pkg/test_u.py", nm)
    r.samples = [{"case": x[0], "shape": x[4], "body": x[5], "binding": x[6], "text": x[1]} for x in items[:2]]
    ia, ma, sp = r.run_cases(cases)
    r.evaluations = len(ia)
    bad = r.correspond(cases, ia, ma)
    nuse = 0
    for (cname, text, fn, name, shape, bform, binding) in items:
        try:
            mod = ast.parse(text)
        except SyntaxError:
            continue
        same = not any(k[0] == cname for k in bad)
        keys = [k for k in cases.queries if k[0] == cname]
        uk = [k for k in keys if cases.queries[k][1] == "undeclared"][0]
        visible = {cases.queries[k][3] for k in keys if cases.queries[k][1] == "resolve" and ia.get(k) not in (None, "none")}
        got = set()
        for u in parse_list(ia.get(uk, "[]")):
            pos, fnpart = u.split("@")
            ln, span, nm = pos.split(":")
            s, e = span.split("-")
            got.add((nm, int(ln), int(s), int(e), fnpart.split(":")[0]))
        if got:
            r.nontrivial.add((shape, bform, binding, name))
        mnames = module_names(mod)
        def report(msg, fid=None):
            e = next((x for x in r.known if x["id"] == fid), None) if fid else None
            if e is not None and same:
                v.known(e["id"], e["summary"]); return
            v.violation(cname, f"case {cname} [{shape}/{bform}/{binding}/{name}]: {msg}", f"# {msg}\n" + cases.replay_text(cname), weak=(e is not None))
        for fname in (fn, "test_following"):
            f = find_fn(mod, fname)
            if f is None:
                continue
            us = Uses(); us.collect(f)
            params = set(param_names(f)) | {"self", "request"}
            if any(is_fx(d) for d in f.decorator_list):
                params.add(f.name)
            bl = bound_lines(f)
            for (nm, ln, c0, c1) in us.plain:
                nuse += 1
                earlier = any(x < ln for x in bl.get(nm, []))
                should = nm not in params and not earlier and nm not in mnames and nm in visible
                flagged = (nm, ln, c0, c1, fname) in got
                if should and not flagged:
                    report(f"plain use of visible undeclared fixture {nm} at {ln}:{c0}-{c1} in {fname} is not flagged (findings: {sorted(got)})")
                if flagged and not should:
                    later_rebind = earlier and any(x >= ln for x in bl.get(nm, []))
                    if nm in params: why = "it is a parameter"
                    elif earlier: why = "it is a local variable bound on an earlier line"
                    elif nm in mnames: why = "it is a module-level / imported name"
                    else: why = "no fixture visible from the file carries that name"
                    fid = "C17-rebound-later" if later_rebind else ("C17-available-laxer-than-visible" if nm not in visible and not earlier and nm not in params and nm not in mnames else None)
                    report(f"{nm} at {ln}:{c0} in {fname} is flagged although {why}", fid)
            for (nm, ln, c0, c1) in us.other:
                should = nm not in params and not any(x < ln for x in bl.get(nm, [])) and nm not in mnames and nm in visible
                if should and (nm, ln, c0, c1, fname) not in got:
                    fb = next((x for x in r.known if x["id"] == "C17-forms-not-visited"), None)
                    if fb: v.known(fb["id"], fb["summary"])
        # findings that are no Name use at all
        allnames = {(n_.id, n_.lineno, n_.col_offset, n_.end_col_offset) for n_ in ast.walk(mod) if isinstance(n_, ast.Name)}
        for g in got:
            if g[:4] not in allnames:
                report(f"finding {g} is not at the position of a name")
    r.stats["plain_uses_checked_against_cpython"] = nuse
    fix_part(r, items, tier)
    return r.finish(RULE)


def is_fx(d):
    if isinstance(d, ast.Call): d = d.func
    return (isinstance(d, ast.Name) and d.id == "fixture") or (isinstance(d, ast.Attribute) and d.attr == "fixture")


def fix_part(r, items, tier):
    """quick fix and body-completion parameter edit, applied and re-sent over stdio"""
    v = r.verdict
    nmax = 60 if tier == "quick" else 800
    base = "/dev/shm/plsv-c17-%d" % os.getpid()
    done = nfix = 0
    e15 = next((x for x in r.known if x["id"] == "C17-E15-fix-text-heuristics"), None)
    for (cname, text, fn, name, shape, bform, binding) in items:
        if done >= nmax:
            break
        if name not in ("alpha", "beta") or binding != "none" or bform not in PLAIN:
            continue
        done += 1
        root = os.path.join(base, cname, "ws")
        os.makedirs(os.path.join(root, "pkg"))
        c = None
        def report(msg, risky):
            if risky and e15 is not None:
                v.known(e15["id"], e15["summary"]); return
            v.violation(cname + "-fix", f"case {cname} [{shape}/{bform}]: {msg}", f"# {msg}\n# document:\n" + "".join("# | " + l + "\n" for l in text.split("\n")))
        risky = shape in ("return-ann", "multiline", "multiline-trailing", "spaces", "one-line-body", "default")
        try:
            c = lsp.Client(core.SERVER_BIN, root)
            open(os.path.join(root, "conftest.py"), "w").write(CONFTEST)
            open(os.path.join(root, "pkg", "test_u.py"), "w").write(text)
            c.open("conftest.py", CONFTEST)
            diags = c.open("pkg/test_u.py", text)
            und = [d for d in diags if d.get("code") == "undeclared-fixture" and f"'{name}'" in d["message"]]
            if not und:
                continue
            d0 = und[0]
            acts = c.request("textDocument/codeAction", {"textDocument": {"uri": c.uri("pkg/test_u.py")}, "range": d0["range"], "context": {"diagnostics": [d0]}})
            edits = []
            if acts:
                ed = list(acts[0]["edit"]["changes"].values())[0][0]
                edits.append(("quick fix", ed))
            else:
                report(f"no quick fix is offered for the warning on {name}", risky)
            comp = c.request("textDocument/completion", {"textDocument": {"uri": c.uri("pkg/test_u.py")}, "position": {"line": d0["range"]["start"]["line"], "character": 0}})
            citems = (comp.get("items", []) if isinstance(comp, dict) else comp) if comp else []
            for it in citems:
                if it["label"] == name and it.get("additionalTextEdits"):
                    edits.append(("body completion", it["additionalTextEdits"][0]))
            for (kind, ed) in edits:
                nfix += 1
                new = apply_edit(text, ed["range"]["start"]["line"], ed["range"]["start"]["character"], ed["newText"])
                ok = new is not None
                if ok:
                    try:
                        m2 = ast.parse(new); m1 = ast.parse(text)
                    except SyntaxError:
                        report(f"{kind}: the edited document is not valid Python (edit {ed['newText']!r} at {ed['range']['start']})", risky); continue
                    f1, f2 = find_fn(m1, fn), find_fn(m2, fn)
                    if f2 is None or param_names(f2) != param_names(f1) + [name]:
                        report(f"{kind}: after the edit the parameters of {fn} are {param_names(f2) if f2 else None}, expected {param_names(f1) + [name]}", risky); continue
                    o1, o2 = find_fn(m1, "test_following"), find_fn(m2, "test_following")
                    if o2 is None or param_names(o1) != param_names(o2):
                        report(f"{kind}: another function was changed", risky); continue
                    d2 = c.change("pkg/test_u.py", new, 5)
                    if any(x.get("code") == "undeclared-fixture" and f"'{name}'" in x["message"] and x["range"]["start"]["line"] == d0["range"]["start"]["line"] for x in d2):
                        report(f"{kind}: the warning is still there after the edit was applied and the document re-sent", risky)
                    c.change("pkg/test_u.py", text, 6)
                else:
                    report(f"{kind}: the edit position {ed['range']['start']} is outside the document", risky)
        except (lsp.ServerDied, lsp.Timeout) as e:
            report(f"server died or hung: {e}", False)
        finally:
            if c is not None:
                c.shutdown()
    shutil.rmtree(base, ignore_errors=True)
    r.stats["fix_edits_applied_and_reparsed"] = nfix


def replay(path):
    return generic_replay(PROP, MODULE, THEOREMS, path)
