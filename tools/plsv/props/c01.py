"""C01 — fixture resolution follows pytest's shadowing order."""
from .. import core, wsgen
from .common import Run, split_spec, check_spec, corpus_cases, load_case_file, generic_replay

PROP = "C01"
MODULE = "PLS.Props.C01"
THEOREMS = ["PLS.C01_resolve_correct", "PLS.C01_goto_is_resolveUsage", "PLS.C01_goto_outside",
            "PLS.C01_statement_false", "PLS.C01_monadic_bridge"]
RULE = ("workspaces from tools/plsv/wsgen.py (directory depth 0-3, 12 conftest modes per level, sibling "
        "directories, same-file/plugin/third-party definitions, all usage kinds, permuted registration order); "
        "every column of every usage-bearing line is queried with go-to-definition, plus resolve(file, name) "
        "for every file x name; a case is non-trivial when at least two same-named definitions exist; distinct "
        "by (modes, sibling, plugin, third-party, same-file count, usage kinds, using level)")


def run(tier, seed):
    r = Run(PROP, MODULE, THEOREMS, tier, seed)
    if not r.prepare():
        return r.finish(RULE)
    n = 150 if tier == "quick" else 2500
    cases = core.Cases()
    r.last_cases = cases
    corpus_cases(cases, PROP)
    # (fixed) the nearest conftest.py wins wherever it lives: directories whose names only start like an ignored one
    # (`environments/`, `venv311/`) are ordinary directories of the project - indexed by the workspace SCAN like any other
    from ..pybuild import PyFile
    ws = wsgen.WS()
    c0 = PyFile(); c0.fixture("foo"); c0.fixture("bar"); ws.add("conftest.py", c0)
    for d in ("environments", "venv311", "tests/env_prod", "builds"):
        c1 = PyFile(); c1.fixture("foo", params=("foo",)); ws.add(d + "/conftest.py", c1)
        t1 = PyFile(); t1.test("test_deploy", params=("foo", "bar")); ws.add(d + "/test_deploy.py", t1)
    t0 = PyFile(); t0.test("test_root", params=("foo",)); ws.add("test_root.py", t0)
    ws.order = list(ws.files); ws.meta = {"fixed": "directories named like ignored ones, indexed by the scan"}
    cases.case("wscan", ws.meta)
    for j, (p, pf) in enumerate(ws.files.items()):
        cases.text("t%d" % j, pf.text()); cases.raw("disk %s t%d" % (p, j))
    cases.op("scan")
    wsgen.emit_queries(cases, ws, probes=("goto",))
    for i in range(n):
        ws = wsgen.gen_workspace(r.rng)
        name = "w%d" % i
        cases.case(name, ws.meta)
        wsgen.emit_setup(cases, ws)
        # a conftest.py that was open in the editor and has been closed again (its text leaves the cache; the
        # file on disk is what it was): the workspace, and so every answer, is the same
        confs = [p for p in ws.files if p.endswith("conftest.py")]
        if confs and r.rng.random() < 0.3:
            closed = r.rng.sample(confs, min(len(confs), r.rng.choice([1, 2])))
            for p in closed:
                cases.op("close", p)
            ws.meta["closed"] = closed
        wsgen.emit_queries(cases, ws, probes=("goto",))
        m = ws.meta
        sig = (tuple(sorted(m["modes"].items())), m.get("sibling"), m.get("plugin"), m["thirdparty"], m["nsame"],
               tuple(m["kinds"]), m["ulevel"])
        ndefs = sum(1 for pf in ws.files.values() for (nm, _) in pf.defs if nm == "foo")
        if ndefs >= 2:
            r.nontrivial.add(sig)
        for kk in ("depth", "nsame", "thirdparty", "ulevel"):
            r.stats.setdefault(kk, {}); r.stats[kk][str(m[kk])] = r.stats[kk].get(str(m[kk]), 0) + 1
        for md in m["modes"].values():
            r.stats.setdefault("conftest_modes", {}); r.stats["conftest_modes"][md] = r.stats["conftest_modes"].get(md, 0) + 1
        for kd in m["kinds"]:
            r.stats.setdefault("usage_kinds", {}); r.stats["usage_kinds"][kd] = r.stats["usage_kinds"].get(kd, 0) + 1
        if i < 2:
            r.samples.append({"case": name, "meta": {k: str(v) for k, v in m.items()},
                              "files": {p: pf.text() for p, pf in list(ws.files.items())[:3]}, "order": ws.order})
    ia, ma, sp = r.run_cases(cases)
    r.evaluations = len(ia)
    r.correspond(cases, ia, ma)
    check_spec(r, cases, ia, ma, sp)
    answered = sum(1 for k, a in ia.items() if cases.queries[k][1] == "goto" and a != "none")
    r.stats["goto_queries_answered_nonempty"] = answered
    return r.finish(RULE)



def replay(path):
    return generic_replay(PROP, MODULE, THEOREMS, path)
