"""C16 — dependency diagnostics (cycles, scope mismatches) are exact and stable."""
from .. import core, wsgen
from ..pybuild import PyFile
from .common import Run, all_flags, corpus_cases, generic_replay, parse_list

PROP = "C16"
MODULE = "PLS.Props.C16P"     # imports PLS.Props.C16C (C16T, C16) and PLS.Props.C19
THEOREMS = ["PLS.C16_scope_order", "PLS.C16_scope_table", "PLS.C16_mismatch_sound", "PLS.C16_mismatch_complete",
            "PLS.C16_mismatch_iff_resolved", "PLS.C16_scopeRes_mem", "PLS.C16_unknown_deps_dropped", "PLS.C16_known_deps_kept",
            "PLS.C16_reported_cycles_are_cycles", "PLS.C16_every_cycle_is_hit", "PLS.C16_every_cycle_meets_a_report",
            "PLS.DfsC.inv3_step", "PLS.DfsC.key_inj", "PLS.DfsS.inv2_step", "PLS.DfsS.sound_step", "PLS.DfsS.reported_closed",
            "PLS.C12_dfs_terminates", "PLS.C12_dfs_fuel_irrelevant",
            "PLS.C16_published_mismatches", "PLS.C16_published_mismatch_count", "PLS.C16_published_cycle_in_file"]
# where the scope verdict can deviate since the E14 repair: exactly where resolution itself does
RESFLAGS = {"imp-first", "alias", "multiline-self", "imp-order-sensitive", "import-cycle", "unparsable-conftest"}
RULE = ("random dependency graphs over 3-6 fixture names spread over root conftest, sub conftest, a test module and a "
        "sibling: self loops with and without a parent, several SCCs, cycles through overridden names, dependencies on "
        "unknown names (first, middle, last), all five scopes; each workspace indexed under two orders. Reported cycles "
        "are checked for soundness (a real closed chain of the resolved-definition graph computed by the Lean spec), "
        "completeness (every SCC with a cycle gets a report), scope mismatches for iff; cycles/mismatch answers "
        "compared with the model. Non-trivial = the resolved graph has a cycle or a scope inversion; distinct by edge set")

FILES = ["conftest.py", "a/conftest.py", "a/test_m.py", "b/conftest.py"]
SCOPES = ["function", "class", "module", "package", "session"]


def gen(rng):
    ws = wsgen.WS()
    names = ["f%d" % i for i in range(rng.choice([3, 4, 4, 5, 6]))]
    pfs = {p: PyFile() for p in FILES}
    ndef = {}
    edges = []
    single = rng.random() < 0.45          # one definition per name (the shape the partial theorems cover)
    for n in names:
        k = 1 if single else rng.choice([1, 1, 2, 3])
        places = rng.sample(FILES, k)
        for p in places:
            deps = []
            for m in names:
                if rng.random() < (0.3 if m != n else 0.15):
                    deps.append(m)
            unk = rng.choice([None, None, "tmp_path", "capsys"])
            if unk:
                deps.insert(rng.randrange(len(deps) + 1), unk)
            scope = rng.choice(SCOPES) if rng.random() < 0.7 else None
            pfs[p].fixture(n, params=tuple(deps), scope=scope)
            edges.append((n, p, tuple(deps), scope))
    pfs["a/test_m.py"].test("test_it", params=tuple(names[:2]))
    for p in FILES:
        if pfs[p].defs or p == "a/test_m.py":
            ws.add(p, pfs[p])
    ws.order = list(ws.files.keys()); rng.shuffle(ws.order)
    ws.meta = {"edges": edges, "single": single}
    return ws


def parse_graph(s):
    """GRAPH=D|scope|dep=[E|scope …];…  ->  {D: {'scope':..., 'deps': {dep: [E…]}}}, scope_of"""
    g, scope_of = {}, {}
    if " GRAPH=" not in s and not s.startswith("GRAPH="):
        return g, scope_of
    body = s.split("GRAPH=", 1)[1]
    for item in body.split(";"):
        if "=" not in item:
            continue
        left, right = item.split("=", 1)
        d, sc, dep = left.rsplit("|", 2)
        scope_of[d] = sc
        targets = []
        for t in parse_list(right):
            e, esc = t.rsplit("|", 1)
            scope_of[e] = esc
            targets.append(e)
        g.setdefault(d, {})[dep] = targets
    return g, scope_of


def sccs_with_cycle(g):
    nodes = set(g) | {t for d in g.values() for ts in d.values() for t in ts}
    succ = {n: set() for n in nodes}
    for d, deps in g.items():
        for dep, ts in deps.items():
            if not ts and dep == d.rsplit(":", 1)[1]:
                succ[d].add(d)           # `def foo(foo)` with nothing outward: pytest's recursive dependency
            for t in ts:
                succ[d].add(t)
    reach = {n: set(succ[n]) for n in nodes}
    changed = True
    while changed:
        changed = False
        for n in nodes:
            new = set()
            for m in reach[n]:
                new |= reach[m]
            if not new <= reach[n]:
                reach[n] |= new; changed = True
    comps = []
    seen = set()
    for n in nodes:
        if n in reach[n] and n not in seen:
            comp = {m for m in reach[n] if n in reach[m]} | {n}
            seen |= comp
            comps.append(comp)
    return comps, succ


def scope_rank(s):
    return SCOPES.index(s)


def run(tier, seed):
    r = Run(PROP, MODULE, THEOREMS, tier, seed, need_server=True)
    if not r.prepare():
        return r.finish(RULE)
    n = 120 if tier == "quick" else 2000
    cases = core.Cases(); r.last_cases = cases
    corpus_cases(cases, PROP)
    groups = []
    for i in range(n):
        ws = gen(r.rng)
        names = []
        for j, o in enumerate([ws.order, list(reversed(ws.order))]):
            name = "g%do%d" % (i, j)
            cases.case(name, dict(ws.meta, order=o))
            wsgen.emit_setup(cases, ws, order=o)
            cases.q("cycles")
            for p in ws.files:
                cases.q("cyclesin", p); cases.q("mismatch", p)
            cases.q("cycles")      # asked twice: the memo must return the same answer
            names.append(name)
        groups.append(names)
        if i < 2:
            r.samples.append({"graph": i, "fixtures": [list(e) for e in ws.meta["edges"]], "order": ws.order})
    ia, ma, sp = r.run_cases(cases)
    r.evaluations = len(ia)
    r.correspond(cases, ia, ma)
    v = r.verdict
    ncyc = nmis = 0
    for names in groups:
        for nm in names:
            keys = [k for k in cases.queries if k[0] == nm]
            ck = [k for k in keys if cases.queries[k][1] == "cycles"]
            g, scope_of = parse_graph(sp.get(ck[0], ""))
            flags = all_flags(sp.get(ck[0], ""))
            comps, succ = sccs_with_cycle(g)
            if comps:
                r.nontrivial.add(tuple(sorted((d, dep, tuple(ts)) for d, deps in g.items() for dep, ts in deps.items())))
            same = all(core.agree(ia.get(k, ""), ma.get(k, "")) for k in keys)
            def report(msg, hyps, k):
                hit = [r.known_by_hyp[h] for h in hyps if h in flags and h in r.known_by_hyp]
                if same and hit:
                    v.known(hit[0]["id"], hit[0]["summary"]); return
                # a recorded finding's symptom in a case where implementation and model disagree: only if
                # nothing more specific is found
                v.violation(f"{nm}-{k[1]}", f"case {nm}: {msg} (failed hypotheses: {sorted(flags) or 'none'})",
                            f"# {msg}\n# query #{k[1]}: {' '.join(cases.queries[k])}\n" + cases.replay_text(nm), weak=bool(hit))
            reported = parse_list(ia.get(ck[0], "[]"))
            # the model enumerates the root orders: more than one possible answer = the report depends on
            # HashMap iteration order (which rotation of a cycle, anchored at which fixture)
            if same and "root-order" in flags and ma.get(ck[0], "").startswith("ANYOF") and " || " in ma.get(ck[0], ""):
                e = r.known_by_hyp.get("root-order")
                if e:
                    v.known(e["id"], e["summary"])
            if ia.get(ck[0]) != ia.get(ck[1]):
                report(f"two consecutive cycle queries differ: {ia.get(ck[0])} vs {ia.get(ck[1])}", ["root-order"], ck[1])
            # soundness
            for rc in reported:
                ncyc += 1
                path, fx = rc.split("@", 1)
                pn = path.split(">")
                ok = pn[0] == pn[-1] and fx.rsplit(":", 1)[1] == pn[0]
                cur = {fx}
                for nxt in pn[1:]:
                    step = set()
                    for d in cur:
                        for t in succ.get(d, ()):
                            if t.rsplit(":", 1)[1] == nxt:
                                step.add(t)
                    cur = step
                ok = ok and fx in cur
                if not ok:
                    report(f"reported cycle {rc} is not a closed dependency chain of the resolved definitions",
                           ["multi-def-name", "name-edge-unresolved", "imp-first"], ck[0])
            # completeness
            for comp in comps:
                if not any(rc.split("@", 1)[1] in comp for rc in reported):
                    report(f"dependency cycle among {sorted(comp)} is not reported (reported: {reported})",
                           ["multi-def-name", "name-edge-unresolved", "root-order", "imp-first"], ck[0])
            # scope mismatches: iff
            for k in keys:
                q = cases.queries[k]
                if q[1] != "mismatch":
                    continue
                got = set(parse_list(ia.get(k, "[]")))
                f = q[2]
                mflags = flags | all_flags(sp.get(k, ""))
                for d, deps in g.items():
                    if d.split(":", 1)[0] != f:
                        continue
                    for dep, ts in deps.items():
                        nmis += 1
                        narrower = [t for t in ts if scope_rank(scope_of[t]) < scope_rank(scope_of[d])]
                        must = ts and len(narrower) == len(ts)
                        for t in ts:
                            pair = f"{d}=>{t}"
                            if pair in got and t not in narrower:
                                flags_backup = flags
                                flags |= (mflags & RESFLAGS)
                                report(f"scope mismatch reported for {pair} although {t} is not narrower", sorted(RESFLAGS), k)
                        listed = [x for x in got if x.startswith(d + "=>") and x.rsplit(":", 1)[1] == dep]
                        if must and not listed:
                            hyp = sorted(RESFLAGS)
                            flags |= (mflags & RESFLAGS)
                            report(f"{d} ({scope_of[d]}) depends on {dep} which resolves to {ts} of narrower scope, but no mismatch is reported", hyp, k)
                        for x in listed:
                            tgt = x.split("=>", 1)[1]
                            if tgt not in ts:
                                flags |= (mflags & RESFLAGS)
                                report(f"scope mismatch reported against {tgt}, which is not the definition {dep} resolves to from {f} ({ts})", sorted(RESFLAGS), k)
    r.stats["reported_cycles_checked"] = ncyc
    r.stats["fixture_dependency_pairs_checked"] = nmis
    publish_part(r, tier)
    return r.finish(RULE)


def publish_part(r, tier):
    """what the CLIENT receives (fixed documents over stdio): one scope-mismatch warning per (fixture, narrower
    dependency) pair - several on one fixture when several of its dependencies are narrower - and the cycle of the
    document reported once, on one of its fixtures; each diagnostic covers its subject. Compared with the model's publication
    and, independently, with the pairs the documents are built from"""
    from .. import stdio
    from .c19 import parse_diag, subject
    v = r.verdict
    conf = ("import pytest\n\n@pytest.fixture\ndef db_row():\n    return 1\n\n@pytest.fixture\ndef settings():\n    return 2\n\n"
            "@pytest.fixture(scope=\"module\")\ndef scratch_dir():\n    return 3\n\n"
            "@pytest.fixture(scope=\"session\")\ndef catalog(db_row, settings, scratch_dir):\n    return 4\n\n"
            "@pytest.fixture(scope=\"module\")\ndef shelf(db_row, catalog, settings):\n    return 5\n\n"
            "@pytest.fixture\ndef ring_a(ring_b):\n    return 6\n\n@pytest.fixture\ndef ring_b(ring_a):\n    return 7\n")
    over = ("import pytest\n\n@pytest.fixture(scope=\"session\")\ndef wide(db_row, settings):\n    return 8\n\n"
            "def test_o(wide, ring_b, catalog):\n    pass\n")
    want = {"conftest.py": {("catalog", "db_row"), ("catalog", "settings"), ("catalog", "scratch_dir"), ("shelf", "db_row"), ("shelf", "settings")},
            "sub/test_over.py": {("wide", "db_row"), ("wide", "settings")}}
    scs = []
    for j, order in enumerate([["conftest.py", "sub/test_over.py"], ["sub/test_over.py", "conftest.py"]]):
        sc = stdio.StdioCase("pub%d" % j, {"conftest.py": conf, "sub/test_over.py": over})
        for p in order:
            sc.open(p)
        # opened once more after everything is indexed (didChange with the same text)
        for p in order:
            sc.change(p, sc.files[p])
        scs.append(sc)
    res, mcases, msp = stdio.run_all(r, scs, tag="publish")
    n = 0
    last = {}
    for (sc, i, step, a, m, k) in res:
        r.corr_checked += 1
        n += 1
        if a in ("DIED", "HUNG") or a.startswith(("DIED-AT-START", "NO-PUBLISH")):
            if step[0] == "change" and a.startswith("NO-PUBLISH "):
                a = a[len("NO-PUBLISH "):]
            else:
                msg = f"stdio case {sc.name}: step {i} ({step[0]} of {step[1]}): {a[:60]}"
                v.violation(f"{sc.name}-{i}", msg, f"# {msg}\n" + mcases.replay_text(sc.name)); continue
        if not stdio.agree(a, m):
            r.corr_bad.append((k, list(step[:2]), a, m))
        last[(sc.name, step[1])] = (a, i)
    for (name, p), (a, i) in last.items():
        ds = parse_diag(a)
        pairs = [(x[4].split("'")[1], x[4].split("'")[3]) if x[4].count("'") >= 4 else None for x in ds if x[0] == "scope-mismatch"]
        got = {q for q in pairs if q}
        if got != want[p] or len(pairs) != len(got):
            msg = (f"stdio case {name}: the scope-mismatch warnings published for {p} are about {sorted(pairs, key=str)}; the (fixture, narrower "
                   f"dependency) pairs of the document are {sorted(want[p])}")
            v.violation(f"{name}-{p}-pairs", msg, f"# {msg}\n# published: {a}\n" + mcases.replay_text(name))
        lines = (conf if p == "conftest.py" else over).split("\n")
        for (code, l, ca, cb, msg_, raw) in ds:
            subj = subject(code, msg_)
            text = lines[l][ca:cb] if l < len(lines) else None
            if subj is None or text != subj:
                msg = (f"stdio case {name}: diagnostic {code} published for {p} at {l}:{ca}-{cb} ({msg_!r}) does not cover {subj!r} "
                       f"in that document (text there: {text!r})")
                v.violation(f"{name}-{p}-{l}-span", msg, f"# {msg}\n" + mcases.replay_text(name))
        # (the cycle ring_a <-> ring_b is reported once, on whichever of the two the search entered it by)
        cyc = sorted(subject(x[0], x[4]) for x in ds if x[0] == "circular-dependency")
        ok = (len(cyc) == 1 and cyc[0] in ("ring_a", "ring_b")) if p == "conftest.py" else cyc == []
        if not ok:
            msg = (f"stdio case {name}: cycle reports published for {p} are anchored on {cyc}; the document "
                   + ("defines the one cycle ring_a <-> ring_b" if p == "conftest.py" else "defines no fixture of a cycle"))
            v.violation(f"{name}-{p}-cycles", msg, f"# {msg}\n# published: {a}\n" + mcases.replay_text(name))
    r.stats["publications_checked"] = n


def replay(path):
    return generic_replay(PROP, MODULE, THEOREMS, path)
