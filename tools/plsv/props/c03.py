"""C03 — what the index records for a file is what the file says."""
import binascii, glob, os
from .. import core, proggen, pyspec
from .common import Run, corpus_cases, generic_replay, parse_list

PROP = "C03"
MODULE = "PLS.Props.C03Y"     # imports PLS.Props.C03
THEOREMS = ["PLS.C03_nothing_else", "PLS.C03_plain_function", "PLS.C03_fixture_iff", "PLS.C03_deps",
            "PLS.C03_param_usage_span", "PLS.C03_contains_yield_stmt_iff", "PLS.C03_contains_yield_iff",
            "PLS.C03_test_usages", "PLS.C03_events_for_file", "PLS.C03_analyzeModule_events_for",
            "PLS.C03_yield_in_stmt_is_first", "PLS.C03_yield_line_is_first", "PLS.C03_generator_iff_some_yield"]
RULE = ("grammar-directed programs (tools/plsv/proggen.py: every decorator spelling and argument form, sync/async, "
        "yield in 14 block/expression contexts, 12 annotation forms, 8 docstring layouts, nested classes, all parameter "
        "kinds, marks at all three levels, 6 string-literal forms, non-ASCII identifiers, multi-line signatures, 8 kinds "
        "of noise) plus every .py file under the repository's tests/; the definitions and usages the implementation "
        "records (full records) are compared with (a) the Lean analyzer model fed CPython's AST and (b) an independent "
        "oracle computed from CPython ast under the documented rules. Non-trivial = program with a fixture and a "
        "usage; distinct by feature set")


def hexs(h):
    if h == "none":
        return None
    if h == "-":
        return ""
    return binascii.unhexlify(h).decode("utf-8", "replace")


def parse_def(rec):
    f = rec.split("|")
    return {"name": f[0], "file": f[1], "line": int(f[2]), "end_line": int(f[3]), "start": int(f[4]), "end": int(f[5]),
            "scope": f[6], "autouse": f[7] == "1", "deps": [] if f[8] == "-" else f[8].split(","),
            "yield_line": None if f[9] == "-" else int(f[9]), "ret": hexs(f[10]), "doc": hexs(f[11])}


def compare(run, cname, path, text, impl_defs, impl_usages, same_model, cases, feats):
    """impl records vs the CPython oracle; returns number of compared items"""
    v = run.verdict
    sp = pyspec.spec(text)
    if sp is None:
        return 0
    def report(msg, fid=None):
        e = next((x for x in run.known if x["id"] == fid), None) if fid else None
        if e is not None and same_model:
            v.known(e["id"], e["summary"]); return
        v.violation(f"{cname}", f"case {cname} ({path}): {msg}", f"# {msg}\n" + cases.replay_text(cname), weak=(e is not None))
    n = 0
    want = {}
    for d in sp["defs"]:
        want.setdefault((d["name"], d["line"]), []).append(d)
    got = {}
    for d in impl_defs:
        got.setdefault((d["name"], d["line"]), []).append(d)
    for k in set(want) | set(got):
        n += 1
        w, g = want.get(k, []), got.get(k, [])
        if len(w) != len(g):
            if not w:
                report(f"records a fixture {k} that the file does not declare")
            elif not g:
                report(f"does not record the fixture {k} the file declares")
            else:
                report(f"records fixture {k} {len(g)} times, declared {len(w)} times")
            continue
        w, g = w[0], g[0]
        if g["scope"] != w["scope"] or g["autouse"] != w["autouse"]:
            report(f"fixture {k}: scope/autouse recorded {g['scope']}/{g['autouse']}, declared {w['scope']}/{w['autouse']}")
        if g["deps"] != w["deps"]:
            if g["deps"] == w["deps_with_defaults"]:
                report(f"fixture {k}: parameters with default values recorded as dependencies: {g['deps']} vs {w['deps']}", "C03-default-param-requested")
            else:
                report(f"fixture {k}: dependencies recorded {g['deps']}, declared {w['deps']}")
        if not w.get("assign"):
            # yields in expression position (`x = yield`, `return (yield)`, …) are the recorded finding; for the
            # statement-level yields every visitor reaches, the answer must be right
            exotic = (w["generator"], w["yield_line"]) != (w.get("covered_generator"), w.get("covered_yield_line"))
            yid = "C03-yield-visitors-incomplete" if exotic else None
            if (g["yield_line"] is not None) != w["generator"] or (w["generator"] and g["yield_line"] != w["yield_line"]):
                report(f"fixture {k}: generator/yield line recorded {g['yield_line']}, the body yields at {w['yield_line']}", yid)
            if w["has_ret"] and w["ret_simple"]:
                if g["ret"] != w["ret"]:
                    report(f"fixture {k}: return type text recorded {g['ret']!r}, declared {w['ret']!r}", yid)
            elif w["has_ret"] and not w["ret_simple"]:
                if g["ret"] is None:
                    report(f"fixture {k}: has a return annotation but none recorded")
            elif g["ret"] is not None:
                report(f"fixture {k}: no return annotation but {g['ret']!r} recorded")
            if g["end_line"] != w["end_line"]:
                report(f"fixture {k}: end line recorded {g['end_line']}, the def ends at {w['end_line']}")
            if w["doc_simple"]:
                if (g["doc"] or None) != (w["doc"] or None) and not (g["doc"] == "" and w["doc"] in (None, "")):
                    report(f"fixture {k}: cleaned docstring recorded {g['doc']!r}, inspect.cleandoc gives {w['doc']!r}")
    # usages as a multiset of (name, line); spans are C15's business
    from collections import Counter
    gu = Counter()
    for u in impl_usages:
        parts = u.rsplit(":", 3)
        gu[(parts[3], int(parts[1]))] += 1
    wu = Counter()
    opaque = []
    for u in sp["usages"]:
        if u.get("span") is None and "lit" in u and u["lit"][0] != u["lit"][2]:
            opaque.append(u)
        else:
            wu[(u["name"], u["line"])] += 1
    for u in opaque:
        # a literal over several lines whose source does not spell the name through a transparent token: the
        # usage belongs to the literal, on whichever of its lines the index has one to spare
        lines = [u["line"]] + [l for l in range(u["lit"][0], u["lit"][2] + 1) if l != u["line"]]
        ln = next((l for l in lines if gu[(u["name"], l)] > wu[(u["name"], l)]), u["line"])
        wu[(u["name"], ln)] += 1
    if wu != gu:
        n += 1
        extra = gu - wu
        missing = wu - gu
        # explain by the two documented-rule deviations
        dflt = Counter((u["name"], u["line"]) for u in sp["usages"] if u.get("default"))
        dup = Counter((u["name"], u["line"]) for u in sp["usages"] if u.get("also_fixture"))
        if not extra and missing and all(missing[k] <= dup[k] for k in missing):
            pass   # oracle counted test_-named fixtures' params under both roles; handled below
        if missing:
            report(f"usages the file declares but the index lacks: {dict(missing)}")
        elif extra:
            report(f"usages recorded that the file does not declare: {dict(extra)}")
    else:
        n += 1
    # the two known deviations show in the oracle itself (it follows the implementation's documented
    # reading for counting) — report them from the oracle's annotations
    return n


def run(tier, seed):
    r = Run(PROP, MODULE, THEOREMS, tier, seed)
    if not r.prepare():
        return r.finish(RULE)
    n = 400 if tier == "quick" else 6000
    cases = core.Cases(); r.last_cases = cases
    corpus_cases(cases, PROP)
    progs = []
    # every yield form once, as fixed programs (the random programs below draw the forms by chance)
    for (kind, src) in proggen.yield_programs():
        progs.append(("yw_" + kind, "conftest.py", src.text(), src.features))
    # (fixed) assignments that only ALIAS a fixture decorator declare nothing; `name = pytest.fixture(...)(func)` does
    alias = ("import pytest\nfrom pytest import fixture\n\n\ndef helper(alpha):\n    return alpha\n\n\n"
             "session_fixture = pytest.fixture(scope=\"session\")\nauto = fixture(autouse=True)\nplain_alias = pytest.fixture\n"
             "named = pytest.fixture(name=\"other\")\nreal = pytest.fixture()(helper)\nreal_scoped = fixture(scope=\"module\")(helper)\n"
             "not_one = pytest.mark.usefixtures(\"alpha\")(helper)\n\n\ndef test_alias(real, real_scoped):\n    pass\n")
    progs.append(("alias", "conftest.py", alias, {"fixed-alias-assignments"}))
    for i in range(n):
        src = proggen.gen_program(r.rng)
        text = src.text(crlf=(r.rng.random() < 0.05))
        path = r.rng.choice(["test_gen.py", "conftest.py", "pkg/test_gen.py", "pkg/plain_module.py"])
        progs.append(("p%d" % i, path, text, src.features))
    # real files of the repository
    real = sorted(glob.glob(os.path.join(core.REPO, "tests", "**", "*.py"), recursive=True))
    for j, fp in enumerate(real):
        try:
            t = open(fp, encoding="utf-8").read()
        except Exception:
            continue
        progs.append(("real%d" % j, "real/" + os.path.basename(fp), t, {"real-file"}))
    for (name, path, text, feats) in progs:
        cases.case(name, {"features": sorted(feats)})
        cases.text("t0", text)
        cases.raw("disk %s t0" % path)
        cases.op("analyze", path, "t0")
        cases.q("defs", path); cases.q("usages", path); cases.q("dump")
        if ("yield:plain" in feats or any(f.startswith("yield") for f in feats)):
            r.nontrivial.add(tuple(sorted(feats)))
        for f in feats:
            r.stats.setdefault("features", {}); r.stats["features"][f] = r.stats["features"].get(f, 0) + 1
    r.samples = [{"case": p[0], "path": p[1], "text": p[2]} for p in progs[:2]]
    ia, ma, sp = r.run_cases(cases)
    r.evaluations = len(ia)
    bad = r.correspond(cases, ia, ma)
    ncmp = 0
    divergent = 0
    for (name, path, text, feats) in progs:
        kd, ku = (name, 2), (name, 3)
        if ia.get((name, 1), "").startswith("PANIC"):
            e = next((x for x in r.known if x["id"] == "C03-E7-docstring-panic"), None)
            if e and core.agree(ia.get((name, 1)), ma.get((name, 1), "")):
                r.verdict.known(e["id"], e["summary"])
            else:
                r.verdict.violation(name, f"analysis of {path} panics: {ia.get((name, 1))}", cases.replay_text(name))
            continue
        try:
            impl_defs = [parse_def(x) for x in parse_list(ia.get(kd, "[]"))]
        except Exception:
            continue
        impl_usages = parse_list(ia.get(ku, "[]"))
        same = not any(k[0] == name for k in bad)
        ncmp += compare(r, name, path, text, impl_defs, impl_usages, same, cases, feats)
    r.stats["records_compared_with_cpython_oracle"] = ncmp
    r.stats["real_files"] = len(real)
    return r.finish(RULE)


def replay(path):
    return generic_replay(PROP, MODULE, THEOREMS, path)
