"""C20 — CLI reports agree with the language server and are reproducible."""
import json, os, re, shutil, subprocess
from .. import core, wsgen
from .common import Run, all_flags, corpus_cases, generic_replay, parse_list

PROP = "C20"
MODULE = "PLS.Props.C20"
THEOREMS = ["PLS.C20_unused_iff", "PLS.C20_unused_iff_no_refs", "PLS.C20_exit", "PLS.C20_filters_partition",
            "PLS.C20_counts", "PLS.C20_sorted_is_perm"]
RULE = ("generated workspaces (shadowing, overrides, imported, autouse fixtures) are written to disk; the built binary "
        "is run as `fixtures unused` (text and JSON), `fixtures list` (plain, --skip-unused, --only-unused) with "
        "RAYON_NUM_THREADS in {1,4,16}; outputs are parsed and compared entry-wise with each other, with the exit "
        "status, byte-wise across repeated runs, and with the library driven in-process on the same tree (unused "
        "list; reference counts per definition). Non-trivial = at least one unused and one used fixture; distinct by "
        "workspace signature")

GLYPHS = "│├└─ "


def materialize(ws, root):
    shutil.rmtree(root, ignore_errors=True)
    for p, pf in ws.files.items():
        if ("site-packages" in p or p.startswith("plug/")) and not ws.meta.get("keep_venv"):
            continue
        full = os.path.join(root, p)
        os.makedirs(os.path.dirname(full), exist_ok=True)
        with open(full, "w", encoding="utf-8") as f:
            f.write(pf.text())


def run_cli(args, env_extra=None):
    env = dict(os.environ, NO_COLOR="1", RUST_BACKTRACE="0")
    env.pop("VIRTUAL_ENV", None)
    if env_extra:
        env.update(env_extra)
    p = subprocess.run([core.SERVER_BIN] + args, stdout=subprocess.PIPE, stderr=subprocess.PIPE, env=env, timeout=120)
    return p.returncode, p.stdout.decode("utf-8", "replace"), p.stderr.decode("utf-8", "replace")


def parse_unused_text(out):
    entries = []
    for line in out.splitlines():
        m = re.match(r"^\s+\S\s+(\S+) in (.+)$", line)
        if m:
            entries.append((m.group(2).strip(), m.group(1)))
    return entries


def parse_list(out):
    """-> {(relpath, fixture): label}"""
    res = {}
    stack = []
    for line in out.splitlines():
        if not line.strip() or line.startswith("Fixtures tree for") or line.startswith("No fixtures"):
            continue
        i = 0
        while i < len(line) and line[i] in GLYPHS:
            i += 1
        depth = i // 4
        body = line[i:]
        stack = stack[:depth]
        m = re.match(r"^(.*) \((\d+) fixtures\)$", body)
        if body.endswith("/") or body.endswith("/ (editable install)"):
            stack.append(body.split("/")[0])
        elif m:
            stack.append(m.group(1))
        else:
            m2 = re.match(r"^(\S+) \((.*)\)$", body)
            if m2:
                res[("/".join(stack), m2.group(1))] = m2.group(2)
    return res


def label_count(label):
    if label.startswith("unused") or label == "autouse=True":
        return 0
    m = re.match(r"used (\d+) time", label)
    return int(m.group(1)) if m else -1


def fixed_workspaces():
    """fixed trees that run before the generated ones: a plain request of a name and an override of that name that
    requests itself, in ONE file, in both orders - the override's parameter counts for the definition it overrides,
    whatever was resolved for the plain request before (seeds C20-a / -c / -e: a per-(file, name) shortcut)"""
    from ..pybuild import PyFile
    out = []
    for above in (True, False):
        ws = wsgen.WS()
        c0 = PyFile(); c0.fixture("base"); c0.fixture("other"); ws.add("conftest.py", c0)
        c1 = PyFile()
        if above:
            c1.fixture("derived", params=("base",))
        c1.fixture("base", params=("base",))
        if not above:
            c1.fixture("derived", params=("base",))
        ws.add("sub/conftest.py", c1)
        t = PyFile(); t.test("test_s", params=("derived",)); t.test("test_b", params=("base", "other")); ws.add("sub/test_s.py", t)
        ws.order = list(ws.files)
        ws.meta = {"fixed": "plain request %s the self-requesting override" % ("above" if above else "below")}
        out.append(ws)
    # a virtualenv inside the workspace with an installed plugin whose fixture requests a name the PROJECT defines
    # (pytest-flask's client(app)): that request is a usage like any other - it counts for the project's definition,
    # once alone and once next to a project test requesting the same name (seed C20-j)
    sp = ".venv/lib/python3.12/site-packages"
    for also_project in (False, True):
        ws = wsgen.WS()
        c0 = PyFile(); c0.fixture("app"); c0.fixture("spare"); c0.fixture("plain"); ws.add("conftest.py", c0)
        t = PyFile(); t.test("test_c", params=("client", "plain") + (("app",) if also_project else ())); ws.add("test_c.py", t)
        pl = PyFile(); pl.fixture("client", params=("app",)); pl.fixture("lonely"); ws.add(sp + "/tp/plugin.py", pl)
        ws.add(sp + "/tp/__init__.py", Raw(""))
        ws.add(sp + "/tp-0.1.dist-info/entry_points.txt", Raw("[pytest11]\ntp = tp.plugin\n"))
        ws.order = list(ws.files)
        ws.meta = {"fixed": "installed plugin fixture requests a project fixture" + (" that a test requests too" if also_project else ""),
                   "keep_venv": True}
        out.append(ws)
    # a fixture defined exactly ONCE and requested only from a file that cannot see it (another package): the request
    # resolves to nothing, the definition is unused (seed C20-m: a single-definition shortcut that skips resolution)
    ws = wsgen.WS()
    ca = PyFile(); ca.fixture("only_a"); ca.fixture("seen_a"); ws.add("pkg_a/conftest.py", ca)
    ta = PyFile(); ta.test("test_a", params=("seen_a",)); ws.add("pkg_a/test_a.py", ta)
    tb = PyFile(); tb.test("test_b", params=("only_a", "seen_a")); ws.add("pkg_b/test_b.py", tb)
    ws.order = list(ws.files)
    ws.meta = {"fixed": "single definition requested only from out of scope"}
    out.append(ws)
    return out


class Raw:
    """a file given by its text (package markers, dist-info metadata)"""
    def __init__(self, t):
        self._t = t
        self.defs = []

    def text(self):
        return self._t


def run(tier, seed):
    r = Run(PROP, MODULE, THEOREMS, tier, seed, need_server=True)
    if not r.prepare():
        return r.finish(RULE)
    n = 40 if tier == "quick" else 400
    base = "/dev/shm/plsv-cli-%d" % os.getpid()
    cases = core.Cases(); r.last_cases = cases
    v = r.verdict
    trees = []
    fixed = fixed_workspaces()
    for i in range(n):
        ws = fixed[i] if i < len(fixed) else wsgen.gen_workspace(r.rng)
        # keep only what the workspace scan can see (the venv / plugin mechanics are C14's)
        if not ws.meta.get("keep_venv"):
            ws.files = {p: pf for p, pf in ws.files.items() if "site-packages" not in p and not p.startswith("plug/")}
        ws.plugin = []
        ws.order = [p for p in ws.order if p in ws.files]
        name = "w%d" % i
        root = os.path.join(base, name, "ws")
        materialize(ws, root)
        trees.append((name, ws, root))
        cases.case(name, ws.meta)
        tids = {}
        for j, (p, pf) in enumerate(ws.files.items()):
            tids[p] = "t%d" % j
            if p.endswith(".py"):
                cases.text(tids[p], pf.text())
            else:
                cases.text(tids[p], pf.text(), with_ast=False)
            cases.raw("disk %s %s" % (p, tids[p]))
        cases.op("scan")
        cases.q("unused")
        for p, pf in ws.files.items():
            cases.q("defs", p)
            for (nm, ln) in pf.defs:
                cases.q("refs", p, ln, nm)
        if i < 2:
            r.samples.append({"case": name, "files": sorted(ws.files), "meta": {k: str(x) for k, x in ws.meta.items()}})
    ia, ma, sp = r.run_cases(cases)
    r.evaluations = len(ia)
    # the scan's schedule reaches the model as the observed per-name order (hint scanorder)
    r.correspond(cases, ia, ma)
    ncli = 0
    for (name, ws, root) in trees:
        keys = [k for k in cases.queries if k[0] == name]
        uk = [k for k in keys if cases.queries[k][1] == "unused"][0]
        lib_unused = [tuple(x.rsplit(":", 1)) for x in parse_list_str(ia.get(uk, "[]"))]
        # reference counts per (file, name) from the library
        counts, autouse, allkeys = {}, {}, set()
        for k in keys:
            q = cases.queries[k]
            if q[1] == "defs":
                for rec in parse_list_str(ia.get(k, "[]")):
                    f = rec.split("|")
                    allkeys.add((f[1], f[0])); autouse[(f[1], f[0])] = autouse.get((f[1], f[0]), False) or f[7] == "1"
            if q[1] == "refs" and ia.get(k) not in (None, "nodef"):
                key = (q[2], q[4])
                counts.setdefault(key, [])
        def fail(msg, extra="", order_sensitive=True):
            # every comparison below is between separate processes (separate scan schedules): where
            # the model says the answer follows registration order, that is the recorded finding
            fl = all_flags(sp.get(uk, ""))
            hit = [r.known_by_hyp[h] for h in sorted(fl) if h in r.known_by_hyp]
            if order_sensitive and hit and not r.corr_bad:
                v.known(hit[0]["id"], hit[0]["summary"]); return
            # a recorded finding's symptom while implementation and model disagree somewhere: report
            # the disagreement first (weak = only if nothing more specific is found)
            v.violation(f"{name}", f"case {name}: {msg}", f"# {msg}\n# tree: {sorted(ws.files)}\n{extra}" + cases.replay_text(name),
                        weak=bool(order_sensitive and hit))
        outs = {}
        for threads in ("1", "4", "16"):
            rc_t, out_t, err_t = run_cli(["fixtures", "unused", root], {"RAYON_NUM_THREADS": threads})
            rc_j, out_j, err_j = run_cli(["fixtures", "unused", root, "--format", "json"], {"RAYON_NUM_THREADS": threads})
            rc_l, out_l, _ = run_cli(["fixtures", "list", root], {"RAYON_NUM_THREADS": threads})
            ncli += 3
            outs[threads] = (rc_t, out_t, rc_j, out_j, rc_l, out_l)
        first = outs["1"]
        flags = all_flags(sp.get(uk, ""))
        for threads, o in outs.items():
            if o != first:
                hit = [r.known_by_hyp[h] for h in sorted(flags) if h in r.known_by_hyp]
                if hit:
                    v.known(hit[0]["id"], hit[0]["summary"]); continue
                fail(f"output differs between RAYON_NUM_THREADS=1 and {threads}", f"# --1--\n# " + "\n# ".join(first[1].splitlines()) + f"\n# --{threads}--\n# " + "\n# ".join(o[1].splitlines()) + "\n")
        rc_t, out_t, rc_j, out_j, rc_l, out_l = first
        text_entries = parse_unused_text(out_t)
        try:
            js = json.loads(out_j)
            json_entries = [(e["file"], e["fixture"]) for e in js]
        except Exception as e:
            fail(f"JSON output of `fixtures unused` is not valid JSON: {e}: {out_j[:200]!r}", order_sensitive=False)
            continue
        if sorted(text_entries) != sorted(json_entries):
            fail(f"text and JSON outputs list different entries: {text_entries} vs {json_entries}")
        want_rc = 1 if json_entries else 0
        if rc_t != want_rc or rc_j != want_rc:
            fail(f"exit status {rc_t}/{rc_j} but {len(json_entries)} unused fixtures listed")
        if sorted(json_entries) != sorted(lib_unused):
            hit = [r.known_by_hyp[h] for h in sorted(flags) if h in r.known_by_hyp]
            if hit:
                v.known(hit[0]["id"], hit[0]["summary"])
            else:
                fail(f"CLI lists {sorted(json_entries)} but the library (same tree, in-process) reports {sorted(lib_unused)}")
        if json_entries and any(c for c in []):
            pass
        # `fixtures list` and its filters
        full = parse_list(out_l)
        _, out_s, _ = run_cli(["fixtures", "list", root, "--skip-unused"], {"RAYON_NUM_THREADS": "1"})
        _, out_o, _ = run_cli(["fixtures", "list", root, "--only-unused"], {"RAYON_NUM_THREADS": "1"})
        ncli += 2
        ks, ko = set(parse_list(out_s)), set(parse_list(out_o))
        if ks & ko or (ks | ko) != set(full):
            fail(f"--skip-unused and --only-unused do not partition the fixtures: both={sorted(ks & ko)} missing={sorted(set(full) - ks - ko)}")
        if full and json_entries:
            r.nontrivial.add((tuple(sorted(full.items())),))
        # (`fixtures unused` is about PROJECT fixtures: an installed plugin's fixture nobody requests is printed as unused
        # by `fixtures list` and rightly absent from `fixtures unused`)
        unused_from_list = sorted(k for k, lab in full.items() if label_count(lab) == 0 and "autouse" not in lab
                                  and "site-packages" not in k[0])
        # keys under which one file defines the name twice share one label / one counter (finding E2)
        from collections import Counter as _C
        dupkeys = {k for k, n_ in _C((p, nm) for (p, pf) in ws.files.items() for (nm, _) in pf.defs).items() if n_ > 1}
        diff_keys = set(unused_from_list) ^ set(json_entries)
        if diff_keys and diff_keys <= dupkeys and "C20-E2-count-per-file-name" in {e["id"] for e in r.known}:
            v.known("C20-E2-count-per-file-name", "counts are kept per (file, name): same-named definitions of one file share a counter")
        elif unused_from_list != sorted(set(json_entries)):
            fail(f"`fixtures list` marks {unused_from_list} unused but `fixtures unused` lists {sorted(set(json_entries))}")
        # counts vs the library's references
        refs_by_key = {}
        for k in keys:
            q = cases.queries[k]
            if q[1] == "refs" and ia.get(k) not in (None, "nodef"):
                refs_by_key.setdefault((q[2], q[4]), set()).update(parse_list_str(ia[k]))
        for key, lab in full.items():
            if key in refs_by_key:
                c = label_count(lab)
                want = len(refs_by_key[key])
                if c != want:
                    hit = [r.known_by_hyp[h] for h in sorted(flags) if h in r.known_by_hyp]
                    dupkey = sum(1 for (p, pf) in ws.files.items() for (nm, _) in pf.defs if (p, nm) == key) > 1
                    if hit or (dupkey and "C20-E2-count-per-file-name" in {e["id"] for e in r.known}):
                        v.known("C20-E2-count-per-file-name" if dupkey else hit[0]["id"],
                                "counts are kept per (file, name): same-named definitions of one file share a counter" if dupkey else hit[0]["summary"])
                        continue
                    fail(f"`fixtures list` prints {lab!r} for {key} but the server reports {want} references {sorted(refs_by_key[key])}")
    ncli += editable_parent_part(r, base)
    shutil.rmtree(base, ignore_errors=True)
    r.stats["cli_invocations"] = ncli
    return r.finish(RULE)


def editable_parent_part(r, base):
    """(fixed tree, CLI only) the scanned directory is a SUB-directory of the project, which is installed editable in its
    own virtualenv (`pip install -e .`, VIRTUAL_ENV set): the project's modules outside the scanned directory hold
    project fixtures - an unrequested one is listed by `fixtures unused` (exit 1), in both formats"""
    v = r.verdict
    proj = os.path.join(base, "edit", "proj")
    sp = os.path.join(proj, ".venv", "lib", "python3.12", "site-packages")
    fx = "import pytest\n\n@pytest.fixture\ndef used_fx():\n    return 1\n\n@pytest.fixture\ndef lonely_fx():\n    return 2\n"
    files = {
        "myproj/__init__.py": "", "myproj/testing/__init__.py": "", "myproj/testing/fixtures.py": fx,
        "tests/conftest.py": "from myproj.testing.fixtures import *\n",
        "tests/test_t.py": "def test_t(used_fx):\n    pass\n",
        ".venv/pyvenv.cfg": "home = /usr/bin\n",
        ".venv/lib/python3.12/site-packages/myproj-0.1.dist-info/direct_url.json": '{"url": "file://%s", "dir_info": {"editable": true}}' % proj,
        ".venv/lib/python3.12/site-packages/myproj-0.1.dist-info/METADATA": "Name: myproj\nVersion: 0.1\n",
        ".venv/lib/python3.12/site-packages/__editable__.myproj-0.1.pth": proj + "\n",
    }
    for p, t in files.items():
        full = os.path.join(proj, p)
        os.makedirs(os.path.dirname(full), exist_ok=True)
        with open(full, "w") as f:
            f.write(t)
    root = os.path.join(proj, "tests")
    env = {"VIRTUAL_ENV": os.path.join(proj, ".venv"), "RAYON_NUM_THREADS": "2"}
    rc_t, out_t, _ = run_cli(["fixtures", "unused", root], env)
    rc_j, out_j, _ = run_cli(["fixtures", "unused", root, "--format", "json"], env)
    rc_l, out_l, _ = run_cli(["fixtures", "list", root], env)
    def fail(msg):
        v.violation("editable-parent", "editable-parent tree: " + msg,
                    "# " + msg + "\n# tree (rebuilt by the check): " + proj + "; scanned: tests/; VIRTUAL_ENV=.venv\n"
                    + "".join("# %s | %s\n" % (p, l) for p, t in files.items() for l in t.split("\n") if l)
                    + "# --- fixtures unused ---\n" + "".join("# | %s\n" % l for l in out_t.split("\n"))
                    + "# --- fixtures list ---\n" + "".join("# | %s\n" % l for l in out_l.split("\n")))
    try:
        names = sorted(e["fixture"] for e in json.loads(out_j))
    except Exception as e:
        fail(f"`fixtures unused --format json` is not valid JSON: {e}"); return 3
    tnames = sorted(n for (_, n) in parse_unused_text(out_t))
    if names != ["lonely_fx"] or tnames != names:
        fail(f"`fixtures unused` lists {tnames} (text) / {names} (JSON); the project fixture nobody requests is lonely_fx "
             f"(myproj/testing/fixtures.py, imported into tests/conftest.py), used_fx is requested by tests/test_t.py")
    elif (rc_t, rc_j) != (1, 1):
        fail(f"exit status {rc_t}/{rc_j} with one unused fixture listed")
    return 3


def parse_list_str(s):
    s = s.strip()
    if s in ("[]", "none", ""):
        return []
    return s.strip("[]").split()


def replay(path):
    return generic_replay(PROP, MODULE, THEOREMS, path)
