"""C13 — discovery covers exactly pytest's files, wherever the workspace lives."""
import fnmatch, os
from .. import core
from ..pybuild import hx
from .common import Run, corpus_cases, generic_replay, all_flags

PROP = "C13"
MODULE = "PLS.Props.C13"
THEOREMS = ["PLS.C13_tables", "PLS.C13_discovered_iff", "PLS.C13_relocation", "PLS.C13_skip_below_root",
            "PLS.C13_phase2_is_fold", "PLS.C13_unreadable_isolated", "PLS.C13_skip_iff", "PLS.C13_name_patterns",
            "PLS.C13_site_packages_relocation"]
RULE = ("generated directory trees (file names on and near the patterns conftest.py / test_*.py / *_test.py, ignored "
        "directory names at every depth, *.egg-info, nested packages, modules pulled in by star imports / "
        "pytest_plugins), exclude-pattern sets from a pool, a subset of files made unreadable (non-UTF-8 bytes, a "
        "directory named like a test file), each materialised at several absolute locations (plain, under build/, env/, "
        "node_modules/, site-packages/, root itself named build / venv). The set of indexed files (root-relative) is "
        "compared with the Lean model, with an independent oracle of the property text, and across locations. "
        "Non-trivial = tree with an ignored directory and an excluded or unreadable file; distinct by tree shape")

SKIP = [".git", ".hg", ".svn", ".venv", "venv", "env", ".env", "__pycache__", ".pytest_cache", ".mypy_cache", ".ruff_cache",
        ".tox", ".nox", "build", "dist", ".eggs", "node_modules", "target", ".idea", ".vscode", ".cache", "vendor", "site-packages"]
DIRS = ["pkg", "tests", "unit", "sub", "deep", "buildx", "my_env", "distx", "x.egg-info", "lib.egg-info"] + SKIP
FILES = ["conftest.py", "test_a.py", "test_.py", "b_test.py", "_test.py", "test_c.txt", "testd.py", "atest.py", "conftest.pyc",
         "test_e.pyi", "helpers.py", "TEST_f.py", "test_g.PY", "xconftest.py", "conftest.py.bak", "__init__.py", "fx_mod.py"]
PATTERNS = ["pkg/*", "*/deep/*", "*_test.py", "tests/unit/*", "**/test_a.py", "sub*", "*.txt", "unit", "[invalid", "test_?.py", "pkg/conftest.py"]
LOCATIONS = [None, ("prefix", "x/build/y"), ("prefix", "home/env"), ("prefix", "w/node_modules/p"), ("prefix", "opt/site-packages/q"),
             ("rootname", "build"), ("rootname", "venv"), ("prefix", "plain/dir"), ("rootname", "my.egg-info"),
             # the root is reached through a symlink (not in canonical form), plain and under an ignored name
             ("linkprefix", "lnk/dir"), ("linkprefix", "build/lnk")]
FX = "import pytest\n\n@pytest.fixture\ndef fx_{0}():\n    return 1\n\n@pytest.fixture\ndef lonely_{0}():\n    return 2\n\ndef test_{0}(fx_{0}):\n    pass\n"


def glob_tokens(pat):
    toks, i = [], 0
    while i < len(pat):
        if pat.startswith("**/", i):
            toks.append("REC"); i += 3
        elif pat[i:] == "**":
            toks.append("REC"); i += 2
        elif pat[i] == "*":
            while i < len(pat) and pat[i] == "*":
                i += 1
            toks.append("SEQ")
        elif pat[i] == "?":
            toks.append("ANY"); i += 1
        else:
            toks.append(pat[i]); i += 1
    return toks


def gmatch(toks, s):
    if not toks:
        return s == ""
    t, ts = toks[0], toks[1:]
    if t == "SEQ":
        return any(gmatch(ts, s[k:]) for k in range(len(s) + 1))
    if t == "REC":
        return any((k == 0 or k == len(s) or s[k - 1] == "/") and gmatch(ts, s[k:]) for k in range(len(s) + 1))
    if not s:
        return False
    if t == "ANY":
        return gmatch(ts, s[1:])
    return t == s[0] and gmatch(ts, s[1:])


def glob_match(pat, s):
    """glob::Pattern::matches with default options on the forms of PATTERNS (no character classes): `*` any run incl.
    '/', `?` one character, `**/` (a whole component) any run of whole components, possibly none"""
    return gmatch(glob_tokens(pat), s)


def is_test_name(n):
    return n == "conftest.py" or (n.startswith("test_") and n.endswith(".py")) or n.endswith("_test.py")


def skip_dir(n):
    return n in SKIP or n.endswith(".egg-info")


NEAR_MISS = ["environments", "envs", "venv311", ".venv-3.12", "env_py310", ".envrc.d", "builds", "distribution", "node_modules_old",
             ".gitlab", "x.egg-infos", "targets", "tests/env_prod", "tests/venv-pypy3"]


def near_miss_tree():
    """(fixed) directories whose names only START like an ignored one (`environments`, `venv311`, `builds` …) are
    ordinary directories: their conftest.py and tests are collected; the ignored names themselves are not entered"""
    files = {"conftest.py": FX.format(0)}
    k = 0
    for d in NEAR_MISS + ["env", "venv", "build", ".env"]:
        k += 1
        files[d + "/conftest.py"] = FX.format("c%d" % k)
        files[d + "/test_x.py"] = FX.format("t%d" % k)
    return files, []


def linked_files_part(r):
    """(fixed tree, CLI only) an entry whose NAME matches a pattern is collected whatever kind of directory entry it is:
    `tests/conftest.py` and `unit/test_linked.py` are symbolic links to files whose own names match nothing
    (`shared/base_fixtures.py`, `checks/linked_checks.py`) - their fixtures are indexed; the same tree at a second
    location gives the same report"""
    import shutil, re
    from .c20 import run_cli
    v = r.verdict
    base = "/dev/shm/plsv-c13l-%d" % os.getpid()
    shutil.rmtree(base, ignore_errors=True)
    outs = []
    for loc in ("one/ws", "elsewhere/build/ws"):
        root = os.path.join(base, loc)
        for d in ("shared", "checks", "tests", "unit"):
            os.makedirs(os.path.join(root, d))
        open(os.path.join(root, "shared", "base_fixtures.py"), "w").write(FX.format("linkedbase"))
        open(os.path.join(root, "checks", "linked_checks.py"), "w").write(FX.format("linkedcheck") + "\ndef test_l(fx_linkedcheck):\n    pass\n")
        open(os.path.join(root, "tests", "test_plain.py"), "w").write("def test_p(fx_linkedbase):\n    pass\n")
        os.symlink(os.path.join("..", "shared", "base_fixtures.py"), os.path.join(root, "tests", "conftest.py"))
        os.symlink(os.path.join("..", "checks", "linked_checks.py"), os.path.join(root, "unit", "test_linked.py"))
        rc, out, err = run_cli(["fixtures", "list", root], {"RAYON_NUM_THREADS": "2"})
        names = set(re.findall(r"fx_linked\w+", out))
        outs.append(out.replace(root, "<root>"))
        if names != {"fx_linkedbase", "fx_linkedcheck"}:
            msg = (f"`fixtures list` on the linked tree at {loc} shows the fixtures {sorted(names)}; tests/conftest.py -> ../shared/base_fixtures.py "
                   f"and unit/test_linked.py -> ../checks/linked_checks.py are entries named like pytest's files: fx_linkedbase and fx_linkedcheck are indexed")
            v.violation("linked-files", msg, "# " + msg + "\n# --- fixtures list ---\n" + "".join("# | %s\n" % l for l in out.split("\n")))
            break
    else:
        if outs[0] != outs[1]:
            msg = "`fixtures list` differs between the two locations of the linked tree"
            v.violation("linked-files-move", msg, "# " + msg + "\n" + "".join("# | %s\n" % l for o in outs for l in o.split("\n")))
    shutil.rmtree(base, ignore_errors=True)
    r.stats["linked_tree_cli_runs"] = len(outs)


def gen_tree(rng, shared_helpers=False):
    files = {}
    ndirs = rng.choice([2, 3, 4, 6])
    dirs = [""]
    for _ in range(ndirs):
        parent = rng.choice(dirs)
        d = (parent + "/" if parent else "") + rng.choice(DIRS)
        if d not in dirs:
            dirs.append(d)
    k = 0
    for d in dirs:
        for _ in range(rng.choice([1, 2, 3])):
            f = rng.choice(FILES)
            p = (d + "/" if d else "") + f
            k += 1
            files[p] = FX.format(k)
    # files that pull a helper module in (conftest.py, test_*.py and *_test.py alike)
    importers = []
    for _ in range(rng.choice([0, 1, 1, 2])):
        d = rng.choice(dirs)
        imp = rng.choice(["conftest.py", "test_imp.py", "imp_test.py"])
        mod = "fx_mod_%d" % len(importers)
        form = rng.choice(["from .%s import *", 'pytest_plugins = ["%s"]', "from %s import *"])
        if rng.random() < 0.4:
            # the same module NAME beside importers in different directories: each importer's `helpers` is its own
            mod = "helpers"
            form = rng.choice(['pytest_plugins = ["%s"]', "from %s import *"])
            if (d + "/" if d else "") + "helpers.py" in files:
                continue
        elif rng.random() < 0.5:
            # a project-local module that carries a standard-library name, pulled in RELATIVELY: it is the local module
            # (placed in a directory the scan enters whenever there is one)
            mod = rng.choice(["http", "logging", "types", "random"])
            form = "from .%s import *"
            entered = [x for x in dirs if not any(skip_dir(c) for c in x.split("/") if c)]
            if entered:
                d = rng.choice(entered)
            if (d + "/" if d else "") + mod + ".py" in files:
                continue
        if any(x[0] == (d + "/" if d else "") + imp for x in importers):
            continue            # one importer per path (a second one would overwrite the first one's text)
        files[(d + "/" if d else "") + imp] = (form % mod) + "\n" + FX.format("i%d" % len(importers))
        files[(d + "/" if d else "") + mod + ".py"] = FX.format("m%d" % len(importers))
        importers.append(((d + "/" if d else "") + imp, (d + "/" if d else "") + mod + ".py"))
    if shared_helpers:
        # two importers in different directories the scan enters, each with its OWN `helpers.py` beside it, both
        # importing the absolute name `helpers` (fixed shape: what a module name means depends on who imports it)
        entered = [x for x in dirs if not any(skip_dir(c) for c in x.split("/") if c)]
        free = [x for x in entered if (x + "/" if x else "") + "helpers.py" not in files
                and not any(imp.startswith((x + "/" if x else "") + "test_sh") for imp, _ in importers)]
        for j, x in enumerate(free[:2]):
            pre = x + "/" if x else ""
            form = ['pytest_plugins = ["%s"]', "from %s import *"][j % 2]
            files[pre + "test_sh%d.py" % j] = (form % "helpers") + "\n" + FX.format("s%d" % j)
            files[pre + "helpers.py"] = FX.format("h%d" % j)
            importers.append((pre + "test_sh%d.py" % j, pre + "helpers.py"))
    return files, importers


def oracle(files, unreadable, patterns, dirs_named_like_tests):
    """root-relative set the property says is indexed (before import closure)"""
    out = set()
    good = [p for p in patterns if p != "[invalid"]
    for p in files:
        comps = p.split("/")
        if any(skip_dir(c) for c in comps[:-1]):
            continue
        if any(glob_match(g, p) for g in good):
            continue
        if not is_test_name(comps[-1]):
            continue
        if p in unreadable:
            continue
        out.add(p)
    return out


def run(tier, seed):
    r = Run(PROP, MODULE, THEOREMS, tier, seed, need_server=True)
    if not r.prepare():
        return r.finish(RULE)
    v = r.verdict
    n = 60 if tier == "quick" else 800
    cases = core.Cases(); r.last_cases = cases
    corpus_cases(cases, PROP)
    groups = []
    for i in range(n):
        rng = r.rng
        files, importers = near_miss_tree() if i == 1 else gen_tree(rng, shared_helpers=(i % 6 == 0))
        unreadable = set(rng.sample(sorted(files), min(len(files), rng.choice([0, 0, 1, 2]))))
        patterns = rng.sample(PATTERNS, rng.choice([0, 0, 1, 2, 3]))
        # patterns that match a DIRECTORY of this tree but not the files below it: exclusion is per file
        # path, so such a pattern excludes nothing
        live = oracle(files, unreadable, patterns, set())
        tree_dirs = sorted({"/".join(p.split("/")[:k]) for p in live for k in range(1, len(p.split("/")))}) or \
            sorted({"/".join(p.split("/")[:k]) for p in files for k in range(1, len(p.split("/")))})
        if tree_dirs and rng.random() < 0.6:
            d = rng.choice(tree_dirs)
            patterns.append(rng.choice([d, "**/" + d.split("/")[-1], d[:-1] + "?"]))
        locs = [None] + rng.sample(LOCATIONS[1:], 3)
        if rng.random() < 0.3:
            # a pattern that names a directory ABOVE the root of one location: patterns are matched against the
            # root-relative path, so it excludes nothing there either
            above = [c for l in locs[1:] for c in l[1].split("/") if l[0] in ("prefix", "linkprefix")]
            if above:
                patterns.append(rng.choice(["**/%s/**", "**/%s/*", "*/%s/**"]) % rng.choice(above))
        names = []
        for j, loc in enumerate(locs):
            name = "t%dl%d" % (i, j)
            cases.case(name, {"loc": loc})
            if loc:
                cases.raw("%s %s" % loc)
            for k, (p, t) in enumerate(sorted(files.items())):
                tid = "f%d" % k
                if p in unreadable:
                    cases._emit("text %s %s" % (tid, "fffe" + hx(t)))
                    cases._emit("ast %s invalid" % tid)
                else:
                    cases.text(tid, t)
                cases.raw("disk %s %s" % (p, tid))
            cases.raw("mkdir zz_dir/test_dirlike.py")
            cases.op("scan", *[hx(g) for g in patterns])
            cases.q("dump")
            cases.q("unused")
            names.append(name)
        groups.append((names, files, unreadable, patterns, locs, importers))
        r.stats["stdlib_named_relative_importers_live"] = r.stats.get("stdlib_named_relative_importers_live", 0) + sum(
            1 for (imp, m) in importers if imp in live and m.rsplit("/", 1)[-1] in ("http.py", "logging.py", "types.py", "random.py"))
        if any(skip_dir(c) for p in files for c in p.split("/")[:-1]) and (unreadable or patterns):
            r.nontrivial.add(tuple(sorted(files)))
        if i < 2:
            r.samples.append({"tree": sorted(files), "unreadable": sorted(unreadable), "exclude": patterns, "locations": [str(l) for l in locs]})
    ia, ma, sp = r.run_cases(cases)
    r.evaluations = len(ia)
    r.correspond(cases, ia, ma)
    def cached(ans):
        if not ans or "cache=[" not in ans:
            return None
        return set(x for x in ans.split("cache=[", 1)[1].split("]", 1)[0].split() if x)
    e_sp = next((x for x in r.known if x["id"] == "C13-third-party-by-substring"), None)
    for (names, files, unreadable, patterns, locs, importers) in groups:
        want = oracle(files, unreadable, patterns, set())
        pulled = {m for (imp, m) in importers if imp in want and m not in unreadable and m in files}
        base = None
        for nm, loc in zip(names, locs):
            dk = [k for k in cases.queries if k[0] == nm and cases.queries[k][1] == "dump"][0]
            got = cached(ia.get(dk))
            if got is None:
                continue
            same = core.agree(ia.get(dk, ""), ma.get(dk, ""))
            # "plus the modules those files pull in"
            if got != want | pulled:
                msg = (f"tree {sorted(files)} at location {loc}, exclude {patterns}, unreadable {sorted(unreadable)}: indexed "
                       f"{sorted(got)}, the property says {sorted(want | pulled)} (discovered {sorted(want)} + pulled in {sorted(pulled)})")
                v.violation(nm, msg, f"# {msg}\n" + cases.replay_text(nm))
            uk = (dk[0], dk[1] + 1)
            both = (ia.get(dk) or "") + " unused=" + (ia.get(uk) or "")
            same = same and core.agree(ia.get(uk, ""), ma.get(uk, ""))
            if base is None:
                base = (both, nm)
            elif both != base[0]:
                # the same tree under another absolute path must give the same root-relative outcome
                if got == cached(base[0]) and e_sp is not None and loc and "site-packages" in loc[1] and same:
                    v.known(e_sp["id"], e_sp["summary"]); continue
                msg = f"the same tree gives a different outcome at location {loc} than at the default location: {both[:300]} vs {base[0][:300]}"
                v.violation(nm + "-reloc", msg, f"# {msg}\n" + cases.replay_text(nm) + cases.replay_text(base[1]))
    linked_files_part(r)
    return r.finish(RULE)


def replay(path):
    return generic_replay(PROP, MODULE, THEOREMS, path)
