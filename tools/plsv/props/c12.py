"""C12 — every operation terminates: no deadlock, no unbounded looping."""
import itertools, os, re, shutil
from .. import core, conc, wsgen, proggen, stdio
from ..pybuild import hx
from .common import Run
from .c09 import gen_version, NAMES, FIX

PROP = "C12"
MODULE = "PLS.Props.C12S"      # imports C12I, C12T and C12
THEOREMS = ["PLS.Locks.C12_no_deadlock", "PLS.Locks.C12_progress", "PLS.Locks.C12_discOK_sound",
            "PLS.Locks.C12_reentrant_write_self_deadlocks", "PLS.Locks.C12_reentrant_write_other_shard_is_not_blocked",
            "PLS.Locks.C12_opposite_orders_deadlock", "PLS.Locks.C12_read_down_plus_write_up_deadlocks",
            "PLS.C12_dfs_terminates", "PLS.C12_dfs_fuel_irrelevant", "PLS.C12_all_roots_complete",
            "PLS.C12_imported_fuel_irrelevant", "PLS.C12_imported_depth_bounded",
            "PLS.C12_import_scan_fuel_irrelevant",
            "PLS.DfsT.step_decreases", "PLS.ImpT.imported_stable", "PLS.ImpT.imported_post", "PLS.ScanT.importScan_stable",
            "PLS.ScanT.resolveModule_exists"]
RULE = ("(A) lock discipline: every (held guards, blocking request) pair recorded by the instrumented dashmap — from single "
        "operations of the library API on generated workspaces (plsvc probes) and from the real server driven over stdio "
        "through every request kind with PLSV_LOCK_TRACE (providers exist only in the binary) — abstracted to map level "
        "(all shards of a map = one class, i.e. the worst key placement), must admit ONE ranking of the maps under which "
        "every nesting is 'strictly higher map' or 'read under read on the same map'; the ranking is computed here and "
        "checked by the Lean driver's `discOK`, the hypothesis of C12_no_deadlock. (B) 2-3 workers mixing notifications, "
        "scan visits, closes and every query kind under the cooperative scheduler with 2 shards per map (keys collide): "
        "random and one-preemption schedules must all complete (the scheduler reports a state in which no worker can be "
        "granted as a deadlock). (C) termination on cyclic structures: import graphs with star-import and pytest_plugins "
        "cycles and self-imports, dependency graphs with self loops and SCCs, directory chains 40-120 levels deep, indexed "
        "by scan and by notifications and queried (available, imported, go-to, resolve, cycles, mismatches, unused) under a "
        "25 s idle watchdog, answers compared with the Lean model (whose recursions are fuel-bounded with the bounds of the "
        "termination theorems). Non-trivial = nesting pair / schedule with >= 2 workers / graph with a cycle")


# ------------------------------------------------------------------ (A) nestings

def sccs(nodes, succ):
    """Tarjan; -> {node: component id}"""
    index, low, comp, stack, on = {}, {}, {}, [], set()
    counter = [0]; ncomp = [0]
    def visit(v):
        work = [(v, iter(sorted(succ[v])))]
        index[v] = low[v] = counter[0]; counter[0] += 1; stack.append(v); on.add(v)
        while work:
            node, it = work[-1]
            adv = False
            for w in it:
                if w not in index:
                    index[w] = low[w] = counter[0]; counter[0] += 1; stack.append(w); on.add(w)
                    work.append((w, iter(sorted(succ[w])))); adv = True; break
                elif w in on:
                    low[node] = min(low[node], index[w])
            if adv:
                continue
            work.pop()
            if work:
                low[work[-1][0]] = min(low[work[-1][0]], low[node])
            if low[node] == index[node]:
                while True:
                    w = stack.pop(); on.discard(w); comp[w] = ncomp[0]
                    if w == node:
                        break
                ncomp[0] += 1
    for v in nodes:
        if v not in index:
            visit(v)
    return comp


def path_within(succ, comp, a, b):
    """a path a -> … -> b staying inside a's component"""
    prev, todo = {a: None}, [a]
    while todo:
        x = todo.pop(0)
        if x == b and prev[x] is not None or (x == b and a == b and len(prev) > 1):
            break
        for y in sorted(succ[x]):
            if comp[y] == comp[a] and y not in prev:
                prev[y] = x; todo.append(y)
            elif y == b and b == a:
                prev["__end__"] = x
    if a == b:
        return [a]
    out, x = [], b
    while x is not None:
        out.append(x); x = prev.get(x)
    return list(reversed(out))


def judge_nestings(r, nestings, label, cases):
    """nestings: {(frozenset((cls, mode)), (cls, mode)): example}.  The discipline of PLS.Locks.Disc:
    read-under-read may go to a map of the same or higher rank, anything else to a strictly higher
    one.  A ranking exists iff no cycle of the nesting graph contains an edge that is not
    read-under-read.  Returns the (case, idx) key of the Lean query and the ranking."""
    v = r.verdict
    classes = sorted({c for (held, want) in nestings for (c, _) in list(held) + [want]})
    cid = {c: i + 1 for i, c in enumerate(classes)}
    succ = {c: set() for c in classes}
    strict = {}
    for (held, want), ex in nestings.items():
        for (c, m) in held:
            succ[c].add(want[0])
            if not (m == "R" and want[1] == "R"):
                strict.setdefault((c, want[0]), (m, want[1], ex))
    comp = sccs(classes, succ)
    bad = False
    for (a, b), (m, wm, ex) in sorted(strict.items()):
        if comp[a] != comp[b]:
            continue
        bad = True
        if a == b:
            msg = (f"{label}: a {'write' if wm == 'W' else 'read'} request on map `{a}` is made while a "
                   f"{'write' if m == 'W' else 'read'} guard on the SAME map is held — {ex}; when both keys land in one shard the "
                   f"thread blocks on itself, whatever the schedule (C12_reentrant_write_self_deadlocks)")
            v.violation(f"nest-{label.split()[0]}-{cid[a]}", msg, f"# {msg}\n# recorded by: {ex}\n")
        else:
            back = path_within(succ, comp, b, a)
            msg = (f"{label}: the maps are locked in incompatible orders — `{a}` ({m}) held while requesting `{b}` ({wm}) [{ex}], and "
                   f"`{b}` held while requesting … `{a}` along {' -> '.join(back)}; no ranking satisfies the discipline, two threads on "
                   f"these paths can deadlock (C12_opposite_orders_deadlock / C12_read_down_plus_write_up_deadlocks)")
            v.violation(f"order-{label.split()[0]}-{cid[a]}-{cid[b]}", msg, f"# {msg}\n")
    # rank of a component: 1 + longest chain of components below it
    comps = sorted(set(comp.values()))
    csucc = {k: set() for k in comps}
    for a in classes:
        for b in succ[a]:
            if comp[a] != comp[b]:
                csucc[comp[a]].add(comp[b])
    crank = {}
    def depth(k, seen=()):
        if k in crank:
            return crank[k]
        preds = [j for j in comps if k in csucc[j]]
        crank[k] = 1 + max([depth(j) for j in preds] or [0])
        return crank[k]
    for k in comps:
        depth(k)
    rank = {c: crank[comp[c]] for c in classes}
    toks = [",".join("%d:%d" % (cid[c], rank[c]) for c in classes) or "0:0", "|"]
    for (held, want) in sorted(nestings, key=str):
        toks.append("+".join("%d%s" % (cid[c], m) for c, m in sorted(held)) + ">%d%s" % (cid[want[0]], want[1]))
    return cases.q("locks", *toks), rank, bad


def probe_ops(files, tid):
    ops = []
    for p, t in files.items():
        ops.append(["analyze", p, tid[p]]); ops.append(["fresh", p, tid[p]])
    for p, t in files.items():
        nl = t.count("\n") + 1
        for l in range(1, nl + 1, 2):
            ops.append(["goto", p, str(l), "12"])
        ops += [["avail", p], ["cyclesin", p], ["mismatch", p], ["imported", p], ["undeclared", p], ["ctx", p, "2", "4"], ["close", p]]
    for n in NAMES:
        ops.append(["refs", n])
        for p in files:
            ops.append(["defat", p, "4", n])
    ops += [["cycles"], ["unused"], ["scan"]]
    return ops


NEST = re.compile(r"^(.*)>(\w+):([RW])(!same-shard)?$")


def library_nestings(r, n):
    scs = []
    for i in range(n):
        sc = conc.Scenario("p%d" % i)
        files = {"conftest.py": gen_version(r.rng, False), "test_a.py": gen_version(r.rng), "sub/conftest.py": "from ..conftest import *\n" + gen_version(r.rng),
                 "sub/test_b.py": gen_version(r.rng)}
        if i % 2:
            files["sub/conftest.py"] = 'pytest_plugins = ["test_a"]\n' + files["sub/conftest.py"]
        tid = {}
        for p, t in files.items():
            tid[p] = sc.text(t); sc.disk.append((p, tid[p]))
        for p in files:
            sc.setup.append(["analyze", p, tid[p]])
        sc.threads = {1: [["cycles"]]}
        for op in probe_ops(files, tid):
            sc.runs.append("probe " + " ".join(op))
        scs.append(sc)
        # the same operations on STALE memo tables: every memo (imported fixtures, available fixtures, cycles) is
        # filled first, then one re-analysis bumps the version — the probed operation finds an entry and recomputes
        st = conc.Scenario("p%ds" % i)
        st.texts, st.disk, st.setup = sc.texts, list(sc.disk), [list(o) for o in sc.setup]
        for p in files:
            st.setup += [["imported", p], ["avail", p], ["cyclesin", p]]
        st.setup += [["cycles"], ["analyze", "test_a.py", tid["test_a.py"]]]
        st.threads = {1: [["cycles"]]}
        for op in probe_ops(files, tid):
            if op[0] in ("imported", "avail", "cyclesin", "cycles", "goto", "mismatch", "unused", "undeclared", "refs"):
                st.runs.append("probe " + " ".join(op))
        scs.append(st)
        # … and with a module ON DISK that nothing has analysed yet (an import added after start-up, or met before
        # the scan reached the module): queries walk the import, whatever they do about the module they find there
        su = conc.Scenario("p%du" % i)
        su.texts, su.disk = dict(sc.texts), list(sc.disk)
        helper = su.text(gen_version(r.rng, False))
        su.disk.append(("sub/helpers.py", helper))
        conf2 = su.text("from .helpers import *\n" + files["sub/conftest.py"])
        su.setup = [list(o) for o in sc.setup] + [["analyze", "sub/conftest.py", conf2]]
        su.threads = {1: [["cycles"]]}
        for op in probe_ops({q: files[q] for q in ("sub/conftest.py", "sub/test_b.py")}, dict(tid, **{"sub/conftest.py": conf2})):
            if op[0] in ("imported", "avail", "cyclesin", "goto", "mismatch", "undeclared", "ctx", "defat"):
                su.runs.append("probe " + " ".join(op))
        su.runs += ["probe refs " + n for n in NAMES] + ["probe cycles", "probe unused"]
        scs.append(su)
    res, rc, dt = conc.run_scenarios(scs, tag="c12p")
    if rc != 0:
        r.broken.append("concurrency harness exited with status %s while probing single operations" % rc)
    nestings = {}
    nprobe = 0
    for sc in scs:
        for (dr, d) in res.get(sc.name, []):
            nprobe += 1
            if d.get("status") != "ok":
                msg = (f"operation `{dr}` alone on one thread (scenario {sc.name}, 2 shards per map): {d.get('status')} — the thread waits for a "
                       f"guard it holds itself; with other key placements the same code runs through (C12_reentrant_write_self_deadlocks)")
                r.verdict.violation(f"probe-{sc.name}-{nprobe}", msg, f"# {msg}\n" + sc.replay_text("probe " + dr))
            for tok in d.get("nest", []):
                m = NEST.match(tok)
                if not m:
                    continue
                held = frozenset(tuple(h.split(":")) for h in m.group(1).split("+"))
                nestings.setdefault((held, (m.group(2), m.group(3))), f"`{dr}` (scenario {sc.name})" + (" — observed on ONE shard" if m.group(4) else ""))
    r.stats["library_operations_probed"] = nprobe
    return nestings, dt


SRV = re.compile(r"^NEST tid=(\d+) want=(\S+) same_shard=(\w+) holds=(\S+)$")


def server_nestings(r, n, binary):
    """drive the instrumented server through every request kind; -> nestings from PLSV_LOCK_TRACE"""
    base = "/dev/shm/plsv-c12-%d" % os.getpid()
    os.makedirs(base, exist_ok=True)
    trace = os.path.join(base, "locks.trace")
    nreq = 0
    for i in range(n):
        ws = wsgen.gen_workspace(r.rng)
        ws.files = {p: pf for p, pf in ws.files.items() if "site-packages" not in p and not p.startswith("plug/")}
        files = {p: pf.text() for p, pf in ws.files.items()}
        files["zz/test_prog.py"] = proggen.gen_program(r.rng).text()
        sc = stdio.StdioCase("t%d" % i, files, scan_first=(i % 2 == 0))
        for p in files:
            sc.open(p)
        for p, t in files.items():
            nl = t.count("\n") + 1
            sc.req("symbols", p); sc.req("lens", p); sc.req("hints", p, 0, nl)
            for l in range(0, nl, 2):
                for kind in ("definition", "impl", "hover", "references", "prepare", "completion"):
                    sc.req(kind, p, l, 10)
                sc.req("action", p, l, 4)
            sc.change(p, t + "\n")
        for name in ("foo", "bar"):
            for p in list(files)[:3]:
                sc.req("incoming", p, name); sc.req("outgoing", p, name)
        sc.req("wsym", "-")
        for p in list(files)[:2]:
            sc.close(p)
        nreq += len(sc.steps)
        ans = stdio.play(sc, base, binary=binary, env={"PLSV_LOCK_TRACE": trace, "PLSV_SHARDS": "2"})
        if any(a in ("DIED", "HUNG") or a.startswith("DIED-AT-START") for a in ans):
            msg = f"instrumented server session {i}: the server died or stopped answering ({sc.meta})"
            r.verdict.violation(f"server-{i}", msg, f"# {msg}\n")
    nestings = {}
    if os.path.exists(trace):
        for line in open(trace):
            m = SRV.match(line.strip())
            if not m:
                continue
            def cm(x):
                parts = x.rsplit(":", 1)
                return (short(parts[0]), parts[1])
            want = cm(m.group(2))
            held = frozenset(cm(h) for h in m.group(4).split(","))
            nestings.setdefault((held, want), f"server thread, request on {want[0]} holding {sorted(h[0] for h in held)}"
                                + (" — observed on ONE shard" if m.group(3) == "true" else ""))
    shutil.rmtree(base, ignore_errors=True)
    r.stats["stdio_steps_on_instrumented_server"] = nreq
    return nestings


def short(cls):
    """`7:std::path::PathBuf:alloc::vec::Vec<…>` -> `map7<PathBuf,Vec<…>>` (readable, still unique by sequence number)"""
    seq, rest = cls.split(":", 1)
    rest = re.sub(r"\b(?:\w+::)+", "", rest)
    return "map%s<%s>" % (seq, rest[:60])


# ------------------------------------------------------------------ (B) interleavings of notifications and requests

def mixed_scenario(rng, i):
    sc = conc.Scenario("m%d" % i)
    files = {"conftest.py": gen_version(rng, False), "test_a.py": gen_version(rng), "test_b.py": gen_version(rng)}
    if i % 3 == 0:
        files["conftest.py"] = "from test_a import *\n" + files["conftest.py"]
    tid = {}
    for p, t in files.items():
        tid[p] = sc.text(t); sc.disk.append((p, tid[p])); sc.setup.append(["analyze", p, tid[p]])
    def notification():
        p = rng.choice(list(files))
        return [rng.choice(["analyze", "analyze", "fresh"]), p, sc.text(gen_version(rng))]
    def query():
        p = rng.choice(list(files))
        return rng.choice([["goto", p, str(rng.randrange(1, 12)), "12"], ["avail", p], ["cycles"], ["cyclesin", p], ["mismatch", p],
                           ["unused"], ["refs", rng.choice(NAMES)], ["defat", p, "4", rng.choice(NAMES)], ["imported", p],
                           ["ctx", p, "3", "4"], ["close", p], ["undeclared", p]])
    nt = rng.choice([2, 2, 3])
    for t in range(1, nt + 1):
        ops = []
        for _ in range(rng.choice([1, 2, 3])):
            ops.append(notification() if (t == 1 or rng.random() < 0.4) else query())
        sc.threads[t] = ops
    for _ in range(25):
        sc.runs.append("run rand %d %d" % (rng.randrange(1 << 30), rng.choice([200, 500, 900])))
    return sc


# ------------------------------------------------------------------ (C) cyclic structures

def cyclic_imports(rng):
    k = rng.choice([1, 2, 3, 4])
    mods = ["plug%d" % i for i in range(k)]
    files = {}
    for i, m in enumerate(mods):
        L = [FIX % ("f%d" % i)]
        for _ in range(rng.choice([1, 1, 2])):
            t = rng.choice(mods)          # may be m itself: a self import
            form = rng.choice(["star", "plugins", "plugins", "relstar"])
            if form == "star":
                L.append("from %s import *\n" % t)
            elif form == "relstar":
                L.append("from .%s import *\n" % t)
            else:
                L.append('pytest_plugins = ["%s"]\n' % t)
        files[m + ".py"] = "".join(L)
    # close at least one cycle explicitly
    a, b = mods[0], mods[-1]
    files[a + ".py"] += rng.choice(['pytest_plugins = ["%s"]\n', "from %s import *\n"]) % b
    files[b + ".py"] += rng.choice(['pytest_plugins = ["%s"]\n', "from %s import *\n"]) % a
    files["conftest.py"] = rng.choice(['pytest_plugins = ["%s"]\n', "from %s import *\n", 'pytest_plugins = ["%s", "conftest"]\n']) % rng.choice(mods)
    files["test_x.py"] = "def test_x(%s):\n    pass\n" % ", ".join("f%d" % i for i in range(k))
    return files


def cyclic_plugin(rng):
    """an installed pytest11 plugin whose modules import each other in a circle (or name themselves in
    pytest_plugins): the scan passes plugin status along those edges - and still has to stop"""
    sp = "venv/lib/python3.12/site-packages"
    k = rng.choice([1, 2, 3])
    mods = ["plug%d" % i for i in range(k)]
    files = {sp + "/cycplug/__init__.py": ""}
    for i, m in enumerate(mods):
        nxt = mods[(i + 1) % k]
        L = [FIX % ("f%d" % i)]
        L.append(rng.choice(["from .%s import *\n" % nxt, 'pytest_plugins = ["cycplug.%s"]\n' % nxt, "from cycplug.%s import *\n" % nxt]))
        if rng.random() < 0.4:
            L.append('pytest_plugins = ["cycplug.%s"]\n' % m)       # names itself
        files[sp + "/cycplug/%s.py" % m] = "".join(L)
    files[sp + "/cycplug-1.0.dist-info/entry_points.txt"] = "[pytest11]\ncycplug = cycplug.plug0\n"
    files["test_x.py"] = "def test_x(%s):\n    pass\n" % ", ".join("f%d" % i for i in range(k))
    return files


def cyclic_deps(rng):
    names = ["f%d" % i for i in range(rng.choice([1, 2, 3, 5]))]
    L = ["import pytest", ""]
    for n in names:
        deps = [m for m in names if rng.random() < (0.5 if m != n else 0.35)]
        L += ["@pytest.fixture", "def %s(%s):" % (n, ", ".join(deps)), "    return 1", ""]
    L += ["def test_d(%s):" % ", ".join(names), "    pass", ""]
    sub = ["import pytest", ""]
    for n in names[:2]:
        sub += ["@pytest.fixture", "def %s(%s):" % (n, ", ".join([n] + [m for m in names if rng.random() < 0.4 and m != n])), "    return 2", ""]
    return {"conftest.py": "\n".join(L) + "\n", "a/conftest.py": "\n".join(sub) + "\n", "a/test_e.py": "def test_e(%s):\n    pass\n" % names[0]}


def deep_chain(rng):
    depth = rng.choice([40, 80, 120])
    d = "/".join("d%d" % (i % 7) for i in range(depth))
    files = {"conftest.py": FIX % "foo", d + "/test_deep.py": "def test_deep(foo, bar):\n    pass\n"}
    mid = "/".join("d%d" % (i % 7) for i in range(depth // 2))
    files[mid + "/conftest.py"] = FIX % "bar" + "\n@pytest.fixture\ndef foo(foo):\n    return 2\n"
    return files


def run(tier, seed):
    r = Run(PROP, MODULE, THEOREMS, tier, seed)
    if not r.prepare():
        return r.finish(RULE)
    v = r.verdict
    ok, log = conc.build()
    if not ok:
        r.broken.append("cargo build of the concurrency harness (instrumented dashmap) failed: " + log[-400:])
        return r.finish(RULE)
    cases = core.Cases(); r.last_cases = cases
    cases.case("locks", {})
    # (A) library level
    lib, dtp = library_nestings(r, 3 if tier == "quick" else 20)
    for key in lib:
        r.nontrivial.add(("lib", key))
    kq_lib, rank_lib, bad_lib = judge_nestings(r, lib, "library API", cases)
    # (A) server level
    srv_bin, slog = conc.build_traced_server()
    kq_srv = None
    if srv_bin is None:
        r.broken.append("cargo build of the server against the instrumented dashmap failed: " + slog[-300:])
        srv = {}
    else:
        srv = server_nestings(r, 3 if tier == "quick" else 16, srv_bin)
        for key in srv:
            r.nontrivial.add(("srv", key))
        kq_srv, rank_srv, bad_srv = judge_nestings(r, srv, "server (providers)", cases)
    r.stats["distinct_nestings_library"] = len(lib)
    r.stats["distinct_nestings_server"] = len(srv)
    r.samples.append({"library_nestings": sorted("%s > %s:%s" % ("+".join(sorted(c + ":" + m for c, m in h)), w[0], w[1]) for (h, w) in lib)[:40],
                      "library_rank": rank_lib})
    r.samples.append({"server_nestings": sorted("%s > %s:%s" % ("+".join(sorted(c + ":" + m for c, m in h)), w[0], w[1]) for (h, w) in srv)[:40]})
    # (B)
    nm = 10 if tier == "quick" else 120
    mixed = [mixed_scenario(r.rng, i) for i in range(nm)]
    res, rc, dtm = conc.run_scenarios(mixed, tag="c12m")
    if rc != 0:
        r.broken.append("concurrency harness exited with status %s during the mixed-workload schedules (abort inside the implementation?)" % rc)
    nmix = 0
    for sc in mixed:
        for (dr, d) in res.get(sc.name, []):
            nmix += 1
            r.nontrivial.add((sc.name, dr))
            if d.get("status") != "ok":
                ops = {t: [" ".join(o[:2]) for o in ops_] for t, ops_ in sc.threads.items()}
                msg = f"workers {ops} under schedule `{dr}`: {d.get('status')} — not every operation completed"
                v.violation(f"{sc.name}-{nmix}", msg, f"# {msg}\n" + sc.replay_text("run " + dr))
    r.stats["mixed_workload_schedules"] = nmix
    r.stats["impl_s"] = round(dtp + dtm, 2)
    # (C)
    nc = 45 if tier == "quick" else 600
    for i in range(nc):
        kind = ["imports", "deps", "deep"][i % 3] if i % 9 != 8 else "deep"
        files = cyclic_imports(r.rng) if kind == "imports" else cyclic_deps(r.rng) if kind == "deps" else deep_chain(r.rng)
        if kind == "deep" and i % 9 != 8 and i > 6:
            kind, files = "imports", cyclic_imports(r.rng)
        if i % 9 == 4:
            kind, files = "plugin-cycle", cyclic_plugin(r.rng)
        name = "c%d" % i
        cases.case(name, {"kind": kind})
        for k, (p, t) in enumerate(sorted(files.items())):
            if p.endswith(".py"):
                cases.text("f%d" % k, t)
            else:
                cases.text("f%d" % k, t, with_ast=False)
            cases.raw("disk %s f%d" % (p, k))
        if i % 2 == 0 or kind == "plugin-cycle":
            cases.op("scan")
        else:
            for k, (p, t) in enumerate(sorted(files.items())):
                cases.op("analyze", p, "f%d" % k)
        files = {p: t for p, t in files.items() if p.endswith(".py")}
        for p in sorted(files):
            cases.q("avail", p); cases.q("imported", p); cases.q("cyclesin", p); cases.q("mismatch", p)
            t = files[p]
            for l, line in enumerate(t.split("\n")):
                if line.startswith("def test_"):
                    for c in range(len("def test_x("), len(line), 4):
                        cases.q("goto", p, l + 1, c)
        cases.q("cycles"); cases.q("unused")
        for p in sorted(files):
            for nme in ("f0", "f1", "foo", "bar"):
                cases.q("resolve", p, nme); cases.q("isimported", p, nme)
        r.nontrivial.add((kind, tuple(sorted(files.items()))))
        r.stats.setdefault("cyclic_cases", {}); r.stats["cyclic_cases"][kind] = r.stats["cyclic_cases"].get(kind, 0) + 1
    # (C') the cache under PRESSURE: more than MAX_FILE_CACHE_SIZE files analysed one after the other - the eviction
    # that the next analysis triggers walks file_cache and removes from it (and from four other maps) in the same call
    cases.case("pressure", {"kind": "eviction under pressure"})
    cases.text("c", FIX % "foo"); cases.raw("disk conftest.py c"); cases.op("analyze", "conftest.py", "c")
    cases.text("tf", "def test_filler(foo):\n    pass\n")
    for i in range(2060):
        fp = "fill/d%02d/test_f%04d.py" % (i % 40, i)
        cases.raw("disk %s tf" % fp)
        cases.op("analyze", fp, "tf")
    cases.op("evictsync", "conftest.py", "fill/d00/test_f0000.py")
    cases.q("avail", "fill/d00/test_f0000.py"); cases.q("resolve", "fill/d01/test_f0001.py", "foo")
    ia, ma, sp = r.run_cases(cases)
    if r.abort_at:
        (k, st) = r.abort_at
        q = cases.queries[k]
        msg = (f"case {k[0]} ({cases.meta[k[0]].get('kind')}): the process died with status {st} while executing `{' '.join(q)}` "
               f"(#{k[1]}) — the operation never completes (unbounded recursion / abort)")
        v.violation(f"{k[0]}-{k[1]}-abort", msg, f"# {msg}\n" + cases.replay_text(k[0]))
    r.evaluations = len(ia) + nmix + r.stats.get("library_operations_probed", 0)
    keys = [k for k in cases.queries if k[0] != "locks"]
    r.correspond(cases, ia, ma, keys=keys)
    for kq, label in ((kq_lib, "library API"), (kq_srv, "server (providers)")):
        if kq is None:
            continue
        a = ma.get(("locks", kq), "MISSING")
        r.corr_checked += 1
        if not a.startswith("ok"):
            if not any(x[0].startswith("nest-") or x[0].startswith("order-") for x in v.violations):
                r.broken.append(f"the Lean checker rejects the recorded nestings of the {label} under the computed ranking: {a[:300]}")
    return r.finish(RULE, extra_cov={"traces_validated_against_impl": r.stats.get('library_operations_probed', 0) + r.stats.get('mixed_workload_schedules', 0)}, assumptions=[
        "which nested acquisitions a code path performs does not depend on the schedule (control flow between map calls is sequential code); the recorded pairs are those of the generated workloads",
        "the three std::sync::Mutex fields (site_packages_paths, editable_install_roots, workspace_root) are not instrumented: by inspection they are taken in one order (installs, then workspace) and no DashMap call is made while one is held with a non-empty iteration",
        "fairness / termination of the code between two lock operations is assumed by C12_progress (it says some thread can always move, not that the scheduler lets it)"])


def replay(path):
    txt = open(path).read()
    if txt.lstrip("# \n").startswith("scenario") or "\nscenario " in txt:
        from .c09 import replay as rp
        return rp(path)
    from .common import generic_replay
    return generic_replay(PROP, MODULE, THEOREMS, path)
