"""C07 — caching, closing documents and cache eviction are invisible."""
from .. import core, histgen
from .common import Run, all_flags, corpus_cases, generic_replay, check_imported

PROP = "C07"
MODULE = "PLS.Props.C07"
THEOREMS = ["PLS.C07_memo_sound", "PLS.C07_memo_read_coherent", "PLS.C07_memo_coherent_step", "PLS.C07_warm_eq_cold",
            "PLS.C07_removal_without_bump_breaks", "PLS.C07_available_hit", "PLS.C07_close_keeps_index",
            "PLS.C07_evict_keeps_index"]
RULE = ("twin execution: the same edit history (generator of C06, biased to deletion-only edits, import-only edits of a "
        "conftest, mutually importing modules) is run WARM (after every step: available fixtures for every file, cycle "
        "detection, imported-fixture lookup for every conftest/module in both orders, resolution; random open+close of "
        "unmodified documents) and COLD (analyses only); the final answer battery of both is compared on the "
        "implementation and with the model. Non-trivial = history with a removal, an import toggle or a close; distinct "
        "by (mutation sequence, closes). Plus eviction cases: the workspace followed by 2060 filler modules (file_cache "
        "exceeds MAX_FILE_CACHE_SIZE, a hash-ordered quarter is evicted — the evicted set is reported by the harness and "
        "given to the model, for which eviction is closeFile on that set) against the same workspace without pressure. "
        "Plus import-graph workspaces asked about (available, imported, resolve) BEFORE the workspace scan, against the scan alone")


def warm_queries(cases, paths, rng):
    ps = list(paths); rng.shuffle(ps)
    for p in ps:
        cases.q("avail", p)
    cases.q("cycles")
    for p in ps:
        if p.endswith(("conftest.py", "fx.py", "mod_a.py", "mod_b.py", "fixtures.py", "__init__.py")):
            cases.q("imported", p)
    for p in ps[:3]:
        cases.q("resolve", p, "foo"); cases.q("resolve", p, "qux")


def final_battery(cases, paths, reverse=False):
    """the same questions in both twins — asked in the opposite file order on the cold one: what is answered from
    a memo must not depend on which file was asked about first"""
    for p in sorted(paths, reverse=reverse):
        cases.q("avail", p)
        for n in ("foo", "bar", "baz", "qux", "quux", "fa", "fb", "fc", "fmod", "fpkg"):
            cases.q("resolve", p, n)
        cases.q("imported", p)
        cases.q("mismatch", p)
    cases.q("cycles"); cases.q("unused")


def run(tier, seed):
    r = Run(PROP, MODULE, THEOREMS, tier, seed)
    if not r.prepare():
        return r.finish(RULE)
    nh = 40 if tier == "quick" else 500
    steps = 7 if tier == "quick" else 14
    cases = core.Cases(); r.last_cases = cases
    corpus_cases(cases, PROP)
    pairs = []
    for h in range(nh):
        rng = r.rng
        docs = histgen.initial_docs(rng)
        # mutually importing modules (E12 shape) in a third of the histories
        if rng.random() < 0.35:
            a = histgen.Doc("a/mod_a.py"); b = histgen.Doc("a/mod_b.py"); c = histgen.Doc("a/mod_c.py")
            a.blocks += [{"k": "raw", "text": "from .mod_b import *"}, {"k": "raw", "text": "from .mod_c import *"}, histgen.fixture_block(rng, "fa")]
            b.blocks += [{"k": "raw", "text": "from .mod_a import *"}, histgen.fixture_block(rng, "fb")]
            c.blocks += [histgen.fixture_block(rng, "fc")]
            for d in (a, b, c):
                docs[d.path] = d
            docs["a/conftest.py"].blocks.insert(0, {"k": "raw", "text": "from .mod_b import *"})
        # a module and a package of the same name side by side (`a/fixtures.py` and `a/fixtures/__init__.py`), star-imported
        # by the conftest: which of the two an import means must not depend on which of them happens to be cached
        if rng.random() < 0.3 and "a/conftest.py" in docs:
            m = histgen.Doc("a/fixtures.py"); pk = histgen.Doc("a/fixtures/__init__.py")
            m.blocks += [histgen.fixture_block(rng, "fmod")]
            pk.blocks += [histgen.fixture_block(rng, "fpkg")]
            docs[m.path] = m; docs[pk.path] = pk
            docs["a/conftest.py"].blocks.insert(0, {"k": "raw", "text": "from .fixtures import *"})
        paths = list(docs.keys())
        order = list(paths); rng.shuffle(order)
        script = []     # ('analyze', p, text) | ('close', p) | ('open', p)
        cur = dict(docs)
        texts0 = {p: docs[p].render()[0] for p in paths}
        # half of the histories index the workspace the way the background scan does (no-cleanup
        # path), with queries arriving while that is still going on
        scanlike = rng.random() < 0.5
        for p in order:
            script.append(("fresh" if scanlike else "analyze", p, texts0[p]))
        kinds = []
        for s in range(steps):
            p = rng.choice(paths)
            unmodified = [q for q in paths if cur[q] is docs[q]]
            if rng.random() < 0.3 and unmodified:
                # open an UNMODIFIED document (buffer = disk) and close it again
                p = rng.choice(unmodified)
                script.append(("openclose", p, texts0[p]))
                kinds.append("openclose:" + p)
                continue
            muts = ["remove_fixture", "toggle_import", "remove_usage"] if rng.random() < 0.5 else None
            nd, kind = histgen.mutate(rng, cur[p])
            if muts and kind not in muts:
                nd, kind = histgen.mutate(rng, cur[p])
            if nd.broken and rng.random() < 0.5:
                nd.broken = False; kind = "resend"
            # (otherwise the document is sent in a state that does not parse - a buffer change without a new
            # definitions version: what is memoised for it must still be judged against its current text)
            cur[p] = nd
            script.append(("analyze", p, nd.render()[0]))
            kinds.append(kind)
        # the last edit of some histories leaves a document that IMPORTS fixtures in a state that does not parse:
        # no analysis follows, so whatever was memoised for it before is now held against a different text
        importing = [q for q in paths if any(b.get("k") == "raw" and "import" in b.get("text", "") for b in cur[q].blocks)]
        if importing and rng.random() < 0.4:
            import copy
            q = rng.choice(importing)
            nd = copy.deepcopy(cur[q]); nd.broken = True
            cur[q] = nd
            script.append(("analyze", q, nd.render()[0]))
            kinds.append("break-importer-last")
        if any(k.startswith("openclose") or k in ("remove_fixture", "toggle_import", "break-importer-last") for k in kinds):
            r.nontrivial.add(tuple(kinds))
        r.stats.setdefault("steps", {})
        for k in kinds:
            kk = k.split(":")[0]
            r.stats["steps"][kk] = r.stats["steps"].get(kk, 0) + 1
        if h < 2:
            r.samples.append({"history": h, "order": order, "steps": kinds})
        starts = {}
        kpre = rng.randrange(1, len(script) + 1)      # a prefix checked cold as well
        wq_start = {}
        for mode in ("warm", "cold", "prefix"):
            name = "h%d%s" % (h, mode[0])
            cases.case(name, {"mode": mode})
            n = [0]
            def declare(text):
                tid = "v%d" % n[0]; n[0] += 1
                cases.text(tid, text); return tid
            for p in paths:
                cases.raw("disk %s %s" % (p, declare(texts0[p])))
            for si, step in enumerate(script if mode != "prefix" else script[:kpre]):
                qrng = __import__("random").Random(h * 7919 + si)
                if step[0] in ("analyze", "fresh"):
                    cases.op(step[0], step[1], declare(step[2]))
                elif step[0] == "openclose":
                    if mode == "warm":
                        cases.op("analyze", step[1], declare(step[2]))
                        cases.op("close", step[1])
                    else:
                        cases.op("analyze", step[1], declare(step[2]))
                if mode == "warm":
                    wq_start[si] = cases.idx + 1
                    warm_queries(cases, paths, qrng)
                    wq_count = cases.idx + 1 - wq_start[si]
            if mode == "prefix":
                # the queries the warm run issued right after step kpre-1, on a cold index
                pstart = cases.idx + 1
                warm_queries(cases, paths, __import__("random").Random(h * 7919 + kpre - 1))
                pairs.append(("h%dw" % h, wq_start[kpre - 1], name, pstart, cases.idx + 1 - pstart, kinds + ["prefix %d" % kpre]))
                continue
            starts[mode] = cases.idx + 1
            final_battery(cases, paths, reverse=(mode == "cold"))
            count = cases.idx + 1 - starts[mode]
        pairs.append(("h%dw" % h, starts["warm"], "h%dc" % h, starts["cold"], count, kinds))
    # pressure-driven eviction: more than MAX_FILE_CACHE_SIZE files are analysed, a quarter of file_cache
    # (an arbitrary, hash-ordered quarter) is dropped; the answers must equal those of an index that never
    # came under pressure
    ne = 2 if tier == "quick" else 6
    evict_cases = []
    for e in range(ne):
        rng = r.rng
        docs = histgen.initial_docs(rng)
        if rng.random() < 0.5:
            docs["a/conftest.py"].blocks.insert(0, {"k": "raw", "text": "from .fx import *"})
        paths = list(docs.keys())
        order = list(paths); rng.shuffle(order)
        texts0 = {p: docs[p].render()[0] for p in paths}
        starts = {}
        for mode in ("evict", "cold"):
            name = "e%d%s" % (e, mode[0])
            cases.case(name, {"mode": mode})
            for j, p in enumerate(paths):
                cases.text("v%d" % j, texts0[p]); cases.raw("disk %s v%d" % (p, j))
            cases.text("tf", "def test_filler():\n    pass\n")
            for p in order:
                cases.op("analyze", p, "v%d" % paths.index(p))
            nfill = 2060 if mode == "evict" else 4
            for i in range(nfill):
                fp = "fill/d%02d/test_f%04d.py" % (i % 40, i)
                cases.raw("disk %s tf" % fp)
                cases.op("analyze", fp, "tf")
            if mode == "evict":
                evict_cases.append((name, cases.op("evictsync", *paths)))
            starts[mode] = cases.idx + 1
            for p in sorted(paths):          # (a lighter battery: every query walks a 2000-file index in the model)
                cases.q("avail", p); cases.q("imported", p)
                for n_ in ("foo", "baz", "qux"):
                    cases.q("resolve", p, n_)
            cases.q("cycles"); cases.q("unused")
            count = cases.idx + 1 - starts[mode]
        pairs.append(("e%de" % e, starts["evict"], "e%dc" % e, starts["cold"], count, ["eviction under pressure (2060 filler files)"]))
    # queries answered BEFORE the workspace scan (a completion request while the server is still starting): they
    # read files from disk; the scan that follows must index the workspace as if nobody had asked
    from . import c14
    nq = 6 if tier == "quick" else 60
    for qn in range(nq):
        rng = r.rng
        files, mods, tests = c14.gen_imports(rng)
        paths = sorted(files)
        starts = {}
        for mode in ("early", "cold"):
            name = "q%d%s" % (qn, mode[0])
            cases.case(name, {"mode": mode})
            for k, p in enumerate(paths):
                cases.text("f%d" % k, files[p]); cases.raw("disk %s f%d" % (p, k))
            if mode == "early":
                qs = list(paths); rng.shuffle(qs)
                for p in qs[:4]:
                    cases.q("avail", p); cases.q("imported", p)
                    cases.q("resolve", p, mods[0]["fixture"] if mods else "foo")
            cases.op("scan")
            starts[mode] = cases.idx + 1
            for p in paths:
                cases.q("avail", p); cases.q("imported", p); cases.q("defs", p)
                for m in mods:
                    cases.q("resolve", p, m["fixture"])
            cases.q("unused")
            count = cases.idx + 1 - starts[mode]
        pairs.append(("q%de" % qn, starts["early"], "q%dc" % qn, starts["cold"], count, ["queries before the workspace scan"]))
    r.stats["query_before_scan_cases"] = nq
    ia, ma, sp = r.run_cases(cases)
    r.evaluations = len(ia)
    r.correspond(cases, ia, ma)
    check_imported(r, cases, ia, ma, sp)
    v = r.verdict
    for (name, idx) in evict_cases:
        a = ia.get((name, idx), "")
        gone = [] if a.endswith("=-") or "evicted=" not in a else a.split("evicted=", 1)[1].split(",")
        r.stats.setdefault("documents_evicted_under_pressure", []).append(len(gone))
        if gone:
            r.nontrivial.add(("evict", name, tuple(gone)))
    ncmp = 0
    for (wn, ws, cn, cs, count, kinds) in pairs:
        # the twins ask the same questions, possibly in another order: pair them by their text
        cold_by_q = {}
        for off in range(count):
            cold_by_q.setdefault(tuple(cases.queries[(cn, cs + off)]), []).append((cn, cs + off))
        for off in range(count):
            kw = (wn, ws + off)
            q = cases.queries[kw]
            lst = cold_by_q.get(tuple(q))
            if not lst:
                continue
            kc = lst.pop(0)
            ncmp += 1
            aw, ac = ia.get(kw), ia.get(kc)
            if q[1] in ("cycles",):
                # the DFS starts from hash-ordered roots: both answers must be among the model's
                # possibilities (that is the correspondence); equality is required only when unique
                if "||" in ma.get(kw, "") or "||" in ma.get(kc, ""):
                    continue
                # which rotation of a cycle is reported, and on which of its fixtures, follows the hash order of the
                # DFS roots of each index instance (C16's root-order finding) - not what is cached: the same cycles
                # (as sets of fixture names) must be reported
                def node_sets(a):
                    return sorted(tuple(sorted(set(x.split("@")[0].split(">")))) for x in (a or "").strip("[]").split() if ">" in x)
                if node_sets(aw) == node_sets(ac):
                    continue
            if aw == ac:
                continue
            flags = all_flags(sp.get(kw, "")) | all_flags(sp.get(kc, ""))
            same = core.agree(aw or "", ma.get(kw, "")) and core.agree(ac or "", ma.get(kc, ""))
            hit = [r.known_by_hyp[x] for x in sorted(flags) if x in r.known_by_hyp]
            if same and hit:
                v.known(hit[0]["id"], hit[0]["summary"]); continue
            msg = (f"history {wn[:-1]} ({kinds}): {' '.join(q)} answers {aw!r} on the long-lived (warm) index but {ac!r} "
                   f"on an identically built cold one (failed hypotheses: {sorted(flags) or 'none'})")
            v.violation(f"{wn}-{ws + off}", msg, f"# {msg}\n# warm query #{ws + off}; cold case {cn} query #{kc[1]}\n"
                        + cases.replay_text(wn) + cases.replay_text(cn))
    r.stats["warm_vs_cold_answers_compared"] = ncmp
    return r.finish(RULE)


def replay(path):
    return generic_replay(PROP, MODULE, THEOREMS, path)
